(* C04/Proofs9.v — order preservation of the extraction, progress of the isolation step for every weight function,
   termination of the repaired split loop for logs / traces / profiles, "an isolated request holds exactly one item". *)
From Verif Require Import Common.Base C04.Model C04.Proofs C04.Proofs2 C04.Proofs6 C04.Proofs8.
From Coq Require Import Permutation.
Local Open Scope Z_scope.

(* ---- the extraction keeps the order: extracted ++ kept = input ---------------------------------------------- *)
Section WalkOrder.
  Context {A X : Type}.
  Variable sz : sizer.
  Variable csize : A -> Z.
  Variable part : option (A -> Z -> A * A * Z).
  Variable keep_ext : A -> bool.
  Variable fl : A -> list X.
  Notation F := (fun l => concat (map fl l)).
  Hypothesis part_order : forall ex, part = Some ex -> forall c cap e rest er,
    ex c cap = (e, rest, er) -> fl e ++ fl rest = fl c /\ (keep_ext e = false -> fl e = []).

  Lemma walk_order : forall l cap rm d k rm',
    walk sz csize part keep_ext l cap rm = (d, k, rm') -> (cap = 0 -> d = []) /\ F d ++ F k = F l.
  Proof.
    induction l as [|c l IH]; intros cap rm d k rm' Hw; cbn [walk] in Hw.
    - inversion Hw; subst. auto.
    - destruct (cap =? 0) eqn:E0.
      + destruct (walk sz csize part keep_ext l cap rm) as [[d0 k0] rm0] eqn:E. inversion Hw; subst.
        destruct (IH _ _ _ _ _ E) as [H0 Ho]. apply Z.eqb_eq in E0. rewrite (H0 E0) in *. split; [auto|].
        cbn [map concat app] in *. now rewrite Ho.
      + apply Z.eqb_neq in E0. split; [intros; contradiction|].
        destruct (delta sz (csize c) >? cap).
        * destruct part as [ex|] eqn:Ep.
          -- destruct (ex c cap) as [[e rest] er] eqn:Ex.
             destruct (part_order ex eq_refl _ _ _ _ _ Ex) as [Hc Hk].
             destruct (walk sz csize (Some ex) keep_ext l 0 _) as [[d0 k0] rm0] eqn:E. inversion Hw; subst.
             destruct (IH _ _ _ _ _ E) as [H0 Ho]. rewrite (H0 eq_refl) in *. cbn [map concat app] in Ho.
             rewrite app_nil_r. cbn [map concat]. rewrite Ho, app_assoc.
             destruct (keep_ext e) eqn:Ek; cbn [map concat]; [rewrite app_nil_r, Hc; reflexivity|].
             rewrite <- Hc, (Hk eq_refl). reflexivity.
          -- destruct (walk sz csize None keep_ext l 0 rm) as [[d0 k0] rm0] eqn:E. inversion Hw; subst.
             destruct (IH _ _ _ _ _ E) as [H0 Ho]. rewrite (H0 eq_refl) in *. cbn [map concat app] in *. now rewrite Ho.
        * destruct (walk sz csize part keep_ext l (cap - delta sz (csize c)) _) as [[d0 k0] rm0] eqn:E. inversion Hw; subst.
          destruct (IH _ _ _ _ _ E) as [_ Ho]. cbn [map concat]. rewrite <- app_assoc, Ho. reflexivity.
  Qed.
End WalkOrder.

Lemma extract_scope_order w sz s cap e rest er : extract_scope w sz s cap = (e, rest, er) ->
  sitems e ++ sitems rest = sitems s /\ (scope_nonempty e = false -> sitems e = []).
Proof.
  unfold extract_scope. destruct (walk sz (item_size w sz) None (fun _ => true) (sitems s) _ 0) as [[d k] rm] eqn:E.
  intros H; inversion H; subst; clear H. cbn [sitems]. split.
  - destruct (walk_order sz (item_size w sz) None (fun _ => true) (fun i : item => [i])
                (fun ex Hex => ltac:(discriminate Hex)) _ _ _ _ _ _ E) as [_ Ho].
    assert (Hid : forall l : list item, concat (map (fun i => [i]) l) = l) by (induction l; cbn; congruence).
    now rewrite !Hid in Ho.
  - unfold scope_nonempty. cbn [sitems]. intros Hn. apply negb_false_iff, Nat.eqb_eq in Hn. destruct d; [reflexivity|discriminate].
Qed.

Lemma extract_res_order w sz r cap e rest er : extract_res w sz r cap = (e, rest, er) ->
  items_of_res e ++ items_of_res rest = items_of_res r /\ (res_nonempty e = false -> items_of_res e = []).
Proof.
  unfold extract_res. destruct (walk sz (scope_size w sz) (Some (extract_scope w sz)) scope_nonempty (rscopes r) _ 0) as [[d k] rm] eqn:E.
  intros H; inversion H; subst; clear H. unfold items_of_res. cbn [rscopes]. split.
  - assert (Hp : forall ex, Some (extract_scope w sz) = Some ex -> forall c cap0 e0 rest0 er0,
              ex c cap0 = (e0, rest0, er0) -> sitems e0 ++ sitems rest0 = sitems c /\ (scope_nonempty e0 = false -> sitems e0 = [])).
    { intros ex Hex; inversion Hex; subst. intros. eapply extract_scope_order; eauto. }
    exact (proj2 (walk_order sz (scope_size w sz) (Some (extract_scope w sz)) scope_nonempty sitems Hp _ _ _ _ _ _ E)).
  - unfold res_nonempty. cbn [rscopes]. intros Hn. apply negb_false_iff, Nat.eqb_eq in Hn. destruct d; [reflexivity|discriminate].
Qed.

Lemma extract_payload_order w sz p cap d k rm : extract_payload w sz p cap = (d, k, rm) ->
  items_of d ++ items_of k = items_of p.
Proof.
  unfold extract_payload. intros E.
  assert (Hp : forall ex, Some (extract_res w sz) = Some ex -> forall c cap0 e0 rest0 er0,
            ex c cap0 = (e0, rest0, er0) -> items_of_res e0 ++ items_of_res rest0 = items_of_res c /\ (res_nonempty e0 = false -> items_of_res e0 = [])).
  { intros ex Hex; inversion Hex; subst. intros. eapply extract_res_order; eauto. }
  exact (proj2 (walk_order sz (res_size w sz) (Some (extract_res w sz)) res_nonempty items_of_res Hp _ _ _ _ _ _ E)).
Qed.

(* ---- progress of an extraction with the ITEMS sizer whose capacity admits the first positive weight -------------- *)
Section WalkFirst.
  Context {A : Type}.
  Variable csize : A -> Z.
  Variable part : option (A -> Z -> A * A * Z).
  Variable keep_ext : A -> bool.
  Variable fw : A -> Z.               (* the first positive weight inside the element, 0 if none *)
  Variable P : A -> Prop.
  Hypothesis size_nn : forall c, P c -> 0 <= csize c.
  Hypothesis fw_le : forall c, P c -> 0 <= fw c /\ fw c <= csize c.
  Hypothesis fw_zero : forall c, P c -> fw c = 0 -> csize c = 0.
  Hypothesis part_P : forall ex, part = Some ex -> forall c cap e rest er, P c -> ex c cap = (e, rest, er) -> P e.
  Hypothesis part_none : part = None -> forall c, P c -> fw c <> 0 -> fw c = csize c.
  Hypothesis part_some : forall ex, part = Some ex -> forall c cap e rest er, P c -> 0 < fw c -> fw c <= cap ->
    ex c cap = (e, rest, er) -> keep_ext e = true /\ fw c <= csize e.

  Fixpoint first_pos (l : list A) : Z :=
    match l with [] => 0 | c :: t => if fw c =? 0 then first_pos t else fw c end.

  Lemma walk_first : forall l cap rm d k rm',
    Forall P l -> walk Items csize part keep_ext l cap rm = (d, k, rm') ->
    Forall P d /\ (0 < first_pos l -> first_pos l <= cap -> first_pos l <= sumZf csize d).
  Proof.
    induction l as [|c l IH]; intros cap rm d k rm' HP Hw; cbn [walk] in Hw.
    - inversion Hw; subst. split; [constructor|]. cbn. lia.
    - inversion HP as [|? ? Pc Pl]; subst. cbn [first_pos delta] in *.
      destruct (cap =? 0) eqn:E0.
      + destruct (walk Items csize part keep_ext l cap rm) as [[d0 k0] rm0] eqn:E. inversion Hw; subst.
        destruct (IH _ _ _ _ _ Pl E) as [Hd _]. split; [exact Hd|]. apply Z.eqb_eq in E0. subst cap. intros H1 H2. lia.
      + apply Z.eqb_neq in E0. destruct (csize c >? cap) eqn:Eg.
        * rewrite Z.gtb_ltb in Eg. apply Z.ltb_lt in Eg.
          destruct part as [ex|] eqn:Ep.
          -- destruct (ex c cap) as [[e rest] er] eqn:Ex.
             destruct (walk Items csize (Some ex) keep_ext l 0 _) as [[d0 k0] rm0] eqn:E. inversion Hw; subst.
             destruct (IH _ _ _ _ _ Pl E) as [Hd _].
             pose proof (part_P ex eq_refl _ _ _ _ _ Pc Ex) as Pe.
             split; [destruct (keep_ext e); cbn [app]; [constructor|]; assumption|].
             intros H1 H2. destruct (fw c =? 0) eqn:Ef.
             ++ apply Z.eqb_eq in Ef. pose proof (fw_zero c Pc Ef). pose proof (size_nn c Pc). lia.
             ++ apply Z.eqb_neq in Ef. destruct (fw_le c Pc) as [F0 F1].
                assert (Hf : 0 < fw c) by lia.
                destruct (part_some ex eq_refl _ _ _ _ _ Pc Hf H2 Ex) as [Hk Hs]. rewrite Hk. cbn [app sumZf].
                assert (0 <= sumZf csize d0) by (apply sumZf_nonneg_l; intros x Hx; apply size_nn; exact (proj1 (Forall_forall _ _) Hd x Hx)).
                lia.
          -- destruct (walk Items csize None keep_ext l 0 rm) as [[d0 k0] rm0] eqn:E. inversion Hw; subst.
             destruct (IH _ _ _ _ _ Pl E) as [Hd _]. split; [exact Hd|].
             intros H1 H2. destruct (fw c =? 0) eqn:Ef.
             ++ apply Z.eqb_eq in Ef. pose proof (fw_zero c Pc Ef). pose proof (size_nn c Pc). lia.
             ++ apply Z.eqb_neq in Ef. pose proof (part_none eq_refl c Pc Ef). lia.
        * rewrite Z.gtb_ltb in Eg. apply Z.ltb_ge in Eg.
          destruct (walk Items csize part keep_ext l (cap - csize c) _) as [[d0 k0] rm0] eqn:E. inversion Hw; subst.
          destruct (IH _ _ _ _ _ Pl E) as [Hd Hf]. split; [constructor; assumption|].
          assert (H0 : 0 <= sumZf csize d0) by (apply sumZf_nonneg_l; intros x Hx; apply size_nn; exact (proj1 (Forall_forall _ _) Hd x Hx)).
          intros H1 H2. cbn [sumZf]. destruct (fw c =? 0) eqn:Ef.
          ++ apply Z.eqb_eq in Ef. pose proof (fw_zero c Pc Ef) as Hz. rewrite Hz in *. rewrite Z.sub_0_r in Hf. specialize (Hf H1 H2). lia.
          ++ destruct (fw_le c Pc). lia.
  Qed.
End WalkFirst.

(* ---- instances: items, scopes, resources, payloads (items sizer, non-negative weights) ----------------------- *)
Definition nn_l (w : item -> Z) (l : list item) : Prop := forall i, In i l -> 0 <= w i.
Definition fwi (w : item -> Z) (i : item) : Z := if 0 <? w i then w i else 0.

Lemma first_weight_pos w l : first_pos (fwi w) l = first_weight w l.
Proof.
  induction l as [|i l IH]; [reflexivity|]. cbn [first_pos first_weight]. rewrite IH. unfold fwi.
  destruct (0 <? w i) eqn:E; [apply Z.ltb_lt in E; destruct (w i =? 0) eqn:E2; [apply Z.eqb_eq in E2; lia|reflexivity]|reflexivity].
Qed.

Lemma first_weight_app w l1 l2 : first_weight w (l1 ++ l2) = if first_weight w l1 =? 0 then first_weight w l2 else first_weight w l1.
Proof.
  induction l1 as [|i l IH]; [reflexivity|]. cbn [app first_weight]. destruct (0 <? w i) eqn:E; [|exact IH].
  apply Z.ltb_lt in E. destruct (w i =? 0) eqn:E2; [apply Z.eqb_eq in E2; lia|reflexivity].
Qed.

Lemma first_weight_concat {A} w (f : A -> list item) l :
  first_weight w (concat (map f l)) = first_pos (fun c => first_weight w (f c)) l.
Proof. induction l as [|c l IH]; [reflexivity|]. cbn [map concat first_pos]. now rewrite first_weight_app, IH. Qed.

Lemma first_weight_bounds w l : nn_l w l -> 0 <= first_weight w l /\ first_weight w l <= sumZf w l /\ (first_weight w l = 0 -> sumZf w l = 0).
Proof.
  induction l as [|i l IH]; intros H; cbn [first_weight sumZf]; [lia|].
  assert (Hl : nn_l w l) by (intros x Hx; apply H; now right). specialize (IH Hl). pose proof (H i (or_introl eq_refl)) as Hi.
  assert (0 <= sumZf w l) by (apply sumZf_nonneg_l; exact Hl).
  destruct IH as [I1 [I2 I3]].
  destruct (0 <? w i) eqn:E.
  - apply Z.ltb_lt in E. repeat split; try lia.
  - apply Z.ltb_ge in E. assert (Hz : w i = 0) by lia. repeat split; try lia. all: intros Hf; specialize (I3 Hf); lia.
Qed.

Lemma scope_size_w w s : scope_size w Items s = sumZf w (sitems s).
Proof. unfold scope_size. cbn [hdr delta item_size]. reflexivity. Qed.
Lemma res_size_w w r : res_size w Items r = sumZf w (items_of_res r).
Proof.
  unfold res_size, items_of_res. cbn [hdr delta]. induction (rscopes r) as [|s l IH]; [reflexivity|].
  cbn [sumZf map concat] in *. rewrite sumZf_app, scope_size_w. lia.
Qed.
Lemma inner_cap_items cap : inner_cap Items cap 0 = cap.
Proof. unfold inner_cap. cbn [delta]. lia. Qed.

Lemma extract_scope_first w s cap e rest er : nn_l w (sitems s) -> extract_scope w Items s cap = (e, rest, er) ->
  nn_l w (sitems e) /\
  (0 < first_weight w (sitems s) -> first_weight w (sitems s) <= cap ->
   scope_nonempty e = true /\ first_weight w (sitems s) <= scope_size w Items e).
Proof.
  intros Hnn H. unfold extract_scope in H.
  replace (inner_cap Items cap (scope_size w Items {| sctx := sctx s; shdr := shdr s; sitems := [] |})) with cap in H
    by (rewrite scope_size_w; cbn [sitems sumZf]; symmetry; apply inner_cap_items).
  destruct (walk Items (item_size w Items) None (fun _ => true) (sitems s) cap 0) as [[d k] rm] eqn:E.
  assert (HP : Forall (fun i => 0 <= w i) (sitems s)) by (apply Forall_forall; exact Hnn).
  assert (A1 : forall c : item, 0 <= w c -> 0 <= item_size w Items c) by (intros c Hc; exact Hc).
  assert (A2 : forall c : item, 0 <= w c -> 0 <= fwi w c /\ fwi w c <= item_size w Items c).
  { intros c Hc. unfold fwi. cbn [item_size]. destruct (0 <? w c) eqn:E1; [apply Z.ltb_lt in E1|]; lia. }
  assert (A3 : forall c : item, 0 <= w c -> fwi w c = 0 -> item_size w Items c = 0).
  { intros c Hc. unfold fwi. cbn [item_size]. destruct (0 <? w c) eqn:E1; [apply Z.ltb_lt in E1; lia|apply Z.ltb_ge in E1; lia]. }
  assert (A4 : forall ex, @None (item -> Z -> item * item * Z) = Some ex -> forall (c : item) (cap0 : Z) (e0 rest0 : item) (er0 : Z), 0 <= w c -> ex c cap0 = (e0, rest0, er0) -> 0 <= w e0)
    by (intros ex Hex; discriminate Hex).
  assert (A5 : @None (item -> Z -> item * item * Z) = None -> forall c : item, 0 <= w c -> fwi w c <> 0 -> fwi w c = item_size w Items c).
  { intros _ c Hc. unfold fwi. cbn [item_size]. destruct (0 <? w c); [reflexivity|congruence]. }
  assert (A6 : forall ex, @None (item -> Z -> item * item * Z) = Some ex -> forall (c : item) (cap0 : Z) (e0 rest0 : item) (er0 : Z), 0 <= w c -> 0 < fwi w c -> fwi w c <= cap0 ->
            ex c cap0 = (e0, rest0, er0) -> (fun _ : item => true) e0 = true /\ fwi w c <= item_size w Items e0)
    by (intros ex Hex; discriminate Hex).
  destruct (walk_first (item_size w Items) None (fun _ => true) (fwi w) (fun i => 0 <= w i) A1 A2 A3 A4 A5 A6 _ _ _ _ _ _ HP E) as [Hd Hf].
  inversion H; subst; clear H. cbn [sitems].
  - split; [intros i Hi; exact (proj1 (Forall_forall _ _) Hd i Hi)|].
    rewrite first_weight_pos in Hf. intros H1 H2. specialize (Hf H1 H2).
    rewrite scope_size_w. cbn [sitems]. change (sumZf (item_size w Items) d) with (sumZf w d) in Hf. split; [|exact Hf].
    unfold scope_nonempty. cbn [sitems]. destruct d; [cbn in Hf; lia|reflexivity].
Qed.

Lemma extract_res_first w r cap e rest er : nn_l w (items_of_res r) -> extract_res w Items r cap = (e, rest, er) ->
  nn_l w (items_of_res e) /\
  (0 < first_weight w (items_of_res r) -> first_weight w (items_of_res r) <= cap ->
   res_nonempty e = true /\ first_weight w (items_of_res r) <= res_size w Items e).
Proof.
  intros Hnn H. unfold extract_res in H.
  replace (inner_cap Items cap (res_size w Items {| rctx := rctx r; rhdr := rhdr r; rscopes := [] |})) with cap in H
    by (rewrite res_size_w; cbn; symmetry; apply inner_cap_items).
  destruct (walk Items (scope_size w Items) (Some (extract_scope w Items)) scope_nonempty (rscopes r) cap 0) as [[d k] rm] eqn:E.
  set (P := fun s : scope => nn_l w (sitems s)).
  assert (HP : Forall P (rscopes r)).
  { apply Forall_forall. intros s Hs i Hi. apply Hnn. unfold items_of_res. apply in_concat. exists (sitems s). split; [apply in_map; exact Hs|exact Hi]. }
  set (fw := fun s : scope => first_weight w (sitems s)).
  assert (A1 : forall c, P c -> 0 <= scope_size w Items c) by (intros c Hc; rewrite scope_size_w; apply sumZf_nonneg_l; exact Hc).
  assert (A2 : forall c, P c -> 0 <= fw c /\ fw c <= scope_size w Items c).
  { intros c Hc. rewrite scope_size_w. destruct (first_weight_bounds w _ Hc) as [A [B _]]. unfold fw. lia. }
  assert (A3 : forall c, P c -> fw c = 0 -> scope_size w Items c = 0).
  { intros c Hc Hz. rewrite scope_size_w. exact (proj2 (proj2 (first_weight_bounds w _ Hc)) Hz). }
  assert (A4 : forall ex, Some (extract_scope w Items) = Some ex -> forall c cap0 e0 rest0 er0, P c -> ex c cap0 = (e0, rest0, er0) -> P e0).
  { intros ex Hex; inversion Hex; subst. intros c cap0 e0 rest0 er0 Hc Hx. exact (proj1 (extract_scope_first _ _ _ _ _ _ Hc Hx)). }
  assert (A5 : Some (extract_scope w Items) = None -> forall c, P c -> fw c <> 0 -> fw c = scope_size w Items c) by (intros Hex; discriminate Hex).
  assert (A6 : forall ex, Some (extract_scope w Items) = Some ex -> forall c cap0 e0 rest0 er0, P c -> 0 < fw c -> fw c <= cap0 ->
            ex c cap0 = (e0, rest0, er0) -> scope_nonempty e0 = true /\ fw c <= scope_size w Items e0).
  { intros ex Hex; inversion Hex; subst. intros c cap0 e0 rest0 er0 Hc H1 H2 Hx. exact (proj2 (extract_scope_first _ _ _ _ _ _ Hc Hx) H1 H2). }
  destruct (walk_first (scope_size w Items) (Some (extract_scope w Items)) scope_nonempty fw P A1 A2 A3 A4 A5 A6 _ _ _ _ _ _ HP E) as [Hd Hf].
  inversion H; subst; clear H. unfold fw in Hf.
  - assert (Hnd : nn_l w (items_of_res {| rctx := rctx r; rhdr := rhdr r; rscopes := d |})).
    { intros i Hi. unfold items_of_res in Hi. cbn [rscopes] in Hi. apply in_concat in Hi. destruct Hi as [l [Hl Hi]].
      apply in_map_iff in Hl. destruct Hl as [s [<- Hs]]. exact (proj1 (Forall_forall _ _) Hd s Hs i Hi). }
    split; [exact Hnd|]. unfold items_of_res at 1 2. rewrite first_weight_concat. intros H1 H2. specialize (Hf H1 H2).
    split; [|unfold res_size, items_of_res; cbn [hdr delta rscopes]; rewrite first_weight_concat; exact Hf].
    unfold res_nonempty. cbn [rscopes]. destruct d; [cbn in Hf; lia|reflexivity].
Qed.

Lemma extract_payload_first w p d k rm : nn_l w (items_of p) -> 0 < first_weight w (items_of p) ->
  extract_payload w Items p (first_weight w (items_of p)) = (d, k, rm) ->
  first_weight w (items_of p) <= sumZf w (items_of d).
Proof.
  intros Hnn Hpos H. unfold extract_payload in H. change (payload_size w Items []) with 0 in H. rewrite Z.sub_0_r in H.
  set (P := fun r : res => nn_l w (items_of_res r)).
  assert (HP : Forall P p).
  { apply Forall_forall. intros r Hr i Hi. apply Hnn. unfold items_of. apply in_concat. exists (items_of_res r). split; [apply in_map; exact Hr|exact Hi]. }
  set (fw := fun r : res => first_weight w (items_of_res r)).
  assert (A1 : forall c, P c -> 0 <= res_size w Items c) by (intros c Hc; rewrite res_size_w; apply sumZf_nonneg_l; exact Hc).
  assert (A2 : forall c, P c -> 0 <= fw c /\ fw c <= res_size w Items c).
  { intros c Hc. rewrite res_size_w. destruct (first_weight_bounds w _ Hc) as [A [B _]]. unfold fw. lia. }
  assert (A3 : forall c, P c -> fw c = 0 -> res_size w Items c = 0).
  { intros c Hc Hz. rewrite res_size_w. exact (proj2 (proj2 (first_weight_bounds w _ Hc)) Hz). }
  assert (A4 : forall ex, Some (extract_res w Items) = Some ex -> forall c cap0 e0 rest0 er0, P c -> ex c cap0 = (e0, rest0, er0) -> P e0).
  { intros ex Hex; inversion Hex; subst. intros c cap0 e0 rest0 er0 Hc Hx. exact (proj1 (extract_res_first _ _ _ _ _ _ Hc Hx)). }
  assert (A5 : Some (extract_res w Items) = None -> forall c, P c -> fw c <> 0 -> fw c = res_size w Items c) by (intros Hex; discriminate Hex).
  assert (A6 : forall ex, Some (extract_res w Items) = Some ex -> forall c cap0 e0 rest0 er0, P c -> 0 < fw c -> fw c <= cap0 ->
            ex c cap0 = (e0, rest0, er0) -> res_nonempty e0 = true /\ fw c <= res_size w Items e0).
  { intros ex Hex; inversion Hex; subst. intros c cap0 e0 rest0 er0 Hc H1 H2 Hx. exact (proj2 (extract_res_first _ _ _ _ _ _ Hc Hx) H1 H2). }
  destruct (walk_first (res_size w Items) (Some (extract_res w Items)) res_nonempty fw P A1 A2 A3 A4 A5 A6 _ _ _ _ _ _ HP H) as [Hd Hf].
  unfold fw in Hf.
  assert (Hfc : first_weight w (items_of p) = first_pos (fun r => first_weight w (items_of_res r)) p) by (unfold items_of; apply first_weight_concat).
  assert (Hs : sumZf (res_size w Items) d = sumZf w (items_of d)).
  { clear. induction d as [|r d IH]; [reflexivity|]. unfold items_of in *. cbn [sumZf map concat]. rewrite sumZf_app, res_size_w, IH. reflexivity. }
  rewrite <- Hs, Hfc. apply Hf; [rewrite <- Hfc; exact Hpos|rewrite <- Hfc; lia].
Qed.

(* ---- the isolation step cuts out exactly one item (every item weighs >= 1) ------------------------------------ *)
Lemma pos_wf_items w p : pos_items w p -> wf_p w Items p.
Proof.
  intros H. unfold wf_p. apply Forall_forall. intros r Hr. unfold wf_r. split; [cbn; lia|]. apply Forall_forall. intros s Hs. unfold wf_s. split; [cbn; lia|].
  apply Forall_forall. intros i Hi.
  assert (Hin : In i (items_of p)).
  { unfold items_of. apply in_concat. exists (items_of_res r). split; [apply in_map; exact Hr|].
    unfold items_of_res. apply in_concat. exists (sitems s). split; [apply in_map; exact Hs|exact Hi]. }
  specialize (H i Hin). unfold wf_i. cbn [item_size delta]. lia.
Qed.

Lemma pos_sub w p k : (forall i, In i (items_of k) -> In i (items_of p)) -> pos_items w p -> pos_items w k.
Proof. intros Hs H i Hi. apply H, Hs, Hi. Qed.

Lemma extract_payload_sub w sz p cap d k rm : extract_payload w sz p cap = (d, k, rm) ->
  (forall i, In i (items_of d) -> In i (items_of p)) /\ (forall i, In i (items_of k) -> In i (items_of p)).
Proof. intros E. pose proof (extract_payload_order _ _ _ _ _ _ _ E) as Ho. split; intros i Hi; rewrite <- Ho; apply in_or_app; auto. Qed.

Lemma sum_pos_len (w : item -> Z) l : (forall i, In i l -> 1 <= w i) -> Z.of_nat (length l) <= sumZf w l.
Proof.
  induction l as [|x l IH]; intros H; cbn [length sumZf]; [lia|].
  specialize (H x (or_introl eq_refl)) as Hx. assert (Z.of_nat (length l) <= sumZf w l) by (apply IH; intros; apply H; now right). lia.
Qed.

Lemma isolate_one w k d1 k1 rm1 : pos_items w k -> first_weight w (items_of k) <> 0 ->
  extract_payload w Items k (first_weight w (items_of k)) = (d1, k1, rm1) ->
  length (items_of d1) = 1%nat /\ (length (items_of k1) < length (items_of k))%nat.
Proof.
  intros Hpos Hn E.
  pose proof (extract_payload_order _ _ _ _ _ _ _ E) as Ho.
  destruct (extract_payload_sub _ _ _ _ _ _ _ E) as [Hd1 _].
  destruct (items_of k) as [|i0 t] eqn:Ek; [cbn in Hn; congruence|].
  assert (Hpos' : forall i, In i (i0 :: t) -> 1 <= w i) by (intros i Hi; apply Hpos; rewrite Ek; exact Hi).
  assert (Hi0 : 1 <= w i0) by (apply Hpos'; now left).
  assert (Hfw : first_weight w (i0 :: t) = w i0).
  { cbn [first_weight]. destruct (0 <? w i0) eqn:E0; [reflexivity|apply Z.ltb_ge in E0; lia]. }
  rewrite Hfw in *.
  assert (Hnn : nn_l w (i0 :: t)) by (intros i Hi; specialize (Hpos' i Hi); lia).
  assert (Hprog : w i0 <= sumZf w (items_of d1)).
  { rewrite <- Ek in Hnn. pose proof (extract_payload_first w k d1 k1 rm1 Hnn) as Hp. rewrite Ek, Hfw in Hp. apply Hp; [lia|exact E]. }
  assert (Hcap : sumZf w (items_of d1) <= w i0).
  { assert (H0 : 0 <= w i0) by lia.
    exact (extract_payload_cap w Items k (w i0) d1 k1 rm1 (pos_wf_items w k Hpos) H0 E). }
  destruct (items_of d1) as [|x t1] eqn:Ed; [cbn in Hprog; lia|].
  cbn [app] in Ho. inversion Ho as [[Hx Ht]]. subst x.
  assert (Ht1 : Z.of_nat (length t1) <= sumZf w t1).
  { apply sum_pos_len. intros i Hi. apply Hpos'. right. rewrite <- Ht. apply in_or_app. now left. }
  cbn [sumZf] in Hcap. destruct t1 as [|y t2]; [|exfalso; cbn [length] in Ht1; rewrite Nat2Z.inj_succ in Ht1; lia]. split; [reflexivity|].
  cbn [app] in Ht. rewrite Ht. cbn [length app]. lia.
Qed.

(* ---- termination of the repaired loop: every weight function (logs, traces, profiles), both sizers ---------------- *)
Lemma split_loop_total : forall fuel w sz max p acc,
  wf_p w sz p -> pos_items w p -> (Z.to_nat (psum w sz p - max) + length (items_of p) < fuel)%nat ->
  exists out, split_loop fuel w sz max p (psum w sz p) acc = Some out.
Proof.
  induction fuel as [|f IH]; intros w sz max p acc Hwf Hpos Hf; [lia|]. cbn [split_loop].
  destruct (psum w sz p >? max) eqn:Eg; [|eauto]. rewrite Z.gtb_ltb in Eg. apply Z.ltb_lt in Eg.
  destruct (extract_payload w sz p max) as [[d k] rm] eqn:E.
  destruct (extract_payload_perm _ _ _ _ _ _ _ _ Hwf E) as [_ Hwk].
  pose proof (extract_payload_exact _ _ _ _ _ _ _ E) as Hk.
  pose proof (extract_payload_removed _ _ _ _ _ _ _ Hwf E) as Hrm.
  pose proof (items_split_length _ _ _ _ _ _ _ _ Hwf E) as Hlen.
  destruct (extract_payload_sub _ _ _ _ _ _ _ E) as [_ Hsub].
  pose proof (pos_sub w p k Hsub Hpos) as Hposk.
  destruct (rm <=? 0) eqn:Eb.
  - apply Z.leb_le in Eb. assert (rm = 0) by lia. subst rm. rewrite Z.sub_0_r in *.
    destruct (first_weight w (items_of k) =? 0) eqn:En; [eauto|]. apply Z.eqb_neq in En.
    destruct (extract_payload w Items k (first_weight w (items_of k))) as [[d1 k1] rm1] eqn:E1.
    pose proof (extract_payload_mono _ _ _ _ _ _ _ _ Hwk E1) as Hm.
    destruct (isolate_one _ _ _ _ _ Hposk En E1) as [_ Hlt].
    destruct (extract_payload_perm _ _ _ _ _ _ _ _ Hwk E1) as [_ Hwk1].
    destruct (extract_payload_sub _ _ _ _ _ _ _ E1) as [_ Hsub1].
    rewrite payload_size_psum. apply IH; [exact Hwk1|exact (pos_sub w k k1 Hsub1 Hposk)|]. lia.
  - apply Z.leb_gt in Eb. rewrite <- Hk. apply IH; [exact Hwk|exact Hposk|]. lia.
Qed.

Lemma merge_split_total_l w sz max a b :
  wf_p w sz (rp a) -> wf_opt w sz b -> pos_items w (rp a) -> (forall r, b = Some r -> pos_items w (rp r)) ->
  memo_ok w sz a -> memo_ok_opt w sz b ->
  exists out, merge_split w sz max a b = Some out.
Proof.
  intros Ha Hb Pa Pb Ma Mb. unfold merge_split. destruct (max =? 0); [eauto|].
  pose proof (merged_memo w sz a b Ma Mb) as Hm.
  assert (Hw : wf_p w sz (rp (merged w sz a b))).
  { destruct b; simpl; [|exact Ha]. unfold wf_p. apply Forall_app. split; assumption. }
  assert (Hp : pos_items w (rp (merged w sz a b))).
  { destruct b as [r|]; simpl; [|exact Pa]. intros i Hi. rewrite items_of_app in Hi. apply in_app_or in Hi.
    destruct Hi as [Hi|Hi]; [apply Pa; exact Hi|apply (Pb r eq_refl); exact Hi]. }
  rewrite (memo_req_size _ _ _ Hm), payload_size_psum. apply split_loop_total; [exact Hw|exact Hp|]. unfold fuel_of. lia.
Qed.

(* ---- the size bound with "exactly one item" for every weight function ------------------------------------------- *)
Lemma split_loop_one : forall fuel w sz max p cached acc out,
  wf_p w sz p -> pos_items w p -> 0 <= max ->
  split_loop fuel w sz max p cached acc = Some out ->
  exists ds last, out = acc ++ ds ++ [last] /\
    Forall (fun q => payload_size w sz (rp q) <= max \/ length (items_of (rp q)) = 1%nat) ds /\
    (rcached last <= max \/ items_of (rp last) = []).
Proof.
  induction fuel as [|f IH]; intros w sz max p cached acc out Hwf Hpos Hmax H; cbn [split_loop] in H.
  - destruct (cached >? max) eqn:Eg; [discriminate|]. rewrite Z.gtb_ltb in Eg. apply Z.ltb_ge in Eg.
    inversion H; subst. exists [], {| rp := p; rcached := cached |}. cbn. auto.
  - destruct (cached >? max) eqn:Eg.
    + destruct (extract_payload w sz p max) as [[d k] rm] eqn:E.
      destruct (extract_payload_perm _ _ _ _ _ _ _ _ Hwf E) as [_ Hwk].
      pose proof (extract_payload_cap _ _ _ _ _ _ _ Hwf Hmax E) as Hd.
      destruct (extract_payload_sub _ _ _ _ _ _ _ E) as [_ Hsub].
      pose proof (pos_sub w p k Hsub Hpos) as Hposk.
      destruct (rm <=? 0) eqn:Eb.
      * destruct (first_weight w (items_of k) =? 0) eqn:En.
        -- apply Z.eqb_eq in En. inversion H; subst. exists [], {| rp := k; rcached := cached - rm |}. cbn [app].
           split; [reflexivity|]. split; [constructor|]. right. cbn [rp].
           destruct (items_of k) as [|i0 t] eqn:Ek; [reflexivity|exfalso].
           assert (1 <= w i0) by (apply Hposk; rewrite Ek; now left). cbn [first_weight] in En.
           destruct (0 <? w i0) eqn:E0; [lia|apply Z.ltb_ge in E0; lia].
        -- apply Z.eqb_neq in En.
           destruct (extract_payload w Items k (first_weight w (items_of k))) as [[d1 k1] rm1] eqn:E1.
           destruct (extract_payload_perm _ _ _ _ _ _ _ _ Hwk E1) as [_ Hwk1].
           destruct (extract_payload_sub _ _ _ _ _ _ _ E1) as [_ Hsub1].
           destruct (isolate_one _ _ _ _ _ Hposk En E1) as [Hone _].
           destruct (IH _ _ _ _ _ _ _ Hwk1 (pos_sub w k k1 Hsub1 Hposk) Hmax H) as [ds [last [Ho [Hf Hl]]]].
           exists ({| rp := d1; rcached := -1 |} :: ds), last. rewrite Ho, <- app_assoc. split; [reflexivity|].
           split; [constructor; [right; exact Hone|exact Hf]|exact Hl].
      * destruct (IH _ _ _ _ _ _ _ Hwk Hposk Hmax H) as [ds [last [Ho [Hf Hl]]]].
        exists ({| rp := d; rcached := -1 |} :: ds), last. rewrite Ho, <- app_assoc. split; [reflexivity|].
        split; [constructor; [left; exact Hd|exact Hf]|exact Hl].
    + rewrite Z.gtb_ltb in Eg. apply Z.ltb_ge in Eg.
      inversion H; subst. exists [], {| rp := p; rcached := cached |}. cbn. auto.
Qed.

Lemma batch_size_bound_pos_l : forall w sz max a b out,
  wf_p w sz (rp a) -> wf_opt w sz b -> pos_items w (rp a) -> (forall r, b = Some r -> pos_items w (rp r)) ->
  memo_ok w sz a -> memo_ok_opt w sz b -> 1 <= max ->
  merge_split w sz max a b = Some out ->
  exists ds last, out = ds ++ [last] /\
    Forall (fun q => payload_size w sz (rp q) <= max \/ length (items_of (rp q)) = 1%nat) ds /\
    (payload_size w sz (rp last) <= max \/ items_of (rp last) = []).
Proof.
  intros w sz max a b out Ha Hb Pa Pb Ma Mb Hmax H. unfold merge_split in H.
  destruct (max =? 0) eqn:E0; [apply Z.eqb_eq in E0; lia|].
  pose proof (merged_memo w sz a b Ma Mb) as Hm.
  assert (Hw : wf_p w sz (rp (merged w sz a b))).
  { destruct b; simpl; [|exact Ha]. unfold wf_p. apply Forall_app. split; assumption. }
  assert (Hp : pos_items w (rp (merged w sz a b))).
  { destruct b as [r|]; simpl; [|exact Pa]. intros i Hi. rewrite items_of_app in Hi. apply in_app_or in Hi.
    destruct Hi as [Hi|Hi]; [apply Pa; exact Hi|apply (Pb r eq_refl); exact Hi]. }
  assert (H0 : 0 <= max) by lia.
  destruct (split_loop_one _ _ _ _ _ _ _ _ Hw Hp H0 H) as [ds [last [Ho [Hds Hl]]]]. cbn [app] in Ho.
  rewrite (memo_req_size _ _ _ Hm), payload_size_psum in H.
  destruct (split_loop_last_exact _ _ _ _ _ _ _ H) as [front [last' [Ho' Hex]]].
  rewrite Ho in Ho'. apply app_inj_tail in Ho'. destruct Ho' as [_ <-].
  exists ds, last. split; [exact Ho|]. split; [exact Hds|]. destruct Hl as [Hl|Hl]; [left; lia|right; exact Hl].
Qed.

(* the weight the isolation step works with is 0 exactly when NO item of positive weight is left — items without weight
   (profiles without samples) in front do not hide the ones behind them (firstProfileSamples looks past them) *)
Lemma first_weight_zero_iff w l : first_weight w l = 0 <-> (forall i, In i l -> w i <= 0).
Proof.
  induction l as [|x l IH]; cbn [first_weight]; [split; [intros _ i []|reflexivity]|].
  destruct (0 <? w x) eqn:E.
  - apply Z.ltb_lt in E. split; [lia|]. intros H. specialize (H x (or_introl eq_refl)). lia.
  - apply Z.ltb_ge in E. rewrite IH. split; [intros H i [<-|Hi]; [exact E|exact (H i Hi)]|intros H i Hi; apply H; now right].
Qed.
