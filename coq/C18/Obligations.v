(* C18/Obligations.v — hand-written model pieces EQUAL the definitions translator T1 reads from
   the current Go source (coq/Generated/MemLimiter18.v, C18ApiExt.v, C18ApiProc.v), on their whole domain.
   An edit of the Go source changes the generated file and breaks the named obligation here.
   (aboveSoftLimit, aboveHardLimit, newFixedMemUsageChecker, newPercentageMemUsageChecker and
   Config.Validate have no hand-written twin: Model.v applies the generated definitions directly;
   the obligations about them are the theorems of Proofs.v — validate_none, above_soft_spec,
   fixed_checker_wf, pct_checker_eq — which are re-proved against the regenerated text.) *)
From Coq Require Import String.
From Verif Require Import Common.Base Generated.MemLimiter18 Generated.C18ApiExt
  Generated.C18ApiProc C18.Model C18.Audit.
Local Open Scope Z_scope.

(* MemoryLimiter.MustRefuse returns mustRefuse.Load() and the extension's MustRefuse returns the
   limiter's: the model's queries (GExtMustRefuse, SQuery, FQuery) answer [refuse s]. *)
Lemma ob_must_refuse_l : forall b, ml_must_refuse b = b /\ ext_must_refuse (ml_must_refuse b) = b.
Proof. intros b. split; reflexivity. Qed.

Lemma ob_queries_l : forall l s,
  snd (gate_step l s GExtMustRefuse) = OExt (ext_must_refuse (ml_must_refuse (refuse s))) /\
  (forall lf, snd (sys_step l (mkSys lf s) SQuery) = SQueried (ml_must_refuse (refuse s))) /\
  (forall lf fl, snd (fstep l (mkF lf s fl) FQuery) = FQueried (ml_must_refuse (refuse s))).
Proof. intros l s. repeat split. Qed.

(* NewDefaultConfig sets exactly one field, MinGCIntervalWhenSoftLimited *)
Lemma ob_default_config_l :
  c_soft_int default_config = new_default_config /\
  default_config = mkConfig 0 new_default_config 0 0 0 0 0.
Proof. split; reflexivity. Qed.

(* the default configuration is rejected by Validate (as documented) *)
Lemma ob_default_config_invalid_l : validate default_config = Some "errCheckIntervalOutOfRange"%string.
Proof. vm_compute. reflexivity. Qed.

(* the audited method lists are the method sets of the current source *)
Lemma ob_limiter_methods_l : map fst limiter_methods = ml_methods.
Proof. reflexivity. Qed.

Lemma ob_processor_methods_l : processor_methods = mlp_methods.
Proof. reflexivity. Qed.

Lemma ob_extension_methods_l : extension_methods = ext_methods.
Proof. reflexivity. Qed.

(* single writer per field, as audited *)
Lemma ob_writers_l :
  writers_of_must_refuse = only_check_mem_limits /\ writers_of_last_gc = only_do_gc.
Proof. split; reflexivity. Qed.
