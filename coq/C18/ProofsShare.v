(* C18/ProofsShare.v — the factory hands out one limiter per config object (getMemoryLimiter). *)
From Verif Require Import Common.Base C18.Model.

Definition f_inv (f : factory) : Prop :=
  NoDup (map fst f) /\ map snd f = seq 0 (List.length f).

Lemma f_lookup_in k f id : f_lookup k f = Some id -> In (k, id) f.
Proof.
  induction f as [|[k' id'] f IH]; cbn [f_lookup]; [discriminate|].
  destruct (Nat.eqb k k') eqn:E.
  - intros H. injection H as <-. apply Nat.eqb_eq in E. subst k'. left. reflexivity.
  - intros H. right. apply IH. exact H.
Qed.

Lemma f_lookup_none k f : f_lookup k f = None -> ~ In k (map fst f).
Proof.
  induction f as [|[k' id'] f IH]; cbn [f_lookup map fst]; [intros _ []|].
  destruct (Nat.eqb k k') eqn:E; [discriminate|].
  intros H [X|X]; [apply Nat.eqb_neq in E; congruence|exact (IH H X)].
Qed.

Lemma nodup_snoc {A} (l : list A) x : ~ In x l -> NoDup l -> NoDup (l ++ [x]).
Proof.
  induction l as [|y l IH]; intros NI ND; cbn [app]; [constructor; [intros []|constructor]|].
  inversion ND as [|z l' NY ND']; subst. constructor.
  - intros I. apply in_app_or in I. destruct I as [I|[E|[]]]; [exact (NY I)|].
    apply NI. left. symmetry. exact E.
  - apply IH; [intros I; apply NI; right; exact I|exact ND'].
Qed.

Lemma get_inv f k ok : f_inv f -> f_inv (fst (get_memory_limiter f k ok)).
Proof.
  intros [ND SQ]. unfold get_memory_limiter.
  destruct (f_lookup k f) eqn:L; cbn [fst]; [split; assumption|].
  destruct ok; cbn [fst]; [|split; assumption].
  split.
  - rewrite map_app. cbn [map fst].
    apply nodup_snoc; [exact (f_lookup_none k f L)|exact ND].
  - rewrite map_app, app_length, SQ. cbn [map snd List.length].
    rewrite Nat.add_1_r, seq_S. reflexivity.
Qed.

Lemma get_incl f k ok : incl f (fst (get_memory_limiter f k ok)).
Proof.
  unfold get_memory_limiter. destruct (f_lookup k f); cbn [fst]; [apply incl_refl|].
  destruct ok; cbn [fst]; [apply incl_appl|]; apply incl_refl.
Qed.

Lemma get_some_in f k ok id :
  snd (get_memory_limiter f k ok) = Some id -> In (k, id) (fst (get_memory_limiter f k ok)).
Proof.
  unfold get_memory_limiter. destruct (f_lookup k f) eqn:L; cbn [fst snd].
  - intros H. injection H as <-. apply f_lookup_in. exact L.
  - destruct ok; cbn [fst snd]; [|discriminate].
    intros H. injection H as <-. apply in_or_app. right. left. reflexivity.
Qed.

Lemma factory_run_inv calls : forall f, f_inv f -> f_inv (fst (factory_run f calls)).
Proof.
  induction calls as [|[k ok] calls IH]; intros f I; cbn [factory_run]; [exact I|].
  pose proof (get_inv f k ok I) as I1.
  destruct (get_memory_limiter f k ok) as [f1 res]. cbn [fst] in I1.
  specialize (IH f1 I1). destruct (factory_run f1 calls). exact IH.
Qed.

Lemma factory_run_incl calls : forall f, incl f (fst (factory_run f calls)).
Proof.
  induction calls as [|[k ok] calls IH]; intros f; cbn [factory_run]; [apply incl_refl|].
  pose proof (get_incl f k ok) as I1.
  destruct (get_memory_limiter f k ok) as [f1 res]. cbn [fst] in I1.
  specialize (IH f1). destruct (factory_run f1 calls). cbn [fst] in *.
  eapply incl_tran; eassumption.
Qed.

(* every successful call's (config, limiter) pair is in the final map *)
Lemma factory_run_in calls : forall f i k ok id,
  nth_error calls i = Some (k, ok) ->
  nth_error (snd (factory_run f calls)) i = Some (Some id) ->
  In (k, id) (fst (factory_run f calls)).
Proof.
  induction calls as [|[k0 ok0] calls IH]; intros f i k ok id HC HR; [destruct i; discriminate|].
  cbn [factory_run] in *.
  pose proof (get_some_in f k0 ok0) as G.
  destruct (get_memory_limiter f k0 ok0) as [f1 res]. cbn [fst snd] in G.
  pose proof (factory_run_incl calls f1) as INC.
  specialize (IH f1).
  destruct (factory_run f1 calls) as [f2 rs]. cbn [fst snd] in *.
  destruct i as [|i]; cbn [nth_error] in HC, HR.
  - injection HC as <- <-. injection HR as ->. apply INC. apply G. reflexivity.
  - eapply IH; eassumption.
Qed.

Lemma nodup_fst_functional (f : factory) k a b :
  NoDup (map fst f) -> In (k, a) f -> In (k, b) f -> a = b.
Proof.
  induction f as [|[k' c] f IH]; cbn [map fst]; intros ND IA IB; [destruct IA|].
  inversion ND as [|x l NI ND']; subst.
  destruct IA as [EA|IA], IB as [EB|IB].
  - congruence.
  - injection EA as -> ->. exfalso. apply NI. apply (in_map fst) in IB. exact IB.
  - injection EB as -> ->. exfalso. apply NI. apply (in_map fst) in IA. exact IA.
  - exact (IH ND' IA IB).
Qed.

Lemma nodup_snd_functional (f : factory) k1 k2 a :
  NoDup (map snd f) -> In (k1, a) f -> In (k2, a) f -> k1 = k2.
Proof.
  induction f as [|[k' c] f IH]; cbn [map snd]; intros ND IA IB; [destruct IA|].
  inversion ND as [|x l NI ND']; subst.
  destruct IA as [EA|IA], IB as [EB|IB].
  - congruence.
  - injection EA as -> ->. exfalso. apply NI. apply (in_map snd) in IB. exact IB.
  - injection EB as -> ->. exfalso. apply NI. apply (in_map snd) in IA. exact IA.
  - exact (IH ND' IA IB).
Qed.

Lemma f_inv_nil : f_inv [].
Proof. split; [constructor|reflexivity]. Qed.

Lemma factory_shares_l calls i j ki oki kj okj a b :
  nth_error calls i = Some (ki, oki) -> nth_error calls j = Some (kj, okj) ->
  nth_error (snd (factory_run [] calls)) i = Some (Some a) ->
  nth_error (snd (factory_run [] calls)) j = Some (Some b) ->
  (a = b <-> ki = kj).
Proof.
  intros CI CJ RI RJ.
  pose proof (factory_run_in calls [] i ki oki a CI RI) as IA.
  pose proof (factory_run_in calls [] j kj okj b CJ RJ) as IB.
  destruct (factory_run_inv calls [] f_inv_nil) as [ND SQ].
  assert (NS : NoDup (map snd (fst (factory_run [] calls)))) by (rewrite SQ; apply seq_NoDup).
  split.
  - intros <-. exact (nodup_snd_functional _ _ _ _ NS IA IB).
  - intros <-. exact (nodup_fst_functional _ _ _ _ ND IA IB).
Qed.

(* a call fails only on a miss with a limiter that cannot be constructed; nothing is cached then *)
Lemma get_none_l f k ok : snd (get_memory_limiter f k ok) = None ->
  ok = false /\ f_lookup k f = None /\ fst (get_memory_limiter f k ok) = f.
Proof.
  unfold get_memory_limiter. destruct (f_lookup k f); cbn [fst snd]; [discriminate|].
  destruct ok; cbn [fst snd]; [discriminate|]. intros _. repeat split.
Qed.
