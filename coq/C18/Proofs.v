(* C18/Proofs.v — lemmas about the memory-limiter model (Model.v over Generated.MemLimiter18). *)
From Verif Require Import Common.Base Generated.MemLimiter18 C18.Model.
From Coq Require Import ZifyBool.
From Coq Require String.
Local Open Scope Z_scope.

(* ---- well-formed limits: what validation is meant to guarantee ------------------------------- *)
Definition wf (l : limiter) : Prop := 0 <= l_spike l <= l_limit l /\ l_limit l < U64.
Definition soft (l : limiter) : Z := l_limit l - l_spike l.

Lemma above_soft_spec l a : wf l -> above_soft l a = (a >=? l_limit l - l_spike l).
Proof.
  unfold wf, above_soft, aboveSoftLimit, U64. intros [[H0 H1] H2].
  rewrite Z.mod_small by lia. reflexivity.
Qed.

Lemma above_hard_spec l a : above_hard l a = (a >=? l_limit l).
Proof. reflexivity. Qed.

(* a forced GC is due: first reading at/above the soft limit and the minimum interval of the
   applicable severity has elapsed *)
Definition due (l : limiter) (s : st) (t : tick) : bool :=
  above_soft l (t_r1 t) &&
  (t_now t - last_gc s >? (if above_hard l (t_r1 t) then l_hard_int l else l_soft_int l)).

Lemma check_state l s t :
  fst (check l s t) = if due l s t then mkSt (above_soft l (t_r2 t)) (t_gc_done t)
                      else mkSt (above_soft l (t_r1 t)) (last_gc s).
Proof.
  unfold check, due.
  destruct (above_soft l (t_r1 t)) eqn:E1; cbn [negb andb]; [|reflexivity].
  destruct (above_hard l (t_r1 t));
    destruct (t_now t - last_gc s >? _); cbn [fst]; rewrite ?E1; reflexivity.
Qed.

Lemma check_gc_forced l s t : gc_forced (snd (check l s t)) = due l s t.
Proof.
  unfold check, due.
  destruct (above_soft l (t_r1 t)) eqn:E1; cbn [negb andb].
  - destruct (above_hard l (t_r1 t));
      destruct (t_now t - last_gc s >? _); cbn [fst snd refuse];
      destruct (refuse s); destruct (above_soft l (t_r2 t)); rewrite ?E1; reflexivity.
  - destruct (refuse s); reflexivity.
Qed.

Lemma check_gc_count l s t : gc_count (snd (check l s t)) = if due l s t then 1%nat else 0%nat.
Proof.
  unfold check, due.
  destruct (above_soft l (t_r1 t)) eqn:E1; cbn [negb andb].
  - destruct (above_hard l (t_r1 t));
      destruct (t_now t - last_gc s >? _); cbn [fst snd refuse];
      destruct (refuse s); destruct (above_soft l (t_r2 t)); rewrite ?E1; reflexivity.
  - destruct (refuse s); reflexivity.
Qed.

Lemma final_reading_due l s t : final_reading l s t = if due l s t then t_r2 t else t_r1 t.
Proof. unfold final_reading. rewrite check_gc_forced. reflexivity. Qed.

(* ---- refuse <-> most recent measurement >= limit - spike ------------------------------------- *)
Lemma refuse_iff_soft_l l s t : wf l ->
  refuse (fst (check l s t)) = (final_reading l s t >=? l_limit l - l_spike l).
Proof.
  intros W. rewrite check_state, final_reading_due.
  destruct (due l s t); cbn [refuse]; apply above_soft_spec; exact W.
Qed.

(* the wrap-explicit version needs no hypothesis at all: this is what the code computes *)
Lemma refuse_is_above_soft_l l s t : refuse (fst (check l s t)) = above_soft l (final_reading l s t).
Proof. rewrite check_state, final_reading_due. destruct (due l s t); reflexivity. Qed.

Lemma no_hysteresis_l l b1 b2 g t : fst (check l (mkSt b1 g) t) = fst (check l (mkSt b2 g) t).
Proof. rewrite !check_state. unfold due. reflexivity. Qed.

Lemma run_app l s a b :
  run l s (a ++ b) = (fst (run l (fst (run l s a)) b), snd (run l s a) ++ snd (run l (fst (run l s a)) b)).
Proof.
  revert s. induction a as [|t a IH]; intros s; cbn [run app fst snd].
  - destruct (run l s b); reflexivity.
  - destruct (check l s t) as [s1 ev]. rewrite IH.
    destruct (run l s1 a) as [s2 evs]. cbn [fst snd]. reflexivity.
Qed.

Lemma run_snoc_state l s ts t : fst (run l s (ts ++ [t])) = fst (check l (fst (run l s ts)) t).
Proof.
  rewrite run_app. cbn [fst run]. destruct (check l (fst (run l s ts)) t). reflexivity.
Qed.

Lemma run_snoc_events l s ts t :
  snd (run l s (ts ++ [t])) = snd (run l s ts) ++ [snd (check l (fst (run l s ts)) t)].
Proof.
  rewrite run_app. cbn [snd run]. destruct (check l (fst (run l s ts)) t). reflexivity.
Qed.

Lemma refuse_iff_soft_history_l l s ts t : wf l ->
  refuse (fst (run l s (ts ++ [t]))) = (final_reading l (fst (run l s ts)) t >=? l_limit l - l_spike l).
Proof. intros W. rewrite run_snoc_state. apply refuse_iff_soft_l. exact W. Qed.

(* ---- GC only when due -------------------------------------------------------------------------- *)
Lemma due_spec l s t : wf l ->
  (due l s t = true <->
   t_r1 t >= l_limit l - l_spike l /\
   t_now t - last_gc s > (if t_r1 t >=? l_limit l then l_hard_int l else l_soft_int l)).
Proof.
  intros W. unfold due. rewrite (above_soft_spec l _ W), above_hard_spec.
  rewrite andb_true_iff. destruct (t_r1 t >=? l_limit l); lia.
Qed.

Lemma gc_only_when_due_l l s t : wf l ->
  (gc_forced (snd (check l s t)) = true <->
   t_r1 t >= l_limit l - l_spike l /\
   t_now t - last_gc s > (if t_r1 t >=? l_limit l then l_hard_int l else l_soft_int l)) /\
  last_gc (fst (check l s t)) = (if gc_forced (snd (check l s t)) then t_gc_done t else last_gc s) /\
  (gc_count (snd (check l s t)) <= 1)%nat /\
  (gc_count (snd (check l s t)) = 1%nat <-> gc_forced (snd (check l s t)) = true).
Proof.
  intros W. rewrite check_gc_forced, check_gc_count, check_state. split; [apply due_spec; exact W|].
  destruct (due l s t); cbn [last_gc]; repeat split; auto; try discriminate.
Qed.

Lemma gc_throttled_l l s t :
  l_hard_int l <= l_soft_int l ->
  gc_forced (snd (check l s t)) = true -> t_now t - last_gc s > l_hard_int l.
Proof.
  intros H. rewrite check_gc_forced. unfold due. rewrite andb_true_iff. intros [_ G].
  destruct (above_hard l (t_r1 t)); lia.
Qed.

Lemma last_gc_in_history_l l s ts :
  last_gc (fst (run l s ts)) = last_gc s \/
  exists t, In t ts /\ last_gc (fst (run l s ts)) = t_gc_done t.
Proof.
  induction ts as [|t ts IH] using rev_ind; [left; reflexivity|].
  rewrite run_snoc_state, check_state.
  destruct (due l (fst (run l s ts)) t); cbn [last_gc].
  - right. exists t. split; [apply in_or_app; right; left; reflexivity|reflexivity].
  - destruct IH as [IH|[t' [I E]]]; [left; exact IH|].
    right. exists t'. split; [apply in_or_app; left; exact I|exact E].
Qed.

(* ---- limits are well formed for validated configurations ------------------------------------ *)
Lemma validate_none c : validate c = None ->
  0 < c_check c /\ c_hard_int c <= c_soft_int c /\
  ~ (c_limit_mib c = 0 /\ c_limit_pct c = 0) /\
  c_limit_pct c <= 100 /\ c_spike_pct c <= 100 /\
  (c_limit_mib c > 0 -> c_spike_mib c < c_limit_mib c) /\
  (c_limit_pct c > 0 -> c_spike_pct c < c_limit_pct c).
Proof.
  unfold validate, config_validate.
  destruct (c_check c <=? 0) eqn:E1; [discriminate|].
  destruct (c_soft_int c <? c_hard_int c) eqn:E2; [discriminate|].
  destruct ((c_limit_mib c =? 0) && (c_limit_pct c =? 0)) eqn:E3; [discriminate|].
  destruct ((c_limit_pct c >? 100) || (c_spike_pct c >? 100)) eqn:E4; [discriminate|].
  destruct ((c_limit_mib c >? 0) && (c_limit_mib c <=? c_spike_mib c)) eqn:E5; [discriminate|].
  destruct ((c_limit_pct c >? 0) && (c_limit_pct c <=? c_spike_pct c)) eqn:E6; [discriminate|].
  intros _. lia.
Qed.

Lemma div5_le a : 0 <= a -> 0 <= a / 5 <= a.
Proof.
  intros H. split; [apply Z.div_pos; lia|].
  apply Z.div_le_upper_bound; lia.
Qed.

Lemma fixed_checker_wf lim spike :
  0 <= spike <= lim -> lim < U64 ->
  let p := newFixedMemUsageChecker lim spike in
  fst p = lim /\ snd p = (if spike =? 0 then lim / 5 else spike) /\ 0 <= snd p <= fst p.
Proof.
  intros H HU. unfold newFixedMemUsageChecker. cbn zeta.
  destruct (spike =? 0) eqn:E; cbn [fst snd]; repeat split; try lia; apply div5_le; lia.
Qed.

Lemma pct_checker_eq t lp sp :
  newPercentageMemUsageChecker t lp sp =
  newFixedMemUsageChecker (((lp * t) mod U64) / 100) (((sp * t) mod U64) / 100).
Proof.
  unfold newPercentageMemUsageChecker, newFixedMemUsageChecker, U64.
  destruct (((sp * t) mod 18446744073709551616) / 100 =? 0); reflexivity.
Qed.

Lemma pct_no_wrap p t : 0 <= p <= 100 -> 0 <= t -> 100 * t < U64 -> (p * t) mod U64 = p * t.
Proof.
  intros Hp Ht Hb. apply Z.mod_small. split; [apply Z.mul_nonneg_nonneg; lia|].
  apply Z.le_lt_trans with (100 * t); [apply Z.mul_le_mono_nonneg_r; lia|exact Hb].
Qed.

Lemma limits_wellformed_l c total l :
  validate c = None -> config_in_range c ->
  (c_limit_mib c = 0 -> forall t, total = Some t -> 0 <= t /\ 100 * t < U64) ->
  new_limiter c total = Some l ->
  wf l /\
  l_soft_int l = c_soft_int c /\ l_hard_int l = c_hard_int c /\ l_hard_int l <= l_soft_int l /\
  (c_limit_mib c <> 0 ->
     l_limit l = c_limit_mib c * mibBytes /\
     l_spike l = (if c_spike_mib c =? 0 then l_limit l / 5 else c_spike_mib c * mibBytes) /\
     l_spike l < l_limit l) /\
  (c_limit_mib c = 0 -> forall t, total = Some t ->
     l_limit l = c_limit_pct c * t / 100 /\
     l_spike l = (if c_spike_pct c * t / 100 =? 0 then l_limit l / 5 else c_spike_pct c * t / 100)).
Proof.
  intros V R B N. apply validate_none in V.
  destruct V as (V1 & V2 & V3 & V4 & V5 & V6 & V7).
  destruct R as (R1 & R2 & R3 & R4).
  unfold new_limiter, get_checker in N.
  destruct (c_limit_mib c =? 0) eqn:EM; cbn [negb] in N.
  - (* percentage mode *)
    apply Z.eqb_eq in EM.
    destruct total as [t|]; [|discriminate].
    destruct (B EM t eq_refl) as [Ht Hb].
    rewrite pct_checker_eq in N.
    assert (LP : (c_limit_pct c * t) mod U64 = c_limit_pct c * t) by (apply pct_no_wrap; lia).
    assert (SP : (c_spike_pct c * t) mod U64 = c_spike_pct c * t) by (apply pct_no_wrap; lia).
    rewrite LP, SP in N.
    assert (M : c_spike_pct c * t <= c_limit_pct c * t) by (apply Z.mul_le_mono_nonneg_r; lia).
    assert (D : 0 <= c_spike_pct c * t / 100 <= c_limit_pct c * t / 100).
    { split; [apply Z.div_pos; [apply Z.mul_nonneg_nonneg; lia|lia]|apply Z.div_le_mono; lia]. }
    assert (U : c_limit_pct c * t / 100 < U64).
    { apply Z.le_lt_trans with (100 * t / 100).
      - apply Z.div_le_mono; [lia|]. apply Z.mul_le_mono_nonneg_r; lia.
      - rewrite Z.mul_comm, Z.div_mul by lia. unfold U64 in *. lia. }
    pose proof (fixed_checker_wf _ _ D U) as F. cbn zeta in F.
    destruct (newFixedMemUsageChecker (c_limit_pct c * t / 100) (c_spike_pct c * t / 100)) as [lim spike].
    cbn [fst snd] in F. destruct F as (F1 & F2 & F3).
    injection N as <-. cbn [l_limit l_spike l_soft_int l_hard_int]. unfold wf. cbn [l_limit l_spike].
    subst lim. split; [lia|]. split; [reflexivity|]. split; [reflexivity|]. split; [lia|]. split.
    + intros NE. exfalso. apply NE. exact EM.
    + intros _ t' E. injection E as <-. split; [reflexivity|exact F2].
  - (* fixed mode *)
    apply Z.eqb_neq in EM.
    assert (LM : (c_limit_mib c * mibBytes) mod U64 = c_limit_mib c * mibBytes).
    { apply Z.mod_small. unfold mibBytes, U64, U32 in *. lia. }
    assert (SM : (c_spike_mib c * mibBytes) mod U64 = c_spike_mib c * mibBytes).
    { apply Z.mod_small. unfold mibBytes, U64, U32 in *. lia. }
    rewrite LM, SM in N.
    assert (D : 0 <= c_spike_mib c * mibBytes <= c_limit_mib c * mibBytes) by (unfold mibBytes; lia).
    assert (U : c_limit_mib c * mibBytes < U64) by (unfold mibBytes, U64, U32 in *; lia).
    pose proof (fixed_checker_wf _ _ D U) as F. cbn zeta in F.
    destruct (newFixedMemUsageChecker (c_limit_mib c * mibBytes) (c_spike_mib c * mibBytes)) as [lim spike].
    cbn [fst snd] in F. destruct F as (F1 & F2 & F3).
    injection N as <-. cbn [l_limit l_spike l_soft_int l_hard_int]. unfold wf. cbn [l_limit l_spike].
    subst lim.
    assert (S0 : (c_spike_mib c * mibBytes =? 0) = (c_spike_mib c =? 0)).
    { unfold mibBytes. destruct (c_spike_mib c =? 0) eqn:E; lia. }
    rewrite S0 in F2.
    split; [lia|]. split; [reflexivity|]. split; [reflexivity|]. split; [lia|]. split.
    + intros _. split; [reflexivity|]. split; [exact F2|].
      rewrite F2. destruct (c_spike_mib c =? 0) eqn:E.
      * apply Z.div_lt; unfold mibBytes; lia.
      * unfold mibBytes. lia.
    + intros E0. exfalso. apply EM. exact E0.
Qed.

(* without the bound on total memory the percentage products wrap and the limits are NOT well formed *)
Definition wrap_cfg : config := mkConfig 1000000000 0 0 0 0 2 1.
Definition wrap_total : Z := 9223372036854775808.  (* 2^63 *)

Lemma limits_wrap_l :
  validate wrap_cfg = None /\ config_in_range wrap_cfg /\
  exists l, new_limiter wrap_cfg (Some wrap_total) = Some l /\ l_limit l = 0 /\ l_spike l = 92233720368547758 /\
            above_soft l 1000000000000 = false.
Proof.
  split; [vm_compute; reflexivity|]. split; [unfold config_in_range, wrap_cfg, U32; cbn; lia|].
  eexists. split; [vm_compute; reflexivity|]. vm_compute. auto.
Qed.

(* ---- end to end for validated configurations ------------------------------------------------ *)
Lemma refuse_iff_soft_validated_l c total l s ts t :
  validate c = None -> config_in_range c ->
  (c_limit_mib c = 0 -> forall tm, total = Some tm -> 0 <= tm /\ 100 * tm < U64) ->
  new_limiter c total = Some l ->
  refuse (fst (run l s (ts ++ [t]))) = (final_reading l (fst (run l s ts)) t >=? l_limit l - l_spike l).
Proof.
  intros V R B N. apply refuse_iff_soft_history_l.
  exact (proj1 (limits_wellformed_l c total l V R B N)).
Qed.

(* ---- the processor gate ------------------------------------------------------------------------ *)
Lemma consume_refusing {A} (next : A -> option err) (d : A) :
  consume true next d = (Some ErrDataRefused, []).
Proof. reflexivity. Qed.

Lemma consume_accepting {A} (next : A -> option err) (d : A) :
  consume false next d = (next d, [d]).
Proof. reflexivity. Qed.

Definition consume_spec (refusing : bool) (sg : nat) (id : Z) (down : option Z) : gobs :=
  if refusing then OConsumed (Some ErrDataRefused) [] else OConsumed (option_map ErrDown down) [(sg, id)].

Lemma gate_consume_l l s sg id down :
  gate_step l s (GConsume sg id down) = (s, consume_spec (refuse s) sg id down).
Proof. unfold gate_step, consume_spec. destruct (refuse s); reflexivity. Qed.

Lemma gate_run_app l s a b :
  gate_run l s (a ++ b) =
  (fst (gate_run l (fst (gate_run l s a)) b), snd (gate_run l s a) ++ snd (gate_run l (fst (gate_run l s a)) b)).
Proof.
  revert s. induction a as [|o a IH]; intros s; cbn [gate_run app fst snd].
  - destruct (gate_run l s b); reflexivity.
  - destruct (gate_step l s o) as [s1 ob]. rewrite IH.
    destruct (gate_run l s1 a) as [s2 obs]. reflexivity.
Qed.

Fixpoint checks_of (ops : list gop) : list tick :=
  match ops with
  | [] => []
  | GCheck t :: r => t :: checks_of r
  | _ :: r => checks_of r
  end.

Lemma gate_state_l l s ops : fst (gate_run l s ops) = fst (run l s (checks_of ops)).
Proof.
  revert s. induction ops as [|o ops IH]; intros s; [reflexivity|].
  cbn [gate_run]. destruct o as [t|sg id down|]; cbn [checks_of].
  - cbn [gate_step run]. destruct (check l s t) as [s1 ev].
    specialize (IH s1). destruct (gate_run l s1 ops), (run l s1 (checks_of ops)). exact IH.
  - rewrite gate_consume_l. specialize (IH s). destruct (gate_run l s ops). exact IH.
  - cbn [gate_step]. specialize (IH s). destruct (gate_run l s ops). exact IH.
Qed.

(* payloads consumed while the limiter is not refusing, in order *)
Fixpoint accepted (l : limiter) (s : st) (ops : list gop) : list (nat * Z) :=
  match ops with
  | [] => []
  | GCheck t :: r => accepted l (fst (check l s t)) r
  | GConsume sg id _ :: r => (if refuse s then [] else [(sg, id)]) ++ accepted l s r
  | GExtMustRefuse :: r => accepted l s r
  end.

Lemma gate_forwards_l l s ops : forwarded_of (snd (gate_run l s ops)) = accepted l s ops.
Proof.
  revert s. induction ops as [|o ops IH]; intros s; [reflexivity|].
  cbn [gate_run]. destruct o as [t|sg id down|]; cbn [accepted].
  - cbn [gate_step]. destruct (check l s t) as [s1 ev]. cbn [fst].
    specialize (IH s1). destruct (gate_run l s1 ops). exact IH.
  - rewrite gate_consume_l. specialize (IH s). destruct (gate_run l s ops) as [s2 bs].
    cbn [snd forwarded_of] in *. unfold consume_spec. destruct (refuse s); cbn [forwarded_of]; rewrite IH; reflexivity.
  - cbn [gate_step]. specialize (IH s). destruct (gate_run l s ops). exact IH.
Qed.

Definition is_check (o : gop) : bool := match o with GCheck _ => true | _ => false end.

Lemma checks_of_app a b : checks_of (a ++ b) = checks_of a ++ checks_of b.
Proof.
  induction a as [|o a IH]; [reflexivity|]. destruct o; cbn [app checks_of]; rewrite IH; reflexivity.
Qed.

Lemma checks_of_none mid : (forall o, In o mid -> is_check o = false) -> checks_of mid = [].
Proof.
  induction mid as [|o mid IH]; intros H; [reflexivity|].
  destruct o as [t| |]; cbn [checks_of].
  - specialize (H (GCheck t) (or_introl eq_refl)). discriminate.
  - apply IH. intros o I. apply H. right. exact I.
  - apply IH. intros o I. apply H. right. exact I.
Qed.

Lemma gate_end_to_end_l l s pre t mid : wf l ->
  (forall o, In o mid -> is_check o = false) ->
  refuse (fst (gate_run l s (pre ++ GCheck t :: mid))) =
  (final_reading l (fst (gate_run l s pre)) t >=? l_limit l - l_spike l).
Proof.
  intros W M. rewrite !gate_state_l, checks_of_app. cbn [checks_of].
  rewrite (checks_of_none mid M). apply refuse_iff_soft_history_l. exact W.
Qed.

(* ---- Start / Shutdown reference counting ----------------------------------------------------- *)
Lemma life_run_app s a b :
  life_run s (a ++ b) =
  (fst (life_run (fst (life_run s a)) b), snd (life_run s a) ++ snd (life_run (fst (life_run s a)) b)).
Proof.
  revert s. induction a as [|o a IH]; intros s; cbn [life_run app fst snd].
  - destruct (life_run s b); reflexivity.
  - destruct (life_step s o) as [s1 e]. rewrite IH. destruct (life_run s1 a). reflexivity.
Qed.

Lemma life_run_snoc s ops o :
  fst (life_run s (ops ++ [o])) = fst (life_step (fst (life_run s ops)) o).
Proof. rewrite life_run_app. cbn [fst life_run]. destruct (life_step _ o). reflexivity. Qed.

Definition life_inv (s : life) : Prop :=
  0 <= refcnt s /\ goroutine s = (0 <? refcnt s) /\ (0 < refcnt s -> ticker_live s = true).

Lemma life_step_inv s o : life_inv s -> life_inv (fst (life_step s o)).
Proof.
  unfold life_inv. intros (H & G & T). destruct o; cbn [life_step].
  - destruct (refcnt s + 1 =? 1) eqn:E; cbn [fst refcnt goroutine ticker_live].
    + repeat split; try lia.
    + split; [lia|]. split; [rewrite G; lia|]. intros _. apply T. lia.
  - destruct (refcnt s =? 0) eqn:E0; cbn [fst]; [repeat split; assumption|].
    destruct (refcnt s =? 1) eqn:E1; cbn [fst refcnt goroutine ticker_live].
    + repeat split; try lia.
    + split; [lia|]. split; [rewrite G; lia|]. intros _. apply T. lia.
Qed.

Lemma life_run_inv ops : life_inv (fst (life_run life0 ops)).
Proof.
  induction ops as [|o ops IH] using rev_ind.
  - cbn. unfold life_inv. cbn. repeat split; try lia.
  - rewrite life_run_snoc. apply life_step_inv. exact IH.
Qed.

Lemma checker_lifetime_l ops :
  let s := fst (life_run life0 ops) in
  0 <= refcnt s /\ goroutine s = (0 <? refcnt s) /\
  (checking s = true -> 0 < refcnt s) /\ (refcnt s = 0 -> checking s = false).
Proof.
  cbn zeta. destruct (life_run_inv ops) as (H & G & _). unfold checking. rewrite G.
  repeat split; try assumption.
  - intros C. apply andb_true_iff in C. lia.
  - intros E. rewrite E. reflexivity.
Qed.

Lemma shutdown_error_l s o : snd (life_step s o) = true <-> o = LShutdown /\ refcnt s = 0.
Proof.
  destruct o; cbn [life_step].
  - destruct (refcnt s + 1 =? 1); cbn [snd]; (split; [discriminate|intros [E _]; discriminate]).
  - destruct (refcnt s =? 0) eqn:E0; cbn [snd].
    + split; [intros _; split; [reflexivity|lia]|reflexivity].
    + destruct (refcnt s =? 1); cbn [snd]; (split; [discriminate|intros [_ E]; lia]).
Qed.

(* refCounter = number of Starts - number of Shutdowns that returned nil *)
Fixpoint starts (ops : list lop) : Z :=
  match ops with [] => 0 | LStart :: r => 1 + starts r | LShutdown :: r => starts r end.

Fixpoint ok_shutdowns (ops : list lop) (errs : list bool) : Z :=
  match ops, errs with
  | LShutdown :: r, false :: e => 1 + ok_shutdowns r e
  | _ :: r, _ :: e => ok_shutdowns r e
  | _, _ => 0
  end.

Lemma refcount_balance_gen s ops :
  refcnt (fst (life_run s ops)) = refcnt s + starts ops - ok_shutdowns ops (snd (life_run s ops)).
Proof.
  revert s. induction ops as [|o ops IH]; intros s; cbn [life_run].
  - cbn. lia.
  - destruct (life_step s o) as [s1 e] eqn:E. specialize (IH s1).
    destruct (life_run s1 ops) as [s2 es]. cbn [fst snd] in *. rewrite IH.
    destruct o; cbn [life_step] in E.
    + destruct (refcnt s + 1 =? 1); injection E as <- <-; cbn [refcnt starts ok_shutdowns]; lia.
    + destruct (refcnt s =? 0) eqn:E0; [injection E as <- <-; cbn [starts ok_shutdowns]; lia|].
      destruct (refcnt s =? 1); injection E as <- <-; cbn [refcnt starts ok_shutdowns]; lia.
Qed.

Lemma refcount_balance_l ops :
  refcnt (fst (life_run life0 ops)) = starts ops - ok_shutdowns ops (snd (life_run life0 ops)).
Proof. rewrite refcount_balance_gen. cbn. lia. Qed.

(* the checker runs exactly while the limiter has users — EVERY history, restarts included *)
Lemma checker_runs_while_used_l ops :
  let s := fst (life_run life0 ops) in checking s = (0 <? refcnt s).
Proof.
  cbn zeta. destruct (life_run_inv ops) as (H & G & T). unfold checking. rewrite G.
  destruct (0 <? refcnt (fst (life_run life0 ops))) eqn:E; [|reflexivity].
  rewrite T by lia. reflexivity.
Qed.
