(* C18/ClausesSound2.v — soundness of the remaining clause checkers (CSys, CFine, CConfig, CShare)
   and the link back to the model: what the MODEL produces, observed the way the harness observes
   the implementation, always passes the checker ([prop_ok .. = true]) for every case kind. *)
From Verif Require Import Common.Base Generated.MemLimiter18 C18.Model C18.Harness C18.Clauses
  C18.Proofs C18.ProofsShare C18.ProofsSys C18.ProofsFine C18.ClausesSound.
From Coq Require Import ZifyBool.
From Coq Require String.
Local Open Scope Z_scope.

Lemma wfb_spec l : wfb l = true <-> wf l.
Proof. unfold wfb, wf. rewrite !andb_true_iff. lia. Qed.

Lemma none_eqb_iff {A} (o : option A) : (match o with None => true | _ => false end) = true <-> o = None.
Proof. destruct o; split; congruence. Qed.

(* ================================ CSys ================================ *)
Definition sys_clause (l : limiter) (s : Z * bool * Z) (o : sop) (b : sobs) : Prop :=
  let '(n, mode, last_gc) := s in
  match o, b with
  | SStart, SLifeRes e => e = false
  | SShutdown, SLifeRes e => (e = true <-> n = 0)
  | STick t, STicked r g => 0 < n /\ check_clause l last_gc (t_now t) (t_r1 t) (t_r2 t) r g
  | STick t, SNoTick => n <= 0
  | SQuery, SQueried r => r = mode
  | _, _ => False
  end.

Lemma sys_viol_sound l s o b : sys_viol l s o b = [] <-> sys_clause l s o b.
Proof.
  destruct s as [[n mode] last_gc]. unfold sys_viol, sys_clause.
  destruct o as [| |t|]; destruct b as [e|r g| |r]; try (split; [discriminate|intros []]).
  - rewrite when_nil, negb_true_iff. reflexivity.
  - rewrite when_nil, eqb_iff_bool, Z.eqb_eq. reflexivity.
  - rewrite app_nil_iff, when_nil, check_viol_sound, Z.ltb_lt. reflexivity.
  - rewrite when_nil, Z.leb_le. reflexivity.
  - rewrite when_nil. destruct r, mode; cbn; split; congruence.
Qed.

Lemma sys_history_sound l ops obs s0 :
  hviol (sys_viol l) sys_next s0 ops obs = [] <-> hclause sys_next (sys_clause l) s0 ops obs.
Proof. apply hviol_sound. intros s o b. apply sys_viol_sound. Qed.

Lemma model_sys_ok l : wf l -> forall ops s, life_inv (s_life s) ->
  hviol (sys_viol l) sys_next (refcnt (s_life s), refuse (s_st s), last_gc (s_st s)) ops (snd (sys_run l s ops)) = [].
Proof.
  intros W. induction ops as [|o ops IH]; intros s LI; [reflexivity|].
  cbn [sys_run].
  pose proof LI as (H0 & _ & _).
  destruct o as [| |t|]; cbn [sys_step].
  - pose proof (life_step_inv (s_life s) LStart LI) as LI1.
    pose proof (life_step_refcnt (s_life s) LStart) as RC.
    pose proof (shutdown_error_l (s_life s) LStart) as SE.
    destruct (life_step (s_life s) LStart) as [lf e]. cbn [fst snd] in *.
    assert (E : e = false).
    { destruct e; [|reflexivity]. destruct (proj1 SE eq_refl) as [X _]. discriminate. }
    subst e. specialize (IH (mkSys lf (s_st s)) LI1). cbn [s_life s_st] in IH.
    destruct (sys_run l (mkSys lf (s_st s)) ops) as [s2 bs]. cbn [snd hviol] in *.
    apply app_nil_iff. split; [reflexivity|]. cbn [sys_next]. rewrite <- RC. exact IH.
  - pose proof (life_step_inv (s_life s) LShutdown LI) as LI1.
    pose proof (life_step_refcnt (s_life s) LShutdown) as RC.
    pose proof (shutdown_error_l (s_life s) LShutdown) as SE.
    destruct (life_step (s_life s) LShutdown) as [lf e]. cbn [fst snd] in *.
    specialize (IH (mkSys lf (s_st s)) LI1). cbn [s_life s_st] in IH.
    destruct (sys_run l (mkSys lf (s_st s)) ops) as [s2 bs]. cbn [snd hviol] in *.
    apply app_nil_iff. split.
    + apply sys_viol_sound. cbn. split; [intros E; apply SE in E; tauto|intros E; apply SE; split; [reflexivity|exact E]].
    + cbn [sys_next].
      assert (N : (if e then refcnt (s_life s) else refcnt (s_life s) - 1) = refcnt lf).
      { rewrite RC. destruct e.
        - destruct (proj1 SE eq_refl) as [_ Z0]. rewrite Z0. reflexivity.
        - destruct (refcnt (s_life s) =? 0) eqn:E0; [|reflexivity].
          exfalso. assert (X : false = true) by (apply SE; split; [reflexivity|lia]). discriminate. }
      rewrite N. exact IH.
  - pose proof (life_inv_checking _ LI) as CK. destruct (checking (s_life s)) eqn:C.
    + pose proof (model_check_clause l (s_st s) t W) as MC.
      pose proof (check_state l (s_st s) t) as ST. pose proof (check_gc_count l (s_st s) t) as GC.
      destruct (check l (s_st s) t) as [s1 ev]. cbn [fst snd] in *.
      specialize (IH (mkSys (s_life s) s1) LI). cbn [s_life s_st] in IH.
      destruct (sys_run l (mkSys (s_life s) s1) ops) as [s2 bs]. cbn [snd hviol] in *.
      apply app_nil_iff. split.
      * apply sys_viol_sound. cbn. split; [lia|exact MC].
      * cbn [sys_next].
        assert (LG : (if (0 <? gc_count ev)%nat then t_gc_done t else last_gc (s_st s)) = last_gc s1).
        { rewrite GC, ST. destruct (due l (s_st s) t); reflexivity. }
        rewrite LG. exact IH.
    + specialize (IH s LI). destruct (sys_run l s ops) as [s2 bs]. cbn [snd hviol] in *.
      apply app_nil_iff. split; [|exact IH].
      apply sys_viol_sound. cbn. lia.
  - specialize (IH s LI). destruct (sys_run l s ops) as [s2 bs]. cbn [snd hviol] in *.
    apply app_nil_iff. split; [|exact IH].
    apply sys_viol_sound. cbn. reflexivity.
Qed.

(* ================================ CGate (model) ================================ *)
Lemma model_gate_ok l : wf l -> forall ops s,
  hviol (gate_viol l) gate_next (refuse s, last_gc s) ops (snd (gate_run l s ops)) = [].
Proof.
  intros W. induction ops as [|o ops IH]; intros s; [reflexivity|].
  cbn [gate_run]. destruct o as [t|sg id down|].
  - cbn [gate_step].
    pose proof (model_check_clause l s t W) as MC.
    pose proof (check_state l s t) as ST. pose proof (check_gc_count l s t) as GC.
    destruct (check l s t) as [s1 ev]. cbn [fst snd] in *.
    specialize (IH s1). destruct (gate_run l s1 ops) as [s2 bs]. cbn [snd hviol] in *.
    apply app_nil_iff. split.
    + apply gate_viol_sound. cbn. exact MC.
    + cbn [gate_next snd].
      assert (LG : (if (0 <? gc_count ev)%nat then t_gc_done t else last_gc s) = last_gc s1).
      { rewrite GC, ST. destruct (due l s t); reflexivity. }
      rewrite LG. exact IH.
  - rewrite gate_consume_l. specialize (IH s). destruct (gate_run l s ops) as [s2 bs]. cbn [snd hviol] in *.
    apply app_nil_iff. split; [|exact IH].
    apply gate_viol_sound. unfold gate_clause, consume_spec. cbn [fst]. destruct (refuse s); split; reflexivity.
  - cbn [gate_step]. specialize (IH s). destruct (gate_run l s ops) as [s2 bs]. cbn [snd hviol] in *.
    apply app_nil_iff. split; [|exact IH].
    apply gate_viol_sound. reflexivity.
Qed.

(* ================================ CFine ================================ *)
Definition soft_verdict (l : limiter) (t : tick) : bool := t_r1 t >=? l_limit l - l_spike l.

Definition fine_clause (l : limiter) (s : Z * bool * option tick) (o : fop) (b : fobs) : Prop :=
  let '(n, mode, fly) := s in
  match o, b with
  | FStart, FLifeRes e c => e = false /\ c = None
  | FShutdown, FLifeRes e c =>
      (e = true <-> n = 0) /\
      match fly, c with
      | Some t, Some r => n = 1 /\ r = soft_verdict l t
      | Some t, None => n <> 1
      | None, Some _ => False
      | None, None => True
      end
  | FBegin t, FBegun => 0 < n /\ fly = None
  | FBegin t, FNotBegun => ~ (0 < n /\ fly = None)
  | FEnd, FEnded r => exists t, fly = Some t /\ r = soft_verdict l t
  | FEnd, FNoEnd => fly = None
  | FQuery, FQueried r => r = mode
  | _, _ => False
  end.

Lemma bool_eqb_eq a b : Bool.eqb a b = true <-> a = b.
Proof. destruct a, b; cbn; split; congruence. Qed.

Lemma fine_viol_sound l s o b : fine_viol l s o b = [] <-> fine_clause l s o b.
Proof.
  destruct s as [[n mode] fly]. unfold fine_viol, fine_clause, soft_verdict.
  destruct o as [| |t| |]; destruct b as [e c| | |r| |r]; try (split; [discriminate|intros []]).
  - rewrite app_nil_iff, !when_nil, negb_true_iff, none_eqb_iff. reflexivity.
  - rewrite app_nil_iff, when_nil, eqb_iff_bool, Z.eqb_eq.
    destruct fly as [t|]; destruct c as [r|].
    + rewrite app_nil_iff, !when_nil, Z.eqb_eq, bool_eqb_eq. reflexivity.
    + rewrite when_nil, negb_true_iff, Z.eqb_neq. reflexivity.
    + split; [intros [_ H]; discriminate|intros [_ []]].
    + tauto.
  - rewrite when_nil, andb_true_iff, Z.ltb_lt, none_eqb_iff. reflexivity.
  - rewrite when_nil, negb_true_iff.
    rewrite <- not_true_iff_false, andb_true_iff, Z.ltb_lt, none_eqb_iff. reflexivity.
  - destruct fly as [t|].
    + rewrite when_nil, bool_eqb_eq. split; [intros ->; exists t; split; reflexivity|intros (t' & E & ->); injection E as ->; reflexivity].
    + split; [discriminate|intros (t' & E & _); discriminate].
  - rewrite when_nil, none_eqb_iff. reflexivity.
  - rewrite when_nil, bool_eqb_eq. reflexivity.
Qed.

Lemma fine_history_sound l ops obs s0 :
  hviol (fine_viol l) (fine_next l) s0 ops obs = [] <-> hclause (fine_next l) (fine_clause l) s0 ops obs.
Proof. apply hviol_sound. intros s o b. apply fine_viol_sound. Qed.

(* the harness's held checks read the same value before and after a GC *)
Definition uniform_op (o : fop) : Prop := match o with FBegin t => t_r1 t = t_r2 t | _ => True end.

Lemma uniform_verdict l s t : wf l -> t_r1 t = t_r2 t ->
  refuse (fst (check l s t)) = soft_verdict l t.
Proof.
  intros W U. rewrite (refuse_iff_soft_l l s t W), final_reading_due. unfold soft_verdict.
  destruct (due l s t); [rewrite <- U|]; reflexivity.
Qed.

Definition fly_uniform (fly : option tick) : Prop := match fly with Some t => t_r1 t = t_r2 t | None => True end.

Lemma model_fine_ok l : wf l -> forall ops s, finv s -> fly_uniform (f_fly s) -> Forall uniform_op ops ->
  hviol (fine_viol l) (fine_next l) (refcnt (f_life s), refuse (f_st s), f_fly s) ops (snd (frun l s ops)) = [].
Proof.
  intros W. induction ops as [|o ops IH]; intros s I FU U; [reflexivity|].
  inversion U as [|o' ops' UO UR]; subst.
  pose proof (fstep_inv l s o I) as I1. destruct I as [LI F]. pose proof LI as (H0 & _ & _).
  cbn [frun]. destruct o as [| |t| |]; cbn [fstep] in *.
  - pose proof (life_step_refcnt (f_life s) LStart) as RC.
    pose proof (shutdown_error_l (f_life s) LStart) as SE.
    destruct (life_step (f_life s) LStart) as [lf e]. cbn [fst snd] in *.
    assert (E : e = false) by (destruct e; [destruct (proj1 SE eq_refl) as [X _]; discriminate|reflexivity]).
    subst e. specialize (IH _ I1 FU UR). cbn [f_life f_st f_fly] in IH.
    destruct (frun l (mkF lf (f_st s) (f_fly s)) ops) as [s2 bs]. cbn [snd hviol] in *.
    apply app_nil_iff. split; [reflexivity|]. cbn [fine_next]. rewrite <- RC. exact IH.
  - pose proof (life_step_refcnt (f_life s) LShutdown) as RC.
    pose proof (shutdown_error_l (f_life s) LShutdown) as SE.
    destruct (life_step (f_life s) LShutdown) as [lf e]. cbn [fst snd] in *.
    assert (N : (if e then refcnt (f_life s) else refcnt (f_life s) - 1) = refcnt lf).
    { rewrite RC. destruct e.
      - destruct (proj1 SE eq_refl) as [_ Z0]. rewrite Z0. reflexivity.
      - destruct (refcnt (f_life s) =? 0) eqn:E0; [|reflexivity].
        exfalso. assert (X : false = true) by (apply SE; split; [reflexivity|lia]). discriminate. }
    assert (EE : e = true <-> refcnt (f_life s) = 0).
    { split; [intros E; apply SE in E; tauto|intros E; apply SE; split; [reflexivity|exact E]]. }
    destruct (refcnt (f_life s) =? 1) eqn:E1.
    + destruct (f_fly s) as [t|] eqn:FL.
      * cbn [fst] in I1. assert (FU1 : fly_uniform (f_fly (mkF lf (fst (check l (f_st s) t)) None))) by exact I.
        specialize (IH _ I1 FU1 UR). cbn [f_life f_st f_fly] in IH.
        destruct (frun l (mkF lf (fst (check l (f_st s) t)) None) ops) as [s2 bs]. cbn [snd hviol] in *.
        apply app_nil_iff. split.
        -- apply fine_viol_sound. cbn. split; [exact EE|]. split; [lia|]. apply uniform_verdict; [exact W|exact FU].
        -- cbn [fine_next]. rewrite N. exact IH.
      * cbn [fst] in I1. assert (FU1 : fly_uniform (f_fly (mkF lf (f_st s) None))) by exact I.
        specialize (IH _ I1 FU1 UR). cbn [f_life f_st f_fly] in IH.
        destruct (frun l (mkF lf (f_st s) None) ops) as [s2 bs]. cbn [snd hviol] in *.
        apply app_nil_iff. split.
        -- apply fine_viol_sound. cbn. split; [exact EE|exact I].
        -- cbn [fine_next]. rewrite N. exact IH.
    + cbn [fst] in I1. specialize (IH _ I1 FU UR). cbn [f_life f_st f_fly] in IH.
      destruct (frun l (mkF lf (f_st s) (f_fly s)) ops) as [s2 bs]. cbn [snd hviol] in *.
      apply app_nil_iff. split.
      * apply fine_viol_sound. cbn. split; [exact EE|]. destruct (f_fly s); [lia|exact I].
      * cbn [fine_next]. rewrite N. exact IH.
  - destruct (f_fly s) as [t'|] eqn:FL.
    + cbn [fst] in I1. rewrite <- FL in FU. specialize (IH _ I1 FU UR).
      destruct (frun l s ops) as [s2 bs]. cbn [snd hviol] in *.
      apply app_nil_iff. split; [|rewrite FL in IH; exact IH].
      apply fine_viol_sound. cbn. intros [_ X]. discriminate.
    + pose proof (life_inv_checking _ LI) as CK. destruct (checking (f_life s)) eqn:C; cbn [fst] in I1.
      * assert (FU1 : fly_uniform (f_fly (mkF (f_life s) (f_st s) (Some t)))) by exact UO.
        specialize (IH _ I1 FU1 UR). cbn [f_life f_st f_fly] in IH.
        destruct (frun l (mkF (f_life s) (f_st s) (Some t)) ops) as [s2 bs]. cbn [snd hviol] in *.
        apply app_nil_iff. split; [|exact IH].
        apply fine_viol_sound. cbn. split; [lia|reflexivity].
      * rewrite <- FL in FU. specialize (IH _ I1 FU UR).
        destruct (frun l s ops) as [s2 bs]. cbn [snd hviol] in *.
        apply app_nil_iff. split; [|rewrite FL in IH; exact IH].
        apply fine_viol_sound. cbn. intros [X _]. lia.
  - destruct (f_fly s) as [t|] eqn:FL.
    + cbn [fst] in I1. assert (FU1 : fly_uniform (f_fly (mkF (f_life s) (fst (check l (f_st s) t)) None))) by exact I.
      specialize (IH _ I1 FU1 UR). cbn [f_life f_st f_fly] in IH.
      destruct (frun l (mkF (f_life s) (fst (check l (f_st s) t)) None) ops) as [s2 bs]. cbn [snd hviol] in *.
      apply app_nil_iff. split; [|exact IH].
      apply fine_viol_sound. cbn. exists t. split; [reflexivity|]. apply uniform_verdict; [exact W|exact FU].
    + cbn [fst] in I1. rewrite <- FL in FU. specialize (IH _ I1 FU UR).
      destruct (frun l s ops) as [s2 bs]. cbn [snd hviol] in *.
      apply app_nil_iff. split; [|rewrite FL in IH; exact IH].
      apply fine_viol_sound. cbn. reflexivity.
  - cbn [fst] in I1. specialize (IH _ I1 FU UR).
    destruct (frun l s ops) as [s2 bs]. cbn [snd hviol] in *.
    apply app_nil_iff. split; [|exact IH].
    apply fine_viol_sound. cbn. reflexivity.
Qed.

(* ================================ CConfig ================================ *)
Definition rules_prop (c : config) : Prop :=
  0 < c_check c /\ c_hard_int c <= c_soft_int c /\ (0 < c_limit_mib c \/ 0 < c_limit_pct c) /\
  c_limit_pct c <= 100 /\ c_spike_pct c <= 100 /\
  (c_limit_mib c = 0 \/ c_spike_mib c < c_limit_mib c) /\
  (c_limit_pct c = 0 \/ c_spike_pct c < c_limit_pct c).

Lemma rules_ok_spec c : rules_ok c = true <-> rules_prop c.
Proof. unfold rules_ok, rules_prop. rewrite !andb_true_iff, !orb_true_iff. lia. Qed.

(* a configuration accepted by Validate obeys the documented rules; if a limiter was built and the
   expected (unbounded-integer) limits are defined, the observed limits are those, with spike <= limit *)
Definition config_clause (c : config) (total : option Z) (verr : nat) (chk : option (Z * Z)) : Prop :=
  verr = 0%nat ->
  rules_prop c /\
  (forall lim spk elim espk, chk = Some (lim, spk) -> expected_limits c total = Some (elim, espk) ->
     lim = elim /\ spk = espk /\ 0 <= spk <= lim /\ lim < U64).

Lemma config_viol_sound c total verr outcome chk :
  config_viol c total verr outcome chk = [] <-> config_clause c total verr chk.
Proof.
  unfold config_viol, config_clause.
  destruct (Nat.eqb verr 0) eqn:E; cbn [negb].
  - apply Nat.eqb_eq in E. rewrite app_nil_iff, when_nil, rules_ok_spec. split.
    + intros [R L] _. split; [exact R|]. intros lim spk elim espk -> EX. rewrite EX in L.
      apply when_nil in L. rewrite !andb_true_iff in L. lia.
    + intros H. destruct (H E) as [R L]. split; [exact R|].
      destruct chk as [[lim spk]|]; [|reflexivity].
      destruct (expected_limits c total) as [[elim espk]|]; [|reflexivity].
      apply when_nil. specialize (L lim spk elim espk eq_refl eq_refl). rewrite !andb_true_iff. lia.
  - apply Nat.eqb_neq in E. split; [intros _ X; contradiction|reflexivity].
Qed.

Lemma verr_code_zero c : verr_code (validate c) = 0%nat -> validate c = None.
Proof.
  unfold verr_code. destruct (validate c) as [s|]; [|reflexivity].
  repeat (match goal with |- context [String.eqb ?a ?b] => destruct (String.eqb a b) end); discriminate.
Qed.

Lemma model_config_ok c total : config_in_range c ->
  config_viol c total (verr_code (validate c)) (fst (outcome_obs (new_outcome c total)))
              (snd (outcome_obs (new_outcome c total))) = [].
Proof.
  intros R. apply config_viol_sound. intros VZ. apply verr_code_zero in VZ.
  pose proof (validate_none c VZ) as (V1 & V2 & V3 & V4 & V5 & V6 & V7).
  pose proof R as (R1 & R2 & R3 & R4).
  split; [unfold rules_prop; lia|].
  intros lim spk elim espk CH EX.
  unfold new_outcome in CH. destruct (new_limiter c total) as [l|] eqn:NL; [|discriminate].
  destruct (c_check c <=? 0); [discriminate|]. cbn in CH. injection CH as <- <-.
  unfold expected_limits in EX.
  destruct (c_limit_mib c =? 0) eqn:EM; cbn [negb] in EX.
  - apply Z.eqb_eq in EM. destruct total as [t|]; [|discriminate].
    destruct ((0 <=? t) && (100 * t <? U64)) eqn:B; [|discriminate].
    apply andb_true_iff in B. injection EX as <- <-.
    assert (BB : c_limit_mib c = 0 -> forall t', Some t = Some t' -> 0 <= t' /\ 100 * t' < U64).
    { intros _ t' E. injection E as <-. lia. }
    destruct (limits_wellformed_l c (Some t) l VZ R BB NL) as (W & _ & _ & _ & _ & P).
    destruct (P EM t eq_refl) as [PL PS]. destruct W as [[W0 W1] W2].
    rewrite PL in *. repeat split; try lia; try exact PS.
  - apply Z.eqb_neq in EM. injection EX as <- <-.
    assert (BB : c_limit_mib c = 0 -> forall t', total = Some t' -> 0 <= t' /\ 100 * t' < U64) by (intros X; contradiction).
    destruct (limits_wellformed_l c total l VZ R BB NL) as (W & _ & _ & _ & P & _).
    destruct (P EM) as (PL & PS & _). destruct W as [[W0 W1] W2].
    assert (S0 : (c_spike_mib c * mibBytes =? 0) = (c_spike_mib c =? 0)).
    { unfold mibBytes. destruct (c_spike_mib c =? 0) eqn:E; lia. }
    rewrite S0. rewrite PL in *. repeat split; try lia; try exact PS.
Qed.

(* ================================ CShare ================================ *)
Definition share_rel (a b : (nat * bool) * option nat) : Prop :=
  match snd a, snd b with
  | Some i, Some j => (i = j <-> fst (fst a) = fst (fst b))
  | _, _ => True
  end.

Lemma share_against_spec k id r :
  share_against k id r = true <-> Forall (share_rel ((k, true), Some id)) r.
Proof.
  induction r as [|[[k' ok'] [id'|]] r IH]; cbn [share_against].
  - split; [constructor|reflexivity].
  - rewrite andb_true_iff, IH, eqb_iff_bool, !Nat.eqb_eq. split.
    + intros [H F]. constructor; [exact H|exact F].
    + intros F. inversion F as [|x l H F']; subst. split; [exact H|exact F'].
  - rewrite IH. split.
    + intros F. constructor; [exact I|exact F].
    + intros F. inversion F; subst. assumption.
Qed.

Lemma share_rel_ok_irrelevant k ok ok' id b : share_rel ((k, ok), Some id) b <-> share_rel ((k, ok'), Some id) b.
Proof. unfold share_rel. cbn. reflexivity. Qed.

Lemma share_ok_spec l : share_ok l = true <-> ForallOrdPairs share_rel l.
Proof.
  induction l as [|[[k ok] [id|]] l IH]; cbn [share_ok].
  - split; [constructor|reflexivity].
  - rewrite andb_true_iff, share_against_spec, IH. split.
    + intros [F P]. constructor; [|exact P].
      eapply Forall_impl; [|exact F]. intros b. apply share_rel_ok_irrelevant.
    + intros P. inversion P as [|a l' F P']; subst. split; [|exact P'].
      eapply Forall_impl; [|exact F]. intros b. apply share_rel_ok_irrelevant.
  - rewrite IH. split.
    + intros P. constructor; [|exact P]. apply Forall_forall. intros b _. exact I.
    + intros P. inversion P; subst. assumption.
Qed.

Lemma fop_of_nth {A} (R : A -> A -> Prop) (l : list A) :
  (forall i j a b, (i < j)%nat -> nth_error l i = Some a -> nth_error l j = Some b -> R a b) ->
  ForallOrdPairs R l.
Proof.
  induction l as [|x l IH]; intros H; constructor.
  - apply Forall_forall. intros b IB. destruct (In_nth_error _ _ IB) as [j J].
    apply (H 0%nat (S j) x b); [lia|reflexivity|exact J].
  - apply IH. intros i j a b L HA HB. apply (H (S i) (S j) a b); [lia|exact HA|exact HB].
Qed.

Lemma nth_error_combine {A B} (l1 : list A) (l2 : list B) i a b :
  nth_error (combine l1 l2) i = Some (a, b) -> nth_error l1 i = Some a /\ nth_error l2 i = Some b.
Proof.
  revert l2 i. induction l1 as [|x l1 IH]; intros [|y l2] [|i]; cbn; try discriminate.
  - intros H. injection H as <- <-. split; reflexivity.
  - apply IH.
Qed.

Lemma model_share_ok calls : share_ok (combine calls (snd (factory_run [] calls))) = true.
Proof.
  apply share_ok_spec. apply fop_of_nth. intros i j [[ki oki] ri] [[kj okj] rj] L A B.
  apply nth_error_combine in A. apply nth_error_combine in B. destruct A as [A1 A2], B as [B1 B2].
  unfold share_rel. cbn [fst snd]. destruct ri as [a|]; [|exact I]. destruct rj as [b|]; [|exact I].
  exact (factory_shares_l calls i j ki oki kj okj a b A1 B1 A2 B2).
Qed.

Lemma factory_run_length calls : forall f, List.length (snd (factory_run f calls)) = List.length calls.
Proof.
  induction calls as [|[k ok] calls IH]; intros f; [reflexivity|].
  cbn [factory_run]. destruct (get_memory_limiter f k ok) as [f1 res]. specialize (IH f1).
  destruct (factory_run f1 calls). cbn [snd List.length] in *. rewrite IH. reflexivity.
Qed.

(* ================================ the link: the model passes the checker ================================ *)
(* [observe]: the case the harness would record if the implementation behaved exactly like the model *)
Theorem model_passes_run cfg total ticks l : new_limiter cfg total = Some l ->
  prop_ok (CRun cfg total ticks (run_obs l (st0 0) ticks)) = true.
Proof.
  intros N. unfold prop_ok, violations. rewrite N. destruct (wfb l) eqn:W; [|reflexivity].
  apply wfb_spec in W. pose proof (model_run_ok l W ticks (st0 0)) as HM. cbn [st0 sys0 fsys0 life0 refuse last_gc refcnt s_life s_st f_life f_st f_fly] in HM. rewrite HM. reflexivity.
Qed.

Theorem model_passes_gate cfg total ops l : new_limiter cfg total = Some l ->
  prop_ok (CGate cfg total ops (snd (gate_run l (st0 0) ops))) = true.
Proof.
  intros N. unfold prop_ok, violations. rewrite N. destruct (wfb l) eqn:W; [|reflexivity].
  apply wfb_spec in W. pose proof (model_gate_ok l W ops (st0 0)) as HM. cbn [st0 sys0 fsys0 life0 refuse last_gc refcnt s_life s_st f_life f_st f_fly] in HM. rewrite HM. reflexivity.
Qed.

Theorem model_passes_life ops : prop_ok (CLife ops (life_obs_run life0 ops)) = true.
Proof. unfold prop_ok, violations. pose proof (model_life_ok ops life0 life0_inv) as HM. cbn [st0 sys0 fsys0 life0 refuse last_gc refcnt s_life s_st f_life f_st f_fly] in HM. rewrite HM. reflexivity. Qed.

Theorem model_passes_sys cfg total ops l : new_limiter cfg total = Some l ->
  prop_ok (CSys cfg total ops (snd (sys_run l (sys0 0) ops))) = true.
Proof.
  intros N. unfold prop_ok, violations. rewrite N. destruct (wfb l) eqn:W; [|reflexivity].
  apply wfb_spec in W. pose proof (model_sys_ok l W ops (sys0 0) life0_inv) as HM. cbn [st0 sys0 fsys0 life0 refuse last_gc refcnt s_life s_st f_life f_st f_fly] in HM. rewrite HM. reflexivity.
Qed.

Theorem model_passes_fine cfg total ops l : new_limiter cfg total = Some l -> Forall uniform_op ops ->
  prop_ok (CFine cfg total ops (snd (frun l (fsys0 0) ops))) = true.
Proof.
  intros N U. unfold prop_ok, violations. rewrite N. destruct (wfb l) eqn:W; [|reflexivity].
  apply wfb_spec in W. pose proof (model_fine_ok l W ops (fsys0 0) (fsys0_inv 0) I U) as HM. cbn [st0 sys0 fsys0 life0 refuse last_gc refcnt s_life s_st f_life f_st f_fly] in HM. rewrite HM. reflexivity.
Qed.

Theorem model_passes_config c total : config_in_range c ->
  prop_ok (CConfig c total (verr_code (validate c)) (fst (outcome_obs (new_outcome c total)))
                   (snd (outcome_obs (new_outcome c total)))) = true.
Proof. intros R. unfold prop_ok, violations. rewrite (model_config_ok c total R). reflexivity. Qed.

Theorem model_passes_share calls : prop_ok (CShare calls (snd (factory_run [] calls))) = true.
Proof.
  unfold prop_ok, violations. rewrite factory_run_length, Nat.eqb_refl, model_share_ok. reflexivity.
Qed.
