(* C18/Audit.v — hand audit of the API surface of the three packages (no proofs here): every
   method of *MemoryLimiter with (writes mustRefuse, writes lastGCDone), and the methods of the
   processor and extension wrappers.  Obligations.v proves that these lists are exactly the
   method sets the translator reads from the current source, so a new method (a possible new
   writer or a new path around the gate) breaks a named obligation and forces a re-audit; the
   write flags themselves are re-checked against the source text on every run by
   props/C18/check.py (source obligations).

   Callers of CheckMemLimits in the tree (non-test code): exactly one — the monitoring goroutine
   spawned by Start (memorylimiter.go).  mustRefuse is an atomic.Bool written only by
   CheckMemLimits; lastGCDone is a plain time.Time written by NewMemoryLimiter (before the value
   is shared) and by doGCandReadMemStats, which only CheckMemLimits calls.  With one goroutine at
   a time (Model.v fsys: at most one check in flight; the last Shutdown waits for it) there is a
   single writer. *)
From Coq Require Import String List Bool.
Import ListNotations.
Local Open Scope string_scope.

Definition limiter_methods : list (string * (bool * bool)) :=
  [ ("CheckMemLimits", (true, false));
    ("MustRefuse", (false, false));
    ("Shutdown", (false, false));
    ("Start", (false, false));
    ("doGCandReadMemStats", (false, true));
    ("readMemStats", (false, false)) ].

Definition writers_of_must_refuse : list string :=
  map fst (filter (fun m => fst (snd m)) limiter_methods).
Definition writers_of_last_gc : list string :=
  map fst (filter (fun m => snd (snd m)) limiter_methods).

(* the single writer of each field *)
Definition only_check_mem_limits : list string := ["CheckMemLimits"].
Definition only_do_gc : list string := ["doGCandReadMemStats"].

(* processor: the four gates (Model.process) + start/shutdown delegating to the limiter *)
Definition processor_methods : list string :=
  [ "processLogs"; "processMetrics"; "processProfiles"; "processTraces"; "shutdown"; "start" ].

(* extension: MustRefuse (Model GExtMustRefuse / SQuery) + Start/Shutdown delegating to the limiter *)
Definition extension_methods : list string := [ "MustRefuse"; "Shutdown"; "Start" ].
