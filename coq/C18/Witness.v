(* C18/Witness.v — non-vacuity of the hypotheses used in Properties.v and concrete evaluations. *)
From Verif Require Import Common.Base Generated.MemLimiter18 C18.Model C18.Proofs C18.ProofsSys C18.ProofsFine C18.ProofsTotal C18.Harness C18.Clauses C18.ClausesSound2.
From Coq Require Import String.
Local Open Scope Z_scope.

(* a validated fixed-mode configuration: 100 MiB limit, 20 MiB spike, soft interval 10 s, hard 0 *)
Definition cfg_fixed : config := mkConfig 1000000000 10000000000 0 100 20 0 0.
(* a validated percentage configuration: 50 % / default spike, on a 16 GiB machine *)
Definition cfg_pct : config := mkConfig 1000000000 10000000000 0 0 0 50 0.
Definition total16g : Z := 17179869184.

Example ex_validate_fixed : validate cfg_fixed = None /\ config_in_range cfg_fixed.
Proof. split; [vm_compute; reflexivity|unfold config_in_range, cfg_fixed, U32; cbn; lia]. Qed.

Example ex_validate_pct :
  validate cfg_pct = None /\ config_in_range cfg_pct /\ 0 <= total16g /\ 100 * total16g < U64.
Proof. split; [vm_compute; reflexivity|]. split; [unfold config_in_range, cfg_pct, U32; cbn; lia|]. unfold total16g, U64. lia. Qed.

(* DESIGN's bound total < 2^57 implies the bound used by limits_wellformed *)
Example ex_2_57 : forall t, 0 <= t < 2 ^ 57 -> 100 * t < U64.
Proof. intros t H. unfold U64. change (2 ^ 57) with 144115188075855872 in H. lia. Qed.

Definition lim_fixed : limiter := mkLimiter 104857600 20971520 10000000000 0.

Example ex_new_fixed : new_limiter cfg_fixed None = Some lim_fixed.
Proof. vm_compute. reflexivity. Qed.

Example ex_new_pct :
  option_map (fun l => (l_limit l, l_spike l)) (new_limiter cfg_pct (Some total16g)) = Some (8589934592, 1717986918).
Proof. vm_compute. reflexivity. Qed.

Example ex_wf : wf lim_fixed.
Proof. unfold wf, lim_fixed, U64. cbn. lia. Qed.

(* rejected configurations, one per error of Validate *)
Example ex_rejected :
  validate (mkConfig 0 0 0 100 20 0 0) = Some "errCheckIntervalOutOfRange"%string /\
  validate (mkConfig 1 0 5 100 20 0 0) = Some "errInconsistentGCMinInterval"%string /\
  validate (mkConfig 1 0 0 0 0 0 0) = Some "errLimitOutOfRange"%string /\
  validate (mkConfig 1 0 0 0 0 101 0) = Some "errLimitPercentageOutOfRange"%string /\
  validate (mkConfig 1 0 0 100 100 0 0) = Some "errSpikeLimitOutOfRange"%string /\
  validate (mkConfig 1 0 0 0 0 50 50) = Some "errSpikeLimitPercentageOutOfRange"%string.
Proof. vm_compute. repeat split; reflexivity. Qed.

(* a history on lim_fixed (soft limit 80 MiB = 83886080, hard 100 MiB = 104857600), clock in ns:
   1. below soft                                  -> accept
   2. at soft, 5 s after construction (< 10 s)    -> refuse, no GC
   3. at soft, 11 s: soft GC due, GC frees memory -> accept again
   4. above hard, 1 ns after the GC: hard interval 0 elapsed -> GC, still above soft -> refuse
   5. below soft                                  -> resume *)
Definition hist : list tick :=
  [ mkTick 1000000000 1000000000 83886079 0;
    mkTick 5000000000 5000000000 83886080 0;
    mkTick 11000000000 11000000001 83886080 1000;
    mkTick 11000000002 11000000003 104857600 83886080;
    mkTick 12000000000 12000000000 5 5 ].

Example ex_history :
  snd (run lim_fixed (st0 0) hist) =
  [ []; [LogRefusing]; [LogSoftGC; EvGC; LogAfterGC]; [LogHardGC; EvGC; LogAfterGC; LogRefusing]; [LogResume] ].
Proof. vm_compute. reflexivity. Qed.

Example ex_history_modes :
  map (fun k => refuse (fst (run lim_fixed (st0 0) (firstn k hist)))) [1; 2; 3; 4; 5]%nat
  = [false; true; false; true; false].
Proof. vm_compute. reflexivity. Qed.

Example ex_history_gcs :
  map gc_count (snd (run lim_fixed (st0 0) hist)) = [0; 0; 1; 1; 0]%nat /\
  last_gc (fst (run lim_fixed (st0 0) hist)) = 11000000003.
Proof. vm_compute. split; reflexivity. Qed.

(* hypotheses of gc_only_when_due / gc_throttled are satisfiable: a GC is forced in tick 3 *)
Example ex_gc_forced :
  gc_forced (snd (check lim_fixed (fst (run lim_fixed (st0 0) (firstn 2 hist))) (nth 2 hist (mkTick 0 0 0 0)))) = true
  /\ l_hard_int lim_fixed <= l_soft_int lim_fixed.
Proof. split; [vm_compute; reflexivity|cbn; lia]. Qed.

(* the gate: refuse -> refused, nothing forwarded; accept -> forwarded, downstream's error returned *)
Definition gate_ops : list gop :=
  [ GConsume 0 1 None; GCheck (mkTick 5000000000 5000000000 83886080 0);
    GConsume 1 2 None; GExtMustRefuse; GConsume 2 3 (Some 7);
    GCheck (mkTick 6000000000 6000000000 10 0); GConsume 3 4 (Some 7); GExtMustRefuse ].

Example ex_gate :
  snd (gate_run lim_fixed (st0 0) gate_ops) =
  [ OConsumed None [(0%nat, 1)]; OChecked true 0;
    OConsumed (Some ErrDataRefused) []; OExt true; OConsumed (Some ErrDataRefused) [];
    OChecked false 0; OConsumed (Some (ErrDown 7)) [(3%nat, 4)]; OExt false ].
Proof. vm_compute. reflexivity. Qed.

Example ex_gate_mid : forall o, In o [GConsume 1 2 None; GExtMustRefuse; GConsume 2 3 (Some 7)] -> is_check o = false.
Proof. intros o [<-|[<-|[<-|[]]]]; reflexivity. Qed.

(* lifetimes: three users sharing the limiter *)
Example ex_three_users :
  map (fun k => checking (fst (life_run life0 (firstn k (repeat LStart 3 ++ repeat LShutdown 3))))) [0; 1; 2; 3; 4; 5; 6]%nat
  = [false; true; true; true; true; true; false].
Proof. vm_compute. reflexivity. Qed.

Example ex_interleaved_users :
  (* A starts, B starts, A stops, C starts, B stops, C stops: the checker runs throughout *)
  map (fun k => checking (fst (life_run life0 (firstn k [LStart; LStart; LShutdown; LStart; LShutdown; LShutdown]))))
      [1; 2; 3; 4; 5; 6]%nat = [true; true; true; true; true; false].
Proof. vm_compute. reflexivity. Qed.

Example ex_shutdown_not_started : snd (life_run life0 [LShutdown; LStart; LShutdown; LShutdown]) = [true; false; false; true].
Proof. vm_compute. reflexivity. Qed.

(* a restarted limiter checks again *)
Example ex_restart :
  let s := fst (life_run life0 [LStart; LShutdown; LStart]) in refcnt s = 1 /\ goroutine s = true /\ checking s = true.
Proof. vm_compute. repeat split; reflexivity. Qed.

(* The code BEFORE fix 90db205a4 (Start did not re-arm the ticker): the old step function, kept
   only to record the witness of the repaired defect C18-RESTART. *)
Definition life_step_before_fix (s : life) (o : lop) : life * bool :=
  match o with
  | LStart =>
      let rc := refcnt s + 1 in
      if rc =? 1 then (mkLife rc true (ticker_live s), false)
      else (mkLife rc (goroutine s) (ticker_live s), false)
  | LShutdown => life_step s LShutdown
  end.

Example ex_restart_before_fix :
  let s := fst (life_step_before_fix (fst (life_step_before_fix (fst (life_step_before_fix life0 LStart)) LShutdown)) LStart) in
  refcnt s = 1 /\ goroutine s = true /\ checking s = false.
Proof. vm_compute. repeat split; reflexivity. Qed.

(* the factory: configs 7, 7, 9 (not constructible), 9 (constructible now), 7 -> limiters 0, 0, -, 1, 0 *)
Example ex_factory :
  snd (factory_run [] [(7, true); (7, false); (9, false); (9, true); (7, true)]%nat)
  = [Some 0; Some 0; None; Some 1; Some 0]%nat.
Proof. vm_compute. reflexivity. Qed.

(* the whole limiter: two users, usage crosses the soft limit (80 MiB) and comes back; after the
   last Shutdown ticks are no longer delivered *)
Definition sys_ops : list sop :=
  [ STick (mkTick 1 1 90000000 0); SStart; SStart; STick (mkTick 2 2 90000000 0); SQuery; SShutdown;
    STick (mkTick 3 3 10 0); SShutdown; STick (mkTick 4 4 90000000 0); SQuery ].

Example ex_sys :
  snd (sys_run lim_fixed (sys0 0) sys_ops) =
  [ SNoTick; SLifeRes false; SLifeRes false; STicked true 0; SQueried true; SLifeRes false;
    STicked false 0; SLifeRes false; SNoTick; SQueried false ].
Proof. vm_compute. reflexivity. Qed.

Example ex_sys_hyps :
  0 < refcnt (s_life (fst (sys_run lim_fixed (sys0 0) (firstn 3 sys_ops)))) /\
  refcnt (s_life (fst (sys_run lim_fixed (sys0 0) (firstn 8 sys_ops)))) = 0 /\
  (forall o, In o [STick (mkTick 4 4 90000000 0); SQuery] -> passive o = true).
Proof.
  split; [vm_compute; reflexivity|]. split; [vm_compute; reflexivity|].
  intros o [<-|[<-|[]]]; reflexivity.
Qed.

(* restart at system level: the usage is seen again and refused *)
Example ex_sys_restart :
  snd (sys_run restart_limiter (sys0 0)
         [SStart; SShutdown; SStart; STick (mkTick 1000000000 1000000000 4000000000 4000000000); SQuery]) =
  [SLifeRes false; SLifeRes false; SLifeRes false; STicked true 1; SQueried true].
Proof. exact sys_restart_checks_l. Qed.

(* a check in flight when the last Shutdown arrives: two users, a check begins with usage above
   the soft limit, the first user leaves (no wait), the last Shutdown waits and the result
   (refusing) is stored when it returns; afterwards nothing begins *)
Definition fine_ops : list fop :=
  [ FStart; FStart; FBegin (mkTick 1 1 90000000 0); FQuery; FShutdown; FQuery; FShutdown; FQuery;
    FBegin (mkTick 2 2 0 0); FEnd ].

Example ex_fine :
  snd (frun lim_fixed (fsys0 0) fine_ops) =
  [ FLifeRes false None; FLifeRes false None; FBegun; FQueried false; FLifeRes false None; FQueried false;
    FLifeRes false (Some true); FQueried true; FNotBegun; FNoEnd ].
Proof. vm_compute. reflexivity. Qed.

Example ex_fine_coarsen :
  coarsen life0 None fine_ops =
  [ SStart; SStart; SQuery; SShutdown; SQuery; STick (mkTick 1 1 90000000 0); SShutdown; SQuery ].
Proof. vm_compute. reflexivity. Qed.

Example ex_fine_hyps :
  let s := fst (frun lim_fixed (fsys0 0) (firstn 6 fine_ops)) in
  refcnt (f_life s) = 1 /\ f_fly s = Some (mkTick 1 1 90000000 0) /\
  refcnt (f_life (fst (frun lim_fixed (fsys0 0) (firstn 8 fine_ops)))) = 0.
Proof. vm_compute. repeat split; reflexivity. Qed.

(* total memory: a container with a 2 GiB cgroup-v2 limit on a 16 GiB host; an unlimited v1
   container falling back to meminfo; both environments are bounded *)
Definition env_v2 : mem_env := mkEnv (Some true) (memory_quota_v2 (V2Int 2147483648)) None (Some total16g).
Definition env_v1_unlimited : mem_env :=
  mkEnv (Some false) QErr (Some (memory_quota_v1 true (Some unlimitedMemorySize))) (Some total16g).

Example ex_total_memory :
  total_memory env_v2 = Some 2147483648 /\ total_memory env_v1_unlimited = Some total16g /\
  total_memory (mkEnv (Some true) (memory_quota_v2 V2Max) None (Some total16g)) = Some total16g /\
  total_memory (mkEnv (Some true) (memory_quota_v2 V2Garbage) None (Some total16g)) = None /\
  total_memory (mkEnv None QErr None (Some total16g)) = None.
Proof. vm_compute. repeat split; reflexivity. Qed.

Example ex_env_bounded : env_bounded env_v2 /\ env_bounded env_v1_unlimited.
Proof.
  split; split.
  - intros q H NE. cbn in H. injection H as <-. unfold U64. lia.
  - intros m H. cbn in H. injection H as <-. unfold total16g, U64. lia.
  - intros q H NE. cbn in H. injection H as <-. exfalso. apply NE. reflexivity.
  - intros m H. cbn in H. injection H as <-. unfold total16g, U64. lia.
Qed.

Example ex_pct_on_cgroup :
  option_map (fun l => (l_limit l, l_spike l)) (new_limiter cfg_pct (total_memory env_v2)) = Some (1073741824, 214748364).
Proof. vm_compute. reflexivity. Qed.

(* the clause checkers: satisfied by a correct observation, and each code fires on a wrong one *)
Example ex_clauses_ok :
  violations (CRun cfg_fixed None [(5000000000, 83886080, 0); (11000000000, 83886080, 1000)]
                   [(true, 0%nat, false, [5%nat]); (false, 1%nat, true, [3; 0; 4]%nat)]) = [] /\
  violations (CLife [true; false; true] [(false, 1, true, true); (false, 0, false, false); (false, 1, true, true)]) = [].
Proof. vm_compute. split; reflexivity. Qed.

Example ex_clauses_violated :
  (* not refusing at the soft limit; a GC although the soft interval has not elapsed; a dead checker after a restart;
     a payload forwarded while refusing *)
  violations (CRun cfg_fixed None [(5000000000, 83886080, 0)] [(false, 0%nat, false, [])]) = [1%nat] /\
  violations (CRun cfg_fixed None [(5000000000, 83886080, 0)] [(false, 1%nat, true, [])]) = [2%nat] /\
  violations (CLife [true; false; true] [(false, 1, true, true); (false, 0, false, false); (false, 1, true, false)]) = [13%nat] /\
  violations (CGate cfg_fixed None [GCheck (mkTick 1 1 83886080 0); GConsume 0 1 None]
                    [OChecked true 0; OConsumed None [(0%nat, 1)]]) = [6; 7]%nat.
Proof. vm_compute. repeat split; reflexivity. Qed.

Example ex_before_first_check : checks_of [GConsume 0 1 None; GExtMustRefuse; GConsume 3 2 (Some 4)] = [].
Proof. reflexivity. Qed.

(* the link theorems are not vacuous: a limiter is built, the held checks of fine_ops are uniform?
   (fine_ops uses t_r1 <> t_r2, so a uniform script is given here), and the checker really
   evaluates the model's observation (true) and rejects a corrupted one *)
Definition fine_uniform_ops : list fop :=
  [ FStart; FBegin (mkTick 0 0 90000000 90000000); FQuery; FShutdown; FQuery; FBegin (mkTick 0 0 5 5); FEnd ].

Example ex_link_hyps :
  new_limiter cfg_fixed None = Some lim_fixed /\ Forall uniform_op fine_uniform_ops /\ config_in_range cfg_fixed.
Proof.
  split; [vm_compute; reflexivity|]. split; [repeat constructor|].
  unfold config_in_range, cfg_fixed, U32; cbn; lia.
Qed.

Example ex_link_eval :
  prop_ok (CFine cfg_fixed None fine_uniform_ops (snd (frun lim_fixed (fsys0 0) fine_uniform_ops))) = true /\
  snd (frun lim_fixed (fsys0 0) fine_uniform_ops) =
    [FLifeRes false None; FBegun; FQueried false; FLifeRes false (Some true); FQueried true; FNotBegun; FNoEnd] /\
  prop_ok (CFine cfg_fixed None fine_uniform_ops
             [FLifeRes false None; FBegun; FQueried false; FLifeRes false None; FQueried true; FNotBegun; FNoEnd]) = false /\
  prop_ok (CShare [(7, true); (7, true); (9, true)]%nat [Some 0; Some 1; Some 1]%nat) = false /\
  prop_ok (CConfig cfg_fixed None 0 2 (Some (104857600, 20971521))) = false.
Proof. vm_compute. repeat split; reflexivity. Qed.

(* two users started with contexts 0 and 1; context 0 (the FIRST starter's) ends: the checker keeps running *)
Example ex_ctx_end :
  ctx_obs_run life0 [CStart 0; CStart 1; CCtxEnd 0; CShutdown; CCtxEnd 1; CShutdown]%nat =
  [(false, 1, true, true); (false, 2, true, true); (false, 2, true, true); (false, 1, true, true);
   (false, 1, true, true); (false, 0, false, false)] /\
  violations (CCtxLife [CStart 0; CCtxEnd 0]%nat [(false, 1, true, true); (false, 1, false, false)]) = [12; 13]%nat.
Proof. vm_compute. split; reflexivity. Qed.
