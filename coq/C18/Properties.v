(* C18/Properties.v — the property theorems, nothing else.  Each is closed by [exact lemma] and
   followed by Print Assumptions (captured into the evidence by the check driver).

   Vocabulary (Model.v): [check l s t] is one CheckMemLimits of limiter [l] in state [s] with the
   environment [t] (clock, first reading, reading after a forced GC); [run] a whole history of
   checks; [final_reading] the most recent measurement (post-GC reading iff a GC was forced);
   [gate_run] a history of checks interleaved with Consume* calls on the processors sharing the
   limiter and MustRefuse calls of the extension; [life_run] a Start/Shutdown history.
   The limit predicates, checker constructors and Validate are Generated.MemLimiter18 (T1). *)
From Verif Require Import Common.Base Generated.MemLimiter18 C18.Model C18.Proofs C18.ProofsShare C18.ProofsSys C18.ProofsFine C18.ProofsTotal
  Generated.C18ApiExt Generated.C18ApiProc C18.Audit C18.Obligations C18.Harness C18.Clauses C18.ClausesSound C18.ClausesSound2 C18.ProofsCtx.
From Coq Require String.
Local Open Scope Z_scope.

(* Clause 1.  After EVERY check of EVERY history (any readings, any GC effects, any clock) the
   limiter refuses iff the most recent measurement is at or above limit - spike (unbounded
   integers, no wrap), for every limiter with 0 <= spike <= limit < 2^64. *)
Theorem refuse_iff_soft : forall l s ts t, wf l ->
  refuse (fst (run l s (ts ++ [t]))) =
  (final_reading l (fst (run l s ts)) t >=? l_limit l - l_spike l).
Proof. exact refuse_iff_soft_history_l. Qed.

(* ... and every configuration accepted by Validate yields such a limiter (fixed mode: always;
   percentage mode: when 100 * total memory < 2^64), so the iff holds for all of them. *)
Theorem refuse_iff_soft_validated : forall c total l s ts t,
  validate c = None -> config_in_range c ->
  (c_limit_mib c = 0 -> forall tm, total = Some tm -> 0 <= tm /\ 100 * tm < U64) ->
  new_limiter c total = Some l ->
  refuse (fst (run l s (ts ++ [t]))) =
  (final_reading l (fst (run l s ts)) t >=? l_limit l - l_spike l).
Proof. exact refuse_iff_soft_validated_l. Qed.

(* What the code computes with no hypothesis at all (the uint64 wrap of limit - spike explicit). *)
Theorem refuse_is_above_soft : forall l s t,
  refuse (fst (check l s t)) = above_soft l (final_reading l s t).
Proof. exact refuse_is_above_soft_l. Qed.

(* The state carries no hysteresis: the outcome of a check does not depend on the previous mode. *)
Theorem no_hysteresis : forall l b1 b2 g t, fst (check l (mkSt b1 g) t) = fst (check l (mkSt b2 g) t).
Proof. exact no_hysteresis_l. Qed.

(* Clause 2.  A GC is forced iff the first reading is at/above the soft limit and the minimum
   interval of the applicable severity (hard if reading >= limit, soft otherwise) has elapsed
   since the last forced GC; lastGCDone is updated exactly then; at most one GC per check. *)
Theorem gc_only_when_due : forall l s t, wf l ->
  (gc_forced (snd (check l s t)) = true <->
   t_r1 t >= l_limit l - l_spike l /\
   t_now t - last_gc s > (if t_r1 t >=? l_limit l then l_hard_int l else l_soft_int l)) /\
  last_gc (fst (check l s t)) = (if gc_forced (snd (check l s t)) then t_gc_done t else last_gc s) /\
  (gc_count (snd (check l s t)) <= 1)%nat /\
  (gc_count (snd (check l s t)) = 1%nat <-> gc_forced (snd (check l s t)) = true).
Proof. exact gc_only_when_due_l. Qed.

(* GC throttling over histories: whenever a GC is forced, more than the hard-limit interval
   (the smaller one for validated configurations) has passed since lastGCDone, and lastGCDone is
   the initial value or the completion time of an earlier forced GC of the history. *)
Theorem gc_throttled : forall l s ts t,
  l_hard_int l <= l_soft_int l ->
  gc_forced (snd (check l (fst (run l s ts)) t)) = true ->
  t_now t - last_gc (fst (run l s ts)) > l_hard_int l /\
  (last_gc (fst (run l s ts)) = last_gc s \/
   exists t', In t' ts /\ last_gc (fst (run l s ts)) = t_gc_done t').
Proof.
  exact (fun l s ts t H G => conj (gc_throttled_l l (fst (run l s ts)) t H G) (last_gc_in_history_l l s ts)).
Qed.

(* Clause "every configuration accepted by validation": limits are well formed — spike <= limit,
   no uint64 wrap in limit - spike, in MiB * 2^20 or in pct * total / 100; default spike = limit / 5. *)
Theorem limits_wellformed : forall c total l,
  validate c = None -> config_in_range c ->
  (c_limit_mib c = 0 -> forall t, total = Some t -> 0 <= t /\ 100 * t < U64) ->
  new_limiter c total = Some l ->
  wf l /\
  l_soft_int l = c_soft_int c /\ l_hard_int l = c_hard_int c /\ l_hard_int l <= l_soft_int l /\
  (c_limit_mib c <> 0 ->
     l_limit l = c_limit_mib c * mibBytes /\
     l_spike l = (if c_spike_mib c =? 0 then l_limit l / 5 else c_spike_mib c * mibBytes) /\
     l_spike l < l_limit l) /\
  (c_limit_mib c = 0 -> forall t, total = Some t ->
     l_limit l = c_limit_pct c * t / 100 /\
     l_spike l = (if c_spike_pct c * t / 100 =? 0 then l_limit l / 5 else c_spike_pct c * t / 100)).
Proof. exact limits_wellformed_l. Qed.

(* Without the bound on total memory the statement is FALSE: with 2^63 bytes of total memory a
   validated (limit 2 %, spike 1 %) configuration gets limit = 0 < spike, the soft limit wraps to
   ~2^64 and a terabyte of usage is not refused.  (Unreachable on real machines: needs >= 2^64/100
   bytes, about 184 PB, of total memory — recorded in NOTES.md, not a known finding.) *)
Theorem limits_wellformed_refuted :
  validate wrap_cfg = None /\ config_in_range wrap_cfg /\
  exists l, new_limiter wrap_cfg (Some wrap_total) = Some l /\ l_limit l = 0 /\ l_spike l = 92233720368547758 /\
            above_soft l 1000000000000 = false.
Proof. exact limits_wrap_l. Qed.

(* Clause 3.  In any history of checks, consumes and extension queries, starting anywhere: a
   consume call made while refusing returns the (non-permanent) data-refused error and forwards
   nothing; made while not refusing it forwards exactly the payload and returns downstream's
   result.  The extension's MustRefuse returns the mode.  Neither changes the limiter state. *)
Theorem processor_gate : forall l s pre sg id down,
  let s' := fst (gate_run l s pre) in
  gate_step l s' (GConsume sg id down) =
    (s', if refuse s' then OConsumed (Some ErrDataRefused) []
         else OConsumed (option_map ErrDown down) [(sg, id)]) /\
  gate_step l s' GExtMustRefuse = (s', OExt (refuse s')) /\
  limiter_error_permanent ErrDataRefused = false.
Proof.
  exact (fun l s pre sg id down =>
           conj (gate_consume_l l (fst (gate_run l s pre)) sg id down) (conj eq_refl eq_refl)).
Qed.

(* The generic consume path of one processor (processorhelper closure over processTraces/Metrics/Logs/Profiles), any payload
   type, any next consumer. *)
Theorem consume_gate : forall (A : Type) (next : A -> option err) (d : A),
  consume true next d = (Some ErrDataRefused, []) /\ consume false next d = (next d, [d]).
Proof. exact (fun A next d => conj (consume_refusing next d) (consume_accepting next d)). Qed.

(* Everything the downstream consumers ever receive is exactly the payloads consumed while the
   limiter was not refusing, in order, unmodified. *)
Theorem gate_forwards_exactly_accepted : forall l s ops,
  forwarded_of (snd (gate_run l s ops)) = accepted l s ops.
Proof. exact gate_forwards_l. Qed.

(* The mode seen by the processors/extension is the one set by the check history alone ... *)
Theorem gate_state_is_check_history : forall l s ops,
  fst (gate_run l s ops) = fst (run l s (checks_of ops)).
Proof. exact gate_state_l. Qed.

(* ... hence, end to end: after the most recent check [t] (whatever came before, whatever
   consumes happened since), the gate refuses iff that check's final measurement >= limit - spike. *)
Theorem gate_end_to_end : forall l s pre t mid, wf l ->
  (forall o, In o mid -> is_check o = false) ->
  refuse (fst (gate_run l s (pre ++ GCheck t :: mid))) =
  (final_reading l (fst (gate_run l s pre)) t >=? l_limit l - l_spike l).
Proof. exact gate_end_to_end_l. Qed.

(* Clause 4.  Reference counting, for EVERY Start/Shutdown history on a fresh limiter: the count
   is never negative, the monitoring goroutine exists iff the count is positive, periodic checks
   happen only while there are users and never after the last one has shut down. *)
Theorem checker_lifetime : forall ops,
  let s := fst (life_run life0 ops) in
  0 <= refcnt s /\ goroutine s = (0 <? refcnt s) /\
  (checking s = true -> 0 < refcnt s) /\ (refcnt s = 0 -> checking s = false).
Proof. exact checker_lifetime_l. Qed.

(* Shutdown without a running user is the only error; the count is starts - successful shutdowns. *)
Theorem shutdown_error_iff_not_started : forall ops o,
  snd (life_step (fst (life_run life0 ops)) o) = true <->
  o = LShutdown /\ refcnt (fst (life_run life0 ops)) = 0.
Proof. exact (fun ops o => shutdown_error_l (fst (life_run life0 ops)) o). Qed.

Theorem refcount_balance : forall ops,
  refcnt (fst (life_run life0 ops)) = starts ops - ok_shutdowns ops (snd (life_run life0 ops)).
Proof. exact refcount_balance_l. Qed.

(* "keeps running until the last user has shut down and then stops": for EVERY Start/Shutdown
   history — restarts after a complete shutdown included — periodic checks happen exactly while
   the limiter has users.  (Before fix 90db205a4 this failed after a restart: the ticker stopped
   by the last Shutdown was never re-armed; Witness.v keeps that witness against the old step.) *)
Theorem checker_runs_while_used : forall ops,
  let s := fst (life_run life0 ops) in checking s = (0 <? refcnt s).
Proof. exact checker_runs_while_used_l. Qed.

(* "the processors sharing one limiter": for EVERY sequence of create calls on one factory, two
   successful calls get the same limiter iff they were given the same config object; a call fails
   only when no limiter is cached for its config and none can be built, and then caches nothing. *)
Theorem factory_shares_per_config : forall calls i j ki oki kj okj a b,
  nth_error calls i = Some (ki, oki) -> nth_error calls j = Some (kj, okj) ->
  nth_error (snd (factory_run [] calls)) i = Some (Some a) ->
  nth_error (snd (factory_run [] calls)) j = Some (Some b) ->
  (a = b <-> ki = kj).
Proof. exact factory_shares_l. Qed.

Theorem factory_failure_not_cached : forall f k ok,
  snd (get_memory_limiter f k ok) = None ->
  ok = false /\ f_lookup k f = None /\ fst (get_memory_limiter f k ok) = f.
Proof. exact get_none_l. Qed.

(* The limiter as a whole (Start/Shutdown, ticker-driven checks, MustRefuse queries), EVERY
   schedule from a fresh limiter: the lifetime part evolves by the Start/Shutdown operations
   alone, and mustRefuse/lastGCDone are those of the history of the ticks that were delivered. *)
Theorem sys_state_is_effective_history : forall l s os,
  s_life (fst (sys_run l s os)) = fst (life_run (s_life s) (life_ops os)) /\
  s_st (fst (sys_run l s os)) = fst (run l (s_st s) (effective (s_life s) os)).
Proof. exact (fun l s os => conj (sys_life_l l s os) (sys_state_l l s os)). Qed.

(* While the limiter has users — after any schedule, restarts included — every tick IS a check
   and after it the limiter refuses iff the most recent measurement >= limit - spike. *)
Theorem sys_refuse_iff_soft : forall l t0 os t, wf l ->
  let s := fst (sys_run l (sys0 t0) os) in
  0 < refcnt (s_life s) ->
  snd (sys_step l s (STick t)) <> SNoTick /\
  refuse (s_st (fst (sys_run l (sys0 t0) (os ++ [STick t])))) =
  (final_reading l (s_st s) t >=? l_limit l - l_spike l).
Proof. exact sys_refuse_iff_soft_l. Qed.

(* "... and then stops": after the last user's Shutdown no tick is delivered any more: whatever
   ticks/queries follow, mustRefuse and lastGCDone stay as they are. *)
Theorem sys_frozen_without_users : forall l t0 os qs,
  refcnt (s_life (fst (sys_run l (sys0 t0) os))) = 0 ->
  (forall o, In o qs -> passive o = true) ->
  fst (sys_run l (sys0 t0) (os ++ qs)) = fst (sys_run l (sys0 t0) os).
Proof. exact sys_frozen_without_users_l. Qed.

(* Checks take time (fine-grained model: a check begins, is in flight while Start/Shutdown/
   MustRefuse happen, and ends).  "... and then stops", for EVERY such schedule: once the count
   is 0 — the last user's Shutdown has returned — no check is in flight and none can begin ... *)
Theorem fine_stopped_after_last_shutdown : forall l t0 os,
  let s := fst (frun l (fsys0 t0) os) in
  refcnt (f_life s) = 0 -> f_fly s = None /\ checking (f_life s) = false.
Proof. exact fine_stopped_l. Qed.

(* ... so whatever begins/ends/queries follow, mustRefuse and lastGCDone stay as they are. *)
Theorem fine_frozen_without_users : forall l t0 os qs,
  refcnt (f_life (fst (frun l (fsys0 t0) os))) = 0 ->
  (forall o, In o qs -> fpassive o = true) ->
  fst (frun l (fsys0 t0) (os ++ qs)) = fst (frun l (fsys0 t0) os).
Proof. exact fine_frozen_l. Qed.

(* The last Shutdown waits for a check in flight: when it returns (nil) the check's result is
   stored — the mode is the property's iff for that check — and nothing is in flight. *)
Theorem fine_last_shutdown_completes_check : forall l s t, wf l ->
  refcnt (f_life s) = 1 -> f_fly s = Some t ->
  let s' := fst (fstep l s FShutdown) in
  f_fly s' = None /\ refcnt (f_life s') = 0 /\ f_st s' = fst (check l (f_st s) t) /\
  refuse (f_st s') = (final_reading l (f_st s) t >=? l_limit l - l_spike l) /\
  snd (fstep l s FShutdown) = FLifeRes false (Some (refuse (f_st s'))).
Proof. exact fine_last_shutdown_l. Qed.

(* Refinement: every fine-grained schedule has the lifetime and the mustRefuse/lastGCDone state
   of the coarse schedule in which each check takes effect where it ends (at its FEnd, or just
   before the last Shutdown that waited for it) — so every theorem about sys_run above
   (sys_refuse_iff_soft, sys_frozen_without_users, ...) speaks about time-consuming checks too. *)
Theorem fine_refines_sys : forall l t0 os,
  let c := fst (sys_run l (sys0 t0) (coarsen life0 None os)) in
  f_life (fst (frun l (fsys0 t0) os)) = s_life c /\ f_st (fst (frun l (fsys0 t0) os)) = s_st c.
Proof. exact (fun l t0 os => fine_refines_l l os (fsys0 t0) (fsys0_inv t0)). Qed.

(* Percentage mode with the total-memory reading as an INPUT (iruntime.TotalMemory over the
   results of the cgroup v1/v2 readers and /proc/meminfo): for every validated configuration and
   every environment whose used quota and meminfo total are in [0, 2^64/100), the limits are well
   formed and are exactly pct * total / 100. *)
Theorem limits_wellformed_total_memory : forall c e l,
  validate c = None -> config_in_range c -> env_bounded e ->
  new_limiter c (total_memory e) = Some l ->
  wf l /\
  (c_limit_mib c = 0 -> exists t, total_memory e = Some t /\
     l_limit l = c_limit_pct c * t / 100 /\
     l_spike l = (if c_spike_pct c * t / 100 =? 0 then l_limit l / 5 else c_spike_pct c * t / 100)).
Proof. exact limits_wellformed_total_memory_l. Qed.

Theorem total_memory_in_bounds : forall e t, env_bounded e -> total_memory e = Some t -> 0 <= t /\ 100 * t < U64.
Proof. exact total_memory_bounded. Qed.

(* when TotalMemory fails (and NewMemoryLimiter with it, in percentage mode) *)
Theorem total_memory_error_cases : forall e, total_memory e = None <->
  selected_quota e = None \/ selected_quota e = Some QErr \/
  (exists q d, selected_quota e = Some (QRes q d) /\ (q = unlimitedMemorySize \/ d = false) /\ e_meminfo e = None).
Proof. exact total_memory_none. Qed.

(* cgroup v1 never reports a non-positive quota as defined; cgroup v2 reports ANY integer found in
   memory.max as defined ... *)
Theorem quota_readers : forall q,
  (forall ex rd, memory_quota_v1 ex rd = QRes q true -> 0 < q) /\
  (forall f, memory_quota_v2 f = QRes q true <-> f = V2Int q).
Proof. exact (fun q => conj (fun ex rd => memory_quota_v1_positive ex rd q) (fun f => memory_quota_v2_defined f q)). Qed.

(* ... so outside env_bounded the statement is FALSE: memory.max = -1 (never written by the
   kernel) becomes 2^64-1 bytes of total memory by the uint64 conversion, the percentage products
   wrap and a validated 17 % / 16 % configuration gets limit < spike.  Documented, not a finding. *)
Theorem limits_wellformed_total_memory_refuted :
  total_memory neg_env = Some 18446744073709551615 /\
  validate neg_cfg = None /\ config_in_range neg_cfg /\
  exists l, new_limiter neg_cfg (total_memory neg_env) = Some l /\ l_limit l < l_spike l.
Proof. exact total_memory_negative_quota_l. Qed.

(* Single writer: mustRefuse / lastGCDone change only when the one check in flight completes. *)
Theorem fine_only_checker_writes : forall l s o,
  f_st (fst (fstep l s o)) <> f_st s ->
  exists t, f_fly s = Some t /\ f_st (fst (fstep l s o)) = fst (check l (f_st s) t) /\
            (o = FEnd \/ (o = FShutdown /\ refcnt (f_life s) = 1)).
Proof. exact fine_only_checker_writes_l. Qed.

(* ---- translator obligations: hand-written model pieces = what T1 reads from the source NOW ---- *)
Theorem ob_must_refuse : forall b, ml_must_refuse b = b /\ ext_must_refuse (ml_must_refuse b) = b.
Proof. exact ob_must_refuse_l. Qed.

Theorem ob_queries : forall l s,
  snd (gate_step l s GExtMustRefuse) = OExt (ext_must_refuse (ml_must_refuse (refuse s))) /\
  (forall lf, snd (sys_step l (mkSys lf s) SQuery) = SQueried (ml_must_refuse (refuse s))) /\
  (forall lf fl, snd (fstep l (mkF lf s fl) FQuery) = FQueried (ml_must_refuse (refuse s))).
Proof. exact ob_queries_l. Qed.

Theorem ob_default_config :
  c_soft_int default_config = new_default_config /\
  default_config = mkConfig 0 new_default_config 0 0 0 0 0.
Proof. exact ob_default_config_l. Qed.

Theorem ob_limiter_methods : map fst limiter_methods = ml_methods.
Proof. exact ob_limiter_methods_l. Qed.

Theorem ob_processor_methods : processor_methods = mlp_methods.
Proof. exact ob_processor_methods_l. Qed.

Theorem ob_extension_methods : extension_methods = ext_methods.
Proof. exact ob_extension_methods_l. Qed.

Theorem ob_single_writers :
  writers_of_must_refuse = only_check_mem_limits /\ writers_of_last_gc = only_do_gc.
Proof. exact ob_writers_l. Qed.

(* Before the first check the limiter accepts: whatever consumes and queries happen, the state is
   the initial one (mustRefuse = false). *)
Theorem accepting_before_first_check : forall l t0 ops,
  checks_of ops = [] -> fst (gate_run l (st0 t0) ops) = st0 t0 /\ refuse (st0 t0) = false.
Proof.
  exact (fun l t0 ops H => conj (eq_trans (gate_state_l l (st0 t0) ops) (f_equal (fun ts => fst (run l (st0 t0) ts)) H)) eq_refl).
Qed.

(* ---- the decidable clause checkers of Clauses.v (evaluated by the check driver over every OBSERVED
   case, without the model's step functions) decide exactly the Prop-level clauses ... *)
Theorem clauses_sound_run : forall l ticks obs s0,
  hviol (run_viol l) run_next s0 ticks obs = [] <-> hclause run_next (run_clause l) s0 ticks obs.
Proof. exact run_history_sound. Qed.

Theorem clauses_sound_gate : forall l ops obs s0,
  hviol (gate_viol l) gate_next s0 ops obs = [] <-> hclause gate_next (gate_clause l) s0 ops obs.
Proof. exact gate_history_sound. Qed.

Theorem clauses_sound_life : forall ops obs n0,
  hviol life_viol life_next n0 ops obs = [] <-> hclause life_next life_clause n0 ops obs.
Proof. exact life_history_sound. Qed.

(* ... and the model's own behaviour satisfies them, for every history: a clause violated by an
   observed case is a violation of what the theorems above say. *)
Theorem model_satisfies_run_clauses : forall l, wf l -> forall ticks s,
  hviol (run_viol l) run_next (last_gc s) ticks (run_obs l s ticks) = [].
Proof. exact model_run_ok. Qed.

Theorem model_satisfies_life_clauses : forall ops,
  hviol life_viol life_next 0 ops (life_obs_run life0 ops) = [].
Proof. exact (fun ops => model_life_ok ops life0 ProofsFine.life0_inv). Qed.

(* soundness of the remaining clause checkers *)
Theorem clauses_sound_sys : forall l ops obs s0,
  hviol (sys_viol l) sys_next s0 ops obs = [] <-> hclause sys_next (sys_clause l) s0 ops obs.
Proof. exact sys_history_sound. Qed.

Theorem clauses_sound_fine : forall l ops obs s0,
  hviol (fine_viol l) (fine_next l) s0 ops obs = [] <-> hclause (fine_next l) (fine_clause l) s0 ops obs.
Proof. exact fine_history_sound. Qed.

Theorem clauses_sound_config : forall c total verr outcome chk,
  config_viol c total verr outcome chk = [] <-> config_clause c total verr chk.
Proof. exact config_viol_sound. Qed.

Theorem clauses_sound_share : forall l, share_ok l = true <-> ForallOrdPairs share_rel l.
Proof. exact share_ok_spec. Qed.

(* ---- THE LINK: for every input / history / schedule, what the MODEL produces — observed the way
   the harness observes the implementation (run_obs, gate_run, life_obs_run, sys_run, frun,
   outcome_obs, factory_run) — passes the checker.  No hypothesis beyond "a limiter is built":
   for limiters that are not well formed the checker is switched off (wfb), exactly like the
   theorems need wf.  CFine: the held checks read the same value before and after a GC
   (uniform_op), as the harness's do — the checker's verdict for a held check is on t_r1 (the GC
   count of a held check is not observed), so for t_r1 <> t_r2 it would over-demand; CConfig:
   the fields are in the uint32 range of the Go struct. *)
Theorem model_passes_checker_run : forall cfg total ticks l, new_limiter cfg total = Some l ->
  prop_ok (CRun cfg total ticks (run_obs l (st0 0) ticks)) = true.
Proof. exact model_passes_run. Qed.

Theorem model_passes_checker_gate : forall cfg total ops l, new_limiter cfg total = Some l ->
  prop_ok (CGate cfg total ops (snd (gate_run l (st0 0) ops))) = true.
Proof. exact model_passes_gate. Qed.

Theorem model_passes_checker_life : forall ops, prop_ok (CLife ops (life_obs_run life0 ops)) = true.
Proof. exact model_passes_life. Qed.

Theorem model_passes_checker_sys : forall cfg total ops l, new_limiter cfg total = Some l ->
  prop_ok (CSys cfg total ops (snd (sys_run l (sys0 0) ops))) = true.
Proof. exact model_passes_sys. Qed.

Theorem model_passes_checker_fine : forall cfg total ops l, new_limiter cfg total = Some l ->
  Forall uniform_op ops ->
  prop_ok (CFine cfg total ops (snd (frun l (fsys0 0) ops))) = true.
Proof. exact model_passes_fine. Qed.

Theorem model_passes_checker_config : forall c total, config_in_range c ->
  prop_ok (CConfig c total (verr_code (validate c)) (fst (outcome_obs (new_outcome c total)))
                   (snd (outcome_obs (new_outcome c total)))) = true.
Proof. exact model_passes_config. Qed.

Theorem model_passes_checker_share : forall calls, prop_ok (CShare calls (snd (factory_run [] calls))) = true.
Proof. exact model_passes_share. Qed.

(* The contexts given to Start/Shutdown are only valid for the call and the limiter ignores them:
   for EVERY history of Start(ctx_i) / Shutdown / "ctx_i ends" the lifetime state is that of the
   Start/Shutdown operations alone — in particular the shared checker keeps running exactly while
   there are users, whichever start-up contexts were cancelled or expired in between. *)
Theorem start_context_irrelevant : forall os s, fst (crun s os) = fst (life_run s (erase_ctx os)).
Proof. exact crun_erase. Qed.

Theorem checker_survives_context_end : forall os,
  let s := fst (crun life0 os) in
  checking s = (0 <? refcnt s) /\ refcnt s = refcnt (fst (life_run life0 (erase_ctx os))).
Proof. exact checker_survives_ctx_l. Qed.

Theorem model_passes_checker_ctx : forall os, prop_ok (CCtxLife os (ctx_obs_run life0 os)) = true.
Proof. exact model_passes_ctx. Qed.

Print Assumptions refuse_iff_soft.
Print Assumptions refuse_iff_soft_validated.
Print Assumptions refuse_is_above_soft.
Print Assumptions no_hysteresis.
Print Assumptions gc_only_when_due.
Print Assumptions gc_throttled.
Print Assumptions limits_wellformed.
Print Assumptions limits_wellformed_refuted.
Print Assumptions processor_gate.
Print Assumptions consume_gate.
Print Assumptions gate_forwards_exactly_accepted.
Print Assumptions gate_state_is_check_history.
Print Assumptions gate_end_to_end.
Print Assumptions checker_lifetime.
Print Assumptions shutdown_error_iff_not_started.
Print Assumptions refcount_balance.
Print Assumptions checker_runs_while_used.
Print Assumptions factory_shares_per_config.
Print Assumptions factory_failure_not_cached.
Print Assumptions sys_state_is_effective_history.
Print Assumptions sys_refuse_iff_soft.
Print Assumptions sys_frozen_without_users.
Print Assumptions fine_stopped_after_last_shutdown.
Print Assumptions fine_frozen_without_users.
Print Assumptions fine_last_shutdown_completes_check.
Print Assumptions fine_refines_sys.
Print Assumptions limits_wellformed_total_memory.
Print Assumptions total_memory_in_bounds.
Print Assumptions total_memory_error_cases.
Print Assumptions quota_readers.
Print Assumptions limits_wellformed_total_memory_refuted.
Print Assumptions fine_only_checker_writes.
Print Assumptions ob_must_refuse.
Print Assumptions ob_queries.
Print Assumptions ob_default_config.
Print Assumptions ob_limiter_methods.
Print Assumptions ob_processor_methods.
Print Assumptions ob_extension_methods.
Print Assumptions ob_single_writers.
Print Assumptions accepting_before_first_check.
Print Assumptions clauses_sound_run.
Print Assumptions clauses_sound_gate.
Print Assumptions clauses_sound_life.
Print Assumptions model_satisfies_run_clauses.
Print Assumptions model_satisfies_life_clauses.
Print Assumptions clauses_sound_sys.
Print Assumptions clauses_sound_fine.
Print Assumptions clauses_sound_config.
Print Assumptions clauses_sound_share.
Print Assumptions model_passes_checker_run.
Print Assumptions model_passes_checker_gate.
Print Assumptions model_passes_checker_life.
Print Assumptions model_passes_checker_sys.
Print Assumptions model_passes_checker_fine.
Print Assumptions model_passes_checker_config.
Print Assumptions model_passes_checker_share.
Print Assumptions start_context_irrelevant.
Print Assumptions checker_survives_context_end.
Print Assumptions model_passes_checker_ctx.
