(* C18/ClausesSound.v — the decidable clause checkers of Clauses.v are sound and complete with
   respect to Prop-level statements of the property's clauses, and the model's own behaviour
   satisfies them (so a clause violation on an observed case is a violation of what the theorems
   of Properties.v say about the model). *)
From Verif Require Import Common.Base Generated.MemLimiter18 C18.Model C18.Harness C18.Clauses C18.Proofs C18.ProofsSys C18.ProofsFine.
From Coq Require Import ZifyBool.
Local Open Scope Z_scope.

Lemma when_nil b c : when b c = [] <-> b = true.
Proof. unfold when. destruct b; split; congruence. Qed.

Lemma app_nil_iff {A} (a b : list A) : a ++ b = [] <-> a = [] /\ b = [].
Proof. split; [apply app_eq_nil|intros [-> ->]; reflexivity]. Qed.

(* ---- generic histories -------------------------------------------------------------------------- *)
Section HistSound.
  Context {S O B : Type}.
  Variable viol : S -> O -> B -> list nat.
  Variable next : S -> O -> B -> S.
  Variable clause : S -> O -> B -> Prop.
  Hypothesis step_sound : forall s o b, viol s o b = [] <-> clause s o b.

  Fixpoint hclause (s : S) (os : list O) (bs : list B) : Prop :=
    match os, bs with
    | [], [] => True
    | o :: os', b :: bs' => clause s o b /\ hclause (next s o b) os' bs'
    | _, _ => False
    end.

  Lemma hviol_sound : forall os s bs, hviol viol next s os bs = [] <-> hclause s os bs.
  Proof.
    induction os as [|o os IH]; intros s [|b bs]; cbn [hviol hclause].
    - split; auto.
    - split; [discriminate|intros []].
    - split; [discriminate|intros []].
    - rewrite app_nil_iff, step_sound, IH. reflexivity.
  Qed.
End HistSound.

(* ---- one check ------------------------------------------------------------------------------------ *)
Definition due_prop (l : limiter) (last_gc now r1 : Z) : Prop :=
  r1 >= l_limit l - l_spike l /\
  now - last_gc > (if r1 >=? l_limit l then l_hard_int l else l_soft_int l).

Definition check_clause (l : limiter) (last_gc now r1 r2 : Z) (refuse : bool) (gcs : nat) : Prop :=
  (refuse = true <-> (if (0 <? gcs)%nat then r2 else r1) >= l_limit l - l_spike l) /\
  ((0 < gcs)%nat <-> due_prop l last_gc now r1) /\
  (gcs <= 1)%nat.

Lemma dueb_spec l last_gc now r1 : dueb l last_gc now r1 = true <-> due_prop l last_gc now r1.
Proof.
  unfold dueb, due_prop. rewrite andb_true_iff.
  destruct (r1 >=? l_limit l); lia.
Qed.

Lemma implb_iff a b : implb a b = true <-> (a = true -> b = true).
Proof. destruct a, b; cbn; split; auto; intros H; try discriminate; exact (H eq_refl). Qed.

Lemma eqb_geb_iff (r : bool) (x y : Z) : Bool.eqb r (x >=? y) = true <-> (r = true <-> x >= y).
Proof.
  destruct r; destruct (x >=? y) eqn:E; cbn; split; intros H; try lia; try tauto; try discriminate;
    try (destruct H as [H1 H2]; try (specialize (H1 eq_refl); lia);
         try (assert (X : x >= y) by lia; specialize (H2 X); discriminate)).
Qed.

Lemma check_viol_sound l last_gc now r1 r2 refuse gcs :
  check_viol l last_gc now r1 r2 refuse gcs = [] <-> check_clause l last_gc now r1 r2 refuse gcs.
Proof.
  unfold check_viol, check_clause. cbn zeta.
  rewrite !app_nil_iff, !when_nil, !implb_iff, eqb_geb_iff, Nat.leb_le, Nat.ltb_lt, dueb_spec.
  tauto.
Qed.

(* ---- CRun ------------------------------------------------------------------------------------------ *)
Definition run_clause (l : limiter) (last_gc : Z) (t : Z * Z * Z) (b : chk_obs) : Prop :=
  let '(now, r1, r2) := t in
  let '(refuse, gcs, rewritten, _) := b in
  check_clause l last_gc now r1 r2 refuse gcs /\ (rewritten = true <-> (0 < gcs)%nat).

Lemma run_viol_sound l last_gc t b : run_viol l last_gc t b = [] <-> run_clause l last_gc t b.
Proof.
  destruct t as [[now r1] r2]. destruct b as [[[refuse gcs] rewritten] evs].
  unfold run_viol, run_clause. rewrite app_nil_iff, when_nil, check_viol_sound.
  destruct rewritten; destruct (0 <? gcs)%nat eqn:G; cbn [Bool.eqb]; intuition; try lia; try discriminate.
Qed.

(* every observed history of checks: no violation <-> every check satisfies the clauses, where the
   time of the last forced GC is threaded from the OBSERVED GC counts *)
Lemma run_history_sound l ticks obs s0 :
  hviol (run_viol l) run_next s0 ticks obs = [] <-> hclause run_next (run_clause l) s0 ticks obs.
Proof. apply hviol_sound. intros s o b. apply run_viol_sound. Qed.

(* the model's own behaviour satisfies the clauses (this is refuse_iff_soft + gc_only_when_due) *)
Lemma model_check_clause l s t : wf l ->
  check_clause l (last_gc s) (t_now t) (t_r1 t) (t_r2 t)
               (refuse (fst (check l s t))) (gc_count (snd (check l s t))).
Proof.
  intros W. unfold check_clause.
  pose proof (gc_only_when_due_l l s t W) as (G1 & G2 & G3 & G4).
  pose proof (refuse_iff_soft_l l s t W) as R.
  rewrite final_reading_due in R. rewrite check_gc_forced in G1, G4. rewrite check_gc_count in *.
  unfold due_prop. destruct (due l s t) eqn:D; cbn [Nat.ltb Nat.leb].
  - split; [rewrite R; lia|]. split; [|lia]. split; [intros _; apply G1; reflexivity|lia].
  - split; [rewrite R; lia|]. split; [|lia]. split; [lia|]. intros H. apply G1 in H. discriminate.
Qed.

Lemma model_run_ok l : wf l -> forall ticks s,
  hviol (run_viol l) run_next (last_gc s) ticks (run_obs l s ticks) = [].
Proof.
  intros W. induction ticks as [|p ticks IH]; intros s; [reflexivity|].
  cbn [run_obs]. destruct p as [[now r1] r2]. cbn [tick_of].
  set (t := mkTick now now r1 r2).
  pose proof (model_check_clause l s t W) as C.
  pose proof (check_gc_forced l s t) as GF. pose proof (check_gc_count l s t) as GC.
  pose proof (check_state l s t) as ST.
  destruct (check l s t) as [s1 ev]. cbn [fst snd] in *.
  cbn [hviol]. apply app_nil_iff. split.
  - apply run_viol_sound. cbn. split; [exact C|].
    rewrite GF, GC. destruct (due l s t); cbn; split; intros; try lia; try discriminate; reflexivity.
  - assert (E : run_next (last_gc s) (now, r1, r2) (refuse s1, gc_count ev, gc_forced ev, map ev_code ev) = last_gc s1).
    { cbn. rewrite GC, ST. destruct (due l s t); reflexivity. }
    rewrite E. apply IH.
Qed.

(* ---- CGate: the consume and query steps ------------------------------------------------------------ *)
Definition gate_clause (l : limiter) (s : bool * Z) (o : gop) (b : gobs) : Prop :=
  match o, b with
  | GCheck t, OChecked r g => check_clause l (snd s) (t_now t) (t_r1 t) (t_r2 t) r g
  | GConsume sg id down, OConsumed res fw =>
      if fst s then res = Some ErrDataRefused /\ fw = []
      else fw = [(sg, id)] /\ res = option_map ErrDown down
  | GExtMustRefuse, OExt r => r = fst s
  | _, _ => False
  end.

Lemma err_eqb_spec a b : err_eqb a b = true <-> a = b.
Proof.
  destruct a, b; cbn; split; try congruence; try discriminate.
  - intros H. apply Z.eqb_eq in H. congruence.
  - intros H. injection H as ->. apply Z.eqb_refl.
Qed.

Lemma opt_err_eqb_spec a b : opt_err_eqb a b = true <-> a = b.
Proof.
  destruct a, b; cbn; split; try congruence; try discriminate.
  - intros H. apply err_eqb_spec in H. congruence.
  - intros H. injection H as ->. apply err_eqb_spec. reflexivity.
Qed.

Lemma sigid_eqb_spec a b : sigid_eqb a b = true <-> a = b.
Proof.
  destruct a as [a1 a2], b as [b1 b2]. unfold sigid_eqb. cbn [fst snd].
  rewrite andb_true_iff, Nat.eqb_eq, Z.eqb_eq. split; [intros [-> ->]; reflexivity|intros H; injection H; auto].
Qed.

Lemma gate_viol_sound l s o b : gate_viol l s o b = [] <-> gate_clause l s o b.
Proof.
  destruct s as [mode last_gc]. unfold gate_viol, gate_clause. cbn [fst snd].
  destruct o as [t|sg id down|]; destruct b as [r g|res fw|r]; try (split; [discriminate|intros []]).
  - apply check_viol_sound.
  - destruct mode; rewrite app_nil_iff, !when_nil, opt_err_eqb_spec,
      (list_eqb_spec sigid_eqb sigid_eqb_spec); tauto.
  - rewrite when_nil. destruct r, mode; cbn; split; congruence.
Qed.

Lemma gate_history_sound l ops obs s0 :
  hviol (gate_viol l) gate_next s0 ops obs = [] <-> hclause gate_next (gate_clause l) s0 ops obs.
Proof. apply hviol_sound. intros s o b. apply gate_viol_sound. Qed.

(* ---- CLife ------------------------------------------------------------------------------------------ *)
Definition life_clause (n : Z) (start : bool) (b : life_obs) : Prop :=
  let '(e, rc, gor, chk) := b in
  let n' := life_next n start b in
  (e = true <-> (start = false /\ n = 0)) /\ rc = n' /\
  (gor = true <-> 0 < n') /\ (chk = true <-> 0 < n').

Lemma eqb_iff_bool a b : Bool.eqb a b = true <-> (a = true <-> b = true).
Proof. destruct a, b; cbn; split; intros H; try tauto; try discriminate; destruct H as [H1 H2]; auto; try (symmetry; auto). Qed.

Lemma life_viol_sound n start b : life_viol n start b = [] <-> life_clause n start b.
Proof.
  destruct b as [[[e rc] gor] chk]. unfold life_viol, life_clause, life_next.
  rewrite !app_nil_iff, !when_nil, !eqb_iff_bool, andb_true_iff, negb_true_iff, !Z.eqb_eq, !Z.ltb_lt.
  tauto.
Qed.

Lemma life_history_sound ops obs n0 :
  hviol life_viol life_next n0 ops obs = [] <-> hclause life_next life_clause n0 ops obs.
Proof. apply hviol_sound. intros s o b. apply life_viol_sound. Qed.

(* the model's lifetime behaviour satisfies the clauses, for every history (restarts included) *)
Lemma model_life_ok : forall ops s, life_inv s ->
  hviol life_viol life_next (refcnt s) ops (life_obs_run s ops) = [].
Proof.
  induction ops as [|o ops IH]; intros s I; [reflexivity|].
  cbn [life_obs_run].
  pose proof (life_step_inv s (if o then LStart else LShutdown) I) as I1.
  pose proof (life_step_refcnt s (if o then LStart else LShutdown)) as RC.
  pose proof (shutdown_error_l s (if o then LStart else LShutdown)) as SE.
  destruct (life_step s (if o then LStart else LShutdown)) as [s1 e] eqn:LS. cbn [fst snd] in *.
  cbn [hviol]. apply app_nil_iff.
  pose proof I as (H0 & _ & _). pose proof I1 as (H1 & G1 & T1).
  assert (CK : checking s1 = (0 <? refcnt s1)).
  { unfold checking. rewrite G1. destruct (0 <? refcnt s1) eqn:E; [rewrite T1 by lia|]; reflexivity. }
  assert (N : life_next (refcnt s) o (e, refcnt s1, goroutine s1, checking s1) = refcnt s1).
  { unfold life_next. destruct o; [lia|]. destruct e.
    - destruct (proj1 SE eq_refl) as [_ Z0]. rewrite Z0 in RC. cbn in RC. lia.
    - destruct (refcnt s =? 0) eqn:E0; [|lia].
      exfalso. assert (X : false = true) by (apply SE; split; [reflexivity|lia]). discriminate. }
  split.
  - apply life_viol_sound. unfold life_clause. rewrite N.
    split; [|split; [reflexivity|split]].
    + split.
      * intros E. subst e. destruct (proj1 SE eq_refl) as [EO Z0].
        destruct o; [discriminate|]. split; [reflexivity|exact Z0].
      * intros [EO Z0]. apply SE. subst o. split; [reflexivity|exact Z0].
    + rewrite G1. lia.
    + rewrite CK. lia.
  - rewrite N. apply IH. exact I1.
Qed.
