(* C18/Model.v — executable model of the memory limiter (internal/memorylimiter), of the
   memory-limiter processor's gate (processor/memorylimiterprocessor + processorhelper) and of
   the extension's MustRefuse.  Written after the Go code, function by function; no proofs here.

   The two limit predicates, the two checker constructors and Config.Validate are NOT written
   by hand: they are Generated.MemLimiter18 (translator T1, re-read from the source on every
   run).  uint64 arithmetic wraps mod 2^64 explicitly there and here.

   Numbers are Z: uint64 values are in [0, 2^64), uint32 in [0, 2^32), time.Duration / clock
   readings are signed nanoseconds (unbounded). *)
From Verif Require Import Common.Base Generated.MemLimiter18.
From Coq Require String.
Local Open Scope Z_scope.

Definition U64 : Z := 18446744073709551616.   (* 2^64 *)
Definition U32 : Z := 4294967296.             (* 2^32 *)
Definition mibBytes : Z := 1048576.           (* const mibBytes = 1024 * 1024 *)

(* ---- config.go : type Config ---------------------------------------------------------------- *)
Record config := mkConfig {
  c_check     : Z;   (* CheckInterval                time.Duration *)
  c_soft_int  : Z;   (* MinGCIntervalWhenSoftLimited time.Duration *)
  c_hard_int  : Z;   (* MinGCIntervalWhenHardLimited time.Duration *)
  c_limit_mib : Z;   (* MemoryLimitMiB        uint32 *)
  c_spike_mib : Z;   (* MemorySpikeLimitMiB   uint32 *)
  c_limit_pct : Z;   (* MemoryLimitPercentage uint32 *)
  c_spike_pct : Z    (* MemorySpikePercentage uint32 *)
}.

(* the values a Go Config can hold (types of the fields) *)
Definition config_in_range (c : config) : Prop :=
  0 <= c_limit_mib c < U32 /\ 0 <= c_spike_mib c < U32 /\
  0 <= c_limit_pct c < U32 /\ 0 <= c_spike_pct c < U32.

(* (cfg *Config) Validate() error — the generated definition, parameters in the order the
   translator reports them (props/C18/check.py fails the run if that order ever changes). *)
Definition validate (c : config) : option String.string :=
  config_validate (c_check c) (c_soft_int c) (c_hard_int c) (c_limit_mib c) (c_limit_pct c)
                  (c_spike_pct c) (c_spike_mib c).

(* ---- memorylimiter.go : getMemUsageChecker --------------------------------------------------
   total = result of GetMemoryFn(): None = it returned an error.  Result (memAllocLimit,
   memSpikeLimit) of the usage checker, None = "failed to get total memory". *)
Definition get_checker (c : config) (total : option Z) : option (Z * Z) :=
  let memAllocLimit := (c_limit_mib c * mibBytes) mod U64 in
  let memSpikeLimit := (c_spike_mib c * mibBytes) mod U64 in
  if negb (c_limit_mib c =? 0) then Some (newFixedMemUsageChecker memAllocLimit memSpikeLimit)
  else match total with
       | None => None
       | Some t => Some (newPercentageMemUsageChecker t (c_limit_pct c) (c_spike_pct c))
       end.

(* ---- the part of MemoryLimiter that CheckMemLimits reads ------------------------------------ *)
Record limiter := mkLimiter {
  l_limit    : Z;   (* usageChecker.memAllocLimit  uint64 *)
  l_spike    : Z;   (* usageChecker.memSpikeLimit  uint64 *)
  l_soft_int : Z;   (* minGCIntervalWhenSoftLimited *)
  l_hard_int : Z    (* minGCIntervalWhenHardLimited *)
}.

(* NewMemoryLimiter: the fields CheckMemLimits reads *)
Definition new_limiter (c : config) (total : option Z) : option limiter :=
  match get_checker c total with
  | None => None
  | Some (lim, spike) => Some (mkLimiter lim spike (c_soft_int c) (c_hard_int c))
  end.

(* NewMemoryLimiter, complete outcome: it does not call Validate; after a successful
   getMemUsageChecker it evaluates time.NewTicker(cfg.CheckInterval), which panics for a
   non-positive interval ("non-positive interval for NewTicker"). *)
Inductive new_result := NewErr | NewPanic | NewOk (l : limiter).
Definition new_outcome (c : config) (total : option Z) : new_result :=
  match new_limiter c total with
  | None => NewErr
  | Some l => if c_check c <=? 0 then NewPanic else NewOk l
  end.

Definition above_soft (l : limiter) (alloc : Z) : bool := aboveSoftLimit alloc (l_limit l) (l_spike l).
Definition above_hard (l : limiter) (alloc : Z) : bool := aboveHardLimit alloc (l_limit l).

(* mutable state: mustRefuse, lastGCDone *)
Record st := mkSt { refuse : bool; last_gc : Z }.

(* NewMemoryLimiter: mustRefuse = false, lastGCDone = time.Now() (= t0) *)
Definition st0 (t0 : Z) : st := mkSt false t0.

(* what one CheckMemLimits does besides updating the state: the forced GC and the log lines
   above Debug level (the Debug line "Currently used memory." is emitted on every check) *)
Inductive event :=
| EvGC            (* runGCFn() *)
| LogResume       (* Info  "Memory usage back within limits. Resuming normal operation." *)
| LogHardGC       (* Warn  "Memory usage is above hard limit. Forcing a GC." *)
| LogSoftGC       (* Info  "Memory usage is above soft limit. Forcing a GC." *)
| LogAfterGC      (* Info  "Memory usage after GC." *)
| LogRefusing.    (* Warn  "Memory usage is above soft limit. Refusing data." *)

(* the environment of one check: the clock when time.Since is evaluated, the clock when the GC
   has finished (lastGCDone = time.Now() in doGCandReadMemStats), the first ms.Alloc reading and
   the reading a second readMemStats would return (used only if a GC is forced) *)
Record tick := mkTick { t_now : Z; t_gc_done : Z; t_r1 : Z; t_r2 : Z }.

(* doGCandReadMemStats: run GC, lastGCDone = now, read again, log *)
(* CheckMemLimits *)
Definition check (l : limiter) (s : st) (t : tick) : st * list event :=
  let ms := t_r1 t in
  let above := above_soft l ms in            (* local variable aboveSoftLimit *)
  if negb above then
    (mkSt above (last_gc s), if refuse s then [LogResume] else [])
  else
    let '(s1, ev1) :=
      if above_hard l ms then
        if t_now t - last_gc s >? l_hard_int l then
          (mkSt (above_soft l (t_r2 t)) (t_gc_done t), [LogHardGC; EvGC; LogAfterGC])
        else (mkSt above (last_gc s), [])
      else
        if t_now t - last_gc s >? l_soft_int l then
          (mkSt (above_soft l (t_r2 t)) (t_gc_done t), [LogSoftGC; EvGC; LogAfterGC])
        else (mkSt above (last_gc s), [])
    in
    (* here [refuse s1] holds the local variable aboveSoftLimit, mustRefuse is still [refuse s] *)
    (s1, ev1 ++ (if negb (refuse s) && refuse s1 then [LogRefusing] else [])).

(* a history of checks; the events of every check are kept separately *)
Fixpoint run (l : limiter) (s : st) (ts : list tick) : st * list (list event) :=
  match ts with
  | [] => (s, [])
  | t :: ts' => let '(s1, ev) := check l s t in
                let '(s2, evs) := run l s1 ts' in (s2, ev :: evs)
  end.

Definition is_gc (e : event) : bool := match e with EvGC => true | _ => false end.
Definition gc_forced (evs : list event) : bool := existsb is_gc evs.
Definition gc_count (evs : list event) : nat := List.length (filter is_gc evs).

(* the "most recent measurement" of the property: the post-GC reading if a GC was forced *)
Definition final_reading (l : limiter) (s : st) (t : tick) : Z :=
  if gc_forced (snd (check l s t)) then t_r2 t else t_r1 t.

(* ---- Start / Shutdown reference counting ----------------------------------------------------
   refCounter; goroutine = the monitoring goroutine exists (between go func() and its return,
   which Shutdown waits for); ticker_live = ml.ticker is armed.  The ticker is created (armed) once
   in NewMemoryLimiter, stopped by the last Shutdown and armed again — ticker.Reset(memCheckWait) —
   by the Start that takes the count from 0 to 1 (fix 90db205a4: the limiter is restartable). *)
Record life := mkLife { refcnt : Z; goroutine : bool; ticker_live : bool }.
Definition life0 : life := mkLife 0 false true.

Inductive lop := LStart | LShutdown.

(* result: false = nil, true = ErrShutdownNotStarted *)
Definition life_step (s : life) (o : lop) : life * bool :=
  match o with
  | LStart =>
      let rc := refcnt s + 1 in
      if rc =? 1 then (mkLife rc true true, false)
      else (mkLife rc (goroutine s) (ticker_live s), false)
  | LShutdown =>
      if refcnt s =? 0 then (s, true)
      else if refcnt s =? 1 then (mkLife (refcnt s - 1) false false, false)
      else (mkLife (refcnt s - 1) (goroutine s) (ticker_live s), false)
  end.

Fixpoint life_run (s : life) (os : list lop) : life * list bool :=
  match os with
  | [] => (s, [])
  | o :: os' => let '(s1, e) := life_step s o in
                let '(s2, es) := life_run s1 os' in (s2, e :: es)
  end.

(* periodic checks actually happen: the goroutine is there and its ticker still ticks *)
Definition checking (s : life) : bool := goroutine s && ticker_live s.

(* ---- the processor gate ----------------------------------------------------------------------
   errors by class *)
Inductive err :=
| ErrDataRefused               (* memorylimiter.ErrDataRefused = errors.New(..): not permanent *)
| ErrSkipProcessingData        (* processorhelper sentinel *)
| ErrDown (code : Z).          (* whatever the next consumer returned; code identifies it *)

(* consumererror.IsPermanent on the errors the limiter itself produces *)
Definition limiter_error_permanent (e : err) : bool := false.

(* memoryLimiterProcessor.processTraces/Metrics/Logs/Profiles: identical shape *)
Definition process {A} (must_refuse : bool) (d : A) : A * option err :=
  if must_refuse then (d, Some ErrDataRefused) else (d, None).

(* processorhelper.NewLogs/NewTraces/NewMetrics/xprocessorhelper.NewProfiles consume closure:
   returns (result, what was handed to the next consumer) *)
Definition helper_consume {A} (pf : A -> A * option err) (next : A -> option err) (d : A)
  : option err * list A :=
  let '(d', errFunc) := pf d in
  match errFunc with
  | Some e => match e with
              | ErrSkipProcessingData => (None, [])
              | _ => (Some e, [])
              end
  | None => (next d', [d'])
  end.

Definition consume {A} (must_refuse : bool) (next : A -> option err) (d : A) : option err * list A :=
  helper_consume (process must_refuse) next d.

(* a whole pipeline history: checks interleaved with consume calls on processors (and the
   extension) sharing the limiter.  Payloads are identified by (signal, id); [down] is what the
   next consumer answers for this call (None = nil). *)
Inductive gop :=
| GCheck (t : tick)
| GConsume (signal : nat) (id : Z) (down : option Z)
| GExtMustRefuse.                       (* extension: MustRefuse() *)

Inductive gobs :=
| OChecked (must_refuse : bool) (gcs : nat)
| OConsumed (result : option err) (forwarded : list (nat * Z))
| OExt (must_refuse : bool).

Definition gate_step (l : limiter) (s : st) (o : gop) : st * gobs :=
  match o with
  | GCheck t => let '(s1, ev) := check l s t in (s1, OChecked (refuse s1) (gc_count ev))
  | GConsume sg id down =>
      let '(r, fw) := consume (refuse s) (fun _ => option_map ErrDown down) (sg, id) in
      (s, OConsumed r fw)
  | GExtMustRefuse => (s, OExt (refuse s))
  end.

Fixpoint gate_run (l : limiter) (s : st) (os : list gop) : st * list gobs :=
  match os with
  | [] => (s, [])
  | o :: os' => let '(s1, b) := gate_step l s o in
                let '(s2, bs) := gate_run l s1 os' in (s2, b :: bs)
  end.

(* everything the downstream sinks received, in order *)
Fixpoint forwarded_of (bs : list gobs) : list (nat * Z) :=
  match bs with
  | [] => []
  | OConsumed _ fw :: bs' => fw ++ forwarded_of bs'
  | _ :: bs' => forwarded_of bs'
  end.

(* ---- factory.getMemoryLimiter (processor/memorylimiterprocessor/factory.go) --------------------
   memoryLimiters map[component.Config]*memoryLimiterProcessor: the key is the interface value
   holding the *Config pointer, i.e. the IDENTITY of the config object (here a nat); the value is
   identified by its creation index.  [ok] = newMemoryLimiterProcessor would succeed at this call
   (it is only evaluated on a miss; a failure is returned and nothing is cached). *)
Definition factory := list (nat * nat).

Fixpoint f_lookup (k : nat) (f : factory) : option nat :=
  match f with
  | [] => None
  | (k', id) :: r => if Nat.eqb k k' then Some id else f_lookup k r
  end.

Definition get_memory_limiter (f : factory) (k : nat) (ok : bool) : factory * option nat :=
  match f_lookup k f with
  | Some id => (f, Some id)
  | None => if ok then (f ++ [(k, List.length f)], Some (List.length f)) else (f, None)
  end.

(* a sequence of create{Traces,Metrics,Logs,Profiles} calls: which limiter each one got *)
Fixpoint factory_run (f : factory) (calls : list (nat * bool)) : factory * list (option nat) :=
  match calls with
  | [] => (f, [])
  | (k, ok) :: r => let '(f1, res) := get_memory_limiter f k ok in
                    let '(f2, rs) := factory_run f1 r in (f2, res :: rs)
  end.

(* ---- the whole limiter: lifetime and periodic checks together ----------------------------------
   Start's goroutine:  for { select { case <-ml.ticker.C: case <-ml.closed: return }; ml.CheckMemLimits() }
   A tick is delivered — and a check runs — only while that goroutine exists and the ticker
   (stopped by the last Shutdown, re-armed by the next first Start) is live; otherwise nothing
   happens to mustRefuse / lastGCDone.  SQuery = MustRefuse() by any user. *)
Inductive sop := SStart | SShutdown | STick (t : tick) | SQuery.
Record sys := mkSys { s_life : life; s_st : st }.
Inductive sobs :=
| SLifeRes (err : bool)
| STicked (must_refuse : bool) (gcs : nat)
| SNoTick
| SQueried (must_refuse : bool).

Definition sys0 (t0 : Z) : sys := mkSys life0 (st0 t0).

Definition sys_step (l : limiter) (s : sys) (o : sop) : sys * sobs :=
  match o with
  | SStart => let '(lf, e) := life_step (s_life s) LStart in (mkSys lf (s_st s), SLifeRes e)
  | SShutdown => let '(lf, e) := life_step (s_life s) LShutdown in (mkSys lf (s_st s), SLifeRes e)
  | STick t =>
      if checking (s_life s)
      then let '(s1, ev) := check l (s_st s) t in (mkSys (s_life s) s1, STicked (refuse s1) (gc_count ev))
      else (s, SNoTick)
  | SQuery => (s, SQueried (refuse (s_st s)))
  end.

Fixpoint sys_run (l : limiter) (s : sys) (os : list sop) : sys * list sobs :=
  match os with
  | [] => (s, [])
  | o :: os' => let '(s1, b) := sys_step l s o in
                let '(s2, bs) := sys_run l s1 os' in (s2, b :: bs)
  end.

(* ---- fine grain: a check takes time ------------------------------------------------------------
   CheckMemLimits is not atomic with respect to Start/Shutdown/MustRefuse: the monitoring
   goroutine takes a tick (FBegin: it is now inside CheckMemLimits, reading memory / forcing a
   GC) and later stores the result (FEnd).  [f_fly] = the environment of the check in progress.
   There is one goroutine, so at most one check is in flight.  The LAST Shutdown stops the
   ticker, closes [closed] and then waits for the goroutine (waitGroup.Wait) while holding
   refCounterLock: a check in flight completes — its result is stored — BEFORE Shutdown
   returns, and nothing runs afterwards.  A non-last Shutdown and Start do not wait. *)
Record fsys := mkF { f_life : life; f_st : st; f_fly : option tick }.
Definition fsys0 (t0 : Z) : fsys := mkF life0 (st0 t0) None.

Inductive fop := FStart | FShutdown | FBegin (t : tick) | FEnd | FQuery.

Inductive fobs :=
| FLifeRes (err : bool) (completed : option bool)  (* completed: mode stored by the check the last Shutdown waited for *)
| FBegun | FNotBegun
| FEnded (must_refuse : bool) | FNoEnd
| FQueried (must_refuse : bool).

Definition fstep (l : limiter) (s : fsys) (o : fop) : fsys * fobs :=
  match o with
  | FStart => let '(lf, e) := life_step (f_life s) LStart in (mkF lf (f_st s) (f_fly s), FLifeRes e None)
  | FShutdown =>
      let '(lf, e) := life_step (f_life s) LShutdown in
      if refcnt (f_life s) =? 1 then
        match f_fly s with
        | Some t => let s1 := fst (check l (f_st s) t) in (mkF lf s1 None, FLifeRes e (Some (refuse s1)))
        | None => (mkF lf (f_st s) None, FLifeRes e None)
        end
      else (mkF lf (f_st s) (f_fly s), FLifeRes e None)
  | FBegin t =>
      match f_fly s with
      | None => if checking (f_life s) then (mkF (f_life s) (f_st s) (Some t), FBegun) else (s, FNotBegun)
      | Some _ => (s, FNotBegun)
      end
  | FEnd =>
      match f_fly s with
      | Some t => let s1 := fst (check l (f_st s) t) in (mkF (f_life s) s1 None, FEnded (refuse s1))
      | None => (s, FNoEnd)
      end
  | FQuery => (s, FQueried (refuse (f_st s)))
  end.

Fixpoint frun (l : limiter) (s : fsys) (os : list fop) : fsys * list fobs :=
  match os with
  | [] => (s, [])
  | o :: os' => let '(s1, b) := fstep l s o in
                let '(s2, bs) := frun l s1 os' in (s2, b :: bs)
  end.

(* ---- total memory (percentage mode): iruntime.TotalMemory (linux) and the cgroups readers ------
   GetMemoryFn = iruntime.TotalMemory.  Everything it reads from the system is an INPUT here:
   the results of cgroups.IsCGroupV2, cgroups.MemoryQuotaV2 / NewCGroupsForCurrentProcess +
   CGroups.MemoryQuota and readMemInfo (gopsutil mem.VirtualMemory().Total).
   A quota result is Go's (int64, bool, error). *)
Definition unlimitedMemorySize : Z := 9223372036854771712.   (* const in total_memory_linux.go *)

Inductive quota_res := QErr | QRes (quota : Z) (defined : bool).

(* CGroups.MemoryQuota (cgroup v1): does the "memory" subsystem exist; readInt("memory.limit_in_bytes")
   (None = read or parse error) *)
Definition memory_quota_v1 (subsys_exists : bool) (read : option Z) : quota_res :=
  if negb subsys_exists then QRes (-1) false
  else match read with
       | None => QErr
       | Some n => if n >? 0 then QRes n true else QRes (-1) false
       end.

(* memoryQuotaV2 (cgroup v2): what <mountpoint>/memory.max looks like *)
Inductive v2_file :=
| V2Missing            (* os.IsNotExist *)
| V2OpenErr            (* any other open error *)
| V2Empty              (* no first line: io.ErrUnexpectedEOF *)
| V2Max                (* first line, trimmed, is "max" *)
| V2Int (n : Z)        (* strconv.ParseInt succeeds — any int64, also 0 and negative values *)
| V2Garbage.           (* ParseInt fails *)

Definition memory_quota_v2 (f : v2_file) : quota_res :=
  match f with
  | V2Missing => QRes (-1) false
  | V2OpenErr => QErr
  | V2Empty => QErr
  | V2Max => QRes (-1) false
  | V2Int n => QRes n true
  | V2Garbage => QErr
  end.

Record mem_env := mkEnv {
  e_isv2    : option bool;        (* IsCGroupV2(): None = error *)
  e_quota_v2 : quota_res;         (* MemoryQuotaV2() *)
  e_quota_v1 : option quota_res;  (* None = NewCGroupsForCurrentProcess() failed *)
  e_meminfo : option Z            (* readMemInfo(): None = error *)
}.

(* the quota TotalMemory looks at *)
Definition selected_quota (e : mem_env) : option quota_res :=
  match e_isv2 e with
  | None => None
  | Some true => Some (e_quota_v2 e)
  | Some false => e_quota_v1 e
  end.

(* TotalMemory(): None = error.  uint64(memoryQuota) is a wrapping conversion of an int64. *)
Definition total_memory (e : mem_env) : option Z :=
  match selected_quota e with
  | None => None
  | Some QErr => None
  | Some (QRes quota defined) =>
      if (quota =? unlimitedMemorySize) || negb defined then e_meminfo e
      else Some (quota mod U64)
  end.

(* NewDefaultConfig(): everything zero except MinGCIntervalWhenSoftLimited = 10 s *)
Definition default_config : config := mkConfig 0 10000000000 0 0 0 0 0.

(* ---- the contexts given to Start / Shutdown -----------------------------------------------------
   func (ml *MemoryLimiter) Start(_ context.Context, _ component.Host) and Shutdown(context.Context)
   do not look at their context: it is only valid for the call (the collector cancels or lets
   expire start-up contexts afterwards).  [CCtxEnd i] = the context given to an earlier Start ends
   (cancelled / deadline passed): nothing happens to the limiter. *)
Inductive cop := CStart (ctx : nat) | CShutdown | CCtxEnd (ctx : nat).

Definition cstep (s : life) (o : cop) : life * bool :=
  match o with
  | CStart _ => life_step s LStart
  | CShutdown => life_step s LShutdown
  | CCtxEnd _ => (s, false)
  end.

Fixpoint crun (s : life) (os : list cop) : life * list bool :=
  match os with
  | [] => (s, [])
  | o :: os' => let '(s1, e) := cstep s o in
                let '(s2, es) := crun s1 os' in (s2, e :: es)
  end.
