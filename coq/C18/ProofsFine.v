(* C18/ProofsFine.v — checks that take time: a check in flight versus Start/Shutdown. *)
From Verif Require Import Common.Base Generated.MemLimiter18 C18.Model C18.Proofs C18.ProofsSys.
From Coq Require Import ZifyBool.
Local Open Scope Z_scope.

Lemma life_inv_checking s : life_inv s -> checking s = (0 <? refcnt s).
Proof.
  intros (H & G & T). unfold checking. rewrite G.
  destruct (0 <? refcnt s) eqn:E; [|reflexivity]. rewrite T by lia. reflexivity.
Qed.

Lemma life0_inv : life_inv life0.
Proof. unfold life_inv, life0. cbn. repeat split; try lia. Qed.

(* a check is in flight only while the limiter has users *)
Definition finv (s : fsys) : Prop :=
  life_inv (f_life s) /\ (f_fly s <> None -> 0 < refcnt (f_life s)).

Lemma life_step_refcnt s o :
  refcnt (fst (life_step s o)) =
  match o with
  | LStart => refcnt s + 1
  | LShutdown => if refcnt s =? 0 then refcnt s else refcnt s - 1
  end.
Proof.
  destruct o; cbn [life_step].
  - destruct (refcnt s + 1 =? 1); reflexivity.
  - destruct (refcnt s =? 0); [reflexivity|]. destruct (refcnt s =? 1); reflexivity.
Qed.

Lemma fstep_inv l s o : finv s -> finv (fst (fstep l s o)).
Proof.
  intros [LI F]. pose proof LI as (H0 & _ & _).
  destruct o as [| |t| |]; cbn [fstep].
  - pose proof (life_step_inv (f_life s) LStart LI) as LI'.
    pose proof (life_step_refcnt (f_life s) LStart) as RC.
    destruct (life_step (f_life s) LStart) as [lf e]. cbn [fst] in *.
    split; cbn [f_life f_fly]; [exact LI'|]. intros _. lia.
  - pose proof (life_step_inv (f_life s) LShutdown LI) as LI'.
    pose proof (life_step_refcnt (f_life s) LShutdown) as RC.
    destruct (life_step (f_life s) LShutdown) as [lf e]. cbn [fst] in *.
    destruct (refcnt (f_life s) =? 1) eqn:E1.
    + destruct (f_fly s); cbn [fst]; (split; cbn [f_life f_fly]; [exact LI'|intros N; exfalso; apply N; reflexivity]).
    + cbn [fst]. split; cbn [f_life f_fly]; [exact LI'|]. intros N. specialize (F N).
      destruct (refcnt (f_life s) =? 0) eqn:E0; lia.
  - destruct (f_fly s) eqn:FL; [cbn [fst]; split; [exact LI|rewrite FL; exact F]|].
    destruct (checking (f_life s)) eqn:C; cbn [fst]; [|split; [exact LI|rewrite FL; exact F]].
    split; cbn [f_life f_fly]; [exact LI|]. intros _.
    rewrite (life_inv_checking _ LI) in C. lia.
  - destruct (f_fly s) eqn:FL; cbn [fst]; [|split; [exact LI|rewrite FL; exact F]].
    split; cbn [f_life f_fly]; [exact LI|intros N; exfalso; apply N; reflexivity].
  - cbn [fst]. split; [exact LI|exact F].
Qed.

Lemma frun_app l s a b :
  frun l s (a ++ b) =
  (fst (frun l (fst (frun l s a)) b), snd (frun l s a) ++ snd (frun l (fst (frun l s a)) b)).
Proof.
  revert s. induction a as [|o a IH]; intros s; cbn [frun app fst snd].
  - destruct (frun l s b); reflexivity.
  - destruct (fstep l s o) as [s1 ob]. rewrite IH. destruct (frun l s1 a). reflexivity.
Qed.

Lemma frun_inv l os : forall s, finv s -> finv (fst (frun l s os)).
Proof.
  induction os as [|o os IH]; intros s I; cbn [frun]; [exact I|].
  pose proof (fstep_inv l s o I) as I1. destruct (fstep l s o) as [s1 ob]. cbn [fst] in I1.
  specialize (IH s1 I1). destruct (frun l s1 os). exact IH.
Qed.

Lemma fsys0_inv t0 : finv (fsys0 t0).
Proof. split; [exact life0_inv|]. intros N. exfalso. apply N. reflexivity. Qed.

(* once the last user's Shutdown has returned, no check is in flight and none can begin *)
Lemma fine_stopped_l l t0 os :
  let s := fst (frun l (fsys0 t0) os) in
  refcnt (f_life s) = 0 -> f_fly s = None /\ checking (f_life s) = false.
Proof.
  cbn zeta. intros R. destruct (frun_inv l os _ (fsys0_inv t0)) as [LI F]. split.
  - destruct (f_fly (fst (frun l (fsys0 t0) os))) eqn:E; [|reflexivity].
    assert (N : Some t <> None) by discriminate. specialize (F N). lia.
  - rewrite (life_inv_checking _ LI), R. reflexivity.
Qed.

Definition fpassive (o : fop) : bool :=
  match o with FBegin _ | FEnd | FQuery => true | _ => false end.

Lemma fine_frozen_l l t0 os qs :
  refcnt (f_life (fst (frun l (fsys0 t0) os))) = 0 ->
  (forall o, In o qs -> fpassive o = true) ->
  fst (frun l (fsys0 t0) (os ++ qs)) = fst (frun l (fsys0 t0) os).
Proof.
  intros R P. rewrite frun_app. cbn [fst].
  destruct (fine_stopped_l l t0 os R) as [FL C].
  set (s := fst (frun l (fsys0 t0) os)) in *. clearbody s.
  induction qs as [|o qs IH]; [reflexivity|].
  assert (Po := P o (or_introl eq_refl)). assert (IH' := IH (fun o' I => P o' (or_intror I))).
  cbn [frun]. destruct o as [| |t| |]; try discriminate; cbn [fstep]; rewrite ?FL.
  - rewrite C. destruct (frun l s qs). exact IH'.
  - destruct (frun l s qs). exact IH'.
  - destruct (frun l s qs). exact IH'.
Qed.

(* the last Shutdown waits for the check in flight: its result is stored when Shutdown returns *)
Lemma fine_last_shutdown_l l s t : wf l ->
  refcnt (f_life s) = 1 -> f_fly s = Some t ->
  let s' := fst (fstep l s FShutdown) in
  f_fly s' = None /\ refcnt (f_life s') = 0 /\ f_st s' = fst (check l (f_st s) t) /\
  refuse (f_st s') = (final_reading l (f_st s) t >=? l_limit l - l_spike l) /\
  snd (fstep l s FShutdown) = FLifeRes false (Some (refuse (f_st s'))).
Proof.
  intros W R FL. cbn zeta. cbn [fstep].
  pose proof (life_step_refcnt (f_life s) LShutdown) as RC.
  assert (E : snd (life_step (f_life s) LShutdown) = false).
  { cbn [life_step]. rewrite R. reflexivity. }
  destruct (life_step (f_life s) LShutdown) as [lf e]. cbn [fst snd] in *. subst e.
  rewrite R in *. cbn [Z.eqb Pos.eqb] in *. rewrite FL. cbn [fst snd f_fly f_life f_st].
  repeat split; try lia. apply refuse_iff_soft_l. exact W.
Qed.

(* ---- refinement: every fine schedule is a coarse one (a check takes effect where it ends) ---- *)
Fixpoint coarsen (lf : life) (fly : option tick) (os : list fop) : list sop :=
  match os with
  | [] => []
  | FStart :: r => SStart :: coarsen (fst (life_step lf LStart)) fly r
  | FShutdown :: r =>
      let lf' := fst (life_step lf LShutdown) in
      if refcnt lf =? 1 then
        match fly with
        | Some t => STick t :: SShutdown :: coarsen lf' None r
        | None => SShutdown :: coarsen lf' None r
        end
      else SShutdown :: coarsen lf' fly r
  | FBegin t :: r =>
      match fly with
      | None => if checking lf then coarsen lf (Some t) r else coarsen lf None r
      | Some _ => coarsen lf fly r
      end
  | FEnd :: r =>
      match fly with
      | Some t => STick t :: coarsen lf None r
      | None => coarsen lf None r
      end
  | FQuery :: r => SQuery :: coarsen lf fly r
  end.

Lemma fine_refines_l l os : forall s, finv s ->
  let c := fst (sys_run l (mkSys (f_life s) (f_st s)) (coarsen (f_life s) (f_fly s) os)) in
  f_life (fst (frun l s os)) = s_life c /\ f_st (fst (frun l s os)) = s_st c.
Proof.
  induction os as [|o os IH]; intros s I; cbn zeta; [split; reflexivity|].
  pose proof (fstep_inv l s o I) as I1. destruct I as [LI F].
  cbn [frun coarsen]. destruct o as [| |t| |]; cbn [fstep] in *.
  - cbn [sys_run sys_step s_life s_st].
    destruct (life_step (f_life s) LStart) as [lf e]. cbn [fst] in *.
    specialize (IH _ I1). cbn zeta in IH. cbn [fst f_life f_st f_fly] in IH.
    destruct (frun l (mkF lf (f_st s) (f_fly s)) os).
    destruct (sys_run l (mkSys lf (f_st s)) (coarsen lf (f_fly s) os)). exact IH.
  - destruct (life_step (f_life s) LShutdown) as [lf e] eqn:LS. cbn [fst] in *.
    destruct (refcnt (f_life s) =? 1) eqn:E1.
    + destruct (f_fly s) as [t|] eqn:FL.
      * assert (C : checking (f_life s) = true) by (rewrite (life_inv_checking _ LI); lia).
        cbn [sys_run sys_step s_life s_st]. rewrite C.
        destruct (check l (f_st s) t) as [s1 ev] eqn:CK. cbn [fst s_life s_st] in *. rewrite LS.
        specialize (IH _ I1). cbn zeta in IH. cbn [fst f_life f_st f_fly] in IH.
        destruct (frun l (mkF lf s1 None) os).
        destruct (sys_run l (mkSys lf s1) (coarsen lf None os)). exact IH.
      * cbn [sys_run sys_step s_life s_st]. rewrite LS.
        specialize (IH _ I1). cbn zeta in IH. cbn [fst f_life f_st f_fly] in IH.
        destruct (frun l (mkF lf (f_st s) None) os).
        destruct (sys_run l (mkSys lf (f_st s)) (coarsen lf None os)). exact IH.
    + cbn [sys_run sys_step s_life s_st]. rewrite LS.
      specialize (IH _ I1). cbn zeta in IH. cbn [fst f_life f_st f_fly] in IH.
      destruct (frun l (mkF lf (f_st s) (f_fly s)) os).
      destruct (sys_run l (mkSys lf (f_st s)) (coarsen lf (f_fly s) os)). exact IH.
  - destruct (f_fly s) as [t'|] eqn:FL.
    + cbn [fst] in I1. specialize (IH _ I1). cbn zeta in IH. rewrite FL in IH.
      destruct (frun l s os). exact IH.
    + destruct (checking (f_life s)) eqn:C; cbn [fst] in I1; specialize (IH _ I1); cbn zeta in IH;
        cbn [fst f_life f_st f_fly] in IH.
      * destruct (frun l (mkF (f_life s) (f_st s) (Some t)) os). exact IH.
      * rewrite FL in IH. destruct (frun l s os). exact IH.
  - destruct (f_fly s) as [t|] eqn:FL.
    + assert (N : Some t <> None) by discriminate.
      assert (C : checking (f_life s) = true) by (rewrite (life_inv_checking _ LI); specialize (F N); lia).
      cbn [sys_run sys_step s_life s_st]. rewrite C.
      destruct (check l (f_st s) t) as [s1 ev]. cbn [fst s_life s_st] in *.
      specialize (IH _ I1). cbn zeta in IH. cbn [fst f_life f_st f_fly] in IH.
      destruct (frun l (mkF (f_life s) s1 None) os).
      destruct (sys_run l (mkSys (f_life s) s1) (coarsen (f_life s) None os)). exact IH.
    + cbn [fst] in I1. specialize (IH _ I1). cbn zeta in IH. rewrite FL in IH.
      destruct (frun l s os). exact IH.
  - cbn [sys_run sys_step s_life s_st]. cbn [fst] in I1.
    specialize (IH _ I1). cbn zeta in IH.
    destruct (frun l s os).
    destruct (sys_run l (mkSys (f_life s) (f_st s)) (coarsen (f_life s) (f_fly s) os)). exact IH.
Qed.

(* single writer: mustRefuse / lastGCDone change only when the (one) check in flight completes —
   at its end, or inside the last Shutdown that waits for it.  Start, a non-last Shutdown, the
   beginning of a check and queries never write them. *)
Lemma fine_only_checker_writes_l l s o :
  f_st (fst (fstep l s o)) <> f_st s ->
  exists t, f_fly s = Some t /\ f_st (fst (fstep l s o)) = fst (check l (f_st s) t) /\
            (o = FEnd \/ (o = FShutdown /\ refcnt (f_life s) = 1)).
Proof.
  destruct o as [| |t'| |]; cbn [fstep].
  - destruct (life_step (f_life s) LStart). cbn [fst f_st]. intros N. exfalso. apply N. reflexivity.
  - destruct (life_step (f_life s) LShutdown) as [lf e].
    destruct (refcnt (f_life s) =? 1) eqn:E1.
    + destruct (f_fly s) as [t|]; cbn [fst f_st].
      * intros _. exists t. split; [reflexivity|]. split; [reflexivity|]. right. split; [reflexivity|lia].
      * intros N. exfalso. apply N. reflexivity.
    + cbn [fst f_st]. intros N. exfalso. apply N. reflexivity.
  - destruct (f_fly s); [|destruct (checking (f_life s))]; cbn [fst f_st]; intros N; exfalso; apply N; reflexivity.
  - destruct (f_fly s) as [t|]; cbn [fst f_st].
    + intros _. exists t. split; [reflexivity|]. split; [reflexivity|]. left. reflexivity.
    + intros N. exfalso. apply N. reflexivity.
  - cbn [fst]. intros N. exfalso. apply N. reflexivity.
Qed.
