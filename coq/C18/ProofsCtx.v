(* C18/ProofsCtx.v — the contexts given to Start/Shutdown do not matter: the shared checker's life
   is governed by Start/Shutdown alone, whatever happens to those contexts afterwards. *)
From Verif Require Import Common.Base Generated.MemLimiter18 C18.Model C18.Harness C18.Clauses
  C18.Proofs C18.ProofsSys C18.ProofsFine C18.ClausesSound.
From Coq Require Import ZifyBool.
Local Open Scope Z_scope.

Fixpoint erase_ctx (os : list cop) : list lop :=
  match os with
  | [] => []
  | CStart _ :: r => LStart :: erase_ctx r
  | CShutdown :: r => LShutdown :: erase_ctx r
  | CCtxEnd _ :: r => erase_ctx r
  end.

Lemma crun_erase os : forall s, fst (crun s os) = fst (life_run s (erase_ctx os)).
Proof.
  induction os as [|o os IH]; intros s; [reflexivity|].
  cbn [crun]. destruct o as [i| |i]; cbn [cstep erase_ctx life_run].
  - destruct (life_step s LStart) as [s1 e]. specialize (IH s1).
    destruct (crun s1 os), (life_run s1 (erase_ctx os)). exact IH.
  - destruct (life_step s LShutdown) as [s1 e]. specialize (IH s1).
    destruct (crun s1 os), (life_run s1 (erase_ctx os)). exact IH.
  - specialize (IH s). destruct (crun s os). exact IH.
Qed.

Lemma ctx_end_noop s i : cstep s (CCtxEnd i) = (s, false).
Proof. reflexivity. Qed.

(* the checker runs exactly while the limiter has users, whatever contexts ended in between *)
Lemma checker_survives_ctx_l os :
  let s := fst (crun life0 os) in
  checking s = (0 <? refcnt s) /\ refcnt s = refcnt (fst (life_run life0 (erase_ctx os))).
Proof.
  cbn zeta. rewrite crun_erase. split; [apply checker_runs_while_used_l|reflexivity].
Qed.

(* the model passes the CCtxLife clause checker *)
Lemma model_ctx_ok : forall os s, life_inv s ->
  hviol ctx_viol ctx_next (refcnt s) os (ctx_obs_run s os) = [].
Proof.
  induction os as [|o os IH]; intros s I; [reflexivity|].
  cbn [ctx_obs_run]. destruct o as [i| |i].
  - pose proof (model_life_ok [true] s I) as M. cbn [life_obs_run hviol] in M. cbn [cstep].
    pose proof (life_step_inv s LStart I) as I1.
    destruct (life_step s LStart) as [s1 e] eqn:LS. cbn [fst] in *.
    cbn [hviol ctx_viol ctx_next]. apply app_nil_iff in M. destruct M as [M _].
    apply app_nil_iff. split; [exact M|].
    assert (N : life_next (refcnt s) true (e, refcnt s1, goroutine s1, checking s1) = refcnt s1).
    { pose proof (life_step_refcnt s LStart) as RC. rewrite LS in RC. cbn in RC. cbn. lia. }
    rewrite N. apply IH. exact I1.
  - pose proof (model_life_ok [false] s I) as M. cbn [life_obs_run hviol] in M. cbn [cstep].
    pose proof (life_step_inv s LShutdown I) as I1.
    pose proof (shutdown_error_l s LShutdown) as SE.
    pose proof (life_step_refcnt s LShutdown) as RC.
    destruct (life_step s LShutdown) as [s1 e] eqn:LS. cbn [fst snd] in *.
    cbn [hviol ctx_viol ctx_next]. apply app_nil_iff in M. destruct M as [M _].
    apply app_nil_iff. split; [exact M|].
    assert (N : life_next (refcnt s) false (e, refcnt s1, goroutine s1, checking s1) = refcnt s1).
    { cbn. rewrite RC. pose proof I as (H0 & _ & _). destruct e.
      - destruct (proj1 SE eq_refl) as [_ Z0]. rewrite Z0. reflexivity.
      - destruct (refcnt s =? 0) eqn:E0; [|reflexivity].
        exfalso. assert (X : false = true) by (apply SE; split; [reflexivity|lia]). discriminate. }
    rewrite N. apply IH. exact I1.
  - cbn [cstep hviol ctx_viol ctx_next]. apply app_nil_iff. split; [|apply IH; exact I].
    pose proof (life_inv_checking s I) as CK. destruct I as (H0 & G & T).
    rewrite !app_nil_iff, !when_nil. cbn [negb]. rewrite Z.eqb_refl, G, CK, !eqb_reflx. repeat split.
Qed.

Lemma model_passes_ctx os : prop_ok (CCtxLife os (ctx_obs_run life0 os)) = true.
Proof.
  unfold prop_ok, violations. pose proof (model_ctx_ok os life0 life0_inv) as H. cbn [life0 refcnt] in H.
  rewrite H. reflexivity.
Qed.
