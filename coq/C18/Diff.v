(* C18/Diff.v — finite-domain search for an ARGUMENT on which a definition translated from the
   current Go source (Generated/MemLimiter18.v, C18ApiExt.v) differs from its hand-written
   specification twin.  Used by the check driver when a proof obligation over a translated function
   breaks: the differing argument is reported and the implementation is run on a history that uses
   it (harness focus).  Depends only on generated files + Model/Clauses (no proofs), so it still
   compiles when the obligations do not. *)
From Verif Require Export C18.Clauses.
From Verif Require Import Generated.C18ApiExt.
Local Open Scope Z_scope.

(* specification twins *)
Definition above_soft_twin (alloc lim spike : Z) : bool := alloc >=? lim - spike.
Definition above_hard_twin (alloc lim : Z) : bool := alloc >=? lim.
Definition fixed_checker_twin (lim spike : Z) : Z * Z := (lim, if spike =? 0 then lim / 5 else spike).
Definition pct_checker_twin (total lp sp : Z) : Z * Z := fixed_checker_twin (lp * total / 100) (sp * total / 100).

Definition limits_grid : list (Z * Z) :=   (* (limit MiB, spike MiB), spike <= limit *)
  [(100, 20); (100, 0); (1, 0); (5, 4); (4095, 1); (1000, 999)].

Definition readings_around (lim spike : Z) : list Z :=
  let soft := lim - spike in [soft - 1; soft; soft + 1; lim - 1; lim; lim + 1; 0; soft / 2].

(* (limit MiB, spike MiB, reading) with a wrong soft- or hard-limit verdict *)
Definition diff_limit_predicates : list (Z * Z * Z) :=
  flat_map (fun p =>
    let lim := fst p * mibBytes in
    let spk := snd (fixed_checker_twin lim (snd p * mibBytes)) in
    map (fun a => (fst p, snd p, a))
        (filter (fun a => negb (Bool.eqb (aboveSoftLimit a lim spk) (above_soft_twin a lim spk)) ||
                          negb (Bool.eqb (aboveHardLimit a lim) (above_hard_twin a lim)))
                (readings_around lim spk))) limits_grid.

(* (limit, spike) bytes on which the fixed checker constructor differs *)
Definition diff_fixed_checker : list (Z * Z) :=
  filter (fun p => negb (pairZ_eqb (newFixedMemUsageChecker (fst p) (snd p)) (fixed_checker_twin (fst p) (snd p))))
         (map (fun p => (fst p * mibBytes, snd p * mibBytes)) limits_grid).

(* (total, limit %, spike %) on which the percentage constructor differs *)
Definition diff_pct_checker : list (Z * Z * Z) :=
  filter (fun q => let '(t, lp, sp) := q in
                   negb (pairZ_eqb (newPercentageMemUsageChecker t lp sp) (pct_checker_twin t lp sp)))
         (flat_map (fun t => [(t, 50, 0); (t, 75, 25); (t, 100, 99); (t, 1, 0); (t, 17, 16)])
                   [1073741824; 17179869184; 1000; 99; 4096]).

(* configurations on which Validate's verdict differs from the documented rules *)
Definition config_grid : list config :=
  flat_map (fun ci => flat_map (fun ints => flat_map (fun mib => map (fun pct =>
      mkConfig ci (fst ints) (snd ints) (fst mib) (snd mib) (fst pct) (snd pct))
      [(0, 0); (50, 0); (50, 49); (50, 50); (50, 51); (100, 0); (101, 0); (50, 101); (1, 0)])
      [(0, 0); (100, 0); (100, 99); (100, 100); (100, 101); (1, 0); (0, 5)])
      [(0, 0); (10, 0); (10, 10); (0, 10); (5, 7)])
      [1; 0; -1].

Definition diff_validate : list config :=
  filter (fun c => negb (Bool.eqb (Nat.eqb (verr_code (validate c)) 0) (rules_ok c))) config_grid.

Definition diff_must_refuse : list bool :=
  filter (fun b => negb (Bool.eqb (ml_must_refuse b) b) || negb (Bool.eqb (ext_must_refuse b) b)) [true; false].
