(* C18/Clauses.v — DECIDABLE checkers of the property's clauses over the OBSERVED behaviour of the
   implementation (the case terms recorded by the harnesses).  They do not use the model's step
   functions (check, gate_step, life_step, sys_step, fstep): the little state they thread through
   a history (mode, time of the last forced GC, number of users, check in flight) is advanced from
   the OBSERVATIONS.  [violations c] lists the codes of the violated clauses, [prop_ok c] says
   there is none.  ClausesSound.v proves [.. = [] <-> Prop-level clause] and that the model's
   own behaviour satisfies them.  No proofs here: this file must still compile when proofs break,
   because the check driver evaluates it over the recorded cases to find a failing input.

   clause codes
     1 refuse-iff-soft            after a check: refusing <-> final reading >= limit - spike
     2 gc-when-not-due            3 gc-missing-when-due      4 gc-more-than-once
     5 lastgc-update              lastGCDone rewritten <-> a GC was forced
     6 refusing-not-refused       consume while refusing: result is not the data-refused error
     7 refusing-forwarded / accepting-not-forwarded-exactly-the-payload
     8 downstream-result-not-returned
     9 must-refuse-query          MustRefuse() differs from the mode set by the last check
    10 start/shutdown-error       error <-> Shutdown without a user
    11 refcount   12 goroutine-iff-users   13 checker-runs-iff-users
    14 tick-without-users   15 no-tick-with-users
    16 last-shutdown-and-check-in-flight   17 check-begins-iff-users   18 check-ends-iff-in-flight
    20 limits-wellformed   21 validate-accepts-bad-config   22 limiter-sharing
    98 operation/observation shapes differ   99 lengths differ *)
From Verif Require Export C18.Harness.
Local Open Scope Z_scope.

(* ---- generic: a history of (operation, observation) pairs with a state advanced from observations *)
Section Hist.
  Context {S O B : Type}.
  Variable viol : S -> O -> B -> list nat.
  Variable next : S -> O -> B -> S.
  Fixpoint hviol (s : S) (os : list O) (bs : list B) : list nat :=
    match os, bs with
    | [], [] => []
    | o :: os', b :: bs' => viol s o b ++ hviol (next s o b) os' bs'
    | _, _ => [99%nat]
    end.
End Hist.

Definition wfb (l : limiter) : bool :=
  (0 <=? l_spike l) && (l_spike l <=? l_limit l) && (l_limit l <? U64).

Definition when (b : bool) (code : nat) : list nat := if b then [] else [code].

(* ---- one observed CheckMemLimits ---------------------------------------------------------------- *)
Definition dueb (l : limiter) (last_gc now r1 : Z) : bool :=
  (r1 >=? l_limit l - l_spike l) &&
  (now - last_gc >? (if r1 >=? l_limit l then l_hard_int l else l_soft_int l)).

Definition check_viol (l : limiter) (last_gc now r1 r2 : Z) (refuse : bool) (gcs : nat) : list nat :=
  let forced := (0 <? gcs)%nat in
  when (Bool.eqb refuse ((if forced then r2 else r1) >=? l_limit l - l_spike l)) 1 ++
  when (implb forced (dueb l last_gc now r1)) 2 ++
  when (implb (dueb l last_gc now r1) forced) 3 ++
  when (gcs <=? 1)%nat 4.

(* CRun: state = time of the last forced GC *)
Definition run_viol (l : limiter) (last_gc : Z) (t : Z * Z * Z) (b : chk_obs) : list nat :=
  let '(now, r1, r2) := t in
  let '(refuse, gcs, rewritten, _) := b in
  check_viol l last_gc now r1 r2 refuse gcs ++ when (Bool.eqb rewritten (0 <? gcs)%nat) 5.

Definition run_next (last_gc : Z) (t : Z * Z * Z) (b : chk_obs) : Z :=
  let '(now, _, _) := t in
  let '(_, gcs, _, _) := b in
  if (0 <? gcs)%nat then now else last_gc.

(* CGate: state = (mode, last forced GC) *)
Definition opt_err_eqb := option_eqb err_eqb.

Definition gate_viol (l : limiter) (s : bool * Z) (o : gop) (b : gobs) : list nat :=
  let '(mode, last_gc) := s in
  match o, b with
  | GCheck t, OChecked r g => check_viol l last_gc (t_now t) (t_r1 t) (t_r2 t) r g
  | GConsume sg id down, OConsumed res fw =>
      if mode then
        when (opt_err_eqb res (Some ErrDataRefused)) 6 ++ when (list_eqb sigid_eqb fw []) 7
      else
        when (list_eqb sigid_eqb fw [(sg, id)]) 7 ++ when (opt_err_eqb res (option_map ErrDown down)) 8
  | GExtMustRefuse, OExt r => when (Bool.eqb r mode) 9
  | _, _ => [98%nat]
  end.

Definition gate_next (s : bool * Z) (o : gop) (b : gobs) : bool * Z :=
  match o, b with
  | GCheck t, OChecked r g => (r, if (0 <? g)%nat then t_gc_done t else snd s)
  | _, _ => s
  end.

(* CLife: state = number of users, advanced from the observed errors *)
Definition life_viol (n : Z) (start : bool) (b : life_obs) : list nat :=
  let '(e, rc, gor, chk) := b in
  let n' := if start then n + 1 else if e then n else n - 1 in
  when (Bool.eqb e (negb start && (n =? 0))) 10 ++
  when (rc =? n') 11 ++ when (Bool.eqb gor (0 <? n')) 12 ++ when (Bool.eqb chk (0 <? n')) 13.

Definition life_next (n : Z) (start : bool) (b : life_obs) : Z :=
  let '(e, _, _, _) := b in
  if start then n + 1 else if e then n else n - 1.

(* CCtxLife: as CLife; the end of a start-up context changes nothing and is no error *)
Definition ctx_viol (n : Z) (o : cop) (b : life_obs) : list nat :=
  match o with
  | CStart _ => life_viol n true b
  | CShutdown => life_viol n false b
  | CCtxEnd _ =>
      let '(e, rc, gor, chk) := b in
      when (negb e) 10 ++ when (rc =? n) 11 ++ when (Bool.eqb gor (0 <? n)) 12 ++ when (Bool.eqb chk (0 <? n)) 13
  end.

Definition ctx_next (n : Z) (o : cop) (b : life_obs) : Z :=
  match o with
  | CStart _ => life_next n true b
  | CShutdown => life_next n false b
  | CCtxEnd _ => n
  end.

(* CSys: state = (users, mode, last forced GC) *)
Definition sys_viol (l : limiter) (s : Z * bool * Z) (o : sop) (b : sobs) : list nat :=
  let '(n, mode, last_gc) := s in
  match o, b with
  | SStart, SLifeRes e => when (negb e) 10
  | SShutdown, SLifeRes e => when (Bool.eqb e (n =? 0)) 10
  | STick t, STicked r g => when (0 <? n) 14 ++ check_viol l last_gc (t_now t) (t_r1 t) (t_r2 t) r g
  | STick t, SNoTick => when (n <=? 0) 15
  | SQuery, SQueried r => when (Bool.eqb r mode) 9
  | _, _ => [98%nat]
  end.

Definition sys_next (s : Z * bool * Z) (o : sop) (b : sobs) : Z * bool * Z :=
  let '(n, mode, last_gc) := s in
  match o, b with
  | SStart, SLifeRes _ => (n + 1, mode, last_gc)
  | SShutdown, SLifeRes e => (if e then n else n - 1, mode, last_gc)
  | STick t, STicked r g => (n, r, if (0 <? g)%nat then t_gc_done t else last_gc)
  | _, _ => s
  end.

(* CFine: state = (users, mode, check in flight).  The harness's held checks read the same value
   before and after a GC (t_r1 = t_r2), so the final reading of a held check is t_r1. *)
Definition fine_viol (l : limiter) (s : Z * bool * option tick) (o : fop) (b : fobs) : list nat :=
  let '(n, mode, fly) := s in
  match o, b with
  | FStart, FLifeRes e c => when (negb e) 10 ++ when (match c with None => true | _ => false end) 16
  | FShutdown, FLifeRes e c =>
      when (Bool.eqb e (n =? 0)) 10 ++
      match fly, c with
      | Some t, Some r => when (n =? 1) 16 ++ when (Bool.eqb r (t_r1 t >=? l_limit l - l_spike l)) 1
      | Some t, None => when (negb (n =? 1)) 16
      | None, Some _ => [16%nat]
      | None, None => []
      end
  | FBegin t, FBegun => when ((0 <? n) && match fly with None => true | _ => false end) 17
  | FBegin t, FNotBegun => when (negb ((0 <? n) && match fly with None => true | _ => false end)) 17
  | FEnd, FEnded r =>
      match fly with
      | Some t => when (Bool.eqb r (t_r1 t >=? l_limit l - l_spike l)) 1
      | None => [18%nat]
      end
  | FEnd, FNoEnd => when (match fly with None => true | _ => false end) 18
  | FQuery, FQueried r => when (Bool.eqb r mode) 9
  | _, _ => [98%nat]
  end.

Definition fine_next (l : limiter) (s : Z * bool * option tick) (o : fop) (b : fobs) : Z * bool * option tick :=
  let '(n, mode, fly) := s in
  match o, b with
  | FStart, FLifeRes _ _ => (n + 1, mode, fly)
  | FShutdown, FLifeRes e c =>
      (if e then n else n - 1, match c with Some r => r | None => mode end,
       match c with Some _ => None | None => fly end)
  | FBegin t, FBegun => (n, mode, Some t)
  | FEnd, FEnded r => (n, r, None)
  | _, _ => s
  end.

(* CConfig: a configuration accepted by Validate obeys the documented rules (21) and, when a
   limiter is built (fixed mode, or percentage mode with 100 * total < 2^64), its limits are the
   unbounded-integer values with spike <= limit (20) *)
Definition rules_ok (c : config) : bool :=
  (0 <? c_check c) && (c_hard_int c <=? c_soft_int c) &&
  ((0 <? c_limit_mib c) || (0 <? c_limit_pct c)) &&
  (c_limit_pct c <=? 100) && (c_spike_pct c <=? 100) &&
  ((c_limit_mib c =? 0) || (c_spike_mib c <? c_limit_mib c)) &&
  ((c_limit_pct c =? 0) || (c_spike_pct c <? c_limit_pct c)).

Definition expected_limits (c : config) (total : option Z) : option (Z * Z) :=
  let dflt (lim spk : Z) := (lim, if spk =? 0 then lim / 5 else spk) in
  if negb (c_limit_mib c =? 0) then Some (dflt (c_limit_mib c * mibBytes) (c_spike_mib c * mibBytes))
  else match total with
       | Some t => if (0 <=? t) && (100 * t <? U64)
                   then Some (dflt (c_limit_pct c * t / 100) (c_spike_pct c * t / 100)) else None
       | None => None
       end.

Definition config_viol (c : config) (total : option Z) (verr outcome : nat) (chk : option (Z * Z)) : list nat :=
  if negb (Nat.eqb verr 0) then [] else
  when (rules_ok c) 21 ++
  match chk, expected_limits c total with
  | Some (lim, spk), Some (elim, espk) =>
      when ((lim =? elim) && (spk =? espk) && (0 <=? spk) && (spk <=? lim) && (lim <? U64)) 20
  | _, _ => []
  end.

(* CShare: two successful create calls get the same limiter iff they got the same config object *)
Fixpoint share_against (k : nat) (id : nat) (rest : list ((nat * bool) * option nat)) : bool :=
  match rest with
  | [] => true
  | ((k', _), Some id') :: r => Bool.eqb (Nat.eqb id id') (Nat.eqb k k') && share_against k id r
  | _ :: r => share_against k id r
  end.

Fixpoint share_ok (l : list ((nat * bool) * option nat)) : bool :=
  match l with
  | [] => true
  | ((k, _), Some id) :: r => share_against k id r && share_ok r
  | _ :: r => share_ok r
  end.

(* ---- all case kinds ------------------------------------------------------------------------------ *)
Definition violations (c : vcase) : list nat :=
  match c with
  | CConfig cfg total verr outcome chk => config_viol cfg total verr outcome chk
  | CRun cfg total ticks obs =>
      match new_limiter cfg total with
      | Some l => if wfb l then hviol (run_viol l) run_next 0 ticks obs else []
      | None => []
      end
  | CLife ops obs => hviol life_viol life_next 0 ops obs
  | CGate cfg total ops obs =>
      match new_limiter cfg total with
      | Some l => if wfb l then hviol (gate_viol l) gate_next (false, 0) ops obs else []
      | None => []
      end
  | CShare calls obs =>
      if Nat.eqb (List.length calls) (List.length obs) then when (share_ok (combine calls obs)) 22 else [99%nat]
  | CSys cfg total ops obs =>
      match new_limiter cfg total with
      | Some l => if wfb l then hviol (sys_viol l) sys_next (0, false, 0) ops obs else []
      | None => []
      end
  | CFine cfg total ops obs =>
      match new_limiter cfg total with
      | Some l => if wfb l then hviol (fine_viol l) (fine_next l) (0, false, None) ops obs else []
      | None => []
      end
  | CCtxLife ops obs => hviol ctx_viol ctx_next 0 ops obs
  | CQuotaV1 _ _ _ | CQuotaV2 _ _ | CTotal _ _ | CDefault _ => []
  end.

Definition prop_ok (c : vcase) : bool := match violations c with [] => true | _ => false end.
