(* C18/ProofsTotal.v — percentage mode with the total-memory reading (iruntime.TotalMemory,
   cgroups) as an input: well-formed limits for every bounded environment. *)
From Verif Require Import Common.Base Generated.MemLimiter18 C18.Model C18.Proofs.
From Coq Require Import ZifyBool.
Local Open Scope Z_scope.

(* what the environment must satisfy: the quota that is actually used (defined, not the
   "unlimited" marker) and the /proc/meminfo total are non-negative and below 2^64/100 *)
Definition env_bounded (e : mem_env) : Prop :=
  (forall q, selected_quota e = Some (QRes q true) -> q <> unlimitedMemorySize -> 0 <= q /\ 100 * q < U64) /\
  (forall m, e_meminfo e = Some m -> 0 <= m /\ 100 * m < U64).

Lemma total_memory_bounded e t : env_bounded e -> total_memory e = Some t -> 0 <= t /\ 100 * t < U64.
Proof.
  intros [BQ BM]. unfold total_memory.
  destruct (selected_quota e) as [[|q d]|] eqn:SQ; try discriminate.
  destruct (q =? unlimitedMemorySize) eqn:EU; cbn [orb].
  - intros H. exact (BM t H).
  - destruct d; cbn [negb].
    + intros H. injection H as <-.
      assert (NE : q <> unlimitedMemorySize) by lia.
      destruct (BQ q eq_refl NE) as [Q0 Q1].
      rewrite Z.mod_small by (unfold U64 in *; lia). split; assumption.
    + intros H. exact (BM t H).
Qed.

(* cgroup v1 never hands out a non-positive quota as "defined" *)
Lemma memory_quota_v1_positive ex rd q : memory_quota_v1 ex rd = QRes q true -> 0 < q.
Proof.
  unfold memory_quota_v1. destruct ex; cbn [negb]; [|discriminate].
  destruct rd as [n|]; [|discriminate].
  destruct (n >? 0) eqn:E; [|discriminate]. intros H. injection H as <-. lia.
Qed.

(* cgroup v2 hands out whatever integer is in memory.max *)
Lemma memory_quota_v2_defined f q : memory_quota_v2 f = QRes q true <-> f = V2Int q.
Proof.
  destruct f; cbn [memory_quota_v2]; split; try discriminate; intros H; injection H as ->; reflexivity.
Qed.

(* the error cases of TotalMemory *)
Lemma total_memory_none e : total_memory e = None <->
  selected_quota e = None \/ selected_quota e = Some QErr \/
  (exists q d, selected_quota e = Some (QRes q d) /\ (q = unlimitedMemorySize \/ d = false) /\ e_meminfo e = None).
Proof.
  unfold total_memory. destruct (selected_quota e) as [[|q d]|] eqn:SQ.
  - split; [intros _; right; left; reflexivity|reflexivity].
  - destruct (q =? unlimitedMemorySize) eqn:EU; cbn [orb].
    + split.
      * intros H. right. right. exists q, d. split; [reflexivity|]. split; [left; lia|exact H].
      * intros [H|[H|(q' & d' & H & _ & M)]]; try discriminate. exact M.
    + destruct d; cbn [negb].
      * split; [discriminate|]. intros [H|[H|(q' & d' & H & [U|D] & M)]]; try discriminate.
        -- injection H as <- <-. lia.
        -- injection H as <- <-. discriminate.
      * split.
        -- intros H. right. right. exists q, false. split; [reflexivity|]. split; [right; reflexivity|exact H].
        -- intros [H|[H|(q' & d' & H & _ & M)]]; try discriminate. exact M.
  - split; [intros _; left; reflexivity|reflexivity].
Qed.

(* limits_wellformed with the total memory computed by TotalMemory from a bounded environment *)
Lemma limits_wellformed_total_memory_l c e l :
  validate c = None -> config_in_range c -> env_bounded e ->
  new_limiter c (total_memory e) = Some l ->
  wf l /\
  (c_limit_mib c = 0 -> exists t, total_memory e = Some t /\
     l_limit l = c_limit_pct c * t / 100 /\
     l_spike l = (if c_spike_pct c * t / 100 =? 0 then l_limit l / 5 else c_spike_pct c * t / 100)).
Proof.
  intros V R B N.
  assert (BB : c_limit_mib c = 0 -> forall t, total_memory e = Some t -> 0 <= t /\ 100 * t < U64).
  { intros _ t T. exact (total_memory_bounded e t B T). }
  destruct (limits_wellformed_l c (total_memory e) l V R BB N) as (W & _ & _ & _ & _ & P).
  split; [exact W|]. intros Z0.
  destruct (total_memory e) as [t|] eqn:T.
  - exists t. split; [reflexivity|]. exact (P Z0 t eq_refl).
  - exfalso. unfold new_limiter, get_checker in N. rewrite Z0 in N. cbn in N. discriminate.
Qed.

(* outside the bound: cgroup v2 with memory.max = -1 (the kernel never writes that; "max" is
   the unlimited marker) — uint64(-1) = 2^64-1 bytes of "total memory", and the percentage
   products wrap: with limit 17 %, spike 16 % the limit comes out BELOW the spike *)
Definition neg_env : mem_env := mkEnv (Some true) (memory_quota_v2 (V2Int (-1))) None (Some 17179869184).
Definition neg_cfg : config := mkConfig 1000000000 0 0 0 0 17 16.

Lemma total_memory_negative_quota_l :
  total_memory neg_env = Some 18446744073709551615 /\
  validate neg_cfg = None /\ config_in_range neg_cfg /\
  exists l, new_limiter neg_cfg (total_memory neg_env) = Some l /\ l_limit l < l_spike l.
Proof.
  split; [vm_compute; reflexivity|]. split; [vm_compute; reflexivity|].
  split; [unfold config_in_range, neg_cfg, U32; cbn; lia|].
  eexists. split; [vm_compute; reflexivity|]. vm_compute. reflexivity.
Qed.
