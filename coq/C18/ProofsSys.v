(* C18/ProofsSys.v — the limiter as a whole: Start/Shutdown, ticker-driven checks, queries. *)
From Verif Require Import Common.Base Generated.MemLimiter18 C18.Model C18.Proofs.
From Coq Require Import ZifyBool.
Local Open Scope Z_scope.

Fixpoint life_ops (os : list sop) : list lop :=
  match os with
  | [] => []
  | SStart :: r => LStart :: life_ops r
  | SShutdown :: r => LShutdown :: life_ops r
  | _ :: r => life_ops r
  end.

(* the ticks that are actually delivered (a check runs), given the lifetime state *)
Fixpoint effective (lf : life) (os : list sop) : list tick :=
  match os with
  | [] => []
  | SStart :: r => effective (fst (life_step lf LStart)) r
  | SShutdown :: r => effective (fst (life_step lf LShutdown)) r
  | STick t :: r => if checking lf then t :: effective lf r else effective lf r
  | SQuery :: r => effective lf r
  end.

Lemma sys_life_l l s os : s_life (fst (sys_run l s os)) = fst (life_run (s_life s) (life_ops os)).
Proof.
  revert s. induction os as [|o os IH]; intros s; [reflexivity|].
  cbn [sys_run]. destruct o as [| |t|]; cbn [sys_step life_ops life_run].
  - destruct (life_step (s_life s) LStart) as [lf e]. specialize (IH (mkSys lf (s_st s))). cbn [s_life s_st] in IH.
    destruct (sys_run l (mkSys lf (s_st s)) os), (life_run lf (life_ops os)). exact IH.
  - destruct (life_step (s_life s) LShutdown) as [lf e]. specialize (IH (mkSys lf (s_st s))). cbn [s_life s_st] in IH.
    destruct (sys_run l (mkSys lf (s_st s)) os), (life_run lf (life_ops os)). exact IH.
  - destruct (checking (s_life s)).
    + destruct (check l (s_st s) t) as [s1 ev]. specialize (IH (mkSys (s_life s) s1)). cbn [s_life s_st] in IH.
      destruct (sys_run l (mkSys (s_life s) s1) os). exact IH.
    + specialize (IH s). destruct (sys_run l s os). exact IH.
  - specialize (IH s). destruct (sys_run l s os). exact IH.
Qed.

Lemma sys_state_l l s os : s_st (fst (sys_run l s os)) = fst (run l (s_st s) (effective (s_life s) os)).
Proof.
  revert s. induction os as [|o os IH]; intros s; [reflexivity|].
  cbn [sys_run]. destruct o as [| |t|]; cbn [sys_step effective].
  - destruct (life_step (s_life s) LStart) as [lf e]. specialize (IH (mkSys lf (s_st s))). cbn [s_life s_st] in IH.
    destruct (sys_run l (mkSys lf (s_st s)) os). exact IH.
  - destruct (life_step (s_life s) LShutdown) as [lf e]. specialize (IH (mkSys lf (s_st s))). cbn [s_life s_st] in IH.
    destruct (sys_run l (mkSys lf (s_st s)) os). exact IH.
  - destruct (checking (s_life s)).
    + cbn [run]. destruct (check l (s_st s) t) as [s1 ev]. specialize (IH (mkSys (s_life s) s1)). cbn [s_life s_st] in IH.
      destruct (sys_run l (mkSys (s_life s) s1) os). cbn [fst s_st s_life] in *.
      destruct (run l s1 (effective (s_life s) os)). exact IH.
    + specialize (IH s). destruct (sys_run l s os). exact IH.
  - specialize (IH s). destruct (sys_run l s os). exact IH.
Qed.

Lemma sys_run_app l s a b :
  sys_run l s (a ++ b) =
  (fst (sys_run l (fst (sys_run l s a)) b), snd (sys_run l s a) ++ snd (sys_run l (fst (sys_run l s a)) b)).
Proof.
  revert s. induction a as [|o a IH]; intros s; cbn [sys_run app fst snd].
  - destruct (sys_run l s b); reflexivity.
  - destruct (sys_step l s o) as [s1 ob]. rewrite IH. destruct (sys_run l s1 a). reflexivity.
Qed.

Lemma sys_run_snoc l s os o : fst (sys_run l s (os ++ [o])) = fst (sys_step l (fst (sys_run l s os)) o).
Proof. rewrite sys_run_app. cbn [fst sys_run]. destruct (sys_step l _ o). reflexivity. Qed.

Lemma sys_tick_noop l s t : checking (s_life s) = false -> sys_step l s (STick t) = (s, SNoTick).
Proof. intros C. cbn [sys_step]. rewrite C. reflexivity. Qed.

Lemma sys_tick_checks l s t : checking (s_life s) = true ->
  sys_step l s (STick t) =
  (mkSys (s_life s) (fst (check l (s_st s) t)),
   STicked (refuse (fst (check l (s_st s) t))) (gc_count (snd (check l (s_st s) t)))).
Proof. intros C. cbn [sys_step]. rewrite C. destruct (check l (s_st s) t). reflexivity. Qed.

(* while the limiter has users — restarted or not — every tick is a check, and after it the
   mode is the property's iff *)
Lemma sys_refuse_iff_soft_l l t0 os t : wf l ->
  let s := fst (sys_run l (sys0 t0) os) in
  0 < refcnt (s_life s) ->
  snd (sys_step l s (STick t)) <> SNoTick /\
  refuse (s_st (fst (sys_run l (sys0 t0) (os ++ [STick t])))) =
  (final_reading l (s_st s) t >=? l_limit l - l_spike l).
Proof.
  intros W. cbn zeta. intros P.
  assert (C : checking (s_life (fst (sys_run l (sys0 t0) os))) = true).
  { rewrite sys_life_l in *. cbn [sys0 s_life] in *.
    pose proof (checker_runs_while_used_l (life_ops os)) as H. cbn zeta in H. rewrite H. lia. }
  rewrite sys_run_snoc, (sys_tick_checks _ _ _ C). cbn [fst snd s_st]. split; [discriminate|].
  apply refuse_iff_soft_l. exact W.
Qed.

Definition passive (o : sop) : bool := match o with STick _ | SQuery => true | _ => false end.

Lemma sys_passive_frozen l s qs :
  checking (s_life s) = false -> (forall o, In o qs -> passive o = true) ->
  fst (sys_run l s qs) = s.
Proof.
  intros C. induction qs as [|o qs IH]; intros P; [reflexivity|].
  cbn [sys_run]. assert (Po := P o (or_introl eq_refl)).
  assert (IH' := IH (fun o' I => P o' (or_intror I))).
  destruct o as [| |t|]; try discriminate.
  - rewrite (sys_tick_noop _ _ _ C). destruct (sys_run l s qs). exact IH'.
  - cbn [sys_step]. destruct (sys_run l s qs). exact IH'.
Qed.

(* "... and then stops": once the last user has shut down, no sequence of ticks changes
   mustRefuse or lastGCDone *)
Lemma sys_frozen_without_users_l l t0 os qs :
  refcnt (s_life (fst (sys_run l (sys0 t0) os))) = 0 ->
  (forall o, In o qs -> passive o = true) ->
  fst (sys_run l (sys0 t0) (os ++ qs)) = fst (sys_run l (sys0 t0) os).
Proof.
  intros R P. rewrite sys_run_app. cbn [fst]. apply sys_passive_frozen; [|exact P].
  rewrite sys_life_l in *. cbn [sys0 s_life] in *.
  exact (proj2 (proj2 (proj2 (checker_lifetime_l (life_ops os)))) R).
Qed.

(* a restarted limiter checks again: Start, Shutdown, Start, then usage far above the hard limit *)
Definition restart_limiter : limiter := mkLimiter 104857600 20971520 0 0.

Lemma sys_restart_checks_l :
  let t := mkTick 1000000000 1000000000 4000000000 4000000000 in
  snd (sys_run restart_limiter (sys0 0) [SStart; SShutdown; SStart; STick t; SQuery]) =
    [SLifeRes false; SLifeRes false; SLifeRes false; STicked true 1; SQueried true].
Proof. vm_compute. reflexivity. Qed.
