(* C18/Harness.v — comparison of the model with the observations recorded by the Go harnesses
   (harness/C18/*.go).  Imports only the model (+ generated definitions). *)
From Coq Require Import String.
From Verif Require Export Common.Base Generated.MemLimiter18 C18.Model.
Local Open Scope Z_scope.

(* ---- wire forms ------------------------------------------------------------------------------ *)
(* Validate(): 0 = nil, 1.. = the package error variables, 99 = anything else *)
Definition verr_code (e : option String.string) : nat :=
  match e with
  | None => 0%nat
  | Some s =>
      if String.eqb s "errCheckIntervalOutOfRange" then 1%nat
      else if String.eqb s "errInconsistentGCMinInterval" then 2%nat
      else if String.eqb s "errLimitOutOfRange" then 3%nat
      else if String.eqb s "errLimitPercentageOutOfRange" then 4%nat
      else if String.eqb s "errSpikeLimitOutOfRange" then 5%nat
      else if String.eqb s "errSpikeLimitPercentageOutOfRange" then 6%nat
      else 99%nat
  end.

Definition ev_code (e : event) : nat :=
  match e with
  | EvGC => 0 | LogResume => 1 | LogHardGC => 2 | LogSoftGC => 3 | LogAfterGC => 4 | LogRefusing => 5
  end%nat.

Definition pairZ_eqb (a b : Z * Z) : bool := Z.eqb (fst a) (fst b) && Z.eqb (snd a) (snd b).

(* observation of one CheckMemLimits: MustRefuse() after it, number of runGCFn calls, whether
   lastGCDone was rewritten, and the GC marker + log lines (Info and above) in order *)
Definition chk_obs := (bool * nat * bool * list nat)%type.

Definition chk_obs_eqb (a b : chk_obs) : bool :=
  let '(r1, g1, u1, e1) := a in
  let '(r2, g2, u2, e2) := b in
  Bool.eqb r1 r2 && Nat.eqb g1 g2 && Bool.eqb u1 u2 && list_eqb Nat.eqb e1 e2.

(* the harness's virtual clock: t_gc_done = t_now; lastGCDone "rewritten" <-> a GC was forced *)
Definition tick_of (p : Z * Z * Z) : tick := let '(now, r1, r2) := p in mkTick now now r1 r2.

Fixpoint run_obs (l : limiter) (s : st) (ts : list (Z * Z * Z)) : list chk_obs :=
  match ts with
  | [] => []
  | p :: ts' =>
      let '(s1, ev) := check l s (tick_of p) in
      (refuse s1, gc_count ev, gc_forced ev, map ev_code ev)
        :: run_obs l s1 ts'
  end.

(* lifetime observation per op: error returned, refCounter, the closed-channel is open
   (goroutine), periodic checks observed to happen *)
Definition life_obs := (bool * Z * bool * bool)%type.
Definition life_obs_eqb (a b : life_obs) : bool :=
  let '(e1, c1, g1, k1) := a in
  let '(e2, c2, g2, k2) := b in
  Bool.eqb e1 e2 && Z.eqb c1 c2 && Bool.eqb g1 g2 && Bool.eqb k1 k2.

Fixpoint life_obs_run (s : life) (os : list bool) : list life_obs :=
  match os with
  | [] => []
  | o :: os' =>
      let '(s1, e) := life_step s (if o then LStart else LShutdown) in
      (e, refcnt s1, goroutine s1, checking s1) :: life_obs_run s1 os'
  end.

Definition err_eqb (a b : err) : bool :=
  match a, b with
  | ErrDataRefused, ErrDataRefused => true
  | ErrSkipProcessingData, ErrSkipProcessingData => true
  | ErrDown x, ErrDown y => Z.eqb x y
  | _, _ => false
  end.

Definition sigid_eqb (a b : nat * Z) : bool := Nat.eqb (fst a) (fst b) && Z.eqb (snd a) (snd b).

Definition gobs_eqb (a b : gobs) : bool :=
  match a, b with
  | OChecked r1 g1, OChecked r2 g2 => Bool.eqb r1 r2 && Nat.eqb g1 g2
  | OConsumed r1 f1, OConsumed r2 f2 => option_eqb err_eqb r1 r2 && list_eqb sigid_eqb f1 f2
  | OExt r1, OExt r2 => Bool.eqb r1 r2
  | _, _ => false
  end.

Definition outcome_obs (r : new_result) : nat * option (Z * Z) :=
  match r with
  | NewErr => (0%nat, None)
  | NewPanic => (1%nat, None)
  | NewOk l => (2%nat, Some (l_limit l, l_spike l))
  end.

Definition sobs_eqb (a b : sobs) : bool :=
  match a, b with
  | SLifeRes e1, SLifeRes e2 => Bool.eqb e1 e2
  | STicked r1 g1, STicked r2 g2 => Bool.eqb r1 r2 && Nat.eqb g1 g2
  | SNoTick, SNoTick => true
  | SQueried r1, SQueried r2 => Bool.eqb r1 r2
  | _, _ => false
  end.

Definition fobs_eqb (a b : fobs) : bool :=
  match a, b with
  | FLifeRes e1 c1, FLifeRes e2 c2 => Bool.eqb e1 e2 && option_eqb Bool.eqb c1 c2
  | FBegun, FBegun => true
  | FNotBegun, FNotBegun => true
  | FEnded r1, FEnded r2 => Bool.eqb r1 r2
  | FNoEnd, FNoEnd => true
  | FQueried r1, FQueried r2 => Bool.eqb r1 r2
  | _, _ => false
  end.

Definition quota_eqb (a b : quota_res) : bool :=
  match a, b with
  | QErr, QErr => true
  | QRes q1 d1, QRes q2 d2 => Z.eqb q1 q2 && Bool.eqb d1 d2
  | _, _ => false
  end.

Definition config_eqb (a b : config) : bool :=
  Z.eqb (c_check a) (c_check b) && Z.eqb (c_soft_int a) (c_soft_int b) && Z.eqb (c_hard_int a) (c_hard_int b) &&
  Z.eqb (c_limit_mib a) (c_limit_mib b) && Z.eqb (c_spike_mib a) (c_spike_mib b) &&
  Z.eqb (c_limit_pct a) (c_limit_pct b) && Z.eqb (c_spike_pct a) (c_spike_pct b).

Fixpoint ctx_obs_run (s : life) (os : list cop) : list life_obs :=
  match os with
  | [] => []
  | o :: os' =>
      let '(s1, e) := cstep s o in
      (e, refcnt s1, goroutine s1, checking s1) :: ctx_obs_run s1 os'
  end.

(* ---- cases ----------------------------------------------------------------------------------- *)
Inductive vcase :=
(* Validate() class; NewMemoryLimiter outcome: 0 = error, 1 = panic, 2 = limiter with usage checker (limit, spike) *)
| CConfig (c : config) (total : option Z) (verr : nat) (outcome : nat) (chk : option (Z * Z))
(* a limiter built from (c, total), clock 0 at construction, then checks *)
| CRun (c : config) (total : option Z) (ticks : list (Z * Z * Z)) (obs : list chk_obs)
(* Start (true) / Shutdown (false) script on one limiter *)
| CLife (ops : list bool) (obs : list life_obs)
(* processors / extension sharing one limiter *)
| CGate (c : config) (total : option Z) (ops : list gop) (obs : list gobs)
(* create calls on one factory: (config object, limiter constructible now) -> limiter identity *)
| CShare (calls : list (nat * bool)) (obs : list (option nat))
(* a started/stopped limiter with its real ticker: Start / Shutdown / "usage becomes r and a tick
   is awaited" / MustRefuse; clock 0, minimum GC intervals far away (no GC is ever due) *)
| CSys (c : config) (total : option Z) (ops : list sop) (obs : list sobs)
(* the same with checks that take time: a check is held inside CheckMemLimits (FBegin) while
   Start/Shutdown/MustRefuse happen, and released later (FEnd, or by the last Shutdown's wait) *)
| CFine (c : config) (total : option Z) (ops : list fop) (obs : list fobs)
(* cgroups readers and iruntime.TotalMemory: inputs as observed/constructed by the harness *)
| CQuotaV1 (subsys_exists : bool) (read : option Z) (obs : quota_res)
| CQuotaV2 (f : v2_file) (obs : quota_res)
| CTotal (e : mem_env) (obs : option Z)
(* NewDefaultConfig() as the Go struct's seven fields *)
| CDefault (obs : config)
(* Start(ctx_i) / Shutdown / "ctx_i ends" scripts: same observation per op as CLife *)
| CCtxLife (ops : list cop) (obs : list life_obs).

Definition check_case (c : vcase) : bool :=
  match c with
  | CConfig cfg total verr outcome chk =>
      Nat.eqb (verr_code (validate cfg)) verr &&
      Nat.eqb (fst (outcome_obs (new_outcome cfg total))) outcome &&
      option_eqb pairZ_eqb (snd (outcome_obs (new_outcome cfg total))) chk
  | CRun cfg total ticks obs =>
      match new_limiter cfg total with
      | Some l => list_eqb chk_obs_eqb (run_obs l (st0 0) ticks) obs
      | None => false
      end
  | CLife ops obs => list_eqb life_obs_eqb (life_obs_run life0 ops) obs
  | CGate cfg total ops obs =>
      match new_limiter cfg total with
      | Some l => list_eqb gobs_eqb (snd (gate_run l (st0 0) ops)) obs
      | None => false
      end
  | CShare calls obs => list_eqb (option_eqb Nat.eqb) (snd (factory_run [] calls)) obs
  | CSys cfg total ops obs =>
      match new_limiter cfg total with
      | Some l => list_eqb sobs_eqb (snd (sys_run l (sys0 0) ops)) obs
      | None => false
      end
  | CFine cfg total ops obs =>
      match new_limiter cfg total with
      | Some l => list_eqb fobs_eqb (snd (frun l (fsys0 0) ops)) obs
      | None => false
      end
  | CQuotaV1 ex rd obs => quota_eqb (memory_quota_v1 ex rd) obs
  | CQuotaV2 f obs => quota_eqb (memory_quota_v2 f) obs
  | CTotal e obs => option_eqb Z.eqb (total_memory e) obs
  | CDefault obs => config_eqb default_config obs
  | CCtxLife ops obs => list_eqb life_obs_eqb (ctx_obs_run life0 ops) obs
  end.

(* model outputs, for replay files *)
Inductive mout :=
| MConfig (verr : nat) (outcome : nat * option (Z * Z))
| MRun (obs : option (list chk_obs))
| MLife (obs : list life_obs)
| MGate (obs : option (list gobs))
| MShare (obs : list (option nat))
| MSys (obs : option (list sobs))
| MFine (obs : option (list fobs))
| MQuota (q : quota_res)
| MTotal (t : option Z)
| MDefault (c : config).

Definition model_out (c : vcase) : mout :=
  match c with
  | CConfig cfg total _ _ _ =>
      MConfig (verr_code (validate cfg)) (outcome_obs (new_outcome cfg total))
  | CRun cfg total ticks _ => MRun (option_map (fun l => run_obs l (st0 0) ticks) (new_limiter cfg total))
  | CLife ops _ => MLife (life_obs_run life0 ops)
  | CGate cfg total ops _ => MGate (option_map (fun l => snd (gate_run l (st0 0) ops)) (new_limiter cfg total))
  | CShare calls _ => MShare (snd (factory_run [] calls))
  | CSys cfg total ops _ => MSys (option_map (fun l => snd (sys_run l (sys0 0) ops)) (new_limiter cfg total))
  | CFine cfg total ops _ => MFine (option_map (fun l => snd (frun l (fsys0 0) ops)) (new_limiter cfg total))
  | CQuotaV1 ex rd _ => MQuota (memory_quota_v1 ex rd)
  | CQuotaV2 f _ => MQuota (memory_quota_v2 f)
  | CTotal e _ => MTotal (total_memory e)
  | CDefault _ => MDefault default_config
  | CCtxLife ops _ => MLife (ctx_obs_run life0 ops)
  end.
