(* C03/Properties.v — the property theorems, nothing else.  Model: C03/Model.v (a labelled transition
   system of the exporter helper's queue + batcher + retry + shutdown threads; every theorem quantifies
   over ALL configurations [c] and ALL label lists [ls], i.e. all interleavings of producers, consumers,
   flush goroutines, timer goroutine, backend answers (success / transient / permanent, in any order and
   at any time) and the Shutdown caller, with no bound on length).
   Ghost fields used in the statements (all append-only, see [step]):
     accpre s   ids whose Offer was accepted before Shutdown was called     (accpre_spec reads it off the trace)
     begun s    ids handed to the export function, one entry per call that contains the id
     nparts s   one entry per part (chunk) a request was cut into by the batcher (max_size); 1 per request otherwise
     partlog s  (id, result) of every part that has reported
     ended s    the same for calls that have returned;   failures s = number of calls that returned an error,
                failedids s = the ids those failed calls contained
     finished s (id, result of the sender chain) once the queue's Done callback has run
     store s    persistent queue: ids whose body is in the storage *)
From Coq Require Import Permutation.
From Verif Require Import Common.Base C03.Model C03.Proofs C03.ProofsB C03.Proofs2 C03.Proofs3 C03.Obs C03.ProofsObs.

(* ---- in-memory queue ---------------------------------------------------------------------------
   When Shutdown has returned, every request accepted before Shutdown was called has been handed to the
   export function at least once — and every part it was cut into (max_size; one part if it was not split)
   exactly once if no export call of the run failed, more precisely if no export call CONTAINING a part of that
   request failed ([failedids]) — its Done callback has run, and every export call has returned. *)
Theorem shutdown_drains_memory : forall c ls s,
  c_queue c = true -> c_persist c = false -> 1 <= c_ncons c ->
  run c (init c) ls = Some s -> pc s = PReturned ->
  (forall i, In i (accpre s) ->
     1 <= cnt i (begun s) /\ (failures s = 0 -> cnt i (begun s) = cnt i (nparts s)) /\
     (~ In i (failedids s) -> cnt i (begun s) = cnt i (nparts s)) /\ exists r, In (i, r) (finished s))
  /\ (forall i, cnt i (ended s) = cnt i (begun s)).
Proof. exact drains_memory_l. Qed.

(* [accpre] is what the property calls "enqueue completed before shutdown was requested" *)
Theorem accpre_spec : forall c l1 l2 s, ~ In LShutCall l1 ->
  run c (init c) (l1 ++ LShutCall :: l2) = Some s ->
  forall i, In i (accpre s) <-> In i (offers l1).
Proof. exact accpre_spec_l. Qed.

(* ---- persistent queue ---------------------------------------------------------------------------
   When Shutdown has returned, every accepted request (before or after the call) is still in the storage
   or has finished export — successfully or with a final failure, never with a mere shutdown
   interruption — and was then handed to the export function at least once; all export calls have
   returned; the storage client has been closed (hence: not before the last in-flight item completed). *)
Theorem shutdown_persistent : forall c ls s,
  c_queue c = true -> c_persist c = true -> run c (init c) ls = Some s -> pc s = PReturned ->
  (forall i, In i (accepted s) ->
     In i (store s) \/ exists r, In (i, r) (finished s) /\ r <> RShutdown /\ 1 <= cnt i (begun s))
  /\ (forall i, cnt i (ended s) = cnt i (begun s))
  /\ closed s = true.
Proof. exact persistent_l. Qed.

(* the storage client is closed exactly when no reference is left, and the references are: one for the queue
   until it is stopped, one per request taken from the queue whose Done has not run (for a split request:
   until its LAST part has reported) *)
Theorem client_open_while_in_flight : forall c ls s,
  c_queue c = true -> c_persist c = true -> run c (init c) ls = Some s ->
  closed s = Nat.eqb (refs s) 0 /\
  refs s + length (finished s) = (if qstop s then 0 else 1) + length (taken s).
Proof.
  exact (fun c ls s Q P R =>
    let I := run_inv c ls (init c) s (init_inv c) R in
    conj (eq_trans (i_closed c s I) (f_equal (fun b => b && Nat.eqb (refs s) 0) P)) (i_refs c s I P Q)).
Qed.

(* ---- nothing happens after the return ------------------------------------------------------------
   In a state where Shutdown has returned no helper goroutine is alive, and the only enabled labels are
   producers' offers: no consumer, flush, timer, retry or export step — in particular no export begin. *)
Theorem no_work_after_return : forall c ls s,
  c_queue c = true -> run c (init c) ls = Some s -> pc s = PReturned ->
  live s = 0 /\ postb s = 0 /\ forall l s', step c s l = Some s' -> is_offer l = true /\ pc s' = PReturned.
Proof. exact after_return_l. Qed.

(* trace form: whatever follows a returned state consists of offers only and begins no export;
   moreover no export ever begins once the wrapped exporter has been shut down ([postb] counts them) *)
Theorem no_begin_after_return : forall c, c_queue c = true -> forall ls2 ls1 s1 s2,
  run c (init c) ls1 = Some s1 -> pc s1 = PReturned -> run c s1 ls2 = Some s2 ->
  forallb is_offer ls2 = true /\ begun s2 = begun s1 /\ pc s2 = PReturned.
Proof. exact no_begin_after_return_l. Qed.

Theorem no_begin_after_inner_shutdown : forall c ls s, run c (init c) ls = Some s -> postb s = 0.
Proof. exact (fun c ls s R => i_postb c s (run_inv c ls (init c) s (init_inv c) R)). Qed.

(* ---- the partial batch ----------------------------------------------------------------------------
   Whatever sits in the batcher's current batch at ANY point of a run (in particular when the final
   flush takes it) has been exported and finished by the time Shutdown returns; both queue kinds. *)
Theorem partial_batch_flushed : forall c ls1 ls2 s1 s2,
  c_queue c = true -> run c (init c) ls1 = Some s1 -> run c s1 ls2 = Some s2 -> pc s2 = PReturned ->
  forall i, In i (current s1) -> 1 <= cnt i (begun s2) /\ exists r, In (i, r) (finished s2).
Proof. exact partial_batch_l. Qed.

Theorem final_flush_takes_current : forall c s s', step c s LFinalFlush = Some s' ->
  current s' = [] /\ (current s <> [] -> pc s' = PFlushWait (current s)).
Proof. exact final_flush_takes. Qed.

(* ---- termination ----------------------------------------------------------------------------------
   [ranked] labels = every label except producers' offers and the back-off timer branch.
   (1) every ranked step strictly decreases the measure [mu] (except the no-op tick of the batch timer),
       so no run of ranked labels is longer than mu: no infinite run avoids Return;
   (2) while Shutdown has been called and has not returned some ranked label is enabled (the backend
       answering a call is one) — no deadlock in the join conditions;
   (3) hence Return is reachable from every reachable state after the call, within mu steps.
   Partial: the back-off timer branch is excluded.  Before close(stopCh) that is inherent (a backend that
   always fails transiently is retried for ever); after it the Go select can still take the timer
   branch when both are ready (zero/elapsed interval, finding S4 of C05), and the faithful model allows
   it, so an unconditional statement is false of the model: see shutdown_terminates_refuted. *)
Theorem shutdown_terminates_partial : forall c ls s,
  (c_batch c = true -> 1 <= c_nwork c) /\ 1 <= c_maxparts c ->
  run c (init c) ls = Some s -> is_not (pc s) = false ->
  (exists ls' s', run c s ls' = Some s' /\ pc s' = PReturned /\ forallb ranked ls' = true /\ length ls' <= mu c s)
  /\ (pc s <> PReturned -> exists l s', step c s l = Some s' /\ ranked l = true /\ mu c s' < mu c s)
  /\ (forall ls' s', run c s ls' = Some s' -> forallb ranked ls' = true ->
        mu c s' + length (filter (fun l => match l with LTimerFire => false | _ => true end) ls') <= mu c s).
Proof. exact terminates_l. Qed.

(* The unconditional statement ("from every reachable state after close(stopCh), every maximal run of the
   exporter's own threads with an answering backend reaches Return") is FALSE of the faithful model:
   there is a reachable state after the stop and a non-empty cycle of labels (back-off timer branch,
   export begins, export fails transiently) that returns to the same control state [ctl] — only the
   ghost logs grow — so it can be repeated for ever.  (C05's finding S4; needs the timer channel and
   stopCh ready together, i.e. a zero or already elapsed interval.) *)
Theorem shutdown_terminates_refuted : exists c ls s cyc s',
  run c (init c) ls = Some s /\ rstop s = true /\ is_not (pc s) = false /\ pc s <> PReturned /\
  cyc <> [] /\ run c s cyc = Some s' /\ ctl s' = ctl s /\ mu c s' = mu c s /\ length (begun s') = S (length (begun s)).
Proof. exact refuted_l. Qed.

(* ---- storage errors while the queue is stopped -----------------------------------------------------
   [LQueueStop err]: persistentQueue.Shutdown may fail (queue-size snapshot not written, Close failed).  All
   theorems above quantify over [err]; this one states that the error changes nothing but Shutdown's result:
   the consumers are still joined, the batcher is still shut down, the wrapped exporter still stopped. *)
Theorem queue_stop_error_only_sets_the_result : forall c s s1 s2,
  step c s (LQueueStop true) = Some s1 -> step c s (LQueueStop false) = Some s2 ->
  s2 = set_shuterr false s1 /\ shuterr s1 = true /\ pc s1 = PQStopped /\ qstop s1 = true.
Proof. exact queue_stop_error_l. Qed.

(* ---- a stored request split by max_size into several export calls --------------------------------------
   (refCountDone + persistentQueue.onDone: [combine]/[kept_after] in Model.v, used by [LDone] for the verdict of
   a request when its last outstanding part reports.)  The request stays in the storage iff at least one of its parts was only
   interrupted by the shutdown — whatever the other parts returned and in whatever order the parts report;
   it is reported as success iff every part succeeded. *)
Theorem split_request_kept_iff_some_part_interrupted : forall rs, In RShutdown rs <-> kept_after rs = true.
Proof. exact kept_iff_l. Qed.

Theorem split_request_verdict_order_independent : forall rs rs', Permutation rs rs' -> combine rs = combine rs'.
Proof. exact combine_perm. Qed.

Theorem split_request_success_iff_all_parts : forall rs, combine rs = RSuccess <-> forall r, In r rs -> r = RSuccess.
Proof. exact combine_success. Qed.

(* ---- the retry sender is stopped first, and stopping it releases every back-off -----------------------
   BaseExporter.Shutdown closes stopCh before anything else (whenever retry is enabled — also for an exporter
   without queue and batcher, which the LTS does not otherwise model: there the sender chain runs on the
   caller's goroutine and this is all Shutdown does before stopping the wrapped exporter).  Once it is closed
   every work waiting in its back-off can take the stop branch, which ends it with the shutdown error and
   without a further export attempt. *)
Theorem close_stop_stops_retry : forall c s s', step c s LCloseStop = Some s' -> rstop s' = c_retry c.
Proof. exact close_stop_l. Qed.

Theorem backoff_released_by_stop : forall c s k w,
  nth_error (works s) k = Some w -> w_st w = SBackoff -> rstop s = true ->
  exists s', step c s (LRetryStop k) = Some s' /\ begun s' = begun s /\
             nth_error (works s') k = Some (set_st (SDone RShutdown) w).
Proof. exact backoff_released_l. Qed.

(* ---- exporter without queue and batcher (cfg c_queue = false; labels LSend, LNoQueue) -------------------
   Send runs the sender chain on the caller's goroutine, so there is nothing to drain or join.  Shutdown never
   waits (its four steps are enabled one after the other whatever the callers do); when it has returned the
   retry sender is stopped (so every back-off is released, backoff_released_by_stop, and by the ranking no
   work makes more than the attempt it may already be in), the wrapped exporter is shut down, no helper
   goroutine exists: the only goroutines inside the exporter are callers of Send. *)
Theorem shutdown_without_queue_never_waits : forall c s, c_queue c = false -> pc s = PCalled ->
  exists s', run c s [LCloseStop; LNoQueue; LInnerShutdown; LReturn] = Some s' /\ pc s' = PReturned /\
             rstop s' = c_retry c /\ works s' = works s.
Proof. exact direct_never_waits_l. Qed.

Theorem shutdown_without_queue : forall c ls s,
  c_queue c = false -> run c (init c) ls = Some s -> pc s = PReturned ->
  rstop s = c_retry c /\ forallb is_caller (works s) = true /\ live s = length (works s) /\ postb s = 0.
Proof. exact direct_returned_l. Qed.

(* ---- the property on OBSERVED behaviour ---------------------------------------------------------------
   Obs.v [prop_viol] checks the clauses on a recorded schedule of the implementation without the model's step
   function (the check driver runs it on every recorded case: an independent oracle, and the source of the
   failing input when model and implementation disagree).  It decides exactly the Prop-level clauses: *)
Theorem observed_clauses_decided : forall pb mode mx q ps fin,
  prop_viol ([b2n pb; 0; 0; mode; 0; 0; 0; 0; 0; mx; q], ps, fin) = 0 <-> SchedProp (b2n pb) mode mx q ps fin.
Proof. exact sched_ok_iff. Qed.

Theorem observed_refcount_decided : forall codes ps fin,
  prop_viol (9 :: codes, ps, fin) = 0 <-> (In 3 codes -> fst fin = [1]).
Proof. exact refcount_ok_iff. Qed.

(* no NEW attempt after the return: in a run of the exporter's own labels (no further Send, no back-off timer branch)
   the number of export begins is bounded by the works that had not yet reached the export function ([ready]);
   in particular a work in back-off or already answered never begins again *)
Theorem no_new_attempt_without_queue : forall c ls1 s1 ls2 s2,
  c_queue c = false -> run c (init c) ls1 = Some s1 -> run c s1 ls2 = Some s2 -> forallb ranked ls2 = true ->
  ready s2 + sumf is_begin ls2 <= ready s1.
Proof.
  exact (fun c ls1 s1 ls2 s2 Q R1 R2 Rk =>
           run_ready c ls2 s1 s2 (run_inv c ls1 (init c) s1 (init_inv c) R1) Q R2 Rk).
Qed.

(* "all export calls have returned" is FALSE for an exporter without queue (nothing to join; the call runs on
   the caller's goroutine): witness, replayed by the queue-less family of the harness
   (histogram direct_return_with_call_open) *)
Theorem calls_returned_without_queue_refuted : exists c ls s,
  c_queue c = false /\ run c (init c) ls = Some s /\ pc s = PReturned /\
  cnt 1 (begun s) = 1 /\ cnt 1 (ended s) = 0 /\ live s = 1.
Proof. exact direct_open_call_refuted_l. Qed.

(* the hypothesis 1 <= c_ncons of shutdown_drains_memory is necessary; the real code rejects num_consumers <= 0
   (queuebatch.Config.Validate) *)
Theorem drains_memory_needs_a_consumer_refuted : exists c ls s,
  c_queue c = true /\ c_persist c = false /\ c_ncons c = 0 /\ run c (init c) ls = Some s /\ pc s = PReturned /\
  In 1 (accpre s) /\ cnt 1 (begun s) = 0.
Proof. exact no_consumer_refuted_l. Qed.

(* ---- the model that the correspondence run executes is this LTS ---------------------------------- *)
Theorem scheduler_runs_are_runs : forall hc acts ls evss s,
  exec hc [] (init (h_cfg hc)) acts = Some (ls, evss, s) -> run (h_cfg hc) (init (h_cfg hc)) ls = Some s.
Proof. exact (fun hc acts => exec_run_l hc acts [] (init (h_cfg hc))). Qed.

Print Assumptions shutdown_drains_memory.
Print Assumptions accpre_spec.
Print Assumptions shutdown_persistent.
Print Assumptions client_open_while_in_flight.
Print Assumptions no_work_after_return.
Print Assumptions no_begin_after_return.
Print Assumptions no_begin_after_inner_shutdown.
Print Assumptions partial_batch_flushed.
Print Assumptions final_flush_takes_current.
Print Assumptions shutdown_terminates_partial.
Print Assumptions shutdown_terminates_refuted.
Print Assumptions queue_stop_error_only_sets_the_result.
Print Assumptions split_request_kept_iff_some_part_interrupted.
Print Assumptions split_request_verdict_order_independent.
Print Assumptions split_request_success_iff_all_parts.
Print Assumptions close_stop_stops_retry.
Print Assumptions backoff_released_by_stop.
Print Assumptions shutdown_without_queue_never_waits.
Print Assumptions shutdown_without_queue.
Print Assumptions observed_clauses_decided.
Print Assumptions observed_refcount_decided.
Print Assumptions no_new_attempt_without_queue.
Print Assumptions calls_returned_without_queue_refuted.
Print Assumptions drains_memory_needs_a_consumer_refuted.
Print Assumptions scheduler_runs_are_runs.
