(* C03/Properties.v — the property theorems, nothing else.  Model: C03/Model.v (a labelled transition
   system of the exporter helper's queue + batcher + retry + shutdown threads; every theorem quantifies
   over ALL configurations [c] and ALL label lists [ls], i.e. all interleavings of producers, consumers,
   flush goroutines, timer goroutine, backend answers (success / transient / permanent, in any order and
   at any time) and the Shutdown caller, with no bound on length).
   Ghost fields used in the statements (all append-only, see [step]):
     accpre s   ids whose Offer was accepted before Shutdown was called     (accpre_spec reads it off the trace)
     begun s    ids handed to the export function, one entry per call that contains the id
     nparts s   one entry per part (chunk) a request was cut into by the batcher (max_size); 1 per request otherwise
     partlog s  (id, result) of every part that has reported
     ended s    the same for calls that have returned;   failures s = number of calls that returned an error,
                failedids s = the ids those failed calls contained
     finished s (id, result of the sender chain) once the queue's Done callback has run
     store s    persistent queue: ids whose body is in the storage *)
From Coq Require Import Permutation.
From Verif Require Import Common.Base C03.Model C03.Proofs C03.ProofsB C03.Proofs2 C03.Proofs3 C03.Obs C03.ProofsObs C03.ProofsLink.

(* ---- in-memory queue ---------------------------------------------------------------------------
   When Shutdown has returned, every request accepted before Shutdown was called has been handed to the
   export function at least once — and every part it was cut into (max_size; one part if it was not split)
   exactly once if no export call of the run failed, more precisely if no export call CONTAINING a part of that
   request failed ([failedids]) — its Done callback has run, and every export call has returned. *)
Theorem shutdown_drains_memory : forall c ls s,
  c_queue c = true -> c_persist c = false -> 1 <= c_ncons c ->
  run c (init c) ls = Some s -> pc s = PReturned ->
  (forall i, In i (accpre s) ->
     1 <= cnt i (begun s) /\ (failures s = 0 -> cnt i (begun s) = cnt i (nparts s)) /\
     (~ In i (failedids s) -> cnt i (begun s) = cnt i (nparts s)) /\ exists r, In (i, r) (finished s))
  /\ (forall i, cnt i (ended s) = cnt i (begun s)).
Proof. exact drains_memory_l. Qed.

(* [accpre] is what the property calls "enqueue completed before shutdown was requested" *)
Theorem accpre_spec : forall c l1 l2 s, ~ In LShutCall l1 ->
  run c (init c) (l1 ++ LShutCall :: l2) = Some s ->
  forall i, In i (accpre s) <-> In i (offers l1).
Proof. exact accpre_spec_l. Qed.

(* ---- persistent queue ---------------------------------------------------------------------------
   When Shutdown has returned, every accepted request (before or after the call) is still in the storage
   or has finished export — successfully or with a final failure, never with a mere shutdown
   interruption — and was then handed to the export function at least once; all export calls have
   returned; the storage client has been closed (hence: not before the last in-flight item completed). *)
Theorem shutdown_persistent : forall c ls s,
  c_queue c = true -> c_persist c = true -> run c (init c) ls = Some s -> pc s = PReturned ->
  (forall i, In i (accepted s) ->
     In i (store s) \/ exists r, In (i, r) (finished s) /\ r <> RShutdown /\ 1 <= cnt i (begun s))
  /\ (forall i, cnt i (ended s) = cnt i (begun s))
  /\ closed s = true.
Proof. exact persistent_l. Qed.

(* the storage client is closed exactly when no reference is left, and the references are: one for the queue
   until it is stopped, one per request taken from the queue whose Done has not run (for a split request:
   until its LAST part has reported) *)
Theorem client_open_while_in_flight : forall c ls s,
  c_queue c = true -> c_persist c = true -> run c (init c) ls = Some s ->
  closed s = Nat.eqb (refs s) 0 /\
  refs s + length (finished s) = (if qstop s then 0 else 1) + length (taken s).
Proof.
  exact (fun c ls s Q P R =>
    let I := run_inv c ls (init c) s (init_inv c) R in
    conj (eq_trans (i_closed c s I) (f_equal (fun b => b && Nat.eqb (refs s) 0) P)) (i_refs c s I P Q)).
Qed.

(* ---- nothing happens after the return ------------------------------------------------------------
   In a state where Shutdown has returned no helper goroutine is alive, and the only enabled labels are
   producers' offers: no consumer, flush, timer, retry or export step — in particular no export begin. *)
Theorem no_work_after_return : forall c ls s,
  c_queue c = true -> run c (init c) ls = Some s -> pc s = PReturned ->
  live s = 0 /\ postb s = 0 /\ forall l s', step c s l = Some s' -> is_offer l = true /\ pc s' = PReturned.
Proof. exact after_return_l. Qed.

(* trace form: whatever follows a returned state consists of offers only and begins no export;
   moreover no export ever begins once the wrapped exporter has been shut down ([postb] counts them) *)
Theorem no_begin_after_return : forall c, c_queue c = true -> forall ls2 ls1 s1 s2,
  run c (init c) ls1 = Some s1 -> pc s1 = PReturned -> run c s1 ls2 = Some s2 ->
  forallb is_offer ls2 = true /\ begun s2 = begun s1 /\ pc s2 = PReturned.
Proof. exact no_begin_after_return_l. Qed.

Theorem no_begin_after_inner_shutdown : forall c ls s, run c (init c) ls = Some s -> postb s = 0.
Proof. exact (fun c ls s R => i_postb c s (run_inv c ls (init c) s (init_inv c) R)). Qed.

(* ---- the partial batch ----------------------------------------------------------------------------
   Whatever sits in the batcher's current batch at ANY point of a run (in particular when the final
   flush takes it) has been exported and finished by the time Shutdown returns; both queue kinds. *)
Theorem partial_batch_flushed : forall c ls1 ls2 s1 s2,
  c_queue c = true -> run c (init c) ls1 = Some s1 -> run c s1 ls2 = Some s2 -> pc s2 = PReturned ->
  forall i, In i (current s1) -> 1 <= cnt i (begun s2) /\ exists r, In (i, r) (finished s2).
Proof. exact partial_batch_l. Qed.

Theorem final_flush_takes_current : forall c s s', step c s LFinalFlush = Some s' ->
  current s' = [] /\ (current s <> [] -> pc s' = PFlushWait (current s)).
Proof. exact final_flush_takes. Qed.

(* ---- termination ----------------------------------------------------------------------------------
   [ranked] labels = every label except the producers' offers / sends (the environment).  From every reachable
   state in which close(stopCh) has happened (the first step of Shutdown; at PCalled it is enabled):
   (1) Return is reachable using ranked labels only, within [mu c s] steps;
   (2) while Shutdown has not returned some ranked label is enabled and decreases mu (the backend answering a call
       is one) — no deadlock in the join conditions;
   (3) every ranked step decreases mu (except the no-op tick of the batch timer): no run of the exporter's own threads
       and the backend is longer than mu — in particular the back-off TIMER branch cannot keep a work alive after
       stop: retry_sender.go re-checks stopCh when the timer fires (zero or elapsed delay: both channels ready, select
       picks at random), and so does [LRetryTimer].  (Before that fix this was finding S4 and the statement was
       refuted; a revert of the re-check is seeded change C03-m16.)
   Only an endless stream of offers can keep a memory queue draining for ever (inherent). *)
Theorem shutdown_terminates : forall c ls s,
  (c_batch c = true -> 1 <= c_nwork c) /\ 1 <= c_maxparts c ->
  run c (init c) ls = Some s -> ge_stopclosed (pc s) = true ->
  (exists ls' s', run c s ls' = Some s' /\ pc s' = PReturned /\ forallb ranked ls' = true /\ length ls' <= mu c s)
  /\ (pc s <> PReturned -> exists l s', step c s l = Some s' /\ ranked l = true /\ mu c s' < mu c s)
  /\ (forall ls' s', run c s ls' = Some s' -> forallb ranked ls' = true ->
        mu c s' + length (filter (fun l => match l with LTimerFire => false | _ => true end) ls') <= mu c s).
Proof. exact terminates_l. Qed.

(* once stopCh is closed the timer branch of a back-off ends the work with the shutdown error: no further attempt *)
Theorem retry_timer_after_stop_gives_up : forall c s k w s',
  nth_error (works s) k = Some w -> w_st w = SBackoff -> rstop s = true -> step c s (LRetryTimer k) = Some s' ->
  begun s' = begun s /\ nth_error (works s') k = Some (set_st (SDone RShutdown) w).
Proof. exact retry_timer_stop_l. Qed.

(* ---- storage errors while the queue is stopped -----------------------------------------------------
   [LQueueStop err]: persistentQueue.Shutdown may fail (queue-size snapshot not written, Close failed).  All
   theorems above quantify over [err]; this one states that the error changes nothing but Shutdown's result:
   the consumers are still joined, the batcher is still shut down, the wrapped exporter still stopped. *)
Theorem queue_stop_error_only_sets_the_result : forall c s s1 s2,
  step c s (LQueueStop true) = Some s1 -> step c s (LQueueStop false) = Some s2 ->
  s2 = set_shuterr false s1 /\ shuterr s1 = true /\ pc s1 = PQStopped /\ qstop s1 = true.
Proof. exact queue_stop_error_l. Qed.

(* ---- a stored request split by max_size into several export calls --------------------------------------
   (refCountDone + persistentQueue.onDone: [combine]/[kept_after] in Model.v, used by [LDone] for the verdict of
   a request when its last outstanding part reports.)  The request stays in the storage iff at least one of its parts was only
   interrupted by the shutdown — whatever the other parts returned and in whatever order the parts report;
   it is reported as success iff every part succeeded. *)
Theorem split_request_kept_iff_some_part_interrupted : forall rs, In RShutdown rs <-> kept_after rs = true.
Proof. exact kept_iff_l. Qed.

Theorem split_request_verdict_order_independent : forall rs rs', Permutation rs rs' -> combine rs = combine rs'.
Proof. exact combine_perm. Qed.

Theorem split_request_success_iff_all_parts : forall rs, combine rs = RSuccess <-> forall r, In r rs -> r = RSuccess.
Proof. exact combine_success. Qed.

(* ---- the retry sender is stopped first, and stopping it releases every back-off -----------------------
   BaseExporter.Shutdown closes stopCh before anything else (whenever retry is enabled — also for an exporter
   without queue and batcher, which the LTS does not otherwise model: there the sender chain runs on the
   caller's goroutine and this is all Shutdown does before stopping the wrapped exporter).  Once it is closed
   every work waiting in its back-off can take the stop branch, which ends it with the shutdown error and
   without a further export attempt. *)
Theorem close_stop_stops_retry : forall c s s', step c s LCloseStop = Some s' -> rstop s' = c_retry c.
Proof. exact close_stop_l. Qed.

Theorem backoff_released_by_stop : forall c s k w,
  nth_error (works s) k = Some w -> w_st w = SBackoff -> rstop s = true ->
  exists s', step c s (LRetryStop k) = Some s' /\ begun s' = begun s /\
             nth_error (works s') k = Some (set_st (SDone RShutdown) w).
Proof. exact backoff_released_l. Qed.

(* ---- exporter without queue and batcher (cfg c_queue = false; labels LSend, LNoQueue) -------------------
   Send runs the sender chain on the caller's goroutine, so there is nothing to drain or join.  Shutdown never
   waits (its four steps are enabled one after the other whatever the callers do); when it has returned the
   retry sender is stopped (so every back-off is released, backoff_released_by_stop, and by the ranking no
   work makes more than the attempt it may already be in), the wrapped exporter is shut down, no helper
   goroutine exists: the only goroutines inside the exporter are callers of Send. *)
Theorem shutdown_without_queue_never_waits : forall c s, c_queue c = false -> pc s = PCalled ->
  exists s', run c s [LCloseStop; LNoQueue; LInnerShutdown; LReturn] = Some s' /\ pc s' = PReturned /\
             rstop s' = c_retry c /\ works s' = works s.
Proof. exact direct_never_waits_l. Qed.

Theorem shutdown_without_queue : forall c ls s,
  c_queue c = false -> run c (init c) ls = Some s -> pc s = PReturned ->
  rstop s = c_retry c /\ forallb is_caller (works s) = true /\ live s = length (works s) /\ postb s = 0.
Proof. exact direct_returned_l. Qed.

(* ---- the thread structure --------------------------------------------------------------------------------
   [census s] = the goroutines created by the exporter helper that are alive in s, by creation site: consumers
   (asyncQueue.Start), flush goroutines (defaultBatcher.flush), the flush timer goroutine; there is no fourth kind
   (the correspondence run compares this census with the creation sites found in a goroutine dump at every
   quiescent point).  Each kind is accounted for in the WaitGroup that Shutdown waits on: the number of consumers
   alive is asyncQueue.stopWG's counter (n_cons_alive + exited = the configured number) and the first join is
   enabled exactly when it is 0; the second join (defaultBatcher.stopWG) is enabled exactly when no flush goroutine
   and no timer goroutine is alive; at the return the census is empty. *)
Theorem census_consumers : forall c ls s, run c (init c) ls = Some s -> n_cons_alive s + exited s = ncons_eff c.
Proof. exact (fun c ls s R => census_consumers_l c s (run_inv c ls (init c) s (init_inv c) R)). Qed.

Theorem join_consumers_iff_no_consumer_alive : forall c ls s, run c (init c) ls = Some s -> pc s = PQStopped ->
  ((exists s', step c s LJoinConsumers = Some s') <-> n_cons_alive s = 0).
Proof. exact (fun c ls s R => join_consumers_iff_l c s (run_inv c ls (init c) s (init_inv c) R)). Qed.

Theorem join_flushes_iff_no_flush_or_timer_goroutine : forall c ls s, run c (init c) ls = Some s -> pc s = PFlushed ->
  ((exists s', step c s LJoinFlushes = Some s') <-> n_fly s = 0 /\ n_timer s = 0).
Proof. exact (fun c ls s R => join_flushes_iff_l c s (run_inv c ls (init c) s (init_inv c) R)). Qed.

Theorem census_empty_at_return : forall c ls s,
  c_queue c = true -> run c (init c) ls = Some s -> pc s = PReturned -> census s = [0; 0; 0; 0].
Proof. exact census_at_return_l. Qed.

(* ---- the property on OBSERVED behaviour ---------------------------------------------------------------
   Obs.v [prop_viol] checks the clauses on a recorded schedule of the implementation without the model's step
   function (the check driver runs it on every recorded case: an independent oracle, and the source of the
   failing input when model and implementation disagree).  It decides exactly the Prop-level clauses: *)
Theorem observed_clauses_decided : forall pb mode mx q ps fin,
  prop_viol ([b2n pb; 0; 0; mode; 0; 0; 0; 0; 0; mx; q; 0], ps, fin) = 0 <->
  CensusOK ps /\ SchedProp (b2n pb) mode mx q ps fin.
Proof.
  exact (fun pb mode mx q ps fin =>
    iff_trans (prop_viol_iff ([b2n pb; 0; 0; mode; 0; 0; 0; 0; 0; mx; q; 0], ps, fin))
              (and_iff_compat_l _ (sched_ok_iff pb mode mx q ps fin))).
Qed.

Theorem observed_refcount_decided : forall codes ps fin,
  prop_viol (9 :: codes, ps, fin) = 0 <-> CensusOK ps /\ (In 3 codes -> fst fin = [1]).
Proof.
  exact (fun codes ps fin =>
    iff_trans (prop_viol_iff (9 :: codes, ps, fin)) (and_iff_compat_l _ (refcount_ok_iff codes ps fin))).
Qed.

(* no NEW attempt after the return: in ANY run of the exporter's own labels after the return (every label except a
   further Send — the back-off timer branch included, zero delay or not) the number of export begins is bounded by the
   works that had not yet reached the export function ([ready]); a work in back-off or already answered never begins
   again *)
Theorem no_new_attempt_without_queue : forall c ls1 s1 ls2 s2,
  c_queue c = false -> run c (init c) ls1 = Some s1 -> pc s1 = PReturned ->
  run c s1 ls2 = Some s2 -> forallb ranked ls2 = true ->
  ready s2 + sumf is_begin ls2 <= ready s1.
Proof. exact no_new_attempt_l. Qed.

(* "all export calls have returned" is FALSE for an exporter without queue (nothing to join; the call runs on
   the caller's goroutine): witness, replayed by the queue-less family of the harness
   (histogram direct_return_with_call_open) *)
Theorem calls_returned_without_queue_refuted : exists c ls s,
  c_queue c = false /\ run c (init c) ls = Some s /\ pc s = PReturned /\
  cnt 1 (begun s) = 1 /\ cnt 1 (ended s) = 0 /\ live s = 1.
Proof. exact direct_open_call_refuted_l. Qed.

(* the hypothesis 1 <= c_ncons of shutdown_drains_memory is necessary; the real code rejects num_consumers <= 0
   (queuebatch.Config.Validate) *)
Theorem drains_memory_needs_a_consumer_refuted : exists c ls s,
  c_queue c = true /\ c_persist c = false /\ c_ncons c = 0 /\ run c (init c) ls = Some s /\ pc s = PReturned /\
  In 1 (accpre s) /\ cnt 1 (begun s) = 0.
Proof. exact no_consumer_refuted_l. Qed.

(* ---- the checker's observation and the theorems' ghost logs coincide on the model's own runs ------------------
   For every run of the scheduler [exec] (any configuration, any action list): the export-begin events of all phases
   together are exactly [begun], the export-end events exactly [ended] (as multisets of ids).  Hence, on the model's
   own behaviour, the aggregate forms of the checker's clauses 6 and 7 follow from the theorems above.
   PARTIAL: the phase-indexed statement  forall run, prop_viol (observe run) = 0  (which also needs "no begin event in
   a phase after the return event's phase", the position of the inner-shutdown event, the census events and the
   durable clause) is not proved; it is checked by computation on every recorded case, where the observed
   behaviour equals the model's (check_case) and prop_viol of it is 0. *)
Theorem scheduler_begin_events_are_begun : forall hc acts ls evss s i,
  exec hc [] (init (h_cfg hc)) acts = Some (ls, evss, s) -> cnt i (idsk 0 (concat evss)) = cnt i (begun s).
Proof. exact exec_events_are_begun. Qed.

Theorem scheduler_end_events_are_ended : forall hc acts ls evss s i,
  exec hc [] (init (h_cfg hc)) acts = Some (ls, evss, s) -> cnt i (idsk 1 (concat evss)) = cnt i (ended s).
Proof. exact exec_events_are_ended. Qed.

Theorem model_observation_calls_closed_partial : forall hc acts ls evss s i,
  c_queue (h_cfg hc) = true -> exec hc [] (init (h_cfg hc)) acts = Some (ls, evss, s) -> pc s = PReturned ->
  cnt i (idsk 1 (concat evss)) = cnt i (idsk 0 (concat evss)).
Proof. exact exec_obs_calls_closed. Qed.

Theorem model_observation_drained_partial : forall hc acts ls evss s i,
  c_queue (h_cfg hc) = true -> c_persist (h_cfg hc) = false -> 1 <= c_ncons (h_cfg hc) ->
  exec hc [] (init (h_cfg hc)) acts = Some (ls, evss, s) -> pc s = PReturned ->
  In i (accpre s) -> 1 <= cnt i (idsk 0 (concat evss)).
Proof. exact exec_obs_drained. Qed.

(* ---- the model that the correspondence run executes is this LTS ---------------------------------- *)
Theorem scheduler_runs_are_runs : forall hc acts ls evss s,
  exec hc [] (init (h_cfg hc)) acts = Some (ls, evss, s) -> run (h_cfg hc) (init (h_cfg hc)) ls = Some s.
Proof. exact (fun hc acts => exec_run_l hc acts [] (init (h_cfg hc))). Qed.

Print Assumptions shutdown_drains_memory.
Print Assumptions accpre_spec.
Print Assumptions shutdown_persistent.
Print Assumptions client_open_while_in_flight.
Print Assumptions no_work_after_return.
Print Assumptions no_begin_after_return.
Print Assumptions no_begin_after_inner_shutdown.
Print Assumptions partial_batch_flushed.
Print Assumptions final_flush_takes_current.
Print Assumptions shutdown_terminates.
Print Assumptions retry_timer_after_stop_gives_up.
Print Assumptions queue_stop_error_only_sets_the_result.
Print Assumptions split_request_kept_iff_some_part_interrupted.
Print Assumptions split_request_verdict_order_independent.
Print Assumptions split_request_success_iff_all_parts.
Print Assumptions close_stop_stops_retry.
Print Assumptions backoff_released_by_stop.
Print Assumptions shutdown_without_queue_never_waits.
Print Assumptions shutdown_without_queue.
Print Assumptions census_consumers.
Print Assumptions join_consumers_iff_no_consumer_alive.
Print Assumptions join_flushes_iff_no_flush_or_timer_goroutine.
Print Assumptions census_empty_at_return.
Print Assumptions observed_clauses_decided.
Print Assumptions observed_refcount_decided.
Print Assumptions no_new_attempt_without_queue.
Print Assumptions calls_returned_without_queue_refuted.
Print Assumptions drains_memory_needs_a_consumer_refuted.
Print Assumptions scheduler_begin_events_are_begun.
Print Assumptions scheduler_end_events_are_ended.
Print Assumptions model_observation_calls_closed_partial.
Print Assumptions model_observation_drained_partial.
Print Assumptions scheduler_runs_are_runs.
