(* C03/Proofs2.v — the property clauses, from the invariant of Proofs.v. *)
From Verif Require Import Common.Base C03.Model C03.Proofs C03.ProofsB.

Lemma fin_in i r l : In (i, r) l -> 1 <= sumf (fin1 i) l.
Proof.
  induction l as [|p l IH]; simpl; [tauto|]. intros [->|H].
  - unfold fin1 at 1, one. simpl. rewrite Nat.eqb_refl. lia.
  - specialize (IH H). lia.
Qed.

Lemma fin_ex i l : 1 <= sumf (fin1 i) l -> exists r, In (i, r) l.
Proof.
  induction l as [|[j r] l IH]; simpl; [lia|]. unfold fin1 at 1, one. simpl.
  destruct (Nat.eqb j i) eqn:E.
  - apply Nat.eqb_eq in E. subst. intros _. exists r. left. reflexivity.
  - intros H. destruct IH as [r' Hr]; [lia|]. exists r'. right. assumption.
Qed.

Lemma works_nil (l : list work) : sumf wcons l + sumf wfly l + sumf wcaller l = 0 -> l = [].
Proof.
  destruct l as [|w l]; [reflexivity|]. simpl. unfold wcons at 1, wfly at 1, wcaller at 1. destruct (w_own w); lia.
Qed.

(* the state when Shutdown of an exporter WITH a queue has returned: nothing in flight, every helper gone *)
Lemma returned_quiet c s : Inv c s -> c_queue c = true -> pc s = PReturned ->
  idle s = 0 /\ holding s = [] /\ cflush s = [] /\ current s = [] /\ works s = [] /\
  timer_dead (timer s) = true /\ exited s = ncons_eff c /\ (forall i, parts_out i s = 0).
Proof.
  intros I Q P.
  assert (J : ge_joined (pc s) = true) by (rewrite P; reflexivity).
  assert (F : ge_flushwait (pc s) = true) by (rewrite P; reflexivity).
  assert (G : ge_flushjoined (pc s) = true) by (rewrite P; reflexivity).
  destruct (joined_quiet _ _ I J) as (H1 & H2 & H3 & _).
  pose proof (i_flushwait _ _ I F) as H4. destruct (i_flushjoined _ _ I G) as [H5 H6].
  pose proof (i_joined _ _ I J) as H7. pose proof (i_nocaller _ _ I Q) as H8.
  assert (W : works s = []) by (apply works_nil; lia).
  repeat split; try assumption.
  intros i. unfold parts_out, tmb, pcb. rewrite H3, H4, W, P. destruct (timer s); try discriminate; reflexivity.
Qed.

(* every request that a consumer took from the queue has been exported and finished *)
Lemma taken_exported c s : Inv c s -> c_queue c = true -> pc s = PReturned ->
  forall i, 1 <= cnt i (taken s) -> 1 <= cnt i (begun s) /\ 1 <= sumf (fin1 i) (finished s).
Proof.
  intros I Q P i T. destruct (returned_quiet _ _ I Q P) as (_ & Hh & _ & _ & Hw & _ & _ & Hin).
  pose proof (i_cons _ _ I i) as C. pose proof (i_taken _ _ I i). pose proof (i_nodup _ _ I i).
  pose proof (i_begun_ge _ _ I i) as B. pose proof (i_fin_done _ _ I i). rewrite Hw in B. simpl in B.
  rewrite Hh, (Hin i) in C. unfold cnt in C at 2. simpl in C. lia.
Qed.

Lemma drains_memory_l c ls s :
  c_queue c = true -> c_persist c = false -> 1 <= c_ncons c -> run c (init c) ls = Some s -> pc s = PReturned ->
  (forall i, In i (accpre s) ->
     1 <= cnt i (begun s) /\ (failures s = 0 -> cnt i (begun s) = cnt i (nparts s)) /\
     (~ In i (failedids s) -> cnt i (begun s) = cnt i (nparts s)) /\ exists r, In (i, r) (finished s))
  /\ (forall i, cnt i (ended s) = cnt i (begun s)).
Proof.
  intros Q M N R P. assert (I : Inv c s) by (eapply run_inv; [apply init_inv|eassumption]).
  destruct (returned_quiet _ _ I Q P) as (_ & Hh & _ & _ & Hw & _ & Hex & Hin).
  unfold ncons_eff in Hex. rewrite Q in Hex.
  split.
  - intros i A. apply cnt_in in A.
    pose proof (i_cons _ _ I i) as C. pose proof (i_nodup _ _ I i). pose proof (i_prelate _ _ I i).
    assert (E : 1 <= exited s) by lia.
    pose proof (i_late _ _ I M E i). rewrite Hh, (Hin i) in C. unfold cnt in C at 2. simpl in C.
    pose proof (i_begun_ge _ _ I i) as B. rewrite Hw in B. simpl in B. pose proof (i_fin_done _ _ I i).
    pose proof (i_parts _ _ I i) as Pa. rewrite (Hin i) in Pa.
    assert (F1 : 1 <= sumf (fin1 i) (finished s)) by lia.
    split; [lia|]. split; [|split; [|apply fin_ex; assumption]].
    + intros F0. pose proof (i_begun_eq _ _ I F0 i) as B'. rewrite Hw in B'. simpl in B'. lia.
    + intros NF. assert (F0 : cnt i (failedids s) = 0).
      { destruct (cnt i (failedids s)) eqn:Ec; [reflexivity|]. exfalso. apply NF. apply cnt_in. lia. }
      pose proof (i_begun_eq1 _ _ I i F0) as B'. rewrite Hw in B'. simpl in B'. lia.
  - intros i. pose proof (i_ended _ _ I i) as E. rewrite Hw in E. simpl in E. lia.
Qed.

Lemma persistent_l c ls s :
  c_queue c = true -> c_persist c = true -> run c (init c) ls = Some s -> pc s = PReturned ->
  (forall i, In i (accepted s) ->
     In i (store s) \/ exists r, In (i, r) (finished s) /\ r <> RShutdown /\ 1 <= cnt i (begun s))
  /\ (forall i, cnt i (ended s) = cnt i (begun s))
  /\ closed s = true.
Proof.
  intros Q M R P. assert (I : Inv c s) by (eapply run_inv; [apply init_inv|eassumption]).
  destruct (returned_quiet _ _ I Q P) as (_ & Hh & _ & _ & Hw & _ & _ & Hin).
  split; [|split].
  - intros i A. apply cnt_in in A. destruct (i_store _ _ I M Q i A) as [S|(r & F & Nr)]; [left; assumption|].
    right. exists r. split; [assumption|]. split; [assumption|].
    pose proof (i_begun_ge _ _ I i) as B. pose proof (fin_in _ _ _ F). pose proof (i_fin_done _ _ I i). lia.
  - intros i. pose proof (i_ended _ _ I i) as E. rewrite Hw in E. simpl in E. lia.
  - rewrite (i_closed _ _ I), M. pose proof (i_refs _ _ I M Q) as Rf. rewrite (i_qstop _ _ I), Q, P in Rf. simpl in Rf.
    assert (L : length (taken s) <= length (finished s)).
    { rewrite <- (length_map_fst (finished s)). apply cnt_le_length. intros i. rewrite cnt_map_fst.
      pose proof (i_cons _ _ I i) as C. pose proof (i_taken _ _ I i). rewrite Hh, (Hin i) in C.
      unfold cnt in C at 2. simpl in C. lia. }
    replace (refs s) with 0 by lia. reflexivity.
Qed.

Definition is_offer (l : label) : bool := match l with LOffer _ | LOfferFail _ => true | _ => false end.

Lemma after_return_l c ls s :
  c_queue c = true -> run c (init c) ls = Some s -> pc s = PReturned ->
  live s = 0 /\ postb s = 0 /\ forall l s', step c s l = Some s' -> is_offer l = true /\ pc s' = PReturned.
Proof.
  intros Q R P. assert (I : Inv c s) by (eapply run_inv; [apply init_inv|eassumption]).
  destruct (returned_quiet _ _ I Q P) as (H1 & H2 & H3 & H4 & H5 & H6 & _).
  split; [unfold live; rewrite H1, H2, H3, H5, H6; reflexivity|]. split; [apply (i_postb _ _ I)|].
  intros l s' St. destruct l; unfold step in St; rewrite ?H1, ?H2, ?H3, ?H5, ?P, ?Q in St; cbn [negb orb andb] in St;
    try discriminate; try (destruct k; discriminate);
    try (destruct (timer s); discriminate).
  - destruct (mem i (accepted s) || c_persist c && closed s); [discriminate|]. injection St as <-. split; [reflexivity|assumption].
  - destruct (c_persist c && closed s); [|discriminate]. injection St as <-. split; [reflexivity|assumption].
Qed.

(* runs from a returned state never contain an export begin *)
Lemma no_begin_after_return_l c : c_queue c = true -> forall ls2 ls1 s1 s2,
  run c (init c) ls1 = Some s1 -> pc s1 = PReturned -> run c s1 ls2 = Some s2 ->
  forallb is_offer ls2 = true /\ begun s2 = begun s1 /\ pc s2 = PReturned.
Proof.
  intros Q. induction ls2 as [|l ls2 IH]; intros ls1 s1 s2 R1 P R2; simpl in R2.
  - injection R2 as <-. repeat split; auto.
  - destruct (step c s1 l) as [s'|] eqn:St; [|discriminate].
    destruct (after_return_l _ _ _ Q R1 P) as (_ & _ & Hs). destruct (Hs _ _ St) as [Ho Hp].
    assert (R1' : run c (init c) (ls1 ++ [l]) = Some s').
    { clear - R1 St. revert R1. generalize (init c). induction ls1 as [|a ls1 IH']; intros s0 R1; simpl in *.
      - injection R1 as ->. rewrite St. reflexivity.
      - destruct (step c s0 a); [apply IH'; assumption|discriminate]. }
    destruct (IH _ _ _ R1' Hp R2) as (A & B & C).
    split; [simpl; rewrite Ho, A; reflexivity|]. split; [|assumption].
    rewrite B. destruct l; try discriminate; unfold step in St; rewrite ?Q in St; cbn [negb orb andb] in St.
    + destruct (mem i (accepted s1) || c_persist c && closed s1); [discriminate|]. injection St as <-. reflexivity.
    + destruct (c_persist c && closed s1); [|discriminate]. injection St as <-. reflexivity.
Qed.

(* ---- partial batch ----------------------------------------------------------------------------- *)
Lemma step_taken_mono c s l s' i : step c s l = Some s' -> cnt i (taken s) <= cnt i (taken s').
Proof.
  intros H. start H l; try lia. all: unfold cnt; cbn [sumf]; lia.
Qed.

Lemma run_taken_mono c i : forall ls s s', run c s ls = Some s' -> cnt i (taken s) <= cnt i (taken s').
Proof.
  induction ls as [|l ls IH]; intros s s' H; simpl in H.
  - injection H as <-. lia.
  - destruct (step c s l) eqn:E; [|discriminate]. pose proof (step_taken_mono _ _ _ _ i E). specialize (IH _ _ H). lia.
Qed.

Lemma run_app c : forall l1 l2 s s1 s2, run c s l1 = Some s1 -> run c s1 l2 = Some s2 -> run c s (l1 ++ l2) = Some s2.
Proof.
  induction l1 as [|a l1 IH]; intros l2 s s1 s2 H1 H2; simpl in *.
  - injection H1 as ->. assumption.
  - destruct (step c s a); [eapply IH; eassumption|discriminate].
Qed.

Lemma run_split c : forall l1 l2 s s2, run c s (l1 ++ l2) = Some s2 -> exists s1, run c s l1 = Some s1 /\ run c s1 l2 = Some s2.
Proof.
  induction l1 as [|a l1 IH]; intros l2 s s2 H; simpl in *.
  - exists s. split; [reflexivity|assumption].
  - destruct (step c s a); [apply IH; assumption|discriminate].
Qed.

(* whatever sits in the batcher's current batch at any time is exported (and finished) by the time
   Shutdown returns — in particular the partial batch taken by the final flush *)
Lemma partial_batch_l c ls1 ls2 s1 s2 :
  c_queue c = true -> run c (init c) ls1 = Some s1 -> run c s1 ls2 = Some s2 -> pc s2 = PReturned ->
  forall i, In i (current s1) -> 1 <= cnt i (begun s2) /\ exists r, In (i, r) (finished s2).
Proof.
  intros Q R1 R2 P i C.
  assert (I1 : Inv c s1) by (eapply run_inv; [apply init_inv|eassumption]).
  assert (I2 : Inv c s2) by (eapply run_inv; eassumption).
  apply cnt_in in C.
  assert (T1 : 1 <= cnt i (taken s1)).
  { pose proof (i_cons _ _ I1 i). pose proof (i_taken _ _ I1 i). unfold parts_out in *. lia. }
  pose proof (run_taken_mono c i _ _ _ R2).
  destruct (taken_exported _ _ I2 Q P i) as [B F]; [lia|]. split; [assumption|apply fin_ex; assumption].
Qed.

(* the final flush really takes the current batch *)
Lemma final_flush_takes c s s' : step c s LFinalFlush = Some s' ->
  current s' = [] /\ (current s <> [] -> pc s' = PFlushWait (current s)).
Proof.
  unfold step. destruct (pc s); try discriminate. destruct (current s) eqn:E; simpl; intros H; injection H as <-; simpl.
  - split; [assumption|congruence].
  - split; [reflexivity|reflexivity].
Qed.

(* ---- the ghost fields, read off the label list --------------------------------------------------- *)
Fixpoint offers (ls : list label) : list id :=
  match ls with [] => [] | LOffer i :: r => i :: offers r | LSend i :: r => i :: offers r | _ :: r => offers r end.

Lemma step_accpre c s l s' : step c s l = Some s' ->
  accpre s' = (match l with LOffer i | LSend i => if is_not (pc s) then [i] else [] | _ => [] end) ++ accpre s.
Proof. intros H. start H l; rw_eqs; reflexivity. Qed.

Lemma step_pc_not c s l s' : step c s l = Some s' -> l <> LShutCall -> is_not (pc s') = is_not (pc s).
Proof. intros H N. start H l; rw_eqs; try reflexivity; try congruence. Qed.

Lemma step_pc_called c s l s' : step c s l = Some s' -> is_not (pc s) = false -> is_not (pc s') = false.
Proof. intros H N. start H l; rw_eqs; cbn in *; try reflexivity; try congruence. Qed.

Lemma run_after_call c : forall ls s s', run c s ls = Some s' -> is_not (pc s) = false ->
  accpre s' = accpre s /\ is_not (pc s') = false.
Proof.
  induction ls as [|l ls IH]; intros s s' H N; simpl in H.
  - injection H as <-. auto.
  - destruct (step c s l) as [s1|] eqn:E; [|discriminate].
    pose proof (step_accpre _ _ _ _ E) as A. pose proof (step_pc_called _ _ _ _ E N) as N1.
    destruct (IH _ _ H N1) as [A' N']. split; [|assumption]. rewrite A', A, N. destruct l; reflexivity.
Qed.

Lemma run_before_call c : forall ls s s', run c s ls = Some s' -> is_not (pc s) = true -> ~ In LShutCall ls ->
  forall i, In i (accpre s') <-> In i (offers ls) \/ In i (accpre s).
Proof.
  induction ls as [|l ls IH]; intros s s' H N NI i; simpl in H.
  - injection H as <-. simpl. tauto.
  - destruct (step c s l) as [s1|] eqn:E; [|discriminate].
    assert (l <> LShutCall) by (intros ->; apply NI; left; reflexivity).
    assert (~ In LShutCall ls) by (intros X; apply NI; right; assumption).
    pose proof (step_pc_not _ _ _ _ E H0) as N1. rewrite N in N1.
    rewrite (IH _ _ H N1 H1 i). rewrite (step_accpre _ _ _ _ E), N.
    destruct l; simpl; try tauto.
Qed.

(* accpre = exactly the ids whose Offer was accepted before Shutdown was called *)
Lemma accpre_spec_l c l1 l2 s : ~ In LShutCall l1 ->
  run c (init c) (l1 ++ LShutCall :: l2) = Some s ->
  forall i, In i (accpre s) <-> In i (offers l1).
Proof.
  intros NI R i. apply run_split in R as (s1 & R1 & R2). cbn [run] in R2.
  destruct (step c s1 LShutCall) as [s1'|] eqn:E; [|discriminate].
  assert (is_not (pc s1') = false /\ accpre s1' = accpre s1) as [N A].
  { unfold step in E. destruct (pc s1); try discriminate. injection E as <-. split; reflexivity. }
  destruct (run_after_call _ _ _ _ R2 N) as [A' _]. rewrite A', A.
  rewrite (run_before_call _ _ _ _ R1 eq_refl NI i). simpl. tauto.
Qed.

(* ---- the scheduler of the correspondence run only produces runs of the LTS ----------------------- *)
Lemma first_enabled_step c s : forall ls l s', first_enabled c s ls = Some (l, s') -> step c s l = Some s'.
Proof.
  induction ls as [|a ls IH]; intros l s' H; simpl in H; [discriminate|].
  destruct (step c s a) eqn:E; [injection H as <- <-; assumption | apply IH; assumption].
Qed.

Lemma settle_f_run allow : forall fuel hc sizes s ls evs s' sz',
  settle_f allow fuel hc sizes s = (ls, evs, s', sz') -> run (h_cfg hc) s ls = Some s'.
Proof.
  induction fuel as [|f IH]; intros hc sizes s ls evs s' sz' H; simpl in H.
  - injection H as <- _ <- _. reflexivity.
  - destruct (first_enabled (h_cfg hc) s (filter allow (candidates hc sizes s))) as [[l s1]|] eqn:E.
    + destruct (settle_f allow f hc (sizes_after hc sizes s l) s1) as [[[ls1 evs1] s2] sz2] eqn:E2. injection H as <- _ <- _.
      simpl. rewrite (first_enabled_step _ _ _ _ _ E). eapply IH; eassumption.
    + injection H as <- _ <- _. reflexivity.
Qed.

Lemma settle_run : forall fuel hc sizes s ls evs s' sz',
  settle fuel hc sizes s = (ls, evs, s', sz') -> run (h_cfg hc) s ls = Some s'.
Proof. exact (settle_f_run (fun _ => true)). Qed.

Lemma race_takes_run : forall k hc sizes s ls evs s' sz',
  race_takes k hc sizes s = Some (ls, evs, s', sz') -> run (h_cfg hc) s ls = Some s'.
Proof.
  induction k as [|k IH]; intros hc sizes s ls evs s' sz' H; cbn [race_takes] in H;
    destruct (settle_f not_take_stop settle_fuel hc sizes s) as [[[ls1 evs1] s1] sz1] eqn:E1;
    pose proof (settle_f_run _ _ _ _ _ _ _ _ _ E1) as R1.
  - injection H as <- _ <- _. assumption.
  - destruct (step (h_cfg hc) s1 LTake) as [s2|] eqn:St; [|discriminate].
    destruct (race_takes k hc sz1 s2) as [[[[ls2 evs2] s3] sz3]|] eqn:E2; [|discriminate].
    injection H as <- _ <- _. eapply run_app; [eassumption|]. cbn [run]. rewrite St. eapply IH; eassumption.
Qed.

Lemma exec_race_run hc sizes s m e ls evs s' sz' :
  exec_race hc sizes s m e = Some (ls, evs, s', sz') -> run (h_cfg hc) s ls = Some s'.
Proof.
  unfold exec_race. intros H.
  destruct (step (h_cfg hc) s LShutCall) as [s1|] eqn:S1; [|discriminate].
  destruct (step (h_cfg hc) s1 LCloseStop) as [s2|] eqn:S2; [|discriminate].
  assert (RT : forall r, (if Nat.eqb (m - unbegun_taken s) 0 && negb e then Some ([], [], s2, sizes)
                          else race_takes (m - unbegun_taken s) hc sizes s2) = Some r ->
                         run (h_cfg hc) s2 (fst (fst (fst r))) = Some (snd (fst r))).
  { intros [[[l0 e0] s0] z0]. destruct (Nat.eqb (m - unbegun_taken s) 0 && negb e); intros X.
    - injection X as <- _ <- _. reflexivity.
    - eapply race_takes_run; eassumption. }
  destruct (if Nat.eqb (m - unbegun_taken s) 0 && negb e then Some ([], [], s2, sizes)
            else race_takes (m - unbegun_taken s) hc sizes s2) as [[[[ls3 evs3] s3] sz3]|] eqn:E3; [|discriminate].
  specialize (RT _ eq_refl). cbn [fst snd] in RT.
  destruct (step (h_cfg hc) s3 (LQueueStop (qstop_err hc s3))) as [s4|] eqn:S4; [|discriminate].
  destruct (settle settle_fuel hc sz3 s4) as [[[ls5 evs5] s5] sz5] eqn:E5. injection H as <- _ <- _.
  cbn [run]. rewrite S1. cbn [run]. rewrite S2.
  eapply run_app; [exact RT|]. cbn [run]. rewrite S4. eapply settle_run; eassumption.
Qed.

Lemma exec_action_run hc sizes s a ls evs s1 sizes1 :
  exec_action hc sizes s a = Some (ls, evs, s1, sizes1) -> run (h_cfg hc) s ls = Some s1.
Proof.
  unfold exec_action. intros E.
  destruct a.
  5: { destruct (exec_race hc sizes s m e) as [[[[ls0 evs0] s0] sz0]|] eqn:Er; [|discriminate].
       injection E as <- _ <- _. eapply exec_race_run; eassumption. }
  all: match type of E with context[action_label ?h ?st ?a] => destruct (action_label h st a) as [l|] end; [|discriminate];
       match type of E with context[step ?c ?st ?x] => destruct (step c st x) as [s0|] eqn:St end; [|discriminate];
       match type of E with context[settle ?f ?h ?z ?y] => destruct (settle f h z y) as [[[ls0 evs0] s00] sz00] eqn:Se end;
       injection E as <- _ <- _; cbn [run]; rewrite St; eapply settle_run; eassumption.
Qed.

Lemma exec_run_l hc : forall acts sizes s ls evss s',
  exec hc sizes s acts = Some (ls, evss, s') -> run (h_cfg hc) s ls = Some s'.
Proof.
  induction acts as [|a acts IH]; intros sizes s ls evss s' H; simpl in H.
  - injection H as <- _ <-. reflexivity.
  - destruct (exec_action hc sizes s a) as [[[[ls1 evs1] s1] sizes1]|] eqn:E; [|discriminate].
    destruct (exec hc sizes1 s1 acts) as [[[ls2 evss2] s2]|] eqn:E2; [|discriminate].
    injection H as <- _ <-.
    eapply run_app; [eapply exec_action_run; eassumption | eapply IH; eassumption].
Qed.
