(* C03/Model.v — executable model of graceful exporter shutdown (exporterhelper).
   Code modelled (opentelemetry-collector, exporter/exporterhelper/internal):
     base_exporter.go        BaseExporter.Shutdown (retry sender, then queue sender, then wrapped exporter)
     queuebatch/queue_batch.go  QueueBatch.Shutdown = errors.Join(queue.Shutdown, batcher.Shutdown)
     queuebatch/async_queue.go  consumer goroutines (Read; consumeFunc), Shutdown = queue.Shutdown; stopWG.Wait
     queuebatch/memory_queue.go Offer/add (does NOT look at [stopped]), Read (serves until empty, then !ok), Shutdown
     queuebatch/persistent_queue.go Offer, Read (returns !ok as soon as stopped), onDone (keeps the item on a
                             shutdown error), Shutdown/unrefClient (client closed when the last reference goes)
     queuebatch/disabled_batcher.go Consume = done.OnDone(consumeFunc(req))   (synchronous, in the consumer)
     queuebatch/default_batcher.go  Consume (merge into currentBatch / flush), flush (worker pool, goroutine),
                             timer goroutine, flushCurrentBatchIfNecessary, Shutdown
     retry_sender.go         Send loop: attempt; permanent => final; back-off select {stopCh | timer}; Shutdown
   The composition is a labelled transition system.  One label = one atomic section of the Go code
   (a mutex-protected block, a channel operation, a goroutine start/exit).  The threads are: any number of
   producers (label LOffer), [c_ncons] consumer goroutines (counter abstraction: they are symmetric), the
   flush goroutines of the batcher (one [work] each), the batcher's timer goroutine, the Shutdown caller.
   Abstractions (see NOTES.md): queue capacity is not modelled (an Offer that is refused is simply no label);
   request sizes are not part of the LTS: into how many chunks a consumed request is split (max_size) and whether
   the last chunk is kept as the current batch are the nondeterministic parameters of [LAbsorb] (so the theorems
   hold for every batching policy and every max_size); back-off durations are not modelled: the back-off timer
   may fire at any time ([LRetryTimer]), also after stop (the Go select is random when both are ready); the code
   then re-checks stopCh, and so does [LRetryTimer]. *)
From Verif Require Import Common.Base.

Definition id := nat.

Inductive outcome := OOk | OTransient | OPermanent.          (* what the export function returns *)
Inductive result := RSuccess | RFail | RShutdown.            (* what the sender chain returns to Done *)
Inductive send_st := SReady | SInCall | SBackoff | SDone (r : result).

(* who executes the sender chain obsReport -> retry -> timeout -> export function for a unit of work:
   a consumer goroutine itself (disabled batcher), a flush goroutine of the batcher, or — exporter without
   queue and batcher — the goroutine that called Send *)
Inductive owner := OCons | OFly | OCaller.
Record work := mkWork { w_ids : list id; w_st : send_st; w_own : owner }.

Inductive timer_st := TNone | TRun | TFlush (b : list id) | TExit.

(* program counter of the goroutine that called BaseExporter.Shutdown *)
Inductive pc_t := PNot | PCalled | PStopClosed | PQStopped | PJoined | PFlushWait (b : list id)
                | PFlushed | PFlushJoined | PInner | PReturned.

Record cfg := mkCfg {
  c_queue : bool;     (* the exporter has a queue sender (sending queue and/or batcher); false: Send runs the
                         sender chain on the caller's goroutine and BaseExporter.Shutdown skips the queue *)
  c_persist : bool;   (* persistent queue (storage extension) / memory queue *)
  c_batch : bool;     (* defaultBatcher / disabledBatcher *)
  c_timer : bool;     (* flush_timeout > 0: the batcher runs a timer goroutine *)
  c_retry : bool;     (* retry_on_failure enabled *)
  c_ncons : nat;      (* consumer goroutines *)
  c_nwork : nat;      (* batcher worker pool *)
  c_maxparts : nat }. (* bound on the number of chunks one request is cut into (its size / max_size, rounded up) *)

Definition ncons_eff (c : cfg) : nat := if c_queue c then c_ncons c else 0.

Record state := mkState {
  queue : list id;
  qstop : bool;
  store : list id;
  refs : nat;
  closed : bool;
  idle : nat;
  exited : nat;
  holding : list id;
  cflush : list (list (list id));
  current : list id;
  workers : nat;
  works : list work;
  timer : timer_st;
  bclosed : bool;
  rstop : bool;
  pc : pc_t;
  accepted : list id;
  accpre : list id;
  late : list id;
  taken : list id;
  begun : list id;
  ended : list id;
  finished : list (id * result);
  failures : nat;
  postb : nat;
  failedids : list id;
  shuterr : bool;
  partlog : list (id * result);
  nparts : list id }.

Definition set_queue (v : list id) (s : state) : state :=
  mkState v (qstop s) (store s) (refs s) (closed s) (idle s) (exited s) (holding s) (cflush s) (current s) (workers s) (works s) (timer s) (bclosed s) (rstop s) (pc s) (accepted s) (accpre s) (late s) (taken s) (begun s) (ended s) (finished s) (failures s) (postb s) (failedids s) (shuterr s) (partlog s) (nparts s).
Definition set_qstop (v : bool) (s : state) : state :=
  mkState (queue s) v (store s) (refs s) (closed s) (idle s) (exited s) (holding s) (cflush s) (current s) (workers s) (works s) (timer s) (bclosed s) (rstop s) (pc s) (accepted s) (accpre s) (late s) (taken s) (begun s) (ended s) (finished s) (failures s) (postb s) (failedids s) (shuterr s) (partlog s) (nparts s).
Definition set_store (v : list id) (s : state) : state :=
  mkState (queue s) (qstop s) v (refs s) (closed s) (idle s) (exited s) (holding s) (cflush s) (current s) (workers s) (works s) (timer s) (bclosed s) (rstop s) (pc s) (accepted s) (accpre s) (late s) (taken s) (begun s) (ended s) (finished s) (failures s) (postb s) (failedids s) (shuterr s) (partlog s) (nparts s).
Definition set_refs (v : nat) (s : state) : state :=
  mkState (queue s) (qstop s) (store s) v (closed s) (idle s) (exited s) (holding s) (cflush s) (current s) (workers s) (works s) (timer s) (bclosed s) (rstop s) (pc s) (accepted s) (accpre s) (late s) (taken s) (begun s) (ended s) (finished s) (failures s) (postb s) (failedids s) (shuterr s) (partlog s) (nparts s).
Definition set_closed (v : bool) (s : state) : state :=
  mkState (queue s) (qstop s) (store s) (refs s) v (idle s) (exited s) (holding s) (cflush s) (current s) (workers s) (works s) (timer s) (bclosed s) (rstop s) (pc s) (accepted s) (accpre s) (late s) (taken s) (begun s) (ended s) (finished s) (failures s) (postb s) (failedids s) (shuterr s) (partlog s) (nparts s).
Definition set_idle (v : nat) (s : state) : state :=
  mkState (queue s) (qstop s) (store s) (refs s) (closed s) v (exited s) (holding s) (cflush s) (current s) (workers s) (works s) (timer s) (bclosed s) (rstop s) (pc s) (accepted s) (accpre s) (late s) (taken s) (begun s) (ended s) (finished s) (failures s) (postb s) (failedids s) (shuterr s) (partlog s) (nparts s).
Definition set_exited (v : nat) (s : state) : state :=
  mkState (queue s) (qstop s) (store s) (refs s) (closed s) (idle s) v (holding s) (cflush s) (current s) (workers s) (works s) (timer s) (bclosed s) (rstop s) (pc s) (accepted s) (accpre s) (late s) (taken s) (begun s) (ended s) (finished s) (failures s) (postb s) (failedids s) (shuterr s) (partlog s) (nparts s).
Definition set_holding (v : list id) (s : state) : state :=
  mkState (queue s) (qstop s) (store s) (refs s) (closed s) (idle s) (exited s) v (cflush s) (current s) (workers s) (works s) (timer s) (bclosed s) (rstop s) (pc s) (accepted s) (accpre s) (late s) (taken s) (begun s) (ended s) (finished s) (failures s) (postb s) (failedids s) (shuterr s) (partlog s) (nparts s).
Definition set_cflush (v : list (list (list id))) (s : state) : state :=
  mkState (queue s) (qstop s) (store s) (refs s) (closed s) (idle s) (exited s) (holding s) v (current s) (workers s) (works s) (timer s) (bclosed s) (rstop s) (pc s) (accepted s) (accpre s) (late s) (taken s) (begun s) (ended s) (finished s) (failures s) (postb s) (failedids s) (shuterr s) (partlog s) (nparts s).
Definition set_current (v : list id) (s : state) : state :=
  mkState (queue s) (qstop s) (store s) (refs s) (closed s) (idle s) (exited s) (holding s) (cflush s) v (workers s) (works s) (timer s) (bclosed s) (rstop s) (pc s) (accepted s) (accpre s) (late s) (taken s) (begun s) (ended s) (finished s) (failures s) (postb s) (failedids s) (shuterr s) (partlog s) (nparts s).
Definition set_workers (v : nat) (s : state) : state :=
  mkState (queue s) (qstop s) (store s) (refs s) (closed s) (idle s) (exited s) (holding s) (cflush s) (current s) v (works s) (timer s) (bclosed s) (rstop s) (pc s) (accepted s) (accpre s) (late s) (taken s) (begun s) (ended s) (finished s) (failures s) (postb s) (failedids s) (shuterr s) (partlog s) (nparts s).
Definition set_works (v : list work) (s : state) : state :=
  mkState (queue s) (qstop s) (store s) (refs s) (closed s) (idle s) (exited s) (holding s) (cflush s) (current s) (workers s) v (timer s) (bclosed s) (rstop s) (pc s) (accepted s) (accpre s) (late s) (taken s) (begun s) (ended s) (finished s) (failures s) (postb s) (failedids s) (shuterr s) (partlog s) (nparts s).
Definition set_timer (v : timer_st) (s : state) : state :=
  mkState (queue s) (qstop s) (store s) (refs s) (closed s) (idle s) (exited s) (holding s) (cflush s) (current s) (workers s) (works s) v (bclosed s) (rstop s) (pc s) (accepted s) (accpre s) (late s) (taken s) (begun s) (ended s) (finished s) (failures s) (postb s) (failedids s) (shuterr s) (partlog s) (nparts s).
Definition set_bclosed (v : bool) (s : state) : state :=
  mkState (queue s) (qstop s) (store s) (refs s) (closed s) (idle s) (exited s) (holding s) (cflush s) (current s) (workers s) (works s) (timer s) v (rstop s) (pc s) (accepted s) (accpre s) (late s) (taken s) (begun s) (ended s) (finished s) (failures s) (postb s) (failedids s) (shuterr s) (partlog s) (nparts s).
Definition set_rstop (v : bool) (s : state) : state :=
  mkState (queue s) (qstop s) (store s) (refs s) (closed s) (idle s) (exited s) (holding s) (cflush s) (current s) (workers s) (works s) (timer s) (bclosed s) v (pc s) (accepted s) (accpre s) (late s) (taken s) (begun s) (ended s) (finished s) (failures s) (postb s) (failedids s) (shuterr s) (partlog s) (nparts s).
Definition set_pc (v : pc_t) (s : state) : state :=
  mkState (queue s) (qstop s) (store s) (refs s) (closed s) (idle s) (exited s) (holding s) (cflush s) (current s) (workers s) (works s) (timer s) (bclosed s) (rstop s) v (accepted s) (accpre s) (late s) (taken s) (begun s) (ended s) (finished s) (failures s) (postb s) (failedids s) (shuterr s) (partlog s) (nparts s).
Definition set_accepted (v : list id) (s : state) : state :=
  mkState (queue s) (qstop s) (store s) (refs s) (closed s) (idle s) (exited s) (holding s) (cflush s) (current s) (workers s) (works s) (timer s) (bclosed s) (rstop s) (pc s) v (accpre s) (late s) (taken s) (begun s) (ended s) (finished s) (failures s) (postb s) (failedids s) (shuterr s) (partlog s) (nparts s).
Definition set_accpre (v : list id) (s : state) : state :=
  mkState (queue s) (qstop s) (store s) (refs s) (closed s) (idle s) (exited s) (holding s) (cflush s) (current s) (workers s) (works s) (timer s) (bclosed s) (rstop s) (pc s) (accepted s) v (late s) (taken s) (begun s) (ended s) (finished s) (failures s) (postb s) (failedids s) (shuterr s) (partlog s) (nparts s).
Definition set_late (v : list id) (s : state) : state :=
  mkState (queue s) (qstop s) (store s) (refs s) (closed s) (idle s) (exited s) (holding s) (cflush s) (current s) (workers s) (works s) (timer s) (bclosed s) (rstop s) (pc s) (accepted s) (accpre s) v (taken s) (begun s) (ended s) (finished s) (failures s) (postb s) (failedids s) (shuterr s) (partlog s) (nparts s).
Definition set_taken (v : list id) (s : state) : state :=
  mkState (queue s) (qstop s) (store s) (refs s) (closed s) (idle s) (exited s) (holding s) (cflush s) (current s) (workers s) (works s) (timer s) (bclosed s) (rstop s) (pc s) (accepted s) (accpre s) (late s) v (begun s) (ended s) (finished s) (failures s) (postb s) (failedids s) (shuterr s) (partlog s) (nparts s).
Definition set_begun (v : list id) (s : state) : state :=
  mkState (queue s) (qstop s) (store s) (refs s) (closed s) (idle s) (exited s) (holding s) (cflush s) (current s) (workers s) (works s) (timer s) (bclosed s) (rstop s) (pc s) (accepted s) (accpre s) (late s) (taken s) v (ended s) (finished s) (failures s) (postb s) (failedids s) (shuterr s) (partlog s) (nparts s).
Definition set_ended (v : list id) (s : state) : state :=
  mkState (queue s) (qstop s) (store s) (refs s) (closed s) (idle s) (exited s) (holding s) (cflush s) (current s) (workers s) (works s) (timer s) (bclosed s) (rstop s) (pc s) (accepted s) (accpre s) (late s) (taken s) (begun s) v (finished s) (failures s) (postb s) (failedids s) (shuterr s) (partlog s) (nparts s).
Definition set_finished (v : list (id * result)) (s : state) : state :=
  mkState (queue s) (qstop s) (store s) (refs s) (closed s) (idle s) (exited s) (holding s) (cflush s) (current s) (workers s) (works s) (timer s) (bclosed s) (rstop s) (pc s) (accepted s) (accpre s) (late s) (taken s) (begun s) (ended s) v (failures s) (postb s) (failedids s) (shuterr s) (partlog s) (nparts s).
Definition set_failures (v : nat) (s : state) : state :=
  mkState (queue s) (qstop s) (store s) (refs s) (closed s) (idle s) (exited s) (holding s) (cflush s) (current s) (workers s) (works s) (timer s) (bclosed s) (rstop s) (pc s) (accepted s) (accpre s) (late s) (taken s) (begun s) (ended s) (finished s) v (postb s) (failedids s) (shuterr s) (partlog s) (nparts s).
Definition set_postb (v : nat) (s : state) : state :=
  mkState (queue s) (qstop s) (store s) (refs s) (closed s) (idle s) (exited s) (holding s) (cflush s) (current s) (workers s) (works s) (timer s) (bclosed s) (rstop s) (pc s) (accepted s) (accpre s) (late s) (taken s) (begun s) (ended s) (finished s) (failures s) v (failedids s) (shuterr s) (partlog s) (nparts s).
Definition set_failedids (v : list id) (s : state) : state :=
  mkState (queue s) (qstop s) (store s) (refs s) (closed s) (idle s) (exited s) (holding s) (cflush s) (current s) (workers s) (works s) (timer s) (bclosed s) (rstop s) (pc s) (accepted s) (accpre s) (late s) (taken s) (begun s) (ended s) (finished s) (failures s) (postb s) v (shuterr s) (partlog s) (nparts s).
Definition set_shuterr (v : bool) (s : state) : state :=
  mkState (queue s) (qstop s) (store s) (refs s) (closed s) (idle s) (exited s) (holding s) (cflush s) (current s) (workers s) (works s) (timer s) (bclosed s) (rstop s) (pc s) (accepted s) (accpre s) (late s) (taken s) (begun s) (ended s) (finished s) (failures s) (postb s) (failedids s) v (partlog s) (nparts s).
Definition set_partlog (v : list (id * result)) (s : state) : state :=
  mkState (queue s) (qstop s) (store s) (refs s) (closed s) (idle s) (exited s) (holding s) (cflush s) (current s) (workers s) (works s) (timer s) (bclosed s) (rstop s) (pc s) (accepted s) (accpre s) (late s) (taken s) (begun s) (ended s) (finished s) (failures s) (postb s) (failedids s) (shuterr s) v (nparts s).
Definition set_nparts (v : list id) (s : state) : state :=
  mkState (queue s) (qstop s) (store s) (refs s) (closed s) (idle s) (exited s) (holding s) (cflush s) (current s) (workers s) (works s) (timer s) (bclosed s) (rstop s) (pc s) (accepted s) (accpre s) (late s) (taken s) (begun s) (ended s) (finished s) (failures s) (postb s) (failedids s) (shuterr s) (partlog s) v.

(* ---- counting ------------------------------------------------------------------------------ *)
Fixpoint sumf {A} (g : A -> nat) (l : list A) : nat :=
  match l with [] => 0 | x :: r => g x + sumf g r end.
Definition one (i j : id) : nat := if Nat.eqb j i then 1 else 0.
Definition cnt (i : id) (l : list id) : nat := sumf (one i) l.

(* ---- list helpers ------------------------------------------------------------------------- *)
Fixpoint remove_nth {A} (k : nat) (l : list A) : list A :=
  match l with
  | [] => []
  | x :: r => match k with 0 => r | S k' => x :: remove_nth k' r end
  end.

Fixpoint upd_nth {A} (k : nat) (f : A -> A) (l : list A) : list A :=
  match l with
  | [] => []
  | x :: r => match k with 0 => f x :: r | S k' => x :: upd_nth k' f r end
  end.

Definition mem (i : id) (l : list id) : bool := existsb (Nat.eqb i) l.

Fixpoint dedup (l : list id) : list id :=
  match l with [] => [] | x :: r => if mem x r then dedup r else x :: dedup r end.

Definition set_st (st : send_st) (w : work) : work := mkWork (w_ids w) st (w_own w).

Definition is_not (p : pc_t) : bool := match p with PNot => true | _ => false end.
Definition after_inner (p : pc_t) : bool := match p with PInner | PReturned => true | _ => false end.
Definition is_ok (o : outcome) : bool := match o with OOk => true | _ => false end.
Definition is_shutdown (r : result) : bool := match r with RShutdown => true | _ => false end.
Definition timer_dead (t : timer_st) : bool := match t with TNone | TExit => true | _ => false end.
Definition nonempty {A} (l : list A) : bool := match l with [] => false | _ => true end.
Definition is_fly (w : work) : bool := match w_own w with OFly => true | _ => false end.
Definition is_caller (w : work) : bool := match w_own w with OCaller => true | _ => false end.

(* retry_sender.go Send, after the export function returned *)
Definition end_state (c : cfg) (o : outcome) : send_st :=
  match o with
  | OOk => SDone RSuccess
  | OPermanent => SDone RFail                                   (* "not retryable error" *)
  | OTransient => if c_retry c then SBackoff else SDone RFail   (* no retry sender: error returned as is *)
  end.

(* ---- a request that the batcher splits (max_size) into several export calls -------------------
   default_batcher.go refCountDone: every part reports its result; the errors are accumulated
   (multierr.Append) and the queue's Done is called once, after the last part, with the accumulated
   error.  persistent_queue.go onDone keeps the stored request iff experr.IsShutdownErr(err), and
   errors.As looks into every accumulated error.  So the request's verdict is: *)
Fixpoint combine (rs : list result) : result :=
  match rs with
  | [] => RSuccess
  | r :: t =>
      match r, combine t with
      | RShutdown, _ | _, RShutdown => RShutdown     (* some part was only interrupted by the shutdown *)
      | RFail, _ | _, RFail => RFail
      | RSuccess, RSuccess => RSuccess
      end
  end.

(* is the request still in the storage after all its parts reported? *)
Definition kept_after (rs : list result) : bool := is_shutdown (combine rs).

Definition results_of (i : id) (log : list (id * result)) : list result :=
  map snd (filter (fun p => Nat.eqb (fst p) i) log).

Definition tmb (s : state) : list id := match timer s with TFlush b => b | _ => [] end.
Definition pcb (s : state) : list id := match pc s with PFlushWait b => b | _ => [] end.

(* number of parts of request i that are still on their way (in the current batch, waiting to be flushed,
   or being exported).  The refcount of refCountDone is not a separate field of the model: it is this
   number (the queue's Done of a request runs when its last outstanding part reports) *)
Definition parts_out (i : id) (s : state) : nat :=
  cnt i (current s) + sumf (sumf (cnt i)) (cflush s) + cnt i (tmb s) + cnt i (pcb s)
  + sumf (fun w => cnt i (w_ids w)) (works s).

Inductive label :=
| LOffer (i : id)            (* memoryQueue.add / persistentQueue.putInternal succeeds *)
| LOfferFail (i : id)        (* persistent queue, storage client already closed: the write fails *)
| LSend (i : id)             (* exporter without queue: Send enters the sender chain on the caller's goroutine *)
| LTake                      (* a consumer's Read returns the head of the queue *)
| LConsExit                  (* a consumer's Read returns !ok; the goroutine exits (stopWG.Done) *)
| LAbsorb (k n : nat) (keep first : bool)
                             (* defaultBatcher.Consume critical section: MergeSplit(currentBatch, req) yields n >= 1
                                chunks, the first one = currentBatch + the beginning of req (first = true) or currentBatch
                                alone when nothing of req fitted beside it (first = false: then req's Done is not
                                attached to that chunk and its refcount is n - 1), the others parts of req;
                                all are flushed (one after the other, by this consumer) except that the last one is
                                kept as the new currentBatch when keep (smaller than min_size) *)
| LSpawnC (k : nat)          (* flush(): the consumer obtains a worker and starts the flush goroutine for its next chunk *)
| LBegin (k : nat)           (* the export function is called for work k *)
| LEnd (k : nat) (o : outcome) (* ... and returns *)
| LRetryTimer (k : nat)      (* back-off select: timer branch, then the nested select on stopCh *)
| LRetryStop (k : nat)       (* back-off select: stopCh branch -> shutdown error *)
| LRetryGiveUp (k : nat)     (* max_elapsed_time / deadline: "no more retries left" *)
| LDone (k : nat)            (* the work's result is reported: refCountDone / queue onDone for every request whose last
                                outstanding part this was; worker returned / consumer loops / Send returns *)
| LTimerFire                 (* timer goroutine: <-timer.C; takes currentBatch under the lock *)
| LTimerSpawn                (* timer goroutine: flush() obtains a worker *)
| LTimerExit                 (* timer goroutine: <-shutdownCh *)
| LShutCall                  (* BaseExporter.Shutdown is called ("shutdown requested") *)
| LCloseStop                 (* retrySender.Shutdown: close(stopCh) *)
| LQueueStop (err : bool)    (* queue.Shutdown critical section: stopped = true; Broadcast; (persistent) unref client.
                                err: the storage failed (queue-size snapshot not written / Close failed): the call returns
                                an error, which changes NOTHING else — consumers are still joined, the batcher is still
                                shut down; the error is only joined into Shutdown's result (ghost [shuterr]) *)
| LNoQueue                   (* exporter without queue: "if be.QueueSender != nil" is false, nothing to stop or join *)
| LJoinConsumers             (* asyncQueue.Shutdown: stopWG.Wait returns *)
| LFinalFlush                (* defaultBatcher.Shutdown: close(shutdownCh); take currentBatch under the lock *)
| LFinalSpawn                (* ... flush() obtains a worker *)
| LJoinFlushes               (* defaultBatcher.Shutdown: stopWG.Wait returns *)
| LInnerShutdown             (* the wrapped exporter's ShutdownFunc *)
| LReturn.                   (* BaseExporter.Shutdown returns *)

Definition init (c : cfg) : state :=
  mkState [] false [] 1 false
          (ncons_eff c) 0 [] []
          [] (c_nwork c) [] (if c_queue c && c_batch c && c_timer c then TRun else TNone) false
          false PNot
          [] [] [] [] [] [] [] 0 0 [] false [] [].

Definition new_work (b : list id) (o : owner) (s : state) : state :=
  set_works (works s ++ [mkWork b SReady o]) s.

Definition step (c : cfg) (s : state) (l : label) : option state :=
  match l with
  | LOffer i =>
      if negb (c_queue c) || mem i (accepted s) || (c_persist c && closed s) then None else
      Some (set_queue (queue s ++ [i])
           (set_accepted (i :: accepted s)
           (set_accpre (if is_not (pc s) then i :: accpre s else accpre s)
           (set_late (if qstop s then i :: late s else late s)
           (set_store (if c_persist c then i :: store s else store s) s)))))
  | LOfferFail i =>
      if c_queue c && c_persist c && closed s then Some s else None
  | LSend i =>
      if c_queue c || mem i (accepted s) then None else
      Some (new_work [i] OCaller
           (set_accepted (i :: accepted s)
           (set_accpre (if is_not (pc s) then i :: accpre s else accpre s)
           (set_taken (i :: taken s) (set_nparts (i :: nparts s) s)))))
  | LTake =>
      match idle s, queue s with
      | S n, i :: q =>
          if c_persist c && qstop s then None else
          let s1 := set_queue q (set_idle n (set_taken (i :: taken s)
                    (set_refs (if c_persist c then S (refs s) else refs s) s))) in
          Some (if c_batch c then set_holding (holding s1 ++ [i]) s1
                else new_work [i] OCons (set_nparts (i :: nparts s1) s1))
      | _, _ => None
      end
  | LConsExit =>
      match idle s with
      | S n => if qstop s && (c_persist c || negb (nonempty (queue s)))
               then Some (set_idle n (set_exited (S (exited s)) s)) else None
      | 0 => None
      end
  | LAbsorb k n keep first =>
      match nth_error (holding s) k, n with
      | Some i, S m =>
          if Nat.ltb (c_maxparts c) n then None else
          (* the first chunk can be without a part of the request only if there is a current batch and a further chunk *)
          if negb first && (Nat.eqb m 0 || negb (nonempty (current s))) then None else
          let c1 := if first then current s ++ [i] else current s in
          let s1 := set_nparts (repeat i (if first then S m else m) ++ nparts s)
                               (set_holding (remove_nth k (holding s)) s) in
          Some (if keep then
                  match m with
                  | 0 => set_current c1 (set_idle (S (idle s1)) s1)
                  | S m' => set_current [i] (set_cflush (cflush s1 ++ [c1 :: repeat [i] m']) s1)
                  end
                else set_current [] (set_cflush (cflush s1 ++ [c1 :: repeat [i] m]) s1))
      | _, _ => None
      end
  | LSpawnC k =>
      match nth_error (cflush s) k, workers s with
      | Some (b :: rest), S n =>
          let s1 := new_work b OFly (set_workers n s) in
          Some (match rest with
                | [] => set_cflush (remove_nth k (cflush s)) (set_idle (S (idle s)) s1)
                | _ :: _ => set_cflush (upd_nth k (fun _ => rest) (cflush s)) s1
                end)
      | _, _ => None
      end
  | LBegin k =>
      match nth_error (works s) k with
      | Some w =>
          match w_st w with
          | SReady => Some (set_works (upd_nth k (set_st SInCall) (works s))
                           (set_begun (w_ids w ++ begun s)
                           (set_postb (if after_inner (pc s) && negb (is_caller w) then S (postb s) else postb s) s)))
          | _ => None
          end
      | None => None
      end
  | LEnd k o =>
      match nth_error (works s) k with
      | Some w =>
          match w_st w with
          | SInCall => Some (set_works (upd_nth k (set_st (end_state c o)) (works s))
                            (set_ended (w_ids w ++ ended s)
                            (set_failures (if is_ok o then failures s else S (failures s))
                            (set_failedids (if is_ok o then failedids s else w_ids w ++ failedids s) s))))
          | _ => None
          end
      | None => None
      end
  | LRetryTimer k =>
      match nth_error (works s) k with
      | Some w => match w_st w with
                  | SBackoff =>
                      (* the timer branch re-checks stopCh before the next attempt (zero or elapsed delay: timer and
                         stop channel can be ready together and select picks at random) *)
                      Some (set_works (upd_nth k (set_st (if rstop s then SDone RShutdown else SReady)) (works s)) s)
                  | _ => None
                  end
      | None => None
      end
  | LRetryStop k =>
      match nth_error (works s) k with
      | Some w => match w_st w with
                  | SBackoff => if rstop s then Some (set_works (upd_nth k (set_st (SDone RShutdown)) (works s)) s)
                                else None
                  | _ => None
                  end
      | None => None
      end
  | LRetryGiveUp k =>
      match nth_error (works s) k with
      | Some w => match w_st w with
                  | SBackoff => Some (set_works (upd_nth k (set_st (SDone RFail)) (works s)) s)
                  | _ => None
                  end
      | None => None
      end
  | LDone k =>
      match nth_error (works s) k with
      | Some w =>
          match w_st w with
          | SDone r =>
              let s1 := set_works (remove_nth k (works s))
                        (set_partlog (map (fun i => (i, r)) (w_ids w) ++ partlog s) s) in
              (* the requests whose last outstanding part this was: their Done runs now *)
              let finals := filter (fun i => Nat.eqb (parts_out i s1) 0) (dedup (w_ids w)) in
              let verdict := fun i => combine (results_of i (partlog s1)) in
              let s2 := set_finished (map (fun i => (i, verdict i)) finals ++ finished s1) s1 in
              let s3 := match w_own w with
                        | OCons => set_idle (S (idle s2)) s2
                        | OFly => set_workers (S (workers s2)) s2
                        | OCaller => s2
                        end in
              Some (if c_persist c && negb (is_caller w) then
                      let refs' := refs s3 - length finals in
                      set_refs refs' (set_closed (closed s3 || Nat.eqb refs' 0)
                        (set_store (filter (fun i => negb (mem i finals && negb (is_shutdown (verdict i)))) (store s3)) s3))
                    else s3)
          | _ => None
          end
      | None => None
      end
  | LTimerFire =>
      match timer s with
      | TRun => Some (if nonempty (current s) then set_timer (TFlush (current s)) (set_current [] s) else s)
      | _ => None
      end
  | LTimerSpawn =>
      match timer s, workers s with
      | TFlush b, S n => Some (new_work b OFly (set_workers n (set_timer TRun s)))
      | _, _ => None
      end
  | LTimerExit =>
      match timer s with
      | TRun => if bclosed s then Some (set_timer TExit s) else None
      | _ => None
      end
  | LShutCall => match pc s with PNot => Some (set_pc PCalled s) | _ => None end
  | LCloseStop =>
      match pc s with
      | PCalled => Some (set_pc PStopClosed (set_rstop (c_retry c) s))
      | _ => None
      end
  | LQueueStop err =>
      match pc s with
      | PStopClosed =>
          if negb (c_queue c) then None else
          let s1 := set_pc PQStopped (set_qstop true (set_shuterr err s)) in
          Some (if c_persist c then
                  let refs' := refs s1 - 1 in set_refs refs' (set_closed (closed s1 || Nat.eqb refs' 0) s1)
                else s1)
      | _ => None
      end
  | LNoQueue =>
      match pc s with
      | PStopClosed => if c_queue c then None else Some (set_pc PFlushJoined s)
      | _ => None
      end
  | LJoinConsumers =>
      match pc s with
      | PQStopped => if Nat.eqb (exited s) (ncons_eff c) then Some (set_pc PJoined s) else None
      | _ => None
      end
  | LFinalFlush =>
      match pc s with
      | PJoined =>
          Some (if nonempty (current s)
                then set_pc (PFlushWait (current s)) (set_current [] (set_bclosed true s))
                else set_pc PFlushed (set_bclosed true s))
      | _ => None
      end
  | LFinalSpawn =>
      match pc s, workers s with
      | PFlushWait b, S n => Some (new_work b OFly (set_workers n (set_pc PFlushed s)))
      | _, _ => None
      end
  | LJoinFlushes =>
      match pc s with
      | PFlushed => if forallb (fun w => negb (is_fly w)) (works s) && timer_dead (timer s) && negb (nonempty (cflush s))
                    then Some (set_pc PFlushJoined s) else None
      | _ => None
      end
  | LInnerShutdown => match pc s with PFlushJoined => Some (set_pc PInner s) | _ => None end
  | LReturn => match pc s with PInner => Some (set_pc PReturned s) | _ => None end
  end.

Fixpoint run (c : cfg) (s : state) (ls : list label) : option state :=
  match ls with
  | [] => Some s
  | l :: r => match step c s l with Some s' => run c s' r | None => None end
  end.

Definition reachable (c : cfg) (s : state) : Prop := exists ls, run c (init c) ls = Some s.

(* goroutines that are alive in s: the exporter's helpers (consumers, flush goroutines, timer) and, for an
   exporter without queue, the callers that are still inside Send *)
Definition live (s : state) : nat :=
  idle s + length (holding s) + length (cflush s) + length (works s)
  + (if timer_dead (timer s) then 0 else 1).

(* the thread structure: which goroutines created by the exporter helper are alive in s, by creation site —
   consumers (asyncQueue.Start), flush goroutines (defaultBatcher.flush), the flush timer goroutine
   (startTimeBasedFlushingGoroutine), anything else (none) *)
Definition n_cons_alive (s : state) : nat :=
  idle s + length (holding s) + length (cflush s)
  + length (filter (fun w => match w_own w with OCons => true | _ => false end) (works s)).
Definition n_fly (s : state) : nat := length (filter is_fly (works s)).
Definition n_timer (s : state) : nat := if timer_dead (timer s) then 0 else 1.
Definition census (s : state) : list nat := [n_cons_alive s; n_fly s; n_timer s; 0].

(* ======== deterministic scheduler used by the correspondence run ==============================
   The Go harness gates the export function and performs one ACTION at a time, waiting for quiescence
   (every goroutine blocked) after each.  [exec] replays that: apply the action's label, then run the
   enabled internal labels to quiescence.  [exec_run] (Proofs2.v) shows every execution of the scheduler
   is a run of the LTS above. *)
Record hcfg := mkH {
  h_cfg : cfg;
  h_mode : nat;      (* retry: 0 off | 1 long back-off (never elapses) | 2 short back-off | 3 gives up at once
                        | 4 zero back-off (timer and stop channel ready together after stop) *)
  h_min : nat;       (* batch min_size in items *)
  h_max : nat;       (* batch max_size in items (0 = none) *)
  h_wait : bool;     (* wait_for_result: Offer returns (with the export's result) only when Done is called *)
  h_fsize : bool;    (* storage fault: the queue-size snapshot written by persistentQueue.Shutdown fails
                        (only written when the queue is not sized by requests) *)
  h_fclose : bool;   (* storage fault: client.Close fails *)
  h_nofill : bool }. (* the request type's MergeSplit does not top up the current batch when the merged size exceeds
                        max_size: the first result is the current batch alone *)

(* does persistentQueue.Shutdown return an error in state s?  backupQueueSize fails, or the client is closed
   right there (last reference) and Close fails *)
Definition qstop_err (hc : hcfg) (s : state) : bool :=
  c_persist (h_cfg hc) && (h_fsize hc || (h_fclose hc && Nat.eqb (refs s) 1)).

Inductive action := AOffer (i : id) (sz : nat) | ARelease (i : id) (o : outcome) | AShutdown
                  | ATimerFire    (* the harness makes the batcher's flush timer fire now *)
                  | AShutdownRace (m : nat) (e : bool)
                  | ASend (i : id).  (* exporter without queue: a Send on its own goroutine *)
(* AShutdownRace: Shutdown is called while a work sits in a long back-off and the persistent queue still holds
   requests.  close(stopCh) wakes the back-off; the freed consumer then races with persistentQueue.Shutdown
   for the next request — both orders are legal.  The harness reports what it saw: m = number of ids whose
   FIRST export begins after the call.  The ids already taken (current batch, ...) account for some of them;
   the rest, k, are the Reads that won the race: the scheduler lets exactly k LTake happen before LQueueStop.
   e = Shutdown returned an error.  With a failing storage Close that depends on the same race (the client is
   closed inside persistentQueue.Shutdown only if every in-flight request was Done before): when no Read won
   and no error was seen, the queue's stop is scheduled before the woken works finish. *)

Definition event := (nat * list id)%type.
(* kinds: 0 export begins (ids) | 1 export ends (ids) | 2 Shutdown returned (ids = [1] when it returned an error)
          3 wrapped exporter shut down | 4 offer accepted | 5 offer refused | 6 storage client closed
          8 Send of an exporter without queue returned: [id; 0 ok | 1 error | 2 shutdown error]
          9 (last of every phase) census of the helper goroutines at quiescence: [consumers; flush; timer; other] *)

(* sizes: items of every offered request; the pseudo-entry with key 0 is the size of the current batch
   (needed because the current batch may hold only the last chunk of a split request) *)
Fixpoint size_of (sizes : list (id * nat)) (i : id) : nat :=
  match sizes with
  | [] => 0
  | (j, n) :: r => if Nat.eqb i j then n else size_of r i
  end.

Fixpoint insert_nat (x : nat) (l : list nat) : list nat :=
  match l with
  | [] => [x]
  | y :: r => if Nat.leb x y then x :: l else y :: insert_nat x r
  end.
Definition sort_nat (l : list nat) : list nat := fold_right insert_nat [] l.

Definition ev_leb (a b : event) : bool :=
  if Nat.ltb (fst a) (fst b) then true
  else if Nat.ltb (fst b) (fst a) then false
  else Nat.leb (hd 0 (snd a)) (hd 0 (snd b)).
Fixpoint insert_ev (x : event) (l : list event) : list event :=
  match l with
  | [] => [x]
  | y :: r => if ev_leb x y then x :: l else y :: insert_ev x r
  end.
Definition sort_ev (l : list event) : list event := fold_right insert_ev [] l.

(* defaultBatcher.Consume + the harness's MergeSplit (chunks of max_size items, in order): the current batch
   has cs items (< min_size <= max_size), the request sz: total = cs + sz items are cut into n chunks of
   max_size, the last one has rem items and is kept iff rem < min_size.  Every chunk holds a part of the request. *)
Definition absorb_params (hc : hcfg) (sizes : list (id * nat)) (s : state) (i : id) : nat * bool * bool * nat :=
  let cs := if nonempty (current s) then size_of sizes 0 else 0 in
  let sz := size_of sizes i in
  let total := cs + sz in
  match h_max hc with
  | 0 => let keep := Nat.ltb total (h_min hc) in (1, keep, true, if keep then total else 0)
  | S _ as mx =>
      if h_nofill hc && nonempty (current s) && Nat.ltb mx total then
        (* first result = the current batch alone; the request is cut into chunks of max_size on its own *)
        let n' := (sz + mx - 1) / mx in
        let rem := sz - (n' - 1) * mx in
        let keep := Nat.ltb rem (h_min hc) in
        (S n', keep, false, if keep then rem else 0)
      else
      let n := (total + mx - 1) / mx in
      let rem := total - (n - 1) * mx in
      let keep := Nat.ltb rem (h_min hc) in
      (n, keep, true, if keep then rem else 0)
  end.

(* the label the scheduler runs for the first work that can move by itself *)
Fixpoint work_label (hc : hcfg) (stopped : bool) (k : nat) (ws : list work) : option label :=
  match ws with
  | [] => None
  | w :: r =>
      match w_st w with
      | SReady => Some (LBegin k)
      | SDone _ => Some (LDone k)
      | SInCall => work_label hc stopped (S k) r
      | SBackoff =>
          match h_mode hc with
          | 3 => Some (LRetryGiveUp k)
          | 2 | 4 => Some (if stopped then LRetryStop k else LRetryTimer k)
          | _ => if stopped then Some (LRetryStop k) else work_label hc stopped (S k) r
          end
      end
  end.

Definition candidates (hc : hcfg) (sizes : list (id * nat)) (s : state) : list label :=
  (match work_label hc (rstop s) 0 (works s) with Some l => [l] | None => [] end) ++
  (match holding s with
   | i :: _ => let '(n, keep, first, _) := absorb_params hc sizes s i in [LAbsorb 0 n keep first]
   | [] => []
   end) ++
  [LSpawnC 0; LTimerSpawn; LTake; LConsExit; LTimerExit; LCloseStop; LQueueStop (qstop_err hc s); LNoQueue;
   LJoinConsumers; LFinalFlush; LFinalSpawn; LJoinFlushes; LInnerShutdown; LReturn].

Fixpoint first_enabled (c : cfg) (s : state) (ls : list label) : option (label * state) :=
  match ls with
  | [] => None
  | l :: r => match step c s l with Some s' => Some (l, s') | None => first_enabled c s r end
  end.

Definition result_code (r : result) : nat := match r with RSuccess => 0 | RFail => 1 | RShutdown => 2 end.

(* the requests whose Done ran in the step s -> s' *)
Definition new_finished (s s' : state) : list (id * result) :=
  firstn (length (finished s') - length (finished s)) (finished s').

Definition events_of (hc : hcfg) (l : label) (s s' : state) : list event :=
  (match l with
   | LBegin k => match nth_error (works s) k with Some w => [(0, sort_nat (w_ids w))] | None => [] end
   | LEnd k _ => match nth_error (works s) k with Some w => [(1, sort_nat (w_ids w))] | None => [] end
   | LReturn => [(2, if shuterr s then [1] else [])]
   | LInnerShutdown => [(3, [])]
   | LOffer i => if h_wait hc then [] else [(4, [i])]
   | LOfferFail i => [(5, [i])]
   | LDone k =>
       match nth_error (works s) k with
       | Some w =>
           if is_caller w then map (fun p => (8, [fst p; result_code (snd p)])) (new_finished s s')
           else if h_wait hc then
             map (fun p => (match snd p with RSuccess => 4 | _ => 5 end, [fst p])) (new_finished s s')
           else []
       | None => []
       end
   | _ => []
   end) ++ (if negb (closed s) && closed s' then [(6, [])] else []).

(* the scheduler's bookkeeping of the current batch's size *)
Definition sizes_after (hc : hcfg) (sizes : list (id * nat)) (s : state) (l : label) : list (id * nat) :=
  match l, holding s with
  | LAbsorb _ _ _ _, i :: _ => let '(_, _, _, cs) := absorb_params hc sizes s i in (0, cs) :: sizes
  | _, _ => sizes
  end.

(* run internal labels to quiescence; returns the labels taken, the events, the final state and sizes *)
Fixpoint settle_f (allow : label -> bool) (fuel : nat) (hc : hcfg) (sizes : list (id * nat)) (s : state)
  : list label * list event * state * list (id * nat) :=
  match fuel with
  | 0 => ([], [], s, sizes)
  | S f =>
      match first_enabled (h_cfg hc) s (filter allow (candidates hc sizes s)) with
      | Some (l, s') =>
          let '(ls, evs, s'', sizes') := settle_f allow f hc (sizes_after hc sizes s l) s' in
          (l :: ls, events_of hc l s s' ++ evs, s'', sizes')
      | None => ([], [], s, sizes)
      end
  end.

Definition settle := settle_f (fun _ => true).

Definition not_take_stop (l : label) : bool := match l with LTake | LQueueStop _ => false | _ => true end.

Definition settle_fuel : nat := 400.

(* everything except Read and the queue's stop runs to quiescence; then one Read wins; k times *)
Fixpoint race_takes (k : nat) (hc : hcfg) (sizes : list (id * nat)) (s : state)
  : option (list label * list event * state * list (id * nat)) :=
  let '(ls, evs, s1, sz1) := settle_f not_take_stop settle_fuel hc sizes s in
  match k with
  | 0 => Some (ls, evs, s1, sz1)
  | S k' =>
      match step (h_cfg hc) s1 LTake with
      | Some s2 =>
          match race_takes k' hc sz1 s2 with
          | Some (ls', evs', s3, sz3) => Some (ls ++ LTake :: ls', evs ++ evs', s3, sz3)
          | None => None
          end
      | None => None
      end
  end.

Definition unbegun_taken (s : state) : nat :=
  length (filter (fun i => negb (mem i (begun s)))
            (dedup (holding s ++ current s ++ concat (concat (cflush s)) ++ tmb s))).

Definition exec_race (hc : hcfg) (sizes : list (id * nat)) (s : state) (m : nat) (e : bool)
  : option (list label * list event * state * list (id * nat)) :=
  let c := h_cfg hc in
  let k := m - unbegun_taken s in
  match step c s LShutCall with
  | Some s1 =>
      match step c s1 LCloseStop with
      | Some s2 =>
          match (if Nat.eqb k 0 && negb e then Some ([], [], s2, sizes) else race_takes k hc sizes s2) with
          | Some (ls3, evs3, s3, sz3) =>
              match step c s3 (LQueueStop (qstop_err hc s3)) with
              | Some s4 =>
                  let '(ls5, evs5, s5, sz5) := settle settle_fuel hc sz3 s4 in
                  Some (LShutCall :: LCloseStop :: ls3 ++ LQueueStop (qstop_err hc s3) :: ls5,
                        evs3 ++ events_of hc (LQueueStop (qstop_err hc s3)) s3 s4 ++ evs5, s5, sz5)
              | None => None
              end
          | None => None
          end
      | None => None
      end
  | None => None
  end.

Fixpoint find_call (i : id) (k : nat) (ws : list work) : option nat :=
  match ws with
  | [] => None
  | w :: r =>
      match w_st w with
      | SInCall => if Nat.eqb (hd 0 (sort_nat (w_ids w))) i then Some k else find_call i (S k) r
      | _ => find_call i (S k) r
      end
  end.

(* the label(s) of one harness action *)
Definition action_label (hc : hcfg) (s : state) (a : action) : option label :=
  match a with
  | AOffer i _ => Some (if c_persist (h_cfg hc) && closed s then LOfferFail i else LOffer i)
  | ARelease i o => option_map (fun k => LEnd k o) (find_call i 0 (works s))
  | AShutdown => Some LShutCall
  | ATimerFire => Some LTimerFire
  | AShutdownRace _ _ => None
  | ASend i => Some (LSend i)
  end.

Definition exec_action (hc : hcfg) (sizes : list (id * nat)) (s : state) (a : action)
  : option (list label * list event * state * list (id * nat)) :=
  let sizes' := match a with AOffer i sz => (i, sz) :: sizes | _ => sizes end in
  match a with
  | AShutdownRace m e =>
      match exec_race hc sizes s m e with
      | Some (ls, evs, s2, sz2) => Some (ls, sort_ev evs ++ [(9, census s2)], s2, sz2)
      | None => None
      end
  | _ =>
  match action_label hc s a with
  | Some l =>
      match step (h_cfg hc) s l with
      | Some s1 =>
          let '(ls, evs, s2, sz2) := settle settle_fuel hc sizes' s1 in
          Some (l :: ls, sort_ev (events_of hc l s s1 ++ evs) ++ [(9, census s2)], s2, sz2)
      | None => None
      end
  | None => None
  end
  end.

Fixpoint exec (hc : hcfg) (sizes : list (id * nat)) (s : state) (acts : list action)
  : option (list label * list (list event) * state) :=
  match acts with
  | [] => Some ([], [], s)
  | a :: r =>
      match exec_action hc sizes s a with
      | Some (ls, evs, s1, sizes') =>
          match exec hc sizes' s1 r with
          | Some (ls', evss, s2) => Some (ls ++ ls', evs :: evss, s2)
          | None => None
          end
      | None => None
      end
  end.
