(* C03/Proofs3.v — termination of Shutdown: a ranking function and a progress lemma. *)
From Coq Require Import Permutation.
From Verif Require Import Common.Base C03.Model C03.Proofs C03.ProofsB C03.Proofs2.

Definition wst (st : send_st) : nat := match st with SReady => 5 | SInCall => 4 | SBackoff => 3 | SDone _ => 2 end.
Definition wrank (w : work) : nat := wst (w_st w).
Definition bw (b : list id) : nat := 8 * length b + 7.

Definition mu (c : cfg) (s : state) : nat :=
  (35 + 15 * c_maxparts c) * length (queue s) + (33 + 15 * c_maxparts c) * length (holding s)
  + 16 * length (current s) + sumf (sumf bw) (cflush s)
  + sumf wrank (works s) + idle s
  + match timer s with TRun => 1 | TFlush b => bw b + 1 | _ => 0 end
  + match pc s with
    | PNot => 10 | PCalled => 9 | PStopClosed => 8 | PQStopped => 7 | PJoined => 6
    | PFlushWait b => bw b + 4 | PFlushed => 4 | PFlushJoined => 3 | PInner => 2 | PReturned => 0
    end.

(* labels of the exporter's own threads and of the backend answering a call; excluded: the producers' offers /
   sends (the environment).  The back-off timer branch IS included: once stopCh is closed it re-checks the
   channel and ends the work with the shutdown error instead of re-arming it. *)
Definition ranked (l : label) : bool :=
  match l with LOffer _ | LOfferFail _ | LSend _ => false | _ => true end.

Definition ge_stopclosed (p : pc_t) : bool := match p with PNot | PCalled => false | _ => true end.

(* after close(stopCh): the retry sender is stopped if it exists, and without one no work is ever in a back-off *)
Definition stopped_inv (c : cfg) (s : state) : Prop :=
  ge_stopclosed (pc s) = true /\ rstop s = c_retry c /\ (c_retry c = false -> sumf wback (works s) = 0).

Lemma step_noretry c s l s' : step c s l = Some s' ->
  (c_retry c = false -> sumf wback (works s) = 0) -> c_retry c = false -> sumf wback (works s') = 0.
Proof. intros H A R. specialize (A R). start H l; rw_eqs; arith. Qed.

Lemma run_noretry c : forall ls s s', run c s ls = Some s' ->
  (c_retry c = false -> sumf wback (works s) = 0) -> c_retry c = false -> sumf wback (works s') = 0.
Proof.
  induction ls as [|l ls IH]; intros s s' H A R; simpl in H.
  - injection H as <-. auto.
  - destruct (step c s l) as [s1|] eqn:E; [|discriminate]. eapply IH; [eassumption| |assumption].
    intros _. eapply step_noretry; eassumption.
Qed.

Lemma step_stopped c s l s' : stopped_inv c s -> step c s l = Some s' -> stopped_inv c s'.
Proof.
  intros (G & Rs & Nb) H. split; [|split].
  - start H l; rw_eqs; cbn [ge_stopclosed] in *; try discriminate; try reflexivity; assumption.
  - start H l; rw_eqs; cbn [ge_stopclosed] in *; try discriminate; try reflexivity; assumption.
  - intros R. eapply step_noretry; eassumption.
Qed.

Lemma ranked_decreases c s l s' : stopped_inv c s -> step c s l = Some s' -> ranked l = true ->
  mu c s' < mu c s \/ (l = LTimerFire /\ s' = s).
Proof.
  intros (G & Rs & Nb) H R. destruct l; try discriminate R; clear R.
  all: try (match goal with o : outcome |- _ => destruct o end); unfold step, is_ok, end_state in H; destr_step H;
       guards; injection H as <-; proj.
  all: try (right; split; reflexivity).
  all: left; unfold mu, bw, wrank, wst, set_st in *; proj; rw_eqs; cbn [nonempty] in *; try discriminate;
       repeat match goal with Hl : (_ <? _) = false |- _ => apply Nat.ltb_ge in Hl end;
       rewrite ?length_upd_nth in *; splits;
       do 3 (rewrite ?sumf_app, ?app_length, ?sumf_repeat, ?repeat_length in *; cbn [sumf length w_st] in * ); rw_eqs;
       cbn [sumf length w_st] in *; try nia.
  all: try (destruct (current s); cbn [nonempty length] in *; [discriminate|nia]).
  (* LRetryTimer with the retry sender not stopped: impossible after close(stopCh) *)
  all: destruct (c_retry c); [discriminate|]; specialize (Nb eq_refl); unfold wback, backoff in Nb;
       splits; rw_eqs; cbn [sumf] in Nb; lia.
Qed.

Definition wfc (c : cfg) : Prop := (c_batch c = true -> 1 <= c_nwork c) /\ 1 <= c_maxparts c.

(* every consumer that is blocked in flush() still has a chunk to flush *)
Definition cfne (s : state) : Prop := forallb nonempty (cflush s) = true.

Lemma forallb_remove_nth {A} (f : A -> bool) l : forall k, forallb f l = true -> forallb f (remove_nth k l) = true.
Proof. induction l as [|a l IH]; intros [|k] H; simpl in *; auto; apply andb_prop in H as [H1 H2]; auto. rewrite H1, (IH k H2). reflexivity. Qed.

Lemma forallb_upd_nth {A} (f : A -> bool) l x : forall k, f x = true -> forallb f l = true -> forallb f (upd_nth k (fun _ => x) l) = true.
Proof. induction l as [|a l IH]; intros [|k] Hx H; simpl in *; auto; apply andb_prop in H as [H1 H2]. - rewrite Hx, H2. reflexivity. - rewrite H1, (IH k Hx H2). reflexivity. Qed.

Lemma step_cfne c s l s' : cfne s -> step c s l = Some s' -> cfne s'.
Proof.
  unfold cfne. intros C H. start H l; try assumption; rewrite ?forallb_app; cbn [forallb nonempty andb];
    rewrite ?C; try reflexivity; try (apply forallb_remove_nth; assumption); try (apply forallb_upd_nth; [reflexivity|assumption]).
Qed.


Lemma strict c s l s' : stopped_inv c s -> step c s l = Some s' -> ranked l = true -> l <> LTimerFire -> mu c s' < mu c s.
Proof. intros SI H R N. destruct (ranked_decreases _ _ _ _ SI H R) as [?|[? _]]; [assumption|contradiction]. Qed.

Ltac fire l := exists l; eexists; split; [unfold step; rw_eqs; cbn; reflexivity | split; [reflexivity | discriminate]].

(* any work can make a step of its own (the backend answers; a back-off can always give up or be stopped) *)
Lemma work_step c s w r : works s = w :: r ->
  exists l s', step c s l = Some s' /\ ranked l = true /\ l <> LTimerFire.
Proof.
  intros W. destruct (w_st w) eqn:E.
  - exists (LBegin 0). eexists. unfold step. rewrite W. cbn. rewrite E. split; [reflexivity|split; [reflexivity|discriminate]].
  - exists (LEnd 0 OOk). eexists. unfold step. rewrite W. cbn. rewrite E. split; [reflexivity|split; [reflexivity|discriminate]].
  - exists (LRetryGiveUp 0). eexists. unfold step. rewrite W. cbn. rewrite E. split; [reflexivity|split; [reflexivity|discriminate]].
  - exists (LDone 0). eexists. unfold step. rewrite W. cbn. rewrite E. split; [reflexivity|split; [reflexivity|discriminate]].
Qed.

Lemma progress c s : Inv c s -> cfne s -> wfc c -> is_not (pc s) = false -> pc s <> PReturned ->
  exists l s', step c s l = Some s' /\ ranked l = true /\ l <> LTimerFire.
Proof.
  intros I CF [WF WP] N NR.
  destruct (works s) as [|w r] eqn:W; [|eapply work_step; eassumption].
  pose proof (i_workers _ _ I) as Hw. rewrite W in Hw. cbn in Hw.
  pose proof (i_consumers _ _ I) as Hn. rewrite W in Hn. cbn in Hn.
  pose proof (i_qstop _ _ I) as Hq. pose proof (i_bclosed _ _ I) as Hb.
  assert (NB : c_batch c = false -> holding s = [] /\ cflush s = [] /\ timer s = TNone /\
               match pc s with PFlushWait _ => False | _ => True end).
  { intros B. destruct (i_nobatch _ _ I B) as (A1 & _ & A3 & A4 & _ & A6). auto. }
  assert (NQ : c_queue c = false -> match pc s with PQStopped | PJoined | PFlushWait _ | PFlushed => False | _ => True end).
  { intros B. destruct (i_noqueue _ _ I B) as (_ & _ & _ & _ & _ & _ & _ & _ & _ & X). exact X. }
  destruct (pc s) eqn:P; try discriminate N; try congruence; cbn in Hq, Hb.
  - fire LCloseStop.
  - destruct (c_queue c) eqn:Q.
    + exists (LQueueStop false). eexists. unfold step. rewrite P, Q. cbn. split; [reflexivity|split; [reflexivity|discriminate]].
    + exists LNoQueue. eexists. unfold step. rewrite P, Q. split; [reflexivity|split; [reflexivity|discriminate]].
  - (* PQStopped *)
    destruct (c_queue c) eqn:Q; [|destruct (NQ eq_refl)]. rewrite andb_true_l in Hq.
    destruct (idle s) as [|n] eqn:Ei.
    + destruct (holding s) as [|i h] eqn:Eh.
      * destruct (cflush s) as [|b f] eqn:Ef.
        -- exists LJoinConsumers. eexists. unfold step. rewrite P. cbn in Hn.
           replace (Nat.eqb (exited s) (ncons_eff c)) with true by (symmetry; apply Nat.eqb_eq; lia).
           split; [reflexivity|split; [reflexivity|discriminate]].
        -- destruct (c_batch c) eqn:B; [|destruct (NB eq_refl) as (_ & X & _); discriminate].
           specialize (WF eq_refl). destruct (workers s) as [|m] eqn:Em; [lia|].
           unfold cfne in CF. rewrite Ef in CF. cbn in CF. apply andb_prop in CF as [CF1 _].
           destruct b as [|b0 rest]; [discriminate|].
           destruct rest; exists (LSpawnC 0); eexists; unfold step; rewrite Ef, Em; cbn [nth_error];
             (split; [reflexivity|split; [reflexivity|discriminate]]).
      * exists (LAbsorb 0 1 true true). eexists. unfold step. rewrite Eh. cbn [nth_error].
        replace (Nat.ltb (c_maxparts c) 1) with false by (symmetry; apply Nat.ltb_ge; lia).
        split; [reflexivity|split; [reflexivity|discriminate]].
    + destruct (c_persist c) eqn:Pe.
      * exists LConsExit. eexists. unfold step. rewrite Ei, Hq, Pe. cbn. split; [reflexivity|split; [reflexivity|discriminate]].
      * destruct (queue s) as [|i q] eqn:Eq.
        -- exists LConsExit. eexists. unfold step. rewrite Ei, Hq, Pe, Eq. cbn. split; [reflexivity|split; [reflexivity|discriminate]].
        -- exists LTake. eexists. unfold step. rewrite Ei, Eq, Pe. cbn. split; [reflexivity|split; [reflexivity|discriminate]].
  - fire LFinalFlush.
  - (* PFlushWait *)
    destruct (c_batch c) eqn:B; [|destruct (NB eq_refl) as (_ & _ & _ & X); contradiction].
    specialize (WF eq_refl). destruct (workers s) as [|m] eqn:Em; [lia|].
    exists LFinalSpawn. eexists. unfold step. rewrite P, Em. split; [reflexivity|split; [reflexivity|discriminate]].
  - (* PFlushed *)
    destruct (c_queue c) eqn:Q; [|destruct (NQ eq_refl)]. rewrite andb_true_l in Hb.
    assert (J : ge_joined (pc s) = true) by (rewrite P; reflexivity).
    destruct (joined_quiet _ _ I J) as (_ & _ & Hf & _).
    destruct (timer s) eqn:T.
    + exists LJoinFlushes. eexists. unfold step. rewrite P, W, T, Hf. cbn. split; [reflexivity|split; [reflexivity|discriminate]].
    + exists LTimerExit. eexists. unfold step. rewrite T, Hb. split; [reflexivity|split; [reflexivity|discriminate]].
    + destruct (c_batch c) eqn:B; [|destruct (NB eq_refl) as (_ & _ & X & _); discriminate].
      specialize (WF eq_refl). destruct (workers s) as [|m] eqn:Em; [lia|].
      exists LTimerSpawn. eexists. unfold step. rewrite T, Em. split; [reflexivity|split; [reflexivity|discriminate]].
    + exists LJoinFlushes. eexists. unfold step. rewrite P, W, T, Hf. cbn. split; [reflexivity|split; [reflexivity|discriminate]].
  - fire LInnerShutdown.
  - fire LReturn.
Qed.

(* from every reachable state in which Shutdown has been called, Return is reachable using only
   ranked labels (no further offer, no back-off timer), in at most [mu c s] steps *)
Lemma stopped_not_PNot c s : stopped_inv c s -> is_not (pc s) = false.
Proof. intros (G & _). destruct (pc s); try reflexivity; discriminate. Qed.

Lemma reach_return c : wfc c -> forall n s, mu c s <= n -> Inv c s -> cfne s -> stopped_inv c s ->
  exists ls s', run c s ls = Some s' /\ pc s' = PReturned /\ forallb ranked ls = true /\ length ls <= mu c s.
Proof.
  intros WF. induction n as [|n IH]; intros s M I CF SI.
  - pose proof (stopped_not_PNot _ _ SI) as N. destruct (pc s) eqn:P; try discriminate N.
    all: try (exfalso; unfold mu in M; rewrite P in M; lia).
    exists [], s; split; [reflexivity|split; [assumption|split; [reflexivity|simpl; lia]]].
  - pose proof (stopped_not_PNot _ _ SI) as N. destruct (pc s) eqn:P; try discriminate N.
    all: try (exists [], s; split; [reflexivity|split; [assumption|split; [reflexivity|simpl; lia]]]).
    all: destruct (progress c s I CF WF) as (l & s1 & St & R & NT); [rewrite P; reflexivity | rewrite P; discriminate|];
         pose proof (strict _ _ _ _ SI St R NT) as D;
         destruct (IH s1 ltac:(lia) (step_inv _ _ _ _ I St) (step_cfne _ _ _ _ CF St) (step_stopped _ _ _ _ SI St)) as (ls & s2 & Rn & Pr & Rk & Ln);
         exists (l :: ls), s2; (split; [simpl; rewrite St; assumption|]); (split; [assumption|]);
         (split; [simpl; rewrite R, Rk; reflexivity | simpl; lia]).
Qed.

Lemma run_cfne c : forall ls s s', cfne s -> run c s ls = Some s' -> cfne s'.
Proof.
  induction ls as [|l ls IH]; intros s s' C H; simpl in H.
  - injection H as <-. assumption.
  - destruct (step c s l) eqn:E; [|discriminate]. eapply IH; [eapply step_cfne; eassumption | eassumption].
Qed.

(* no run of ranked labels is longer than mu (apart from no-op timer ticks) *)
Lemma ranked_runs_bounded c : forall ls s s', stopped_inv c s -> run c s ls = Some s' -> forallb ranked ls = true ->
  mu c s' + length (filter (fun l => match l with LTimerFire => false | _ => true end) ls) <= mu c s.
Proof.
  induction ls as [|l ls IH]; intros s s' SI H R; simpl in *.
  - injection H as <-. lia.
  - destruct (step c s l) as [s1|] eqn:St; [|discriminate]. apply andb_prop in R as [R1 R2].
    specialize (IH _ _ (step_stopped _ _ _ _ SI St) H R2). destruct (ranked_decreases _ _ _ _ SI St R1) as [D|[E1 E2]].
    + destruct l; simpl; lia.
    + subst. simpl. lia.
Qed.

(* (removed) ----------------------------------------------------------------
   After close(stopCh) the back-off select may still take the timer branch (both channels ready): from
   the state below the cycle [retry timer; export begins; export fails transiently] returns to the same
   control state (only the ghost logs grow), so it can be repeated for ever and Shutdown never returns. *)
(* ---- split requests: the accumulated verdict of the parts ------------------------------------------ *)
Lemma combine_shutdown rs : In RShutdown rs <-> combine rs = RShutdown.
Proof.
  induction rs as [|r t IH]; simpl.
  - split; [tauto|discriminate].
  - destruct r, (combine t) eqn:E; split; intros H; try reflexivity; try discriminate;
      try (left; reflexivity); try (right; apply IH; reflexivity);
      try (destruct H as [H|H]; [discriminate|apply IH in H; discriminate]).
Qed.

Lemma combine_success rs : combine rs = RSuccess <-> forall r, In r rs -> r = RSuccess.
Proof.
  induction rs as [|r t IH]; simpl.
  - split; [intros _ r []|reflexivity].
  - destruct r, (combine t) eqn:E; split; intros H; try discriminate; try reflexivity.
    all: try (intros r [<-|Hr]; [reflexivity|apply IH; [reflexivity|assumption]]).
    all: try (specialize (H RFail (or_introl eq_refl)); discriminate).
    all: try (specialize (H RShutdown (or_introl eq_refl)); discriminate).
    all: try (assert (X : RFail = RSuccess) by (apply IH; intros r Hr; apply H; right; assumption); discriminate).
    all: try (assert (X : RShutdown = RSuccess) by (apply IH; intros r Hr; apply H; right; assumption); discriminate).
Qed.

Lemma combine_perm rs rs' : Permutation rs rs' -> combine rs = combine rs'.
Proof.
  induction 1; simpl; try congruence.
  - rewrite IHPermutation. reflexivity.
  - destruct x, y, (combine l); reflexivity.
Qed.

Lemma kept_iff_l rs : In RShutdown rs <-> kept_after rs = true.
Proof.
  unfold kept_after. rewrite combine_shutdown. destruct (combine rs); simpl; split; congruence.
Qed.

Lemma queue_stop_error_l c s s1 s2 :
  step c s (LQueueStop true) = Some s1 -> step c s (LQueueStop false) = Some s2 ->
  s2 = set_shuterr false s1 /\ shuterr s1 = true /\ pc s1 = PQStopped /\ qstop s1 = true.
Proof.
  unfold step. destruct (pc s); try discriminate. destruct (c_queue c); try discriminate. cbn [negb].
  destruct (c_persist c); intros H1 H2; injection H1 as <-; injection H2 as <-; repeat split.
Qed.

(* the stop branch of the back-off wait: once stopCh is closed every work waiting in its back-off can be
   released, and the release ends the work with the shutdown error without another export attempt *)
Lemma backoff_released_l c s k w : nth_error (works s) k = Some w -> w_st w = SBackoff -> rstop s = true ->
  exists s', step c s (LRetryStop k) = Some s' /\ begun s' = begun s /\
             nth_error (works s') k = Some (set_st (SDone RShutdown) w).
Proof.
  intros N B R. unfold step. rewrite N, B, R. eexists. split; [reflexivity|]. split; [reflexivity|].
  cbn [works set_works]. clear B R. revert k N. induction (works s) as [|a l IH]; intros [|k] N; simpl in *; try discriminate.
  - injection N as ->. reflexivity.
  - apply IH. assumption.
Qed.

(* ... and stopCh is closed by the first step of Shutdown whenever retry is enabled, queue or no queue *)
Lemma close_stop_l c s s' : step c s LCloseStop = Some s' -> rstop s' = c_retry c.
Proof. unfold step. destruct (pc s); try discriminate. intros H. injection H as <-. reflexivity. Qed.

(* ---- exporter without queue and batcher ------------------------------------------------------------ *)
Lemma step_rstop c s l s' : step c s l = Some s' ->
  (ge_stopclosed (pc s) = true -> rstop s = c_retry c) -> ge_stopclosed (pc s') = true -> rstop s' = c_retry c.
Proof.
  intros H. start H l; rw_eqs; cbn [ge_stopclosed] in *; intros A G; try discriminate; try reflexivity; try (apply A; assumption);
    try (apply A; reflexivity).
Qed.

Lemma run_rstop c : forall ls s s', run c s ls = Some s' ->
  (ge_stopclosed (pc s) = true -> rstop s = c_retry c) -> ge_stopclosed (pc s') = true -> rstop s' = c_retry c.
Proof.
  induction ls as [|l ls IH]; intros s s' H A G; simpl in H.
  - injection H as <-. auto.
  - destruct (step c s l) as [s1|] eqn:E; [|discriminate]. eapply IH; [eassumption| |assumption].
    intros G1. eapply step_rstop; eassumption.
Qed.

Lemma caller_only (l : list work) : sumf wcons l = 0 -> sumf wfly l = 0 -> forallb is_caller l = true.
Proof.
  induction l as [|w l IH]; simpl; auto. unfold wcons at 1, wfly at 1, is_caller at 1.
  destruct (w_own w); intros A B; try lia. apply IH; lia.
Qed.

(* Shutdown of an exporter without queue never waits: its four steps are enabled one after the other *)
Lemma direct_never_waits_l c s : c_queue c = false -> pc s = PCalled ->
  exists s', run c s [LCloseStop; LNoQueue; LInnerShutdown; LReturn] = Some s' /\ pc s' = PReturned /\
             rstop s' = c_retry c /\ works s' = works s.
Proof.
  intros Q P. eexists. cbn [run step]. rewrite P. cbn [pc set_pc set_rstop]. rewrite Q. cbn [pc set_pc].
  split; [reflexivity|]. cbn. repeat split.
Qed.

(* ... and when it has returned the retry sender is stopped, the wrapped exporter is shut down, and the only
   goroutines still inside the exporter are callers of Send *)
Lemma direct_returned_l c ls s : c_queue c = false -> run c (init c) ls = Some s -> pc s = PReturned ->
  rstop s = c_retry c /\ forallb is_caller (works s) = true /\ live s = length (works s) /\ postb s = 0.
Proof.
  intros Q R P. assert (I : Inv c s) by (eapply run_inv; [apply init_inv|eassumption]).
  destruct (i_noqueue _ _ I Q) as (_ & A2 & _ & A4 & A5 & A6 & A7 & A8 & _).
  split; [eapply (run_rstop c ls (init c) s R); [discriminate | rewrite P; reflexivity]|].
  split; [apply caller_only; assumption|]. split; [|apply (i_postb _ _ I)].
  unfold live. rewrite A2, A4, A5, A6. simpl. lia.
Qed.

Lemma reachable_stopped c ls s : run c (init c) ls = Some s -> ge_stopclosed (pc s) = true -> stopped_inv c s.
Proof.
  intros R G. split; [assumption|]. split.
  - eapply (run_rstop c ls (init c) s R); [discriminate|assumption].
  - intros Nr. eapply (run_noretry c ls (init c) s R); [reflexivity|assumption].
Qed.

Lemma terminates_l c ls s :
  wfc c -> run c (init c) ls = Some s -> ge_stopclosed (pc s) = true ->
  (exists ls' s', run c s ls' = Some s' /\ pc s' = PReturned /\ forallb ranked ls' = true /\ length ls' <= mu c s)
  /\ (pc s <> PReturned -> exists l s', step c s l = Some s' /\ ranked l = true /\ mu c s' < mu c s)
  /\ (forall ls' s', run c s ls' = Some s' -> forallb ranked ls' = true ->
        mu c s' + length (filter (fun l => match l with LTimerFire => false | _ => true end) ls') <= mu c s).
Proof.
  intros WF R G.
  assert (I : Inv c s) by (eapply run_inv; [apply init_inv|eassumption]).
  assert (CF : cfne s) by (eapply run_cfne; [|eassumption]; reflexivity).
  pose proof (reachable_stopped _ _ _ R G) as SI.
  split; [eapply reach_return; eauto|]. split.
  - intros NR. destruct (progress c s I CF WF (stopped_not_PNot _ _ SI) NR) as (l & s' & St & Rk & NT).
    exists l, s'. split; [assumption|]. split; [assumption|]. eapply strict; eassumption.
  - intros ls' s'. apply ranked_runs_bounded. assumption.
Qed.

(* ---- exporter without queue: no NEW attempt after the return ------------------------------------------ *)
Definition wready (w : work) : nat := match w_st w with SReady => 1 | _ => 0 end.
Definition ready (s : state) : nat := sumf wready (works s).
Definition is_begin (l : label) : nat := match l with LBegin _ => 1 | _ => 0 end.

Lemma step_ready c s l s' : Inv c s -> stopped_inv c s -> c_queue c = false -> step c s l = Some s' -> ranked l = true ->
  ready s' + is_begin l <= ready s.
Proof.
  intros I (G & Rs & Nb) Q H R. destruct (i_noqueue _ _ I Q) as (A1 & A2 & A3 & A4 & A5 & A6 & _ & _ & _ & A10). clear I.
  destruct l; try discriminate R; clear R;
    try (match goal with o : outcome |- _ => destruct o end); unfold step, is_ok, end_state in H;
    rewrite ?A1, ?A2, ?A3, ?A4, ?A5, ?A6, ?Q in H; cbn [negb andb orb nth_error] in H;
    try discriminate H; try (destruct k; discriminate H); try (destruct n; discriminate H).
  all: destr_step H; injection H as <-; proj; unfold ready, wready, is_begin, set_st in *; proj; try lia;
       splits; rw_eqs; cbn [sumf w_st] in *; try lia.
  all: ifs; try lia.
  all: try (match goal with Hp : pc _ = PFlushWait _ |- _ => rewrite Hp in A10; contradiction end).
  all: exfalso; specialize (Nb (eq_sym Rs)); unfold wback, backoff in Nb; rewrite Heqs0 in Nb; lia.
Qed.

Lemma run_ready c : forall ls s s', Inv c s -> stopped_inv c s -> c_queue c = false -> run c s ls = Some s' -> forallb ranked ls = true ->
  ready s' + sumf is_begin ls <= ready s.
Proof.
  induction ls as [|l ls IH]; intros s s' I SI Q H R; simpl in *.
  - injection H as <-. lia.
  - destruct (step c s l) as [s1|] eqn:St; [|discriminate]. apply andb_prop in R as [R1 R2].
    pose proof (step_ready _ _ _ _ I SI Q St R1).
    specialize (IH _ _ (step_inv _ _ _ _ I St) (step_stopped _ _ _ _ SI St) Q H R2). lia.
Qed.

(* the clause "all export calls have returned" does NOT hold for an exporter without queue: Shutdown has
   nothing to join, a Send that is inside the export function stays there *)
Lemma direct_open_call_refuted_l : exists c ls s,
  c_queue c = false /\ run c (init c) ls = Some s /\ pc s = PReturned /\
  cnt 1 (begun s) = 1 /\ cnt 1 (ended s) = 0 /\ live s = 1.
Proof.
  exists (mkCfg false false false false true 0 0 1), [LSend 1; LBegin 0; LShutCall; LCloseStop; LNoQueue; LInnerShutdown; LReturn].
  eexists. split; [reflexivity|]. split; [vm_compute; reflexivity|]. repeat split.
Qed.

(* shutdown_drains_memory needs at least one consumer: with num_consumers = 0 (rejected by queuebatch.Config.Validate,
   "`num_consumers` must be positive") nothing is ever exported *)
Lemma no_consumer_refuted_l : exists c ls s,
  c_queue c = true /\ c_persist c = false /\ c_ncons c = 0 /\ run c (init c) ls = Some s /\ pc s = PReturned /\
  In 1 (accpre s) /\ cnt 1 (begun s) = 0.
Proof.
  exists (mkCfg true false false false true 0 0 1),
         [LOffer 1; LShutCall; LCloseStop; LQueueStop false; LJoinConsumers; LFinalFlush; LJoinFlushes; LInnerShutdown; LReturn].
  eexists. split; [reflexivity|]. split; [reflexivity|]. split; [reflexivity|]. split; [vm_compute; reflexivity|].
  repeat split. left. reflexivity.
Qed.

(* ---- the thread structure and the WaitGroups Shutdown waits on ------------------------------------------ *)
Lemma filter_cons_sum (l : list work) :
  length (filter (fun w => match w_own w with OCons => true | _ => false end) l) = sumf wcons l.
Proof. induction l as [|w l IH]; simpl; auto. unfold wcons at 1. destruct (w_own w); simpl; lia. Qed.

Lemma filter_fly_sum (l : list work) : length (filter is_fly l) = sumf wfly l.
Proof.
  induction l as [|w l IH]; cbn [filter sumf length]; auto. unfold wfly at 1. destruct (is_fly w) eqn:E; unfold is_fly in E;
    destruct (w_own w); try discriminate; cbn [length]; lia.
Qed.

Lemma nofly_iff (l : list work) : forallb (fun w => negb (is_fly w)) l = true <-> sumf wfly l = 0.
Proof.
  split; [apply nofly_sum|]. induction l as [|w l IH]; simpl; auto. unfold wfly at 1, is_fly.
  destruct (w_own w); simpl; intros H; try lia; apply IH; lia.
Qed.

(* asyncQueue.stopWG: its counter is the number of consumer goroutines alive *)
Lemma census_consumers_l c s : Inv c s -> n_cons_alive s + exited s = ncons_eff c.
Proof. intros I. pose proof (i_consumers _ _ I). unfold n_cons_alive. rewrite filter_cons_sum. lia. Qed.

(* ... and Shutdown's first join is enabled exactly when no consumer is alive *)
Lemma join_consumers_iff_l c s : Inv c s -> pc s = PQStopped ->
  ((exists s', step c s LJoinConsumers = Some s') <-> n_cons_alive s = 0).
Proof.
  intros I P. pose proof (census_consumers_l _ _ I) as C. unfold step. rewrite P.
  destruct (Nat.eqb (exited s) (ncons_eff c)) eqn:E; [apply Nat.eqb_eq in E|apply Nat.eqb_neq in E].
  - split; [lia|]. intros _. eexists. reflexivity.
  - split; [intros [s' X]; discriminate X|lia].
Qed.

(* defaultBatcher.stopWG covers the flush goroutines and the timer goroutine (and every flush() call that is still
   waiting for a worker: those callers are consumers — already joined — or the timer goroutine itself): the
   second join is enabled exactly when no flush goroutine and no timer goroutine is alive *)
Lemma join_flushes_iff_l c s : Inv c s -> pc s = PFlushed ->
  ((exists s', step c s LJoinFlushes = Some s') <-> n_fly s = 0 /\ n_timer s = 0).
Proof.
  intros I P. assert (J : ge_joined (pc s) = true) by (rewrite P; reflexivity).
  destruct (joined_quiet _ _ I J) as (_ & _ & Hf & _).
  unfold step, n_fly, n_timer. rewrite P, Hf, filter_fly_sum. cbn [nonempty negb andb].
  destruct (forallb (fun w => negb (is_fly w)) (works s)) eqn:F.
  - apply nofly_iff in F. destruct (timer_dead (timer s)); cbn [andb].
    + split; [intros _; split; [assumption|reflexivity]|]. intros _. eexists. reflexivity.
    + split; [intros [s' X]; discriminate X|]. intros [_ X]. discriminate X.
  - cbn [andb]. split; [intros [s' X]; discriminate X|]. intros [X _]. apply nofly_iff in X. congruence.
Qed.

(* when Shutdown of an exporter with a queue has returned the census is empty *)
Lemma census_at_return_l c ls s : c_queue c = true -> run c (init c) ls = Some s -> pc s = PReturned ->
  census s = [0; 0; 0; 0].
Proof.
  intros Q R P. assert (I : Inv c s) by (eapply run_inv; [apply init_inv|eassumption]).
  destruct (returned_quiet _ _ I Q P) as (H1 & H2 & H3 & _ & H5 & H6 & _).
  unfold census, n_cons_alive, n_fly, n_timer. rewrite H1, H2, H3, H5, H6. reflexivity.
Qed.

Lemma retry_timer_stop_l c s k w s' :
  nth_error (works s) k = Some w -> w_st w = SBackoff -> rstop s = true -> step c s (LRetryTimer k) = Some s' ->
  begun s' = begun s /\ nth_error (works s') k = Some (set_st (SDone RShutdown) w).
Proof.
  intros N B R H. unfold step in H. rewrite N, B, R in H. injection H as <-. split; [reflexivity|].
  cbn [works set_works]. clear B R. revert k N. induction (works s) as [|a l IH]; intros [|k] N; simpl in *; try discriminate.
  - injection N as ->. reflexivity.
  - apply IH. assumption.
Qed.

Lemma no_new_attempt_l c ls1 s1 ls2 s2 :
  c_queue c = false -> run c (init c) ls1 = Some s1 -> pc s1 = PReturned ->
  run c s1 ls2 = Some s2 -> forallb ranked ls2 = true ->
  ready s2 + sumf is_begin ls2 <= ready s1.
Proof.
  intros Q R1 P R2 Rk. eapply run_ready; try eassumption.
  - eapply run_inv; [apply init_inv|eassumption].
  - eapply reachable_stopped; [eassumption|]. rewrite P. reflexivity.
Qed.
