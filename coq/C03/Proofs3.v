(* C03/Proofs3.v — termination of Shutdown: a ranking function and a progress lemma. *)
From Coq Require Import Permutation.
From Verif Require Import Common.Base C03.Model C03.Proofs C03.ProofsB C03.Proofs2.

Definition wst (st : send_st) : nat := match st with SReady => 5 | SInCall => 4 | SBackoff => 3 | SDone _ => 2 end.
Definition wrank (w : work) : nat := wst (w_st w).
Definition bw (b : list id) : nat := 8 * length b + 7.

Definition mu (c : cfg) (s : state) : nat :=
  (35 + 15 * c_maxparts c) * length (queue s) + (33 + 15 * c_maxparts c) * length (holding s)
  + 16 * length (current s) + sumf (sumf bw) (cflush s)
  + sumf wrank (works s) + idle s
  + match timer s with TRun => 1 | TFlush b => bw b + 1 | _ => 0 end
  + match pc s with
    | PNot => 10 | PCalled => 9 | PStopClosed => 8 | PQStopped => 7 | PJoined => 6
    | PFlushWait b => bw b + 4 | PFlushed => 4 | PFlushJoined => 3 | PInner => 2 | PReturned => 0
    end.

(* labels of the exporter's own threads and of the backend answering a call; excluded: the producers'
   offers / sends and the back-off timer (a retry re-arms the work: while the retry sender is not stopped a
   failing backend may be retried for ever; after stop the timer branch can win only in the
   zero-interval race S4) *)
Definition ranked (l : label) : bool :=
  match l with LOffer _ | LOfferFail _ | LSend _ | LRetryTimer _ => false | _ => true end.

Lemma ranked_decreases c s l s' : step c s l = Some s' -> ranked l = true ->
  mu c s' < mu c s \/ (l = LTimerFire /\ s' = s).
Proof.
  intros H R. destruct l; try discriminate R; clear R.
  all: try (match goal with o : outcome |- _ => destruct o end); unfold step, is_ok, end_state in H; destr_step H;
       injection H as <-; proj.
  all: try (right; split; reflexivity).
  all: left; unfold mu, bw, wrank, wst, set_st in *; proj; rw_eqs; cbn [nonempty] in *; try discriminate;
       repeat match goal with Hl : (_ <? _) = false |- _ => apply Nat.ltb_ge in Hl end;
       rewrite ?length_upd_nth in *; splits;
       do 3 (rewrite ?sumf_app, ?app_length, ?sumf_repeat, ?repeat_length in *; cbn [sumf length w_st] in * ); rw_eqs;
       cbn [sumf length w_st] in *; try nia.
  all: destruct (current s); cbn [nonempty length] in *; [discriminate|nia].
Qed.

Definition wfc (c : cfg) : Prop := (c_batch c = true -> 1 <= c_nwork c) /\ 1 <= c_maxparts c.

(* every consumer that is blocked in flush() still has a chunk to flush *)
Definition cfne (s : state) : Prop := forallb nonempty (cflush s) = true.

Lemma forallb_remove_nth {A} (f : A -> bool) l : forall k, forallb f l = true -> forallb f (remove_nth k l) = true.
Proof. induction l as [|a l IH]; intros [|k] H; simpl in *; auto; apply andb_prop in H as [H1 H2]; auto. rewrite H1, (IH k H2). reflexivity. Qed.

Lemma forallb_upd_nth {A} (f : A -> bool) l x : forall k, f x = true -> forallb f l = true -> forallb f (upd_nth k (fun _ => x) l) = true.
Proof. induction l as [|a l IH]; intros [|k] Hx H; simpl in *; auto; apply andb_prop in H as [H1 H2]. - rewrite Hx, H2. reflexivity. - rewrite H1, (IH k Hx H2). reflexivity. Qed.

Lemma step_cfne c s l s' : cfne s -> step c s l = Some s' -> cfne s'.
Proof.
  unfold cfne. intros C H. start H l; try assumption; rewrite ?forallb_app; cbn [forallb nonempty andb];
    rewrite ?C; try reflexivity; try (apply forallb_remove_nth; assumption); try (apply forallb_upd_nth; [reflexivity|assumption]).
Qed.


Lemma strict c s l s' : step c s l = Some s' -> ranked l = true -> l <> LTimerFire -> mu c s' < mu c s.
Proof. intros H R N. destruct (ranked_decreases _ _ _ _ H R) as [?|[? _]]; [assumption|contradiction]. Qed.

Ltac fire l := exists l; eexists; split; [unfold step; rw_eqs; cbn; reflexivity | split; [reflexivity | discriminate]].

(* any work can make a step of its own (the backend answers; a back-off can always give up or be stopped) *)
Lemma work_step c s w r : works s = w :: r ->
  exists l s', step c s l = Some s' /\ ranked l = true /\ l <> LTimerFire.
Proof.
  intros W. destruct (w_st w) eqn:E.
  - exists (LBegin 0). eexists. unfold step. rewrite W. cbn. rewrite E. split; [reflexivity|split; [reflexivity|discriminate]].
  - exists (LEnd 0 OOk). eexists. unfold step. rewrite W. cbn. rewrite E. split; [reflexivity|split; [reflexivity|discriminate]].
  - exists (LRetryGiveUp 0). eexists. unfold step. rewrite W. cbn. rewrite E. split; [reflexivity|split; [reflexivity|discriminate]].
  - exists (LDone 0). eexists. unfold step. rewrite W. cbn. rewrite E. split; [reflexivity|split; [reflexivity|discriminate]].
Qed.

Lemma progress c s : Inv c s -> cfne s -> wfc c -> is_not (pc s) = false -> pc s <> PReturned ->
  exists l s', step c s l = Some s' /\ ranked l = true /\ l <> LTimerFire.
Proof.
  intros I CF [WF WP] N NR.
  destruct (works s) as [|w r] eqn:W; [|eapply work_step; eassumption].
  pose proof (i_workers _ _ I) as Hw. rewrite W in Hw. cbn in Hw.
  pose proof (i_consumers _ _ I) as Hn. rewrite W in Hn. cbn in Hn.
  pose proof (i_qstop _ _ I) as Hq. pose proof (i_bclosed _ _ I) as Hb.
  assert (NB : c_batch c = false -> holding s = [] /\ cflush s = [] /\ timer s = TNone /\
               match pc s with PFlushWait _ => False | _ => True end).
  { intros B. destruct (i_nobatch _ _ I B) as (A1 & _ & A3 & A4 & _ & A6). auto. }
  assert (NQ : c_queue c = false -> match pc s with PQStopped | PJoined | PFlushWait _ | PFlushed => False | _ => True end).
  { intros B. destruct (i_noqueue _ _ I B) as (_ & _ & _ & _ & _ & _ & _ & _ & _ & X). exact X. }
  destruct (pc s) eqn:P; try discriminate N; try congruence; cbn in Hq, Hb.
  - fire LCloseStop.
  - destruct (c_queue c) eqn:Q.
    + exists (LQueueStop false). eexists. unfold step. rewrite P, Q. cbn. split; [reflexivity|split; [reflexivity|discriminate]].
    + exists LNoQueue. eexists. unfold step. rewrite P, Q. split; [reflexivity|split; [reflexivity|discriminate]].
  - (* PQStopped *)
    destruct (c_queue c) eqn:Q; [|destruct (NQ eq_refl)]. rewrite andb_true_l in Hq.
    destruct (idle s) as [|n] eqn:Ei.
    + destruct (holding s) as [|i h] eqn:Eh.
      * destruct (cflush s) as [|b f] eqn:Ef.
        -- exists LJoinConsumers. eexists. unfold step. rewrite P. cbn in Hn.
           replace (Nat.eqb (exited s) (ncons_eff c)) with true by (symmetry; apply Nat.eqb_eq; lia).
           split; [reflexivity|split; [reflexivity|discriminate]].
        -- destruct (c_batch c) eqn:B; [|destruct (NB eq_refl) as (_ & X & _); discriminate].
           specialize (WF eq_refl). destruct (workers s) as [|m] eqn:Em; [lia|].
           unfold cfne in CF. rewrite Ef in CF. cbn in CF. apply andb_prop in CF as [CF1 _].
           destruct b as [|b0 rest]; [discriminate|].
           destruct rest; exists (LSpawnC 0); eexists; unfold step; rewrite Ef, Em; cbn [nth_error];
             (split; [reflexivity|split; [reflexivity|discriminate]]).
      * exists (LAbsorb 0 1 true). eexists. unfold step. rewrite Eh. cbn [nth_error].
        replace (Nat.ltb (c_maxparts c) 1) with false by (symmetry; apply Nat.ltb_ge; lia).
        split; [reflexivity|split; [reflexivity|discriminate]].
    + destruct (c_persist c) eqn:Pe.
      * exists LConsExit. eexists. unfold step. rewrite Ei, Hq, Pe. cbn. split; [reflexivity|split; [reflexivity|discriminate]].
      * destruct (queue s) as [|i q] eqn:Eq.
        -- exists LConsExit. eexists. unfold step. rewrite Ei, Hq, Pe, Eq. cbn. split; [reflexivity|split; [reflexivity|discriminate]].
        -- exists LTake. eexists. unfold step. rewrite Ei, Eq, Pe. cbn. split; [reflexivity|split; [reflexivity|discriminate]].
  - fire LFinalFlush.
  - (* PFlushWait *)
    destruct (c_batch c) eqn:B; [|destruct (NB eq_refl) as (_ & _ & _ & X); contradiction].
    specialize (WF eq_refl). destruct (workers s) as [|m] eqn:Em; [lia|].
    exists LFinalSpawn. eexists. unfold step. rewrite P, Em. split; [reflexivity|split; [reflexivity|discriminate]].
  - (* PFlushed *)
    destruct (c_queue c) eqn:Q; [|destruct (NQ eq_refl)]. rewrite andb_true_l in Hb.
    assert (J : ge_joined (pc s) = true) by (rewrite P; reflexivity).
    destruct (joined_quiet _ _ I J) as (_ & _ & Hf & _).
    destruct (timer s) eqn:T.
    + exists LJoinFlushes. eexists. unfold step. rewrite P, W, T, Hf. cbn. split; [reflexivity|split; [reflexivity|discriminate]].
    + exists LTimerExit. eexists. unfold step. rewrite T, Hb. split; [reflexivity|split; [reflexivity|discriminate]].
    + destruct (c_batch c) eqn:B; [|destruct (NB eq_refl) as (_ & _ & X & _); discriminate].
      specialize (WF eq_refl). destruct (workers s) as [|m] eqn:Em; [lia|].
      exists LTimerSpawn. eexists. unfold step. rewrite T, Em. split; [reflexivity|split; [reflexivity|discriminate]].
    + exists LJoinFlushes. eexists. unfold step. rewrite P, W, T, Hf. cbn. split; [reflexivity|split; [reflexivity|discriminate]].
  - fire LInnerShutdown.
  - fire LReturn.
Qed.

(* from every reachable state in which Shutdown has been called, Return is reachable using only
   ranked labels (no further offer, no back-off timer), in at most [mu c s] steps *)
Lemma reach_return c : wfc c -> forall n s, mu c s <= n -> Inv c s -> cfne s -> is_not (pc s) = false ->
  exists ls s', run c s ls = Some s' /\ pc s' = PReturned /\ forallb ranked ls = true /\ length ls <= mu c s.
Proof.
  intros WF. induction n as [|n IH]; intros s M I CF N.
  - destruct (pc s) eqn:P; try discriminate N.
    all: try (exfalso; unfold mu in M; rewrite P in M; lia).
    exists [], s; split; [reflexivity|split; [assumption|split; [reflexivity|simpl; lia]]].
  - destruct (pc s) eqn:P; try discriminate N.
    all: try (exists [], s; split; [reflexivity|split; [assumption|split; [reflexivity|simpl; lia]]]).
    all: destruct (progress c s I CF WF) as (l & s1 & St & R & NT); [rewrite P; reflexivity | rewrite P; discriminate|];
         pose proof (strict _ _ _ _ St R NT) as D;
         assert (N1 : is_not (pc s1) = false) by (eapply step_pc_called; [eassumption|rewrite P; reflexivity]);
         destruct (IH s1 ltac:(lia) (step_inv _ _ _ _ I St) (step_cfne _ _ _ _ CF St) N1) as (ls & s2 & Rn & Pr & Rk & Ln);
         exists (l :: ls), s2; (split; [simpl; rewrite St; assumption|]); (split; [assumption|]);
         (split; [simpl; rewrite R, Rk; reflexivity | simpl; lia]).
Qed.

Lemma run_cfne c : forall ls s s', cfne s -> run c s ls = Some s' -> cfne s'.
Proof.
  induction ls as [|l ls IH]; intros s s' C H; simpl in H.
  - injection H as <-. assumption.
  - destruct (step c s l) eqn:E; [|discriminate]. eapply IH; [eapply step_cfne; eassumption | eassumption].
Qed.

(* no run of ranked labels is longer than mu (apart from no-op timer ticks) *)
Lemma ranked_runs_bounded c : forall ls s s', run c s ls = Some s' -> forallb ranked ls = true ->
  mu c s' + length (filter (fun l => match l with LTimerFire => false | _ => true end) ls) <= mu c s.
Proof.
  induction ls as [|l ls IH]; intros s s' H R; simpl in *.
  - injection H as <-. lia.
  - destruct (step c s l) as [s1|] eqn:St; [|discriminate]. apply andb_prop in R as [R1 R2].
    specialize (IH _ _ H R2). destruct (ranked_decreases _ _ _ _ St R1) as [D|[E1 E2]].
    + destruct l; simpl; lia.
    + subst. simpl. lia.
Qed.

(* ---- shutdown_terminates_refuted ----------------------------------------------------------------
   After close(stopCh) the back-off select may still take the timer branch (both channels ready): from
   the state below the cycle [retry timer; export begins; export fails transiently] returns to the same
   control state (only the ghost logs grow), so it can be repeated for ever and Shutdown never returns. *)
Definition ctl (s : state) :=
  (queue s, qstop s, idle s, exited s, holding s, cflush s, current s, workers s, works s, timer s,
   bclosed s, rstop s, pc s).

Lemma refuted_l : exists c ls s cyc s',
  run c (init c) ls = Some s /\ rstop s = true /\ is_not (pc s) = false /\ pc s <> PReturned /\
  cyc <> [] /\ run c s cyc = Some s' /\ ctl s' = ctl s /\ mu c s' = mu c s /\ length (begun s') = S (length (begun s)).
Proof.
  exists (mkCfg true false false false true 1 0 1),
         [LOffer 1; LTake; LBegin 0; LEnd 0 OTransient; LShutCall; LCloseStop; LQueueStop false].
  eexists. exists [LRetryTimer 0; LBegin 0; LEnd 0 OTransient]. eexists.
  split; [vm_compute; reflexivity|]. split; [reflexivity|]. split; [reflexivity|]. split; [discriminate|].
  split; [discriminate|]. split; [vm_compute; reflexivity|]. repeat split.
Qed.

(* ---- split requests: the accumulated verdict of the parts ------------------------------------------ *)
Lemma combine_shutdown rs : In RShutdown rs <-> combine rs = RShutdown.
Proof.
  induction rs as [|r t IH]; simpl.
  - split; [tauto|discriminate].
  - destruct r, (combine t) eqn:E; split; intros H; try reflexivity; try discriminate;
      try (left; reflexivity); try (right; apply IH; reflexivity);
      try (destruct H as [H|H]; [discriminate|apply IH in H; discriminate]).
Qed.

Lemma combine_success rs : combine rs = RSuccess <-> forall r, In r rs -> r = RSuccess.
Proof.
  induction rs as [|r t IH]; simpl.
  - split; [intros _ r []|reflexivity].
  - destruct r, (combine t) eqn:E; split; intros H; try discriminate; try reflexivity.
    all: try (intros r [<-|Hr]; [reflexivity|apply IH; [reflexivity|assumption]]).
    all: try (specialize (H RFail (or_introl eq_refl)); discriminate).
    all: try (specialize (H RShutdown (or_introl eq_refl)); discriminate).
    all: try (assert (X : RFail = RSuccess) by (apply IH; intros r Hr; apply H; right; assumption); discriminate).
    all: try (assert (X : RShutdown = RSuccess) by (apply IH; intros r Hr; apply H; right; assumption); discriminate).
Qed.

Lemma combine_perm rs rs' : Permutation rs rs' -> combine rs = combine rs'.
Proof.
  induction 1; simpl; try congruence.
  - rewrite IHPermutation. reflexivity.
  - destruct x, y, (combine l); reflexivity.
Qed.

Lemma kept_iff_l rs : In RShutdown rs <-> kept_after rs = true.
Proof.
  unfold kept_after. rewrite combine_shutdown. destruct (combine rs); simpl; split; congruence.
Qed.

Lemma queue_stop_error_l c s s1 s2 :
  step c s (LQueueStop true) = Some s1 -> step c s (LQueueStop false) = Some s2 ->
  s2 = set_shuterr false s1 /\ shuterr s1 = true /\ pc s1 = PQStopped /\ qstop s1 = true.
Proof.
  unfold step. destruct (pc s); try discriminate. destruct (c_queue c); try discriminate. cbn [negb].
  destruct (c_persist c); intros H1 H2; injection H1 as <-; injection H2 as <-; repeat split.
Qed.

(* the stop branch of the back-off wait: once stopCh is closed every work waiting in its back-off can be
   released, and the release ends the work with the shutdown error without another export attempt *)
Lemma backoff_released_l c s k w : nth_error (works s) k = Some w -> w_st w = SBackoff -> rstop s = true ->
  exists s', step c s (LRetryStop k) = Some s' /\ begun s' = begun s /\
             nth_error (works s') k = Some (set_st (SDone RShutdown) w).
Proof.
  intros N B R. unfold step. rewrite N, B, R. eexists. split; [reflexivity|]. split; [reflexivity|].
  cbn [works set_works]. clear B R. revert k N. induction (works s) as [|a l IH]; intros [|k] N; simpl in *; try discriminate.
  - injection N as ->. reflexivity.
  - apply IH. assumption.
Qed.

(* ... and stopCh is closed by the first step of Shutdown whenever retry is enabled, queue or no queue *)
Lemma close_stop_l c s s' : step c s LCloseStop = Some s' -> rstop s' = c_retry c.
Proof. unfold step. destruct (pc s); try discriminate. intros H. injection H as <-. reflexivity. Qed.

(* ---- exporter without queue and batcher ------------------------------------------------------------ *)
Definition ge_stopclosed (p : pc_t) : bool := match p with PNot | PCalled => false | _ => true end.

Lemma step_rstop c s l s' : step c s l = Some s' ->
  (ge_stopclosed (pc s) = true -> rstop s = c_retry c) -> ge_stopclosed (pc s') = true -> rstop s' = c_retry c.
Proof.
  intros H. start H l; rw_eqs; cbn [ge_stopclosed] in *; intros A G; try discriminate; try reflexivity; try (apply A; assumption);
    try (apply A; reflexivity).
Qed.

Lemma run_rstop c : forall ls s s', run c s ls = Some s' ->
  (ge_stopclosed (pc s) = true -> rstop s = c_retry c) -> ge_stopclosed (pc s') = true -> rstop s' = c_retry c.
Proof.
  induction ls as [|l ls IH]; intros s s' H A G; simpl in H.
  - injection H as <-. auto.
  - destruct (step c s l) as [s1|] eqn:E; [|discriminate]. eapply IH; [eassumption| |assumption].
    intros G1. eapply step_rstop; eassumption.
Qed.

Lemma caller_only (l : list work) : sumf wcons l = 0 -> sumf wfly l = 0 -> forallb is_caller l = true.
Proof.
  induction l as [|w l IH]; simpl; auto. unfold wcons at 1, wfly at 1, is_caller at 1.
  destruct (w_own w); intros A B; try lia. apply IH; lia.
Qed.

(* Shutdown of an exporter without queue never waits: its four steps are enabled one after the other *)
Lemma direct_never_waits_l c s : c_queue c = false -> pc s = PCalled ->
  exists s', run c s [LCloseStop; LNoQueue; LInnerShutdown; LReturn] = Some s' /\ pc s' = PReturned /\
             rstop s' = c_retry c /\ works s' = works s.
Proof.
  intros Q P. eexists. cbn [run step]. rewrite P. cbn [pc set_pc set_rstop]. rewrite Q. cbn [pc set_pc].
  split; [reflexivity|]. cbn. repeat split.
Qed.

(* ... and when it has returned the retry sender is stopped, the wrapped exporter is shut down, and the only
   goroutines still inside the exporter are callers of Send *)
Lemma direct_returned_l c ls s : c_queue c = false -> run c (init c) ls = Some s -> pc s = PReturned ->
  rstop s = c_retry c /\ forallb is_caller (works s) = true /\ live s = length (works s) /\ postb s = 0.
Proof.
  intros Q R P. assert (I : Inv c s) by (eapply run_inv; [apply init_inv|eassumption]).
  destruct (i_noqueue _ _ I Q) as (_ & A2 & _ & A4 & A5 & A6 & A7 & A8 & _).
  split; [eapply (run_rstop c ls (init c) s R); [discriminate | rewrite P; reflexivity]|].
  split; [apply caller_only; assumption|]. split; [|apply (i_postb _ _ I)].
  unfold live. rewrite A2, A4, A5, A6. simpl. lia.
Qed.

Lemma terminates_l c ls s :
  wfc c -> run c (init c) ls = Some s -> is_not (pc s) = false ->
  (exists ls' s', run c s ls' = Some s' /\ pc s' = PReturned /\ forallb ranked ls' = true /\ length ls' <= mu c s)
  /\ (pc s <> PReturned -> exists l s', step c s l = Some s' /\ ranked l = true /\ mu c s' < mu c s)
  /\ (forall ls' s', run c s ls' = Some s' -> forallb ranked ls' = true ->
        mu c s' + length (filter (fun l => match l with LTimerFire => false | _ => true end) ls') <= mu c s).
Proof.
  intros WF R N.
  assert (I : Inv c s) by (eapply run_inv; [apply init_inv|eassumption]).
  assert (CF : cfne s) by (eapply run_cfne; [|eassumption]; reflexivity).
  split; [eapply reach_return; eauto|]. split.
  - intros NR. destruct (progress c s I CF WF N NR) as (l & s' & St & Rk & NT).
    exists l, s'. split; [assumption|]. split; [assumption|]. eapply strict; eassumption.
  - intros ls' s'. apply ranked_runs_bounded.
Qed.

(* ---- exporter without queue: no NEW attempt after the return ------------------------------------------ *)
Definition wready (w : work) : nat := match w_st w with SReady => 1 | _ => 0 end.
Definition ready (s : state) : nat := sumf wready (works s).
Definition is_begin (l : label) : nat := match l with LBegin _ => 1 | _ => 0 end.

Lemma step_ready c s l s' : Inv c s -> c_queue c = false -> step c s l = Some s' -> ranked l = true ->
  ready s' + is_begin l <= ready s.
Proof.
  intros I Q H R. destruct (i_noqueue _ _ I Q) as (A1 & A2 & A3 & A4 & A5 & A6 & _ & _ & _ & A10). clear I.
  destruct l; try discriminate R; clear R;
    try (match goal with o : outcome |- _ => destruct o end); unfold step, is_ok, end_state in H;
    rewrite ?A1, ?A2, ?A3, ?A4, ?A5, ?A6, ?Q in H; cbn [negb andb orb nth_error] in H;
    try discriminate H; try (destruct k; discriminate H); try (destruct n; discriminate H).
  all: destr_step H; injection H as <-; proj; unfold ready, wready, is_begin, set_st in *; proj; try lia;
       splits; rw_eqs; cbn [sumf w_st] in *; try lia.
  all: ifs; try lia.
  all: rewrite Heqp in A10; contradiction.
Qed.

Lemma run_ready c : forall ls s s', Inv c s -> c_queue c = false -> run c s ls = Some s' -> forallb ranked ls = true ->
  ready s' + sumf is_begin ls <= ready s.
Proof.
  induction ls as [|l ls IH]; intros s s' I Q H R; simpl in *.
  - injection H as <-. lia.
  - destruct (step c s l) as [s1|] eqn:St; [|discriminate]. apply andb_prop in R as [R1 R2].
    pose proof (step_ready _ _ _ _ I Q St R1). specialize (IH _ _ (step_inv _ _ _ _ I St) Q H R2). lia.
Qed.

(* the clause "all export calls have returned" does NOT hold for an exporter without queue: Shutdown has
   nothing to join, a Send that is inside the export function stays there *)
Lemma direct_open_call_refuted_l : exists c ls s,
  c_queue c = false /\ run c (init c) ls = Some s /\ pc s = PReturned /\
  cnt 1 (begun s) = 1 /\ cnt 1 (ended s) = 0 /\ live s = 1.
Proof.
  exists (mkCfg false false false false true 0 0 1), [LSend 1; LBegin 0; LShutCall; LCloseStop; LNoQueue; LInnerShutdown; LReturn].
  eexists. split; [reflexivity|]. split; [vm_compute; reflexivity|]. repeat split.
Qed.

(* shutdown_drains_memory needs at least one consumer: with num_consumers = 0 (rejected by queuebatch.Config.Validate,
   "`num_consumers` must be positive") nothing is ever exported *)
Lemma no_consumer_refuted_l : exists c ls s,
  c_queue c = true /\ c_persist c = false /\ c_ncons c = 0 /\ run c (init c) ls = Some s /\ pc s = PReturned /\
  In 1 (accpre s) /\ cnt 1 (begun s) = 0.
Proof.
  exists (mkCfg true false false false true 0 0 1),
         [LOffer 1; LShutCall; LCloseStop; LQueueStop false; LJoinConsumers; LFinalFlush; LJoinFlushes; LInnerShutdown; LReturn].
  eexists. split; [reflexivity|]. split; [reflexivity|]. split; [reflexivity|]. split; [vm_compute; reflexivity|].
  repeat split. left. reflexivity.
Qed.
