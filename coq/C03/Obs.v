(* C03/Obs.v — the clauses of property C03 as a decidable checker over the OBSERVED behaviour of the
   implementation (a case term recorded by harness/C03/shutdown_test.go), independent of the model's step
   function.  [prop_viol c] = 0 when every clause holds on the observation, otherwise the number of the first
   violated clause; [prop_ok c = true <-> ObsProp c] is proved in ProofsObs.v.
   The observation is a list of phases (action, events until quiescence); the order of the phases is the
   real order, the order inside a phase is not recorded.  So "before the return" means "in a phase up to the
   one that contains the return event" and "after the return" means "in a later phase". *)
From Verif Require Import Common.Base C03.Model.

Definition oev := (nat * list nat)%type.
Definition ophase := ((nat * nat * nat) * list oev)%type.
Definition octype := (list nat * list ophase * (list nat * nat))%type.

Definition has_kind (k : nat) (p : ophase) : bool := existsb (fun e : oev => Nat.eqb (fst e) k) (snd p).
Definition act_kind (p : ophase) : nat := fst (fst (fst p)).

Fixpoint find_idx {A} (f : A -> bool) (l : list A) : option nat :=
  match l with
  | [] => None
  | x :: r => if f x then Some 0 else option_map S (find_idx f r)
  end.

Definition ret_idx (ps : list ophase) : option nat := find_idx (has_kind 2) ps.
Definition shut_idx (ps : list ophase) : option nat := find_idx (fun p => Nat.eqb (act_kind p) 2) ps.

Definition evs_of_kind (k : nat) (ps : list ophase) : list (list nat) :=
  map (fun e : oev => snd e) (filter (fun e : oev => Nat.eqb (fst e) k) (flat_map (fun p : ophase => snd p) ps)).

Definition begins_upto (r : nat) (ps : list ophase) := evs_of_kind 0 (firstn (S r) ps).
Definition ends_upto (r : nat) (ps : list ophase) := evs_of_kind 1 (firstn (S r) ps).
Definition begins_after (r : nat) (ps : list ophase) := evs_of_kind 0 (skipn (S r) ps).
Definition begins_all (ps : list ophase) := evs_of_kind 0 ps.

(* ids whose offer had returned successfully in a phase before the one that calls Shutdown *)
Definition pre_ids (ps : list ophase) : list nat :=
  match shut_idx ps with
  | Some k => concat (evs_of_kind 4 (firstn k ps))
  | None => []
  end.

Definition count_key (b : list nat) (l : list (list nat)) : nat :=
  length (filter (list_eqb Nat.eqb b) l).

(* (ids of the call, outcome) of every release action, in order *)
Definition releases (ps : list ophase) : list (list nat * nat) :=
  flat_map (fun p : ophase =>
              match fst p with
              | (1, _, o) => map (fun ids => (ids, o)) (evs_of_kind 1 [p])
              | _ => []
              end) ps.

Definition last_outcome (i : nat) (ps : list ophase) : option nat :=
  match filter (fun r : list nat * nat => mem i (fst r)) (rev (releases ps)) with
  | r :: _ => Some (snd r)
  | [] => None
  end.

Definition final_outcome (mode : nat) (o : option nat) : bool :=
  match o with
  | Some 0 | Some 2 => true
  | Some 1 => Nat.eqb mode 0 || Nat.eqb mode 3
  | _ => false
  end.

Definition any_failure (ps : list ophase) : bool := existsb (fun r : list nat * nat => negb (Nat.eqb (snd r) 0)) (releases ps).

Definition sends (ps : list ophase) : list nat :=
  flat_map (fun p : ophase => match fst p with (4, i, _) => [i] | _ => [] end) ps.

(* ---- the clauses ------------------------------------------------------------------------------- *)
Definition cl_no_begin_after (r : nat) (ps : list ophase) : bool := negb (nonempty (begins_after r ps)).
Definition cl_calls_closed (r : nat) (ps : list ophase) : bool :=
  forallb (fun b => Nat.eqb (count_key b (begins_upto r ps)) (count_key b (ends_upto r ps))) (begins_upto r ps).
Definition cl_drained (r : nat) (ps : list ophase) : bool :=
  forallb (fun i => existsb (mem i) (begins_upto r ps)) (pre_ids ps).
Definition cl_once (ps : list ophase) : bool :=
  forallb (fun i => Nat.leb (length (filter (mem i) (begins_all ps))) 1) (pre_ids ps).
Definition cl_durable (mode : nat) (stored : list nat) (ps : list ophase) : bool :=
  forallb (fun i => final_outcome mode (last_outcome i ps) || mem i stored) (pre_ids ps).
Definition cl_inner (r : nat) (ps : list ophase) : bool :=
  Nat.eqb (length (evs_of_kind 3 ps)) 1 && Nat.eqb (length (evs_of_kind 3 (firstn (S r) ps))) 1.
Definition cl_sends_returned (ps : list ophase) : bool :=
  forallb (fun i => existsb (fun e => Nat.eqb (hd 0 e) i) (evs_of_kind 8 ps)) (sends ps).

(* cfg = [persistent; batch; timer; mode; consumers; min; wait; fsize; fclose; max; queue; nofill] *)
(* every goroutine of the exporter helper at every quiescent point comes from an accounted creation site
   (consumer, flush goroutine, flush timer): the 4th entry of every census event is 0 *)
Definition cl_census (ps : list ophase) : bool :=
  forallb (fun e : list nat => Nat.eqb (nth 3 e 0) 0) (evs_of_kind 9 ps).

Definition prop_viol0 (c : octype) : nat :=
  let '(cf, ps, fin) := c in
  match cf with
  | 9 :: codes =>      (* refcount case: a part interrupted by the shutdown => the request is still stored *)
      if existsb (Nat.eqb 3) codes && negb (list_eqb Nat.eqb (fst fin) [1]) then 20 else 0
  | [p; _; _; mode; _; _; _; _; _; mx; q; _] =>
      match shut_idx ps, ret_idx ps with
      | None, _ => 0                       (* Shutdown never called: nothing to check *)
      | Some _, None => 1                  (* Shutdown was called and never returned *)
      | Some _, Some r =>
          if negb (cl_no_begin_after r ps) then 2
          else if negb (cl_inner r ps) then 3
          else if negb (Nat.eqb (snd fin) 0) then 4
          else if Nat.eqb q 0 then (if cl_sends_returned ps then 0 else 5)
          else if negb (cl_calls_closed r ps) then 6
          else if Nat.eqb p 0 && negb (cl_drained r ps) then 7
          else if Nat.eqb mx 0 && negb (any_failure ps) && negb (cl_once ps) then 8
          else if negb (Nat.eqb p 0) && negb (cl_durable mode (fst fin) ps) then 9
          else 0
      end
  | _ => 99
  end.

Definition prop_viol (c : octype) : nat :=
  if cl_census (snd (fst c)) then prop_viol0 c else 10.

Definition prop_ok (c : octype) : bool := Nat.eqb (prop_viol c) 0.
