(* C03/ProofsObs.v — the boolean clause checker of Obs.v decides the Prop-level clauses. *)
From Verif Require Import Common.Base C03.Model C03.Proofs C03.Obs.

Definition NoBeginAfter (r : nat) (ps : list ophase) : Prop := begins_after r ps = [].
Definition CallsClosed (r : nat) (ps : list ophase) : Prop :=
  forall b, In b (begins_upto r ps) -> count_key b (begins_upto r ps) = count_key b (ends_upto r ps).
Definition Drained (r : nat) (ps : list ophase) : Prop :=
  forall i, In i (pre_ids ps) -> exists b, In b (begins_upto r ps) /\ In i b.
Definition Once (ps : list ophase) : Prop :=
  forall i, In i (pre_ids ps) -> length (filter (mem i) (begins_all ps)) <= 1.
Definition Durable (mode : nat) (stored : list nat) (ps : list ophase) : Prop :=
  forall i, In i (pre_ids ps) -> final_outcome mode (last_outcome i ps) = true \/ In i stored.
Definition InnerOnce (r : nat) (ps : list ophase) : Prop :=
  length (evs_of_kind 3 ps) = 1 /\ length (evs_of_kind 3 (firstn (S r) ps)) = 1.
Definition SendsReturned (ps : list ophase) : Prop :=
  forall i, In i (sends ps) -> exists e, In e (evs_of_kind 8 ps) /\ hd 0 e = i.

Lemma r_no_begin r ps : cl_no_begin_after r ps = true <-> NoBeginAfter r ps.
Proof. unfold cl_no_begin_after, NoBeginAfter. destruct (begins_after r ps); simpl; split; congruence. Qed.

Lemma r_closed r ps : cl_calls_closed r ps = true <-> CallsClosed r ps.
Proof.
  unfold cl_calls_closed, CallsClosed. rewrite forallb_forall. split; intros H b Hb; specialize (H b Hb).
  - apply Nat.eqb_eq. assumption.
  - apply Nat.eqb_eq. assumption.
Qed.

Lemma r_drained r ps : cl_drained r ps = true <-> Drained r ps.
Proof.
  unfold cl_drained, Drained. rewrite forallb_forall. split; intros H i Hi; specialize (H i Hi).
  - apply existsb_exists in H as (b & Hb & M). exists b. split; [assumption|apply mem_in; assumption].
  - destruct H as (b & Hb & M). apply existsb_exists. exists b. split; [assumption|apply mem_in; assumption].
Qed.

Lemma r_once ps : cl_once ps = true <-> Once ps.
Proof.
  unfold cl_once, Once. rewrite forallb_forall. split; intros H i Hi; specialize (H i Hi).
  - apply Nat.leb_le. assumption.
  - apply Nat.leb_le. assumption.
Qed.

Lemma r_durable mode st ps : cl_durable mode st ps = true <-> Durable mode st ps.
Proof.
  unfold cl_durable, Durable. rewrite forallb_forall. split; intros H i Hi; specialize (H i Hi).
  - apply orb_prop in H as [H|H]; [left; assumption|right; apply mem_in; assumption].
  - apply orb_true_iff. destruct H as [H|H]; [left; assumption|right; apply mem_in; assumption].
Qed.

Lemma r_inner r ps : cl_inner r ps = true <-> InnerOnce r ps.
Proof. unfold cl_inner, InnerOnce. rewrite andb_true_iff, !Nat.eqb_eq. tauto. Qed.

Lemma r_sends ps : cl_sends_returned ps = true <-> SendsReturned ps.
Proof.
  unfold cl_sends_returned, SendsReturned. rewrite forallb_forall. split; intros H i Hi; specialize (H i Hi).
  - apply existsb_exists in H as (e & He & M). exists e. split; [assumption|apply Nat.eqb_eq; assumption].
  - destruct H as (e & He & M). apply existsb_exists. exists e. split; [assumption|apply Nat.eqb_eq; assumption].
Qed.

(* the property, on an observed schedule with configuration bits p (persistent), mode, mx (max_size), q (queue) *)
Definition SchedProp (p mode mx q : nat) (ps : list ophase) (fin : list nat * nat) : Prop :=
  match shut_idx ps, ret_idx ps with
  | None, _ => True
  | Some _, None => False
  | Some _, Some r =>
      NoBeginAfter r ps /\ InnerOnce r ps /\ snd fin = 0 /\
      (if Nat.eqb q 0 then SendsReturned ps
       else CallsClosed r ps /\ (p = 0 -> Drained r ps) /\
            (mx = 0 -> any_failure ps = false -> Once ps) /\ (p <> 0 -> Durable mode (fst fin) ps))
  end.

Definition b2n (b : bool) : nat := if b then 1 else 0.
Definition sched_viol (pb : bool) (mode mx q : nat) (ps : list ophase) (fin : list nat * nat) : nat :=
  prop_viol0 ([b2n pb; 0; 0; mode; 0; 0; 0; 0; 0; mx; q; 0], ps, fin).

Lemma sched_ok_iff pb mode mx q ps fin : sched_viol pb mode mx q ps fin = 0 <-> SchedProp (b2n pb) mode mx q ps fin.
Proof.
  unfold SchedProp. destruct pb; cbv beta iota zeta delta [sched_viol prop_viol0 b2n].
  all: destruct (shut_idx ps); [|split; auto]; destruct (ret_idx ps) as [r|]; [|split; [intros X; discriminate X|tauto]].
  all: destruct (Nat.eqb q 0); rewrite <- ?r_no_begin, <- ?r_inner, <- ?r_sends, <- ?r_closed, <- ?r_drained, <- ?r_once, <- ?r_durable.
  all: cbn [Nat.eqb];
  destruct (Nat.eqb (snd fin) 0) eqn:L; [apply Nat.eqb_eq in L|apply Nat.eqb_neq in L];
  destruct (Nat.eqb mx 0) eqn:M; [apply Nat.eqb_eq in M|apply Nat.eqb_neq in M| apply Nat.eqb_eq in M|apply Nat.eqb_neq in M];
  destruct (cl_no_begin_after r ps), (cl_inner r ps), (cl_sends_returned ps), (cl_calls_closed r ps),
           (cl_drained r ps), (any_failure ps), (cl_once ps), (cl_durable mode (fst fin) ps);
  cbn [negb andb]; split; intros X; try discriminate X; try reflexivity;
  try (repeat split; auto; intros; try contradiction; try congruence; fail);
  try (intuition (try congruence; try discriminate; try lia); fail).
Qed.

(* refcount observation: a part that was only interrupted keeps the request stored *)
Lemma refcount_ok_iff codes ps fin :
  prop_viol0 (9 :: codes, ps, fin) = 0 <-> (In 3 codes -> fst fin = [1]).
Proof.
  unfold prop_viol0. destruct (existsb (Nat.eqb 3) codes) eqn:E; cbn [andb].
  - assert (In 3 codes) by (apply existsb_exists in E as (x & Hx & Q); apply Nat.eqb_eq in Q; subst; assumption).
    destruct (list_eqb Nat.eqb (fst fin) [1]) eqn:L; cbn [negb].
    + apply (list_eqb_spec Nat.eqb Nat.eqb_eq) in L. split; auto.
    + split; [intros X; discriminate X|]. intros X. specialize (X H).
      apply (list_eqb_spec Nat.eqb Nat.eqb_eq) in X. congruence.
  - split; [|reflexivity]. intros _ I. exfalso.
    assert (existsb (Nat.eqb 3) codes = true) by (apply existsb_exists; exists 3; split; [assumption|reflexivity]). congruence.
Qed.

Definition CensusOK (ps : list ophase) : Prop := forall e, In e (evs_of_kind 9 ps) -> nth 3 e 0 = 0.

Lemma r_census ps : cl_census ps = true <-> CensusOK ps.
Proof.
  unfold cl_census, CensusOK. rewrite forallb_forall. split; intros H e He; specialize (H e He); apply Nat.eqb_eq; assumption.
Qed.

Lemma prop_viol_iff c : prop_viol c = 0 <-> CensusOK (snd (fst c)) /\ prop_viol0 c = 0.
Proof.
  unfold prop_viol. rewrite <- r_census. destruct (cl_census (snd (fst c))); split; try tauto.
  - intros X. discriminate X.
  - intros [X _]. discriminate X.
Qed.
