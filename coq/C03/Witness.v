(* C03/Witness.v — non-vacuity of the hypotheses of the theorems in Properties.v (concrete runs that
   reach the Return with accepted data, failures, a partial batch, a persistent store). *)
From Verif Require Import Common.Base C03.Model C03.Proofs C03.ProofsB C03.Proofs2 C03.Proofs3 C03.Obs.

Definition cfg_mem : cfg := mkCfg true false false false true 2 0 8.          (* memory queue, 2 consumers, retry *)
Definition cfg_batch : cfg := mkCfg true false true true true 1 1 8.           (* memory queue, batcher with timer *)
Definition cfg_pers : cfg := mkCfg true true true true true 1 1 8.
Definition cfg_direct : cfg := mkCfg false false false false true 0 0 8.  (* no queue, no batcher, retry *)             (* persistent queue, batcher *)

Definition final (hc : hcfg) (acts : list action) : option state :=
  match exec hc [] (init (h_cfg hc)) acts with Some (_, _, s) => Some s | None => None end.

(* memory queue: 1 and 2 in flight, 3 queued; 1 fails transiently and sits in its back-off; Shutdown
   interrupts the back-off, the freed consumer exports 3; Shutdown returns after the last answer *)
Definition acts_mem := [AOffer 1 1; AOffer 2 1; AOffer 3 1; ARelease 1 OTransient; AShutdown;
                        ARelease 2 OOk; ARelease 3 OPermanent].
Example ex_memory_run :
  match final (mkH cfg_mem 1 0 0 false false false false) acts_mem with
  | Some s => pc s = PReturned /\ accpre s = [3; 2; 1] /\ failures s = 2 /\
              begun s = [3; 2; 1] /\ ended s = [3; 2; 1] /\
              finished s = [(3, RFail); (2, RSuccess); (1, RShutdown)] /\ live s = 0
  | None => False
  end.
Proof. vm_compute. repeat split. Qed.

(* no failure: every id exactly once; short back-off with a retry: id 1 is exported twice *)
Example ex_exactly_once :
  match final (mkH cfg_mem 1 0 0 false false false false) [AOffer 1 1; AOffer 2 1; AOffer 3 1; AShutdown; ARelease 2 OOk; ARelease 1 OOk; ARelease 3 OOk] with
  | Some s => pc s = PReturned /\ failures s = 0 /\ cnt 1 (begun s) = 1 /\ cnt 2 (begun s) = 1 /\ cnt 3 (begun s) = 1
  | None => False
  end.
Proof. vm_compute. repeat split. Qed.

Example ex_retried_twice :
  match final (mkH cfg_mem 2 0 0 false false false false) [AOffer 1 1; ARelease 1 OTransient; ARelease 1 OOk; AShutdown] with
  | Some s => pc s = PReturned /\ failures s = 1 /\ cnt 1 (begun s) = 2 /\ finished s = [(1, RSuccess)]
  | None => False
  end.
Proof. vm_compute. repeat split. Qed.

(* batcher, min_size 5: requests 1 and 2 (1 item each) sit in the current batch when Shutdown is called;
   the final flush exports them together *)
Example ex_partial_batch :
  match final (mkH cfg_batch 1 5 0 false false false false) [AOffer 1 1; AOffer 2 1] , final (mkH cfg_batch 1 5 0 false false false false) [AOffer 1 1; AOffer 2 1; AShutdown; ARelease 1 OOk] with
  | Some s1, Some s2 => current s1 = [1; 2] /\ begun s1 = [] /\ pc s2 = PReturned /\ begun s2 = [1; 2] /\
                        finished s2 = [(1, RSuccess); (2, RSuccess)] /\ timer s2 = TExit /\ live s2 = 0
  | _, _ => False
  end.
Proof. vm_compute. repeat split. Qed.

(* persistent queue + batcher: batch [1;2;3] fails transiently, its back-off is interrupted by Shutdown:
   the three requests stay in the storage; 4 (partial batch) is exported by the final flush and deleted;
   the client is closed only then *)
Example ex_persistent :
  match final (mkH cfg_pers 1 3 0 false false false false) [AOffer 1 1; AOffer 2 1; AOffer 3 1; AOffer 4 1; ARelease 1 OTransient; AShutdown],
        final (mkH cfg_pers 1 3 0 false false false false) [AOffer 1 1; AOffer 2 1; AOffer 3 1; AOffer 4 1; ARelease 1 OTransient; AShutdown; ARelease 4 OOk] with
  | Some s1, Some s2 =>
      closed s1 = false /\ qstop s1 = true /\ refs s1 = 1 /\
      pc s2 = PReturned /\ sort_nat (store s2) = [1; 2; 3] /\ closed s2 = true /\
      finished s2 = [(4, RSuccess); (1, RShutdown); (2, RShutdown); (3, RShutdown)]
  | _, _ => False
  end.
Proof. vm_compute. repeat split. Qed.

(* hypotheses of shutdown_terminates: a state in the middle of the drain, its measure *)
Example ex_mu :
  match final (mkH cfg_batch 1 5 0 false false false false) [AOffer 1 1; AOffer 2 1; AShutdown] with
  | Some s => ge_stopclosed (pc s) = true /\ pc s <> PReturned /\ mu cfg_batch s = 8 /\ (c_batch cfg_batch = true -> 1 <= c_nwork cfg_batch) /\ 1 <= c_maxparts cfg_batch
  | None => False
  end.
Proof. vm_compute. repeat split; try discriminate; auto; lia. Qed.

(* a late offer (after the queue was stopped and the consumers left) is accepted by the memory queue and
   stays there: it is in [late], not in [accpre] — the theorems do not speak about it, the code loses it *)
Example ex_late_offer :
  match final (mkH cfg_mem 1 0 0 false false false false) [AOffer 1 1; AShutdown; ARelease 1 OOk; AOffer 2 1] with
  | Some s => pc s = PReturned /\ queue s = [2] /\ late s = [2] /\ accpre s = [1] /\ begun s = [1]
  | None => False
  end.
Proof. vm_compute. repeat split. Qed.


(* max_size 2, min_size 2: request 1 (3 items) is cut into [1] (2 items, flushed) and [1] (1 item, kept as the
   current batch); the first part fails permanently, the second is merged with request 2 and is interrupted by
   Shutdown in its back-off: request 1's verdict is the shutdown error (kept in the storage), nparts = 2 *)
Example ex_split :
  match final (mkH cfg_pers 1 2 2 false false false false)
          [AOffer 1 3; ARelease 1 OPermanent; AOffer 2 1; ARelease 1 OTransient; AShutdown] with
  | Some s => pc s = PReturned /\ cnt 1 (nparts s) = 2 /\ cnt 1 (begun s) = 2 /\
              partlog s = [(1, RShutdown); (2, RShutdown); (1, RFail)] /\
              finished s = [(1, RShutdown); (2, RShutdown)] /\ sort_nat (store s) = [1; 2] /\ closed s = true
  | None => False
  end.
Proof. vm_compute. repeat split. Qed.

(* exporter without queue: Send 1 is in its back-off, Send 2 inside the export call when Shutdown is called;
   Shutdown returns at once, the back-off is released with the shutdown error, the open call ends later *)
Example ex_direct :
  match final (mkH cfg_direct 1 0 0 false false false false) [ASend 1; ARelease 1 OTransient; ASend 2; AShutdown],
        final (mkH cfg_direct 1 0 0 false false false false) [ASend 1; ARelease 1 OTransient; ASend 2; AShutdown; ARelease 2 OTransient] with
  | Some s1, Some s2 => pc s1 = PReturned /\ finished s1 = [(1, RShutdown)] /\ length (works s1) = 1 /\ live s1 = 1 /\
                        finished s2 = [(2, RShutdown); (1, RShutdown)] /\ begun s2 = [2; 1] /\ live s2 = 0
  | _, _ => False
  end.
Proof. vm_compute. repeat split. Qed.

(* no_new_attempt_without_queue is not vacuous: Send 2 had not reached the export function when Shutdown
   returned (ready = 1); the only begin afterwards is that one, the back-off of Send 1 is released *)
Example ex_direct_ready :
  match run cfg_direct (init cfg_direct) [LSend 1; LBegin 0; LEnd 0 OTransient; LSend 2; LShutCall; LCloseStop; LNoQueue; LInnerShutdown; LReturn] with
  | Some s1 =>
      match run cfg_direct s1 [LBegin 1; LRetryStop 0; LDone 0] with
      | Some s2 => pc s1 = PReturned /\ ready s1 = 1 /\ ready s2 = 0 /\ forallb ranked [LBegin 1; LRetryStop 0; LDone 0] = true /\
                   finished s2 = [(1, RShutdown)]
      | None => False
      end
  | None => False
  end.
Proof. vm_compute. repeat split. Qed.

(* the observation-level property: a recorded schedule that satisfies it, one that violates clause 7 (request 2 was
   accepted before Shutdown and never exported) *)
Example ex_obs_ok :
  prop_viol ([0;0;0;0;1;0;0;0;0;0;1;0],
             [((0,1,1), [(0,[1]); (4,[1])]); ((0,2,1), [(4,[2])]); ((2,0,0), []);
              ((1,1,0), [(0,[2]); (1,[1])]); ((1,2,0), [(1,[2]); (2,[]); (3,[])])], ([], 0)) = 0.
Proof. vm_compute. reflexivity. Qed.
Example ex_obs_lost :
  prop_viol ([0;0;0;0;1;0;0;0;0;0;1;0],
             [((0,1,1), [(0,[1]); (4,[1])]); ((0,2,1), [(4,[2])]); ((2,0,0), []);
              ((1,1,0), [(1,[1]); (2,[]); (3,[])])], ([], 0)) = 7.
Proof. vm_compute. reflexivity. Qed.

(* the zero-delay branch: after stop the back-off TIMER branch ends the work with the shutdown error (no new begin) *)
Example ex_timer_after_stop :
  match run cfg_direct (init cfg_direct) [LSend 1; LBegin 0; LShutCall; LCloseStop; LNoQueue; LInnerShutdown; LReturn;
                                          LEnd 0 OTransient; LRetryTimer 0; LDone 0] with
  | Some s => pc s = PReturned /\ begun s = [1] /\ finished s = [(1, RShutdown)] /\ works s = []
  | None => False
  end.
Proof. vm_compute. repeat split. Qed.
