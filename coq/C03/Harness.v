(* C03/Harness.v — comparison of the model's deterministic scheduler with the event log recorded from
   the real BaseExporter by harness/C03/shutdown_test.go.
   Case term:  (cfg, phases, final)
     cfg    : [persistent; batch; timer; retry mode; consumers; min_size]      (list nat)
     phases : list (action, events observed until quiescence after the action)
              action = (0, id, items) offer | (1, first id of the call, outcome 0 ok/1 transient/2 permanent)
                       release | (2, 0, 0) call Shutdown | (3, 0, 0) the flush timer fires
              event  = (kind, sorted ids), sorted within the phase (kinds: see Model.v [event])
     final  : (sorted ids whose body is still in the storage, live helper goroutines at the end) *)
From Verif Require Import Common.Base C03.Model.

Definition ctype : Type :=
  (list nat * list ((nat * nat * nat) * list (nat * list nat)) * (list nat * nat))%type.

Definition nz (n : nat) : bool := negb (Nat.eqb n 0).

Definition hcfg_of (l : list nat) : option hcfg :=
  match l with
  | [p; b; t; m; n; mn] =>
      Some (mkH (mkCfg (nz p) (nz b) (nz t) (nz m) n (if nz b then 1 else 0)) m mn)
  | _ => None
  end.

Definition action_of (a : nat * nat * nat) : option action :=
  match a with
  | (0, i, sz) => Some (AOffer i sz)
  | (1, i, 0) => Some (ARelease i OOk)
  | (1, i, 1) => Some (ARelease i OTransient)
  | (1, i, 2) => Some (ARelease i OPermanent)
  | (2, _, _) => Some AShutdown
  | (3, _, _) => Some ATimerFire
  | _ => None
  end.

Fixpoint map_opt {A B} (f : A -> option B) (l : list A) : option (list B) :=
  match l with
  | [] => Some []
  | x :: xs => match f x, map_opt f xs with Some y, Some ys => Some (y :: ys) | _, _ => None end
  end.

Definition ev_eqb (a b : nat * list nat) : bool :=
  Nat.eqb (fst a) (fst b) && list_eqb Nat.eqb (snd a) (snd b).

Definition model_out (c : ctype) : option (list (list (nat * list nat)) * (list nat * nat)) :=
  let '(cf, phases, _) := c in
  match hcfg_of cf, map_opt action_of (map fst phases) with
  | Some hc, Some acts =>
      match exec hc [] (init (h_cfg hc)) acts with
      | Some (_, evss, s) => Some (evss, (sort_nat (store s), live s))
      | None => None
      end
  | _, _ => None
  end.

Definition check_case (c : ctype) : bool :=
  let '(_, phases, fin) := c in
  match model_out c with
  | Some (evss, (st, lv)) =>
      list_eqb (list_eqb ev_eqb) evss (map snd phases)
      && list_eqb Nat.eqb st (fst fin) && Nat.eqb lv (snd fin)
  | None => false
  end.
