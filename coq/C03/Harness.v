(* C03/Harness.v — comparison of the model's deterministic scheduler with the event log recorded from
   the real BaseExporter by harness/C03/shutdown_test.go.
   Case term:  (cfg, phases, final)
     cfg    : [persistent; batch; timer; retry mode; consumers; min_size; wait_for_result;
               queue-size snapshot write fails; storage Close fails; max_size; has a queue sender;
               MergeSplit does not top up the current batch]   (list nat)
     phases : list (action, events observed until quiescence after the action)
              action = (0, id, items) offer | (1, first id of the call, outcome 0 ok/1 transient/2 permanent)
                       release | (2, 0, 0) call Shutdown | (2, m, 1|2) call Shutdown, race observed (2: it returned an error; see Model.v) | (3, 0, 0) the flush timer fires | (4, id, 0) Send (exporter without queue)
              event  = (kind, sorted ids), sorted within the phase (kinds: see Model.v [event])
     final  : (sorted ids whose body is still in the storage, live helper goroutines at the end) *)
From Verif Require Import Common.Base C03.Model.

Definition ctype : Type :=
  (list nat * list ((nat * nat * nat) * list (nat * list nat)) * (list nat * nat))%type.

Definition nz (n : nat) : bool := negb (Nat.eqb n 0).

Definition hcfg_of (l : list nat) : option hcfg :=
  match l with
  | [p; b; t; m; n; mn; w; fs; fc; mx; q; nf] =>
      Some (mkH (mkCfg (nz q) (nz p) (nz b) (nz t) (nz m) n (if nz b then 1 else 0) 32) m mn mx (nz w) (nz fs) (nz fc) (nz nf))
  | _ => None
  end.

Definition action_of (a : nat * nat * nat) : option action :=
  match a with
  | (0, i, sz) => Some (AOffer i sz)
  | (1, i, 0) => Some (ARelease i OOk)
  | (1, i, 1) => Some (ARelease i OTransient)
  | (1, i, 2) => Some (ARelease i OPermanent)
  | (2, m, 1) => Some (AShutdownRace m false)
  | (2, m, 2) => Some (AShutdownRace m true)
  | (2, _, _) => Some AShutdown
  | (3, _, _) => Some ATimerFire
  | (4, i, _) => Some (ASend i)
  | _ => None
  end.

Fixpoint map_opt {A B} (f : A -> option B) (l : list A) : option (list B) :=
  match l with
  | [] => Some []
  | x :: xs => match f x, map_opt f xs with Some y, Some ys => Some (y :: ys) | _, _ => None end
  end.

Definition ev_eqb (a b : nat * list nat) : bool :=
  Nat.eqb (fst a) (fst b) && list_eqb Nat.eqb (snd a) (snd b).

Definition model_out (c : ctype) : option (list (list (nat * list nat)) * (list nat * nat)) :=
  let '(cf, phases, _) := c in
  match hcfg_of cf, map_opt action_of (map fst phases) with
  | Some hc, Some acts =>
      match exec hc [] (init (h_cfg hc)) acts with
      | Some (_, evss, s) => Some (evss, (sort_nat (store s), live s))
      | None => None
      end
  | _, _ => None
  end.

(* second kind of case (harness/C03/refcount_test.go): cfg = 9 :: codes of the parts' results in report order
   (0 nil | 1 permanent | 2 other final error | 3 shutdown error), final = ([1] kept in the storage | [0] deleted, 0) *)
Definition result_of_code (n : nat) : result :=
  match n with 0 => RSuccess | 3 => RShutdown | _ => RFail end.

Definition check_refcount (codes kept : list nat) : bool :=
  list_eqb Nat.eqb kept [if kept_after (map result_of_code codes) then 1 else 0].

Definition check_case (c : ctype) : bool :=
  let '(cf, phases, fin) := c in
  match cf with
  | 9 :: codes => check_refcount codes (fst fin)
  | _ =>
  match model_out c with
  | Some (evss, (st, lv)) =>
      list_eqb (list_eqb ev_eqb) evss (map snd phases)
      && list_eqb Nat.eqb st (fst fin) && Nat.eqb lv (snd fin)
  | None => false
  end
  end.

(* ---- which labels of the LTS do the replayed cases exercise?  (evidence: model_label_histogram) ---- *)
Definition label_index (l : label) : nat :=
  match l with
  | LOffer _ => 0 | LOfferFail _ => 1 | LTake => 2 | LConsExit => 3
  | LAbsorb _ _ _ false => 31
  | LAbsorb _ 1 true _ => 4 | LAbsorb _ 1 false _ => 5 | LAbsorb _ _ true _ => 27 | LAbsorb _ _ false _ => 28
  | LSend _ => 29 | LNoQueue => 30
  | LSpawnC _ => 6 | LBegin _ => 7 | LEnd _ OOk => 8 | LEnd _ OTransient => 9 | LEnd _ OPermanent => 10
  | LRetryTimer _ => 11 | LRetryStop _ => 12 | LRetryGiveUp _ => 13 | LDone _ => 14
  | LTimerFire => 15 | LTimerSpawn => 16 | LTimerExit => 17
  | LShutCall => 18 | LCloseStop => 19 | LQueueStop _ => 20 | LJoinConsumers => 21 | LFinalFlush => 22
  | LFinalSpawn => 23 | LJoinFlushes => 24 | LInnerShutdown => 25 | LReturn => 26
  end.

Definition case_labels (c : ctype) : list label :=
  let '(cf, phases, _) := c in
  match hcfg_of cf, map_opt action_of (map fst phases) with
  | Some hc, Some acts =>
      match exec hc [] (init (h_cfg hc)) acts with Some (ls, _, _) => ls | None => [] end
  | _, _ => []
  end.

Definition label_hist (cs : list ctype) : list nat :=
  let ls := flat_map case_labels cs in
  map (fun k => length (filter (fun l => Nat.eqb (label_index l) k) ls)) (seq 0 32).
