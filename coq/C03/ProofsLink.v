(* C03/ProofsLink.v — the events the scheduler emits ARE the ghost logs the theorems speak about; consequences for the
   observation that the clause checker (Obs.v) reads. *)
From Verif Require Import Common.Base C03.Model C03.Proofs C03.ProofsB C03.Proofs2.

Definition idsk (k : nat) (evs : list event) : list id :=
  concat (map (fun e : event => snd e) (filter (fun e : event => Nat.eqb (fst e) k) evs)).

Lemma idsk_app k a b : idsk k (a ++ b) = idsk k a ++ idsk k b.
Proof. unfold idsk. rewrite filter_app, map_app, concat_app. reflexivity. Qed.

Lemma cnt_insert_nat i x l : cnt i (insert_nat x l) = cnt i (x :: l).
Proof.
  unfold cnt. induction l as [|y r IH]; cbn [insert_nat sumf]; [reflexivity|].
  destruct (Nat.leb x y); cbn [sumf]; [reflexivity|]. rewrite IH. cbn [sumf]. lia.
Qed.

Lemma cnt_sort_nat i l : cnt i (sort_nat l) = cnt i l.
Proof.
  unfold sort_nat. induction l as [|x r IH]; cbn [fold_right]; [reflexivity|].
  rewrite cnt_insert_nat. unfold cnt in *. cbn [sumf]. rewrite IH. reflexivity.
Qed.

Lemma cnt_idsk_insert i k x l : cnt i (idsk k (insert_ev x l)) = cnt i (idsk k (x :: l)).
Proof.
  induction l as [|y r IH]; cbn [insert_ev]; [reflexivity|].
  destruct (ev_leb x y); [reflexivity|].
  change (y :: insert_ev x r) with ([y] ++ insert_ev x r). change (x :: y :: r) with ([x] ++ [y] ++ r).
  rewrite !idsk_app, !cnt_app, IH. change (x :: r) with ([x] ++ r). rewrite idsk_app, cnt_app. lia.
Qed.

Lemma cnt_idsk_sort i k l : cnt i (idsk k (sort_ev l)) = cnt i (idsk k l).
Proof.
  unfold sort_ev. induction l as [|x r IH]; cbn [fold_right]; [reflexivity|].
  rewrite cnt_idsk_insert. change (x :: fold_right insert_ev [] r) with ([x] ++ fold_right insert_ev [] r).
  change (x :: r) with ([x] ++ r). rewrite !idsk_app, !cnt_app, IH. reflexivity.
Qed.

Lemma idsk_map_other {A} k (g : A -> nat) (f : A -> list id) (l : list A) :
  (forall x, Nat.eqb (g x) k = false) -> idsk k (map (fun x => (g x, f x)) l) = [].
Proof.
  intros H. unfold idsk. induction l as [|x r IH]; cbn [map filter fst]; [reflexivity|].
  rewrite (H x). exact IH.
Qed.

Ltac ev_done := repeat match goal with |- context[if ?b then _ else _] => destruct b end;
  cbn [idsk filter map concat fst snd Nat.eqb app]; rewrite ?app_nil_r, ?cnt_app, ?cnt_sort_nat;
  try reflexivity; try (unfold cnt; cbn [sumf]; lia).

(* one step: the begin / end events are exactly what is added to [begun] / [ended] *)
Lemma step_events_begun hc s l s' i : step (h_cfg hc) s l = Some s' ->
  cnt i (idsk 0 (events_of hc l s s')) + cnt i (begun s) = cnt i (begun s').
Proof.
  intros H. unfold events_of. rewrite idsk_app, cnt_app.
  destruct l; unfold step in H; destr_step H; guards; injection H as <-; proj; rw_eqs.
  all: try (ev_done; fail).
  all: repeat match goal with |- context[if ?b then _ else _] => destruct b end;
       rewrite ?(idsk_map_other 0 (fun _ : id * result => 8) (fun p => [fst p; result_code (snd p)])) by (intros; reflexivity);
       rewrite ?(idsk_map_other 0 (fun p : id * result => match snd p with RSuccess => 4 | _ => 5 end) (fun p => [fst p]))
         by (intros [? []]; reflexivity);
       ev_done.
Qed.

Lemma step_events_ended hc s l s' i : step (h_cfg hc) s l = Some s' ->
  cnt i (idsk 1 (events_of hc l s s')) + cnt i (ended s) = cnt i (ended s').
Proof.
  intros H. unfold events_of. rewrite idsk_app, cnt_app.
  destruct l; try (match goal with o : outcome |- _ => destruct o end); unfold step, is_ok in H; destr_step H; guards; injection H as <-; proj; rw_eqs.
  all: try (ev_done; fail).
  all: repeat match goal with |- context[if ?b then _ else _] => destruct b end;
       rewrite ?(idsk_map_other 1 (fun _ : id * result => 8) (fun p => [fst p; result_code (snd p)])) by (intros; reflexivity);
       rewrite ?(idsk_map_other 1 (fun p : id * result => match snd p with RSuccess => 4 | _ => 5 end) (fun p => [fst p]))
         by (intros [? []]; reflexivity);
       ev_done.
Qed.

Section Lift.
  Variable hc : hcfg.
  Variable k : nat.
  Variable f : state -> list id.
  Variable i : id.
  Hypothesis Hstep : forall s l s', step (h_cfg hc) s l = Some s' ->
    cnt i (idsk k (events_of hc l s s')) + cnt i (f s) = cnt i (f s').

  Lemma settle_f_log allow : forall fuel sizes s ls evs s' sz',
    settle_f allow fuel hc sizes s = (ls, evs, s', sz') -> cnt i (idsk k evs) + cnt i (f s) = cnt i (f s').
  Proof.
    induction fuel as [|fu IH]; intros sizes s ls evs s' sz' H; simpl in H.
    - injection H as _ <- <- _. reflexivity.
    - destruct (first_enabled (h_cfg hc) s (filter allow (candidates hc sizes s))) as [[l s1]|] eqn:E.
      + destruct (settle_f allow fu hc (sizes_after hc sizes s l) s1) as [[[ls1 evs1] s2] sz2] eqn:E2. injection H as _ <- <- _.
        rewrite idsk_app, cnt_app. pose proof (Hstep _ _ _ (first_enabled_step _ _ _ _ _ E)). pose proof (IH _ _ _ _ _ _ E2). lia.
      + injection H as _ <- <- _. reflexivity.
  Qed.

  Lemma race_takes_log : forall n sizes s ls evs s' sz',
    race_takes n hc sizes s = Some (ls, evs, s', sz') -> cnt i (idsk k evs) + cnt i (f s) = cnt i (f s').
  Proof.
    induction n as [|n IH]; intros sizes s ls evs s' sz' H; cbn [race_takes] in H;
      destruct (settle_f not_take_stop settle_fuel hc sizes s) as [[[ls1 evs1] s1] sz1] eqn:E1;
      pose proof (settle_f_log _ _ _ _ _ _ _ _ E1) as R1.
    - injection H as _ <- <- _. assumption.
    - destruct (step (h_cfg hc) s1 LTake) as [s2|] eqn:St; [|discriminate].
      destruct (race_takes n hc sz1 s2) as [[[[ls2 evs2] s3] sz3]|] eqn:E2; [|discriminate].
      injection H as _ <- <- _. rewrite idsk_app, cnt_app. pose proof (IH _ _ _ _ _ _ E2).
      pose proof (Hstep _ _ _ St) as T.
      assert (Z : cnt i (idsk k (events_of hc LTake s1 s2)) = 0).
      { unfold events_of. cbn [app]. destruct (negb (closed s1) && closed s2); unfold idsk; cbn [filter fst];
          [destruct (Nat.eqb 6 k)|]; reflexivity. }
      lia.
  Qed.

  Lemma idsk_census_zero s0 : k <> 9 -> idsk k [(9, census s0)] = [].
  Proof. intros N. unfold idsk. cbn [filter fst]. destruct (Nat.eqb 9 k) eqn:E; [apply Nat.eqb_eq in E; congruence|reflexivity]. Qed.

  Hypothesis Hk : k <> 9.

  Lemma exec_race_log sizes s m e ls evs s' sz' :
    exec_race hc sizes s m e = Some (ls, evs, s', sz') -> cnt i (idsk k evs) + cnt i (f s) = cnt i (f s').
  Proof.
    unfold exec_race. intros H.
    destruct (step (h_cfg hc) s LShutCall) as [s1|] eqn:S1; [|discriminate].
    destruct (step (h_cfg hc) s1 LCloseStop) as [s2|] eqn:S2; [|discriminate].
    assert (RT : forall r, (if Nat.eqb (m - unbegun_taken s) 0 && negb e then Some ([], [], s2, sizes)
                            else race_takes (m - unbegun_taken s) hc sizes s2) = Some r ->
                           cnt i (idsk k (snd (fst (fst r)))) + cnt i (f s2) = cnt i (f (snd (fst r)))).
    { intros [[[l0 e0] s0] z0]. destruct (Nat.eqb (m - unbegun_taken s) 0 && negb e); intros X.
      - injection X as _ <- <- _. reflexivity.
      - eapply race_takes_log; eassumption. }
    destruct (if Nat.eqb (m - unbegun_taken s) 0 && negb e then Some ([], [], s2, sizes)
              else race_takes (m - unbegun_taken s) hc sizes s2) as [[[[ls3 evs3] s3] sz3]|] eqn:E3; [|discriminate].
    specialize (RT _ eq_refl). cbn [fst snd] in RT.
    destruct (step (h_cfg hc) s3 (LQueueStop (qstop_err hc s3))) as [s4|] eqn:S4; [|discriminate].
    destruct (settle settle_fuel hc sz3 s4) as [[[ls5 evs5] s5] sz5] eqn:E5. injection H as _ <- <- _.
    rewrite !idsk_app, !cnt_app.
    pose proof (Hstep _ _ _ S1) as T1. pose proof (Hstep _ _ _ S2) as T2. pose proof (Hstep _ _ _ S4) as T4.
    pose proof (settle_f_log _ _ _ _ _ _ _ _ E5) as T5.
    assert (Z1 : cnt i (idsk k (events_of hc LShutCall s s1)) = 0).
    { unfold events_of. cbn [app]. destruct (negb (closed s) && closed s1); unfold idsk; cbn [filter fst];
        [destruct (Nat.eqb 6 k)|]; reflexivity. }
    assert (Z2 : cnt i (idsk k (events_of hc LCloseStop s1 s2)) = 0).
    { unfold events_of. cbn [app]. destruct (negb (closed s1) && closed s2); unfold idsk; cbn [filter fst];
        [destruct (Nat.eqb 6 k)|]; reflexivity. }
    lia.
  Qed.

  Lemma exec_action_log sizes s a ls evs s1 sizes1 :
    exec_action hc sizes s a = Some (ls, evs, s1, sizes1) -> cnt i (idsk k evs) + cnt i (f s) = cnt i (f s1).
  Proof.
    unfold exec_action. intros E.
    destruct a.
    5: { destruct (exec_race hc sizes s m e) as [[[[ls0 evs0] s0] sz0]|] eqn:Er; [|discriminate].
         injection E as _ <- <- _. rewrite idsk_app, cnt_app, cnt_idsk_sort, (idsk_census_zero _ Hk).
         pose proof (exec_race_log _ _ _ _ _ _ _ _ Er). unfold cnt at 2. cbn [sumf]. lia. }
    all: match type of E with context[action_label ?h ?st ?a] => destruct (action_label h st a) as [l|] end; [|discriminate];
         match type of E with context[step ?c ?st ?x] => destruct (step c st x) as [s0|] eqn:St end; [|discriminate];
         match type of E with context[settle ?fu ?h ?z ?y] => destruct (settle fu h z y) as [[[ls0 evs0] s00] sz00] eqn:Se end;
         injection E as _ <- <- _; rewrite idsk_app, cnt_app, cnt_idsk_sort, (idsk_census_zero _ Hk), idsk_app, cnt_app;
         pose proof (Hstep _ _ _ St); pose proof (settle_f_log _ _ _ _ _ _ _ _ Se); unfold cnt at 3; cbn [sumf]; lia.
  Qed.

  Lemma exec_log : forall acts sizes s ls evss s',
    exec hc sizes s acts = Some (ls, evss, s') -> cnt i (idsk k (concat evss)) + cnt i (f s) = cnt i (f s').
  Proof.
    induction acts as [|a acts IH]; intros sizes s ls evss s' H; simpl in H.
    - injection H as _ <- <-. reflexivity.
    - destruct (exec_action hc sizes s a) as [[[[ls1 evs1] s1] sizes1]|] eqn:E; [|discriminate].
      destruct (exec hc sizes1 s1 acts) as [[[ls2 evss2] s2]|] eqn:E2; [|discriminate].
      injection H as _ <- <-. cbn [concat]. rewrite idsk_app, cnt_app.
      pose proof (exec_action_log _ _ _ _ _ _ _ E). pose proof (IH _ _ _ _ _ E2). lia.
  Qed.
End Lift.

(* the export-begin / export-end events of a scheduler run, all phases together, are exactly the ghost logs *)
Theorem exec_events_are_begun hc acts ls evss s i :
  exec hc [] (init (h_cfg hc)) acts = Some (ls, evss, s) -> cnt i (idsk 0 (concat evss)) = cnt i (begun s).
Proof.
  intros H. pose proof (exec_log hc 0 begun i (fun s l s' => step_events_begun hc s l s' i) ltac:(discriminate) _ _ _ _ _ _ H) as X.
  cbn in X. lia.
Qed.

Theorem exec_events_are_ended hc acts ls evss s i :
  exec hc [] (init (h_cfg hc)) acts = Some (ls, evss, s) -> cnt i (idsk 1 (concat evss)) = cnt i (ended s).
Proof.
  intros H. pose proof (exec_log hc 1 ended i (fun s l s' => step_events_ended hc s l s' i) ltac:(discriminate) _ _ _ _ _ _ H) as X.
  cbn in X. lia.
Qed.


(* consequences for the observation the clause checker reads: in a scheduler run of an exporter with a queue that
   has reached the Return, every id occurs in as many export-end events as export-begin events (clause 6 of
   Obs.prop_viol, all phases together), and with a memory queue every request accepted before Shutdown occurs in
   a begin event (clause 7) *)
Theorem exec_obs_calls_closed hc acts ls evss s i :
  c_queue (h_cfg hc) = true -> exec hc [] (init (h_cfg hc)) acts = Some (ls, evss, s) -> pc s = PReturned ->
  cnt i (idsk 1 (concat evss)) = cnt i (idsk 0 (concat evss)).
Proof.
  intros Q H P. rewrite (exec_events_are_begun _ _ _ _ _ i H), (exec_events_are_ended _ _ _ _ _ i H).
  pose proof (exec_run_l _ _ _ _ _ _ _ H) as R.
  assert (I : Inv (h_cfg hc) s) by (eapply run_inv; [apply init_inv|eassumption]).
  destruct (returned_quiet _ _ I Q P) as (_ & _ & _ & _ & Hw & _).
  pose proof (i_ended _ _ I i) as E. rewrite Hw in E. simpl in E. lia.
Qed.

Theorem exec_obs_drained hc acts ls evss s i :
  c_queue (h_cfg hc) = true -> c_persist (h_cfg hc) = false -> 1 <= c_ncons (h_cfg hc) ->
  exec hc [] (init (h_cfg hc)) acts = Some (ls, evss, s) -> pc s = PReturned ->
  In i (accpre s) -> 1 <= cnt i (idsk 0 (concat evss)).
Proof.
  intros Q M N H P A. rewrite (exec_events_are_begun _ _ _ _ _ i H).
  pose proof (exec_run_l _ _ _ _ _ _ _ H) as R.
  destruct (drains_memory_l _ _ _ Q M N R P) as [D _]. apply (D i A).
Qed.
