(* C03/Proofs.v — invariants of the shutdown LTS, by induction over the label list. *)
From Verif Require Import Common.Base C03.Model.

(* ---- counting ------------------------------------------------------------------------------ *)
Fixpoint sumf {A} (g : A -> nat) (l : list A) : nat :=
  match l with [] => 0 | x :: r => g x + sumf g r end.

Definition one (i j : id) : nat := if Nat.eqb j i then 1 else 0.
Definition cnt (i : id) (l : list id) : nat := sumf (one i) l.

Lemma sumf_app {A} (g : A -> nat) l1 l2 : sumf g (l1 ++ l2) = sumf g l1 + sumf g l2.
Proof. induction l1; simpl; lia. Qed.

Lemma sumf_split {A} (l : list A) : forall k x, nth_error l k = Some x ->
  forall g, sumf g l = g x + sumf g (remove_nth k l).
Proof.
  induction l as [|a l IH]; intros [|k] x H g; simpl in *; try discriminate.
  - injection H as ->. reflexivity.
  - rewrite (IH k x H g). lia.
Qed.

Lemma sumf_upd {A} (l : list A) : forall k x f, nth_error l k = Some x ->
  forall g, sumf g (upd_nth k f l) = g (f x) + sumf g (remove_nth k l).
Proof.
  induction l as [|a l IH]; intros [|k] x f H g; simpl in *; try discriminate.
  - injection H as ->. reflexivity.
  - rewrite (IH k x f H g). lia.
Qed.

Lemma length_remove_nth {A} (l : list A) : forall k x, nth_error l k = Some x ->
  length l = S (length (remove_nth k l)).
Proof.
  induction l as [|a l IH]; intros [|k] x H; simpl in *; try discriminate; auto.
  rewrite (IH k x H). reflexivity.
Qed.

Lemma cnt_app i l1 l2 : cnt i (l1 ++ l2) = cnt i l1 + cnt i l2.
Proof. apply sumf_app. Qed.

Lemma cnt_in i l : In i l <-> 1 <= cnt i l.
Proof.
  unfold cnt. induction l as [|a l IH]; simpl.
  - split; [tauto|lia].
  - unfold one at 1. destruct (Nat.eqb a i) eqn:E.
    + apply Nat.eqb_eq in E. split; [lia|auto].
    + apply Nat.eqb_neq in E. rewrite IH. split; [intros [?|?]; [congruence|lia]|intros; right; lia].
Qed.

Lemma mem_cnt i l : mem i l = false -> cnt i l = 0.
Proof.
  intros H. destruct (cnt i l) eqn:E; auto.
  assert (In i l) by (apply cnt_in; lia).
  unfold mem in H. assert (existsb (Nat.eqb i) l = true) by (apply existsb_exists; exists i; split; auto; apply Nat.eqb_refl).
  congruence.
Qed.

Definition fin1 (i : id) (p : id * result) : nat := one i (fst p).
Lemma sumf_fin_map i r ids : sumf (fin1 i) (map (fun j => (j, r)) ids) = cnt i ids.
Proof. unfold cnt. induction ids; simpl; auto. Qed.

(* ---- measures -------------------------------------------------------------------------------- *)
Definition started (st : send_st) : bool := match st with SReady => false | _ => true end.
Definition incall (st : send_st) : bool := match st with SInCall => true | _ => false end.
Definition backoff (st : send_st) : bool := match st with SBackoff => true | _ => false end.

Definition wall (i : id) (w : work) : nat := cnt i (w_ids w).
Definition wstarted (i : id) (w : work) : nat := if started (w_st w) then cnt i (w_ids w) else 0.
Definition wincall (i : id) (w : work) : nat := if incall (w_st w) then cnt i (w_ids w) else 0.
Definition wback (w : work) : nat := if backoff (w_st w) then 1 else 0.
Definition wbacki (i : id) (w : work) : nat := if backoff (w_st w) then cnt i (w_ids w) else 0.
Definition wcons (w : work) : nat := if w_cons w then 1 else 0.
Definition wfly (w : work) : nat := if w_cons w then 0 else 1.
Definition wlen (w : work) : nat := length (w_ids w).

Definition tmb (s : state) : list id := match timer s with TFlush b => b | _ => [] end.
Definition pcb (s : state) : list id := match pc s with PFlushWait b => b | _ => [] end.

Definition ge_qstopped (p : pc_t) : bool :=
  match p with PNot | PCalled | PStopClosed => false | _ => true end.
Definition ge_joined (p : pc_t) : bool :=
  match p with PNot | PCalled | PStopClosed | PQStopped => false | _ => true end.
Definition ge_flushwait (p : pc_t) : bool :=
  match p with PNot | PCalled | PStopClosed | PQStopped | PJoined => false | _ => true end.
Definition ge_flushjoined (p : pc_t) : bool :=
  match p with PFlushJoined | PInner | PReturned => true | _ => false end.

(* where is id i?  (everything except the queue and the finished list is "in flight") *)
Definition inflight (i : id) (s : state) : nat :=
  cnt i (holding s) + cnt i (current s) + sumf (cnt i) (cflush s) + cnt i (tmb s) + cnt i (pcb s)
  + sumf (wall i) (works s).

Definition inflight_len (s : state) : nat :=
  length (holding s) + length (current s) + sumf (@length id) (cflush s) + length (tmb s) + length (pcb s)
  + sumf wlen (works s).

Record Inv (c : cfg) (s : state) : Prop := mkInv {
  i_cons : forall i, cnt i (queue s) + inflight i s + sumf (fin1 i) (finished s) = cnt i (accepted s);
  i_nodup : forall i, cnt i (accepted s) <= 1;
  i_taken : forall i, cnt i (queue s) + cnt i (taken s) = cnt i (accepted s);
  i_begun_ge : forall i, sumf (fin1 i) (finished s) + sumf (wstarted i) (works s) <= cnt i (begun s);
  i_begun_eq : failures s = 0 ->
               forall i, sumf (fin1 i) (finished s) + sumf (wstarted i) (works s) = cnt i (begun s);
  i_noback : failures s = 0 -> sumf wback (works s) = 0;
  i_failed_nil : failures s = 0 -> failedids s = [];
  i_begun_eq1 : forall i, cnt i (failedids s) = 0 ->
                sumf (fin1 i) (finished s) + sumf (wstarted i) (works s) = cnt i (begun s);
  i_noback1 : forall i, cnt i (failedids s) = 0 -> sumf (wbacki i) (works s) = 0;
  i_ended : forall i, cnt i (ended s) + sumf (wincall i) (works s) = cnt i (begun s);
  i_consumers : idle s + exited s + length (holding s) + length (cflush s) + sumf wcons (works s) = c_ncons c;
  i_workers : workers s + sumf wfly (works s) = c_nwork c;
  i_nobatch : c_batch c = false ->
              holding s = [] /\ current s = [] /\ cflush s = [] /\ timer s = TNone /\ sumf wfly (works s) = 0 /\
              match pc s with PFlushWait _ => False | _ => True end;
  i_joined : ge_joined (pc s) = true -> exited s = c_ncons c;
  i_flushwait : ge_flushwait (pc s) = true -> current s = [];
  i_bclosed : bclosed s = ge_flushwait (pc s);
  i_flushjoined : ge_flushjoined (pc s) = true -> works s = [] /\ timer_dead (timer s) = true;
  i_qstop : qstop s = ge_qstopped (pc s);
  i_exited : 1 <= exited s -> qstop s = true;
  i_late : c_persist c = false -> 1 <= exited s -> forall i, cnt i (queue s) <= cnt i (late s);
  i_prelate : forall i, cnt i (accpre s) + cnt i (late s) <= cnt i (accepted s);
  i_postb : postb s = 0;
  i_store : c_persist c = true -> forall i, 1 <= cnt i (accepted s) ->
            In i (store s) \/ exists r, In (i, r) (finished s) /\ r <> RShutdown;
  i_refs : c_persist c = true -> refs s = (if qstop s then 0 else 1) + inflight_len s;
  i_closed : closed s = (c_persist c && Nat.eqb (refs s) 0);
}.

(* ---- preservation ---------------------------------------------------------------------------- *)
Ltac unf := unfold new_work, set_queue, set_qstop, set_store, set_refs, set_closed, set_idle, set_exited,
  set_holding, set_cflush, set_current, set_workers, set_works, set_timer, set_bclosed, set_rstop, set_pc,
  set_accepted, set_accpre, set_late, set_taken, set_begun, set_ended, set_finished, set_failures, set_postb, set_failedids, set_shuterr in *.

Ltac destr_step H :=
  repeat (match type of H with
          | context[match ?x with _ => _ end] => destruct x eqn:?
          end; try discriminate H).

Ltac spec i := repeat match goal with Hq : forall j : id, _ |- _ => specialize (Hq i) end.

Ltac splits :=
  repeat match goal with
  | Hn : nth_error ?l ?k = Some ?x |- _ =>
      rewrite ?(sumf_upd l k x _ Hn);
      rewrite ?(sumf_split l k x Hn) in *;
      try rewrite (length_remove_nth l k x Hn) in *;
      revert Hn
  end; intros.

Ltac unm := unfold inflight, inflight_len, tmb, pcb, cnt, wall, wstarted, wincall, wback, wbacki, wcons, wfly, wlen, fin1,
  set_st, end_state, started, incall, backoff in *.

Ltac ifs := repeat match goal with
  | |- context[if ?b then _ else _] => destruct b eqn:?
  | Hx : context[if ?b then _ else _] |- _ => destruct b eqn:?
  end.

Ltac rw_eqs := repeat match goal with
  | E : ?f ?x = _ |- _ => is_var x; progress (rewrite E in * )
  end.

Ltac unm2 := unfold inflight, inflight_len, tmb, pcb, wall, wstarted, wincall, wback, wbacki, wcons, wfly, wlen, fin1,
  set_st, end_state, started, incall, backoff in *; unfold cnt in *.

Ltac proj := cbn [queue qstop store refs closed idle exited holding cflush current workers works timer bclosed rstop pc accepted accpre late taken begun ended finished failures postb failedids shuterr set_queue set_qstop set_store set_refs set_closed set_idle set_exited set_holding set_cflush set_current set_workers set_works set_timer set_bclosed set_rstop set_pc set_accepted set_accpre set_late set_taken set_begun set_ended set_finished set_failures set_postb set_failedids set_shuterr new_work] in *.
Ltac arith :=
  rewrite ?sumf_app, ?sumf_fin_map in *; unm2; proj; rw_eqs; cbn [sumf length] in *; splits;
  do 3 (rewrite ?sumf_app, ?app_length in *; cbn [sumf length w_ids w_st w_cons fst snd] in * ); rw_eqs;
  cbn [sumf length w_ids w_st w_cons fst snd] in *;
  try lia; unfold one in *; ifs; try lia; try congruence.

Ltac start H l := destruct l; try (match goal with o : outcome |- _ => destruct o end); unfold step, is_ok, end_state in H; destr_step H; injection H as <-; proj.

Lemma pres_cons c s l s' : Inv c s -> step c s l = Some s' ->
  forall i, cnt i (queue s') + inflight i s' + sumf (fin1 i) (finished s') = cnt i (accepted s').
Proof.
  intros I H i. pose proof (i_cons _ _ I i) as Hc. clear I.
  start H l; arith.
Qed.

Lemma pres_nodup c s l s' : Inv c s -> step c s l = Some s' -> forall i, cnt i (accepted s') <= 1.
Proof.
  intros I H i. pose proof (i_nodup _ _ I i) as Hc. clear I.
  start H l; try assumption.
  all: match goal with Hb : (mem _ _ || _) = false |- _ => apply orb_false_elim in Hb as [Hm _]; apply mem_cnt in Hm end.
  all: unfold cnt in *; cbn [sumf]; unfold one at 1; destruct (Nat.eqb i0 i) eqn:E; [apply Nat.eqb_eq in E; subst; lia | lia].
Qed.

Lemma pres_taken c s l s' : Inv c s -> step c s l = Some s' ->
  forall i, cnt i (queue s') + cnt i (taken s') = cnt i (accepted s').
Proof.
  intros I H i. pose proof (i_taken _ _ I i) as Hc. clear I.
  start H l; arith.
Qed.

Lemma pres_begun_ge c s l s' : Inv c s -> step c s l = Some s' ->
  forall i, sumf (fin1 i) (finished s') + sumf (wstarted i) (works s') <= cnt i (begun s').
Proof.
  intros I H i. pose proof (i_begun_ge _ _ I i) as Hc. clear I.
  start H l; arith.
Qed.

Lemma pres_noback c s l s' : Inv c s -> step c s l = Some s' ->
  failures s' = 0 -> sumf wback (works s') = 0.
Proof.
  intros I H. pose proof (i_noback _ _ I) as Hc. clear I.
  start H l; intros F; try (specialize (Hc F)); arith.
Qed.

Lemma pres_begun_eq c s l s' : Inv c s -> step c s l = Some s' ->
  failures s' = 0 -> forall i, sumf (fin1 i) (finished s') + sumf (wstarted i) (works s') = cnt i (begun s').
Proof.
  intros I H. pose proof (i_begun_eq _ _ I) as Hc. pose proof (i_noback _ _ I) as Hb. clear I.
  start H l; intros F ii; try (specialize (Hc F ii); specialize (Hb F)); arith.
Qed.

Lemma pres_failed_nil c s l s' : Inv c s -> step c s l = Some s' -> failures s' = 0 -> failedids s' = [].
Proof.
  intros I H. pose proof (i_failed_nil _ _ I) as Hc. clear I.
  start H l; intros F; try (exact (Hc F)); try discriminate.
Qed.

Ltac prem Hc ii F s := try (assert (F0 : cnt ii (failedids s) = 0)
                            by (revert F; unfold cnt; rewrite ?sumf_app; intros; first [assumption | lia]);
                          specialize (Hc ii F0)).

Lemma pres_noback1 c s l s' : Inv c s -> step c s l = Some s' ->
  forall i, cnt i (failedids s') = 0 -> sumf (wbacki i) (works s') = 0.
Proof.
  intros I H. pose proof (i_noback1 _ _ I) as Hc. clear I.
  start H l; intros ii F; prem Hc ii F s; arith.
Qed.

Lemma pres_begun_eq1 c s l s' : Inv c s -> step c s l = Some s' ->
  forall i, cnt i (failedids s') = 0 ->
  sumf (fin1 i) (finished s') + sumf (wstarted i) (works s') = cnt i (begun s').
Proof.
  intros I H. pose proof (i_begun_eq1 _ _ I) as Hc. pose proof (i_noback1 _ _ I) as Hb. clear I.
  start H l; intros ii F; prem Hc ii F s; try (specialize (Hb ii F0)); arith.
Qed.

Lemma pres_ended c s l s' : Inv c s -> step c s l = Some s' ->
  forall i, cnt i (ended s') + sumf (wincall i) (works s') = cnt i (begun s').
Proof.
  intros I H i. pose proof (i_ended _ _ I i) as Hc. clear I.
  start H l; arith.
Qed.

Lemma pres_consumers c s l s' : Inv c s -> step c s l = Some s' ->
  idle s' + exited s' + length (holding s') + length (cflush s') + sumf wcons (works s') = c_ncons c.
Proof.
  intros I H. pose proof (i_consumers _ _ I) as Hc. clear I.
  start H l; arith.
Qed.

Lemma pres_workers c s l s' : Inv c s -> step c s l = Some s' ->
  workers s' + sumf wfly (works s') = c_nwork c.
Proof.
  intros I H. pose proof (i_workers _ _ I) as Hc. clear I.
  start H l; arith.
Qed.

Lemma len0 {A} (l : list A) : length l = 0 -> l = [].
Proof. destruct l; simpl; [auto|lia]. Qed.

Lemma nth_nil {A} k (x : A) : nth_error [] k = Some x -> False.
Proof. destruct k; discriminate. Qed.

Lemma pres_qstop c s l s' : Inv c s -> step c s l = Some s' -> qstop s' = ge_qstopped (pc s').
Proof.
  intros I H. pose proof (i_qstop _ _ I) as Hc. clear I.
  start H l; rw_eqs; try assumption; try reflexivity.
Qed.

Lemma pres_bclosed c s l s' : Inv c s -> step c s l = Some s' -> bclosed s' = ge_flushwait (pc s').
Proof.
  intros I H. pose proof (i_bclosed _ _ I) as Hc. clear I.
  start H l; rw_eqs; try assumption; try reflexivity.
Qed.

Lemma pres_exited c s l s' : Inv c s -> step c s l = Some s' -> 1 <= exited s' -> qstop s' = true.
Proof.
  intros I H. pose proof (i_exited _ _ I) as Hc. clear I.
  start H l; rw_eqs; try assumption; try reflexivity.
  all: try (apply andb_prop in Heqb as [? _]; congruence).
Qed.

Lemma pres_nobatch c s l s' : Inv c s -> step c s l = Some s' -> c_batch c = false ->
  holding s' = [] /\ current s' = [] /\ cflush s' = [] /\ timer s' = TNone /\ sumf wfly (works s') = 0 /\
  match pc s' with PFlushWait _ => False | _ => True end.
Proof.
  intros I H B. destruct (i_nobatch _ _ I B) as (H1 & H2 & H3 & H4 & H5 & H6). clear I.
  start H l; proj; rw_eqs; cbn [nonempty] in *;
    try (exfalso; eapply nth_nil; eassumption); try discriminate; try contradiction;
    repeat split; try assumption; try reflexivity; try congruence; try exact I; arith.
Qed.

Lemma pres_joined c s l s' : Inv c s -> step c s l = Some s' -> ge_joined (pc s') = true -> exited s' = c_ncons c.
Proof.
  intros I H. pose proof (i_joined _ _ I) as Hc. pose proof (i_consumers _ _ I) as Hn. clear I.
  start H l; rw_eqs; cbn [ge_joined] in *; intros G; try discriminate; try (specialize (Hc G)); try assumption; try lia.
  all: try (apply andb_prop in Heqb as [_ ?]); try (apply Nat.eqb_eq; assumption).
Qed.

(* once the consumers are joined nobody holds a request outside the batcher *)
Lemma joined_quiet c s : Inv c s -> ge_joined (pc s) = true ->
  idle s = 0 /\ holding s = [] /\ cflush s = [] /\ sumf wcons (works s) = 0.
Proof.
  intros I G. pose proof (i_joined _ _ I G). pose proof (i_consumers _ _ I).
  repeat split; try apply len0; lia.
Qed.

Lemma pres_flushwait c s l s' : Inv c s -> step c s l = Some s' -> ge_flushwait (pc s') = true -> current s' = [].
Proof.
  intros I H. pose proof (i_flushwait _ _ I) as Hc.
  assert (Hq : ge_joined (pc s) = true -> holding s = []) by (intros G; apply (joined_quiet _ _ I G)). clear I.
  start H l; rw_eqs; cbn [ge_flushwait ge_joined] in *; intros G; try discriminate; try (specialize (Hc G)); try assumption;
    try reflexivity.
  all: try (destruct (pc s); cbn [ge_flushwait ge_joined] in *; try discriminate;
            rewrite (Hq eq_refl) in *; exfalso; eapply nth_nil; eassumption).
  all: try (destruct (current s); [reflexivity|discriminate]).
Qed.

Lemma forallb_cons_sum (l : list work) : forallb w_cons l = true -> sumf wcons l = length l.
Proof.
  induction l as [|w l IH]; simpl; auto. intros H. apply andb_prop in H as [H1 H2].
  unfold wcons at 1. rewrite H1, (IH H2). reflexivity.
Qed.

Lemma pres_flushjoined c s l s' : Inv c s -> step c s l = Some s' -> ge_flushjoined (pc s') = true ->
  works s' = [] /\ timer_dead (timer s') = true.
Proof.
  intros I H. pose proof (i_flushjoined _ _ I) as Hc.
  assert (Hq : ge_joined (pc s) = true -> idle s = 0 /\ holding s = [] /\ cflush s = [] /\ sumf wcons (works s) = 0)
    by (apply (joined_quiet c); assumption). clear I.
  start H l; rw_eqs; cbn [ge_flushjoined] in *; intros G; try discriminate;
    try (destruct (Hc G) as [Hw Ht]; rewrite ?Hw, ?Ht in * ); try (exfalso; eapply nth_nil; eassumption);
    try (split; [assumption|cbn; auto; fail]); try (split; assumption).
  all: try (destruct (pc s); cbn [ge_flushjoined ge_joined] in *; try discriminate; destruct (Hq eq_refl) as (Hi & Hh & Hf & _);
            try (rewrite Hi in *; discriminate); try (rewrite Hf in *; exfalso; eapply nth_nil; eassumption)).
  all: try (rewrite Ht in *; cbn in *; discriminate).
  all: try (split; reflexivity).
  - (* LJoinFlushes *)
    apply andb_prop in Heqb as [Hb1 Hb3]. apply andb_prop in Hb1 as [Hb1 Hb2].
    destruct (Hq eq_refl) as (_ & _ & _ & Hz). rewrite (forallb_cons_sum _ Hb1) in Hz.
    split; [apply len0; assumption | assumption].
Qed.

Lemma pres_late c s l s' : Inv c s -> step c s l = Some s' -> c_persist c = false -> 1 <= exited s' ->
  forall i, cnt i (queue s') <= cnt i (late s').
Proof.
  intros I H P. pose proof (i_late _ _ I P) as Hc. pose proof (i_exited _ _ I) as He. clear I.
  start H l; intros E ii; rw_eqs; cbn [orb andb negb nonempty] in *; try discriminate;
    try (specialize (Hc E ii)); try (specialize (He E)); try congruence; try solve [arith].
  all: try (destruct (queue s); [|discriminate]; unfold cnt; cbn [sumf]; lia).
  all: try (assert (E1 : 1 <= exited s) by lia; specialize (Hc E1 ii); arith).
  apply andb_prop in Heqb as [_ Hn]. destruct (queue s); [|discriminate]. unfold cnt; cbn [sumf]; lia.
Qed.

Lemma pres_prelate c s l s' : Inv c s -> step c s l = Some s' ->
  forall i, cnt i (accpre s') + cnt i (late s') <= cnt i (accepted s').
Proof.
  intros I H i. pose proof (i_prelate _ _ I i) as Hc. pose proof (i_qstop _ _ I) as Hq. clear I.
  start H l; try assumption.
  all: destruct (pc s); cbn [is_not ge_qstopped] in *; try discriminate; try congruence; arith.
Qed.

Lemma pres_postb c s l s' : Inv c s -> step c s l = Some s' -> postb s' = 0.
Proof.
  intros I H. pose proof (i_postb _ _ I) as Hc. pose proof (i_flushjoined _ _ I) as Hj. clear I.
  start H l; try assumption.
  destruct (pc s); cbn [after_inner ge_flushjoined] in *; try discriminate;
    destruct (Hj eq_refl) as [Hw _]; rewrite Hw in *; exfalso; eapply nth_nil; eassumption.
Qed.

Lemma pres_refs c s l s' : Inv c s -> step c s l = Some s' -> c_persist c = true ->
  refs s' = (if qstop s' then 0 else 1) + inflight_len s'.
Proof.
  intros I H P. pose proof (i_refs _ _ I P) as Hc. pose proof (i_qstop _ _ I) as Hq. clear I.
  start H l; rw_eqs; cbn [andb orb ge_qstopped] in *; try discriminate; try congruence; arith.
Qed.

Lemma pres_closed c s l s' : Inv c s -> step c s l = Some s' -> closed s' = (c_persist c && Nat.eqb (refs s') 0).
Proof.
  intros I H. pose proof (i_closed _ _ I) as Hc. pose proof (i_refs _ _ I) as Hr. pose proof (i_qstop _ _ I) as Hq. clear I.
  start H l; rw_eqs; cbn [andb orb ge_qstopped] in *; try discriminate; try assumption; try (specialize (Hr eq_refl)).
  all: try (destruct (Nat.eqb (refs s) 0) eqn:E; [apply Nat.eqb_eq in E|apply Nat.eqb_neq in E]).
  all: cbn [andb orb] in *; rw_eqs; cbn [andb orb] in *; try reflexivity; try assumption; try lia.
  all: try (rewrite E; reflexivity).
  all: rewrite Heqb in E; lia.
Qed.

Lemma mem_in i l : mem i l = true <-> In i l.
Proof.
  unfold mem. rewrite existsb_exists. split.
  - intros (x & Hx & E). apply Nat.eqb_eq in E. subst. assumption.
  - intros H. exists i. split; [assumption|apply Nat.eqb_refl].
Qed.

Lemma pres_store c s l s' : Inv c s -> step c s l = Some s' -> c_persist c = true ->
  forall i, 1 <= cnt i (accepted s') ->
  In i (store s') \/ exists r, In (i, r) (finished s') /\ r <> RShutdown.
Proof.
  intros I H P. pose proof (i_store _ _ I P) as Hc. clear I.
  start H l; intros ii A; try (apply Hc; assumption); try congruence.
  - (* LOffer *) unfold cnt in A. cbn [sumf] in A. unfold one at 1 in A.
    destruct (Nat.eqb i ii) eqn:E.
    + apply Nat.eqb_eq in E. subst. left. left. reflexivity.
    + destruct (Hc ii) as [Hs|Hf]; [unfold cnt; lia | left; right; assumption | right; assumption].
  - unfold cnt in A. cbn [sumf] in A. unfold one at 1 in A.
    destruct (Nat.eqb i ii) eqn:E.
    + apply Nat.eqb_eq in E. subst. left. left. reflexivity.
    + destruct (Hc ii) as [Hs|Hf]; [unfold cnt; lia | left; right; assumption | right; assumption].
  - unfold cnt in A. cbn [sumf] in A. unfold one at 1 in A.
    destruct (Nat.eqb i ii) eqn:E.
    + apply Nat.eqb_eq in E. subst. left. left. reflexivity.
    + destruct (Hc ii) as [Hs|Hf]; [unfold cnt; lia | left; right; assumption | right; assumption].
  - unfold cnt in A. cbn [sumf] in A. unfold one at 1 in A.
    destruct (Nat.eqb i ii) eqn:E.
    + apply Nat.eqb_eq in E. subst. left. left. reflexivity.
    + destruct (Hc ii) as [Hs|Hf]; [unfold cnt; lia | left; right; assumption | right; assumption].
  - (* LDone, by a consumer, shutdown error *)
    destruct (Hc ii A) as [Hs|(r0 & Hf & Hr)]; [left; assumption | right; exists r0; split; [apply in_or_app; right; assumption|assumption]].
  - destruct (Hc ii A) as [Hs|(r0 & Hf & Hr)].
    + destruct (mem ii (w_ids w)) eqn:M.
      * right. exists r. split; [apply in_or_app; left; apply in_map_iff; exists ii; split; [reflexivity|apply mem_in; assumption] | destruct r; cbn in *; congruence].
      * left. apply filter_In. split; [assumption|rewrite M; reflexivity].
    + right; exists r0; split; [apply in_or_app; right; assumption|assumption].
  - destruct (Hc ii A) as [Hs|(r0 & Hf & Hr)]; [left; assumption | right; exists r0; split; [apply in_or_app; right; assumption|assumption]].
  - destruct (Hc ii A) as [Hs|(r0 & Hf & Hr)].
    + destruct (mem ii (w_ids w)) eqn:M.
      * right. exists r. split; [apply in_or_app; left; apply in_map_iff; exists ii; split; [reflexivity|apply mem_in; assumption] | destruct r; cbn in *; congruence].
      * left. apply filter_In. split; [assumption|rewrite M; reflexivity].
    + right; exists r0; split; [apply in_or_app; right; assumption|assumption].
Qed.

(* ---- the invariant holds in every reachable state ---------------------------------------------- *)
Lemma step_inv c s l s' : Inv c s -> step c s l = Some s' -> Inv c s'.
Proof.
  intros I H. constructor.
  - exact (pres_cons _ _ _ _ I H).
  - exact (pres_nodup _ _ _ _ I H).
  - exact (pres_taken _ _ _ _ I H).
  - exact (pres_begun_ge _ _ _ _ I H).
  - exact (pres_begun_eq _ _ _ _ I H).
  - exact (pres_noback _ _ _ _ I H).
  - exact (pres_failed_nil _ _ _ _ I H).
  - exact (pres_begun_eq1 _ _ _ _ I H).
  - exact (pres_noback1 _ _ _ _ I H).
  - exact (pres_ended _ _ _ _ I H).
  - exact (pres_consumers _ _ _ _ I H).
  - exact (pres_workers _ _ _ _ I H).
  - exact (pres_nobatch _ _ _ _ I H).
  - exact (pres_joined _ _ _ _ I H).
  - exact (pres_flushwait _ _ _ _ I H).
  - exact (pres_bclosed _ _ _ _ I H).
  - exact (pres_flushjoined _ _ _ _ I H).
  - exact (pres_qstop _ _ _ _ I H).
  - exact (pres_exited _ _ _ _ I H).
  - exact (pres_late _ _ _ _ I H).
  - exact (pres_prelate _ _ _ _ I H).
  - exact (pres_postb _ _ _ _ I H).
  - exact (pres_store _ _ _ _ I H).
  - exact (pres_refs _ _ _ _ I H).
  - exact (pres_closed _ _ _ _ I H).
Qed.

Lemma init_inv c : Inv c (init c).
Proof.
  constructor; unfold init, inflight, inflight_len, tmb, pcb, cnt; cbn; intros; try lia; try reflexivity; try discriminate.
  all: try (match goal with Hb : c_batch _ = false |- _ => rewrite Hb end; cbn; repeat split; reflexivity).
  all: try (match goal with |- context[c_batch ?c && c_timer ?c] => destruct (c_batch c && c_timer c) end; cbn; try lia; try reflexivity; try discriminate; repeat split; try reflexivity; fail).
  all: try (match goal with |- context[c_persist ?c] => destruct (c_persist c) end; reflexivity).
Qed.

Lemma run_inv c : forall ls s s', Inv c s -> run c s ls = Some s' -> Inv c s'.
Proof.
  induction ls as [|l ls IH]; intros s s' I H; simpl in H.
  - injection H as <-. assumption.
  - destruct (step c s l) eqn:E; [|discriminate]. eapply IH; [eapply step_inv; eassumption | eassumption].
Qed.

Lemma reachable_inv c s : reachable c s -> Inv c s.
Proof. intros [ls H]. eapply run_inv; [apply init_inv | eassumption]. Qed.
