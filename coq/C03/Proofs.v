(* C03/Proofs.v — invariants of the shutdown LTS, by induction over the label list. *)
From Verif Require Import Common.Base C03.Model.

(* ---- counting ------------------------------------------------------------------------------ *)
Lemma sumf_app {A} (g : A -> nat) l1 l2 : sumf g (l1 ++ l2) = sumf g l1 + sumf g l2.
Proof. induction l1; simpl; lia. Qed.

Lemma sumf_split {A} (l : list A) : forall k x, nth_error l k = Some x ->
  forall g, sumf g l = g x + sumf g (remove_nth k l).
Proof.
  induction l as [|a l IH]; intros [|k] x H g; simpl in *; try discriminate.
  - injection H as ->. reflexivity.
  - rewrite (IH k x H g). lia.
Qed.

Lemma sumf_upd {A} (l : list A) : forall k x f, nth_error l k = Some x ->
  forall g, sumf g (upd_nth k f l) = g (f x) + sumf g (remove_nth k l).
Proof.
  induction l as [|a l IH]; intros [|k] x f H g; simpl in *; try discriminate.
  - injection H as ->. reflexivity.
  - rewrite (IH k x f H g). lia.
Qed.

Lemma length_remove_nth {A} (l : list A) : forall k x, nth_error l k = Some x ->
  length l = S (length (remove_nth k l)).
Proof.
  induction l as [|a l IH]; intros [|k] x H; simpl in *; try discriminate; auto.
  rewrite (IH k x H). reflexivity.
Qed.

Lemma length_upd_nth {A} (l : list A) k f : length (upd_nth k f l) = length l.
Proof. revert k. induction l as [|a l IH]; intros [|k]; simpl; auto. Qed.

Lemma sumf_repeat {A} (g : A -> nat) x m : sumf g (repeat x m) = m * g x.
Proof. induction m; simpl; lia. Qed.

Lemma cnt_app i l1 l2 : cnt i (l1 ++ l2) = cnt i l1 + cnt i l2.
Proof. apply sumf_app. Qed.

Lemma cnt_in i l : In i l <-> 1 <= cnt i l.
Proof.
  unfold cnt. induction l as [|a l IH]; simpl.
  - split; [tauto|lia].
  - unfold one at 1. destruct (Nat.eqb a i) eqn:E.
    + apply Nat.eqb_eq in E. split; [lia|auto].
    + apply Nat.eqb_neq in E. rewrite IH. split; [intros [?|?]; [congruence|lia]|intros; right; lia].
Qed.

Lemma mem_in i l : mem i l = true <-> In i l.
Proof.
  unfold mem. rewrite existsb_exists. split.
  - intros (x & Hx & E). apply Nat.eqb_eq in E. subst. assumption.
  - intros H. exists i. split; [assumption|apply Nat.eqb_refl].
Qed.

Lemma mem_cnt i l : mem i l = false -> cnt i l = 0.
Proof.
  intros H. destruct (cnt i l) eqn:E; auto.
  assert (In i l) by (apply cnt_in; lia). apply mem_in in H0. congruence.
Qed.

Lemma one_refl i : one i i = 1.
Proof. unfold one. rewrite Nat.eqb_refl. reflexivity. Qed.
Lemma one_neq i a : Nat.eqb a i = false -> one i a = 0.
Proof. unfold one. intros ->. reflexivity. Qed.

Lemma cnt_dedup i l : cnt i (dedup l) = Nat.min 1 (cnt i l).
Proof.
  induction l as [|a l IH]; cbn [dedup]; [reflexivity|].
  destruct (mem a l) eqn:M.
  - rewrite IH. destruct (Nat.eqb a i) eqn:E.
    + apply Nat.eqb_eq in E. subst. apply mem_in in M. apply cnt_in in M.
      unfold cnt in *. cbn [sumf]. rewrite one_refl. lia.
    + unfold cnt in *. cbn [sumf]. rewrite (one_neq _ _ E). reflexivity.
  - destruct (Nat.eqb a i) eqn:E.
    + apply Nat.eqb_eq in E. subst. pose proof (mem_cnt _ _ M) as Z.
      unfold cnt in *. cbn [sumf]. rewrite one_refl, IH, Z. reflexivity.
    + unfold cnt in *. cbn [sumf]. rewrite (one_neq _ _ E), IH. reflexivity.
Qed.

Lemma cnt_filter i P l : cnt i (filter P l) = if P i then cnt i l else 0.
Proof.
  induction l as [|a l IH]; simpl; [destruct (P i); reflexivity|].
  destruct (P a) eqn:Pa; unfold cnt in *; cbn [sumf]; rewrite IH; unfold one;
    destruct (Nat.eqb a i) eqn:E; try (apply Nat.eqb_eq in E; subst; rewrite Pa); destruct (P i); lia.
Qed.

Definition fin1 (i : id) (p : id * result) : nat := one i (fst p).
Lemma sumf_fin_map i (v : id -> result) ids : sumf (fin1 i) (map (fun j => (j, v j)) ids) = cnt i ids.
Proof. unfold cnt. induction ids; simpl; auto. Qed.

(* ---- measures -------------------------------------------------------------------------------- *)
Definition started (st : send_st) : bool := match st with SReady => false | _ => true end.
Definition incall (st : send_st) : bool := match st with SInCall => true | _ => false end.
Definition backoff (st : send_st) : bool := match st with SBackoff => true | _ => false end.

Definition wstarted (i : id) (w : work) : nat := if started (w_st w) then cnt i (w_ids w) else 0.
Definition wincall (i : id) (w : work) : nat := if incall (w_st w) then cnt i (w_ids w) else 0.
Definition wback (w : work) : nat := if backoff (w_st w) then 1 else 0.
Definition wbacki (i : id) (w : work) : nat := if backoff (w_st w) then cnt i (w_ids w) else 0.
Definition wcons (w : work) : nat := match w_own w with OCons => 1 | _ => 0 end.
Definition wfly (w : work) : nat := match w_own w with OFly => 1 | _ => 0 end.
Definition wcaller (w : work) : nat := match w_own w with OCaller => 1 | _ => 0 end.

Definition ge_qstopped (p : pc_t) : bool :=
  match p with PNot | PCalled | PStopClosed => false | _ => true end.
Definition ge_joined (p : pc_t) : bool :=
  match p with PNot | PCalled | PStopClosed | PQStopped => false | _ => true end.
Definition ge_flushwait (p : pc_t) : bool :=
  match p with PNot | PCalled | PStopClosed | PQStopped | PJoined => false | _ => true end.
Definition ge_flushjoined (p : pc_t) : bool :=
  match p with PFlushJoined | PInner | PReturned => true | _ => false end.

Record Inv (c : cfg) (s : state) : Prop := mkInv {
  (* every accepted request is in exactly one place: queued, held by a consumer, split into >= 1 outstanding
     parts, or finished *)
  i_cons : forall i, cnt i (queue s) + cnt i (holding s) + Nat.min 1 (parts_out i s) + sumf (fin1 i) (finished s)
                     = cnt i (accepted s);
  i_nodup : forall i, cnt i (accepted s) <= 1;
  i_taken : forall i, cnt i (queue s) + cnt i (taken s) = cnt i (accepted s);
  (* every part ever created has reported or is outstanding *)
  i_parts : forall i, sumf (fin1 i) (partlog s) + parts_out i s = cnt i (nparts s);
  i_fin_done : forall i, sumf (fin1 i) (finished s) <= sumf (fin1 i) (partlog s);
  i_begun_ge : forall i, sumf (fin1 i) (partlog s) + sumf (wstarted i) (works s) <= cnt i (begun s);
  i_begun_eq : failures s = 0 ->
               forall i, sumf (fin1 i) (partlog s) + sumf (wstarted i) (works s) = cnt i (begun s);
  i_noback : failures s = 0 -> sumf wback (works s) = 0;
  i_failed_nil : failures s = 0 -> failedids s = [];
  i_begun_eq1 : forall i, cnt i (failedids s) = 0 ->
                sumf (fin1 i) (partlog s) + sumf (wstarted i) (works s) = cnt i (begun s);
  i_noback1 : forall i, cnt i (failedids s) = 0 -> sumf (wbacki i) (works s) = 0;
  i_ended : forall i, cnt i (ended s) + sumf (wincall i) (works s) = cnt i (begun s);
  i_consumers : idle s + exited s + length (holding s) + length (cflush s) + sumf wcons (works s) = ncons_eff c;
  i_workers : workers s + sumf wfly (works s) = c_nwork c;
  i_nocaller : c_queue c = true -> sumf wcaller (works s) = 0;
  i_noqueue : c_queue c = false ->
              queue s = [] /\ holding s = [] /\ current s = [] /\ cflush s = [] /\ timer s = TNone /\ idle s = 0 /\
              sumf wcons (works s) = 0 /\ sumf wfly (works s) = 0 /\ qstop s = false /\
              match pc s with PQStopped | PJoined | PFlushWait _ | PFlushed => False | _ => True end;
  i_nobatch : c_batch c = false ->
              holding s = [] /\ current s = [] /\ cflush s = [] /\ timer s = TNone /\ sumf wfly (works s) = 0 /\
              match pc s with PFlushWait _ => False | _ => True end;
  i_joined : ge_joined (pc s) = true -> exited s = ncons_eff c;
  i_flushwait : ge_flushwait (pc s) = true -> current s = [];
  i_bclosed : bclosed s = (c_queue c && ge_flushwait (pc s));
  i_flushjoined : ge_flushjoined (pc s) = true ->
                  sumf wcons (works s) + sumf wfly (works s) = 0 /\ timer_dead (timer s) = true;
  i_qstop : qstop s = (c_queue c && ge_qstopped (pc s));
  i_exited : 1 <= exited s -> qstop s = true;
  i_late : c_persist c = false -> 1 <= exited s -> forall i, cnt i (queue s) <= cnt i (late s);
  i_prelate : forall i, cnt i (accpre s) + cnt i (late s) <= cnt i (accepted s);
  i_postb : postb s = 0;
  i_store : c_persist c = true -> c_queue c = true -> forall i, 1 <= cnt i (accepted s) ->
            In i (store s) \/ exists r, In (i, r) (finished s) /\ r <> RShutdown;
  i_refs : c_persist c = true -> c_queue c = true ->
           refs s + length (finished s) = (if qstop s then 0 else 1) + length (taken s);
  i_closed : closed s = (c_persist c && Nat.eqb (refs s) 0);
}.

(* ---- preservation ---------------------------------------------------------------------------- *)
Ltac unf := unfold new_work, set_queue, set_qstop, set_store, set_refs, set_closed, set_idle, set_exited, set_holding, set_cflush, set_current, set_workers, set_works, set_timer, set_bclosed, set_rstop, set_pc, set_accepted, set_accpre, set_late, set_taken, set_begun, set_ended, set_finished, set_failures, set_postb, set_failedids, set_shuterr, set_partlog, set_nparts in *.

Ltac destr_step H :=
  repeat (match type of H with
          | context[match ?x with _ => _ end] => destruct x eqn:?
          end; try discriminate H).

Ltac splits :=
  repeat match goal with
  | Hn : nth_error ?l ?k = Some ?x |- _ =>
      rewrite ?(sumf_upd l k x _ Hn);
      rewrite ?(sumf_split l k x Hn) in *;
      try rewrite (length_remove_nth l k x Hn) in *;
      revert Hn
  end; intros.

Ltac ifs := repeat match goal with
  | |- context[if ?b then _ else _] => destruct b eqn:?
  | Hx : context[if ?b then _ else _] |- _ => destruct b eqn:?
  end.

Ltac eqbs := repeat match goal with
  | Hb : (_ =? _) = true |- _ => apply Nat.eqb_eq in Hb
  | Hb : (_ =? _) = false |- _ => apply Nat.eqb_neq in Hb
  end.

Ltac rw_eqs := repeat match goal with
  | E : ?f ?x = _ |- _ => is_var x; progress (rewrite E in * )
  end.

Ltac unm2 := unfold parts_out, tmb, pcb, wstarted, wincall, wback, wbacki, wcons, wfly, wcaller, fin1,
  set_st, end_state, started, incall, backoff, is_fly, is_caller in *; unfold cnt in *.

Ltac proj := cbn [queue qstop store refs closed idle exited holding cflush current workers works timer bclosed rstop pc accepted accpre late taken begun ended finished failures postb failedids shuterr partlog nparts set_queue set_qstop set_store set_refs set_closed set_idle set_exited set_holding set_cflush set_current set_workers set_works set_timer set_bclosed set_rstop set_pc set_accepted set_accpre set_late set_taken set_begun set_ended set_finished set_failures set_postb set_failedids set_shuterr set_partlog set_nparts new_work] in *.

Ltac bools := repeat match goal with
  | Hb : (_ || _) = false |- _ => apply orb_false_elim in Hb as [? ?]
  end.
Ltac memz := repeat match goal with
  | Hm : mem _ _ = false |- _ => apply mem_cnt in Hm
  end.
Ltac idsubst := repeat match goal with
  | E : ?a = ?b |- _ => is_var a; is_var b; subst a
  end.

Ltac arith :=
  bools; memz; rewrite ?sumf_app, ?sumf_fin_map, ?cnt_filter, ?cnt_dedup in *; unm2; proj; rw_eqs; rewrite ?length_upd_nth in *; cbn [sumf length] in *; splits;
  do 3 (rewrite ?sumf_app, ?app_length, ?sumf_repeat, ?repeat_length, ?length_upd_nth in *;
        cbn [sumf length w_ids w_st w_own fst snd] in * ); rw_eqs;
  cbn [sumf length w_ids w_st w_own fst snd] in *;
  try lia; unfold one in *; ifs; eqbs; idsubst; try lia; try congruence.

Ltac guards := repeat match goal with
  | Hb : negb _ && _ = false |- _ => progress (cbn [negb andb orb Nat.eqb] in Hb); try discriminate Hb
  end.

Ltac start H l := destruct l; try (match goal with o : outcome |- _ => destruct o end); unfold step, is_ok, end_state in H; destr_step H; guards; injection H as <-; proj.

Lemma pres_cons c s l s' : Inv c s -> step c s l = Some s' ->
  forall i, cnt i (queue s') + cnt i (holding s') + Nat.min 1 (parts_out i s') + sumf (fin1 i) (finished s')
            = cnt i (accepted s').
Proof.
  intros I H i. pose proof (i_cons _ _ I) as Hc. pose proof (i_nodup _ _ I) as Hn. clear I.
  start H l; try (pose proof (Hc i0); pose proof (Hn i0)); specialize (Hc i); specialize (Hn i); arith.
Qed.

Lemma pres_nodup c s l s' : Inv c s -> step c s l = Some s' -> forall i, cnt i (accepted s') <= 1.
Proof.
  intros I H i. pose proof (i_nodup _ _ I i) as Hc. clear I.
  start H l; try assumption; arith.
Qed.

Lemma pres_taken c s l s' : Inv c s -> step c s l = Some s' ->
  forall i, cnt i (queue s') + cnt i (taken s') = cnt i (accepted s').
Proof.
  intros I H i. pose proof (i_taken _ _ I i) as Hc. clear I.
  start H l; arith.
Qed.

Lemma pres_parts c s l s' : Inv c s -> step c s l = Some s' ->
  forall i, sumf (fin1 i) (partlog s') + parts_out i s' = cnt i (nparts s').
Proof.
  intros I H i. pose proof (i_parts _ _ I i) as Hc. clear I.
  start H l; arith.
Qed.

Lemma pres_fin_done c s l s' : Inv c s -> step c s l = Some s' ->
  forall i, sumf (fin1 i) (finished s') <= sumf (fin1 i) (partlog s').
Proof.
  intros I H i. pose proof (i_fin_done _ _ I i) as Hc. clear I.
  start H l; arith.
Qed.

Lemma pres_begun_ge c s l s' : Inv c s -> step c s l = Some s' ->
  forall i, sumf (fin1 i) (partlog s') + sumf (wstarted i) (works s') <= cnt i (begun s').
Proof.
  intros I H i. pose proof (i_begun_ge _ _ I i) as Hc. clear I.
  start H l; arith.
Qed.

Lemma pres_noback c s l s' : Inv c s -> step c s l = Some s' ->
  failures s' = 0 -> sumf wback (works s') = 0.
Proof.
  intros I H. pose proof (i_noback _ _ I) as Hc. clear I.
  start H l; intros F; try (specialize (Hc F)); arith.
Qed.

Lemma pres_begun_eq c s l s' : Inv c s -> step c s l = Some s' ->
  failures s' = 0 -> forall i, sumf (fin1 i) (partlog s') + sumf (wstarted i) (works s') = cnt i (begun s').
Proof.
  intros I H. pose proof (i_begun_eq _ _ I) as Hc. pose proof (i_noback _ _ I) as Hb. clear I.
  start H l; intros F ii; try (specialize (Hc F ii); specialize (Hb F)); arith.
Qed.

Lemma pres_failed_nil c s l s' : Inv c s -> step c s l = Some s' -> failures s' = 0 -> failedids s' = [].
Proof.
  intros I H. pose proof (i_failed_nil _ _ I) as Hc. clear I.
  start H l; intros F; try (exact (Hc F)); try discriminate.
Qed.

Ltac prem Hc ii F s := try (assert (F0 : cnt ii (failedids s) = 0)
                            by (revert F; unfold cnt; rewrite ?sumf_app; intros; first [assumption | lia]);
                          specialize (Hc ii F0)).

Lemma pres_noback1 c s l s' : Inv c s -> step c s l = Some s' ->
  forall i, cnt i (failedids s') = 0 -> sumf (wbacki i) (works s') = 0.
Proof.
  intros I H. pose proof (i_noback1 _ _ I) as Hc. clear I.
  start H l; intros ii F; prem Hc ii F s; arith.
Qed.

Lemma pres_begun_eq1 c s l s' : Inv c s -> step c s l = Some s' ->
  forall i, cnt i (failedids s') = 0 ->
  sumf (fin1 i) (partlog s') + sumf (wstarted i) (works s') = cnt i (begun s').
Proof.
  intros I H. pose proof (i_begun_eq1 _ _ I) as Hc. pose proof (i_noback1 _ _ I) as Hb. clear I.
  start H l; intros ii F; prem Hc ii F s; try (specialize (Hb ii F0)); arith.
Qed.

Lemma pres_ended c s l s' : Inv c s -> step c s l = Some s' ->
  forall i, cnt i (ended s') + sumf (wincall i) (works s') = cnt i (begun s').
Proof.
  intros I H i. pose proof (i_ended _ _ I i) as Hc. clear I.
  start H l; arith.
Qed.

Lemma pres_consumers c s l s' : Inv c s -> step c s l = Some s' ->
  idle s' + exited s' + length (holding s') + length (cflush s') + sumf wcons (works s') = ncons_eff c.
Proof.
  intros I H. pose proof (i_consumers _ _ I) as Hc. clear I.
  start H l; arith.
Qed.

Lemma pres_workers c s l s' : Inv c s -> step c s l = Some s' ->
  workers s' + sumf wfly (works s') = c_nwork c.
Proof.
  intros I H. pose proof (i_workers _ _ I) as Hc. clear I.
  start H l; arith.
Qed.

Lemma pres_nocaller c s l s' : Inv c s -> step c s l = Some s' -> c_queue c = true -> sumf wcaller (works s') = 0.
Proof.
  intros I H Q. pose proof (i_nocaller _ _ I Q) as Hc. clear I.
  start H l; arith.
Qed.

Lemma len0 {A} (l : list A) : length l = 0 -> l = [].
Proof. destruct l; simpl; [auto|lia]. Qed.

Lemma nth_nil {A} k (x : A) : nth_error [] k = Some x -> False.
Proof. destruct k; discriminate. Qed.

Lemma pres_qstop c s l s' : Inv c s -> step c s l = Some s' -> qstop s' = (c_queue c && ge_qstopped (pc s')).
Proof.
  intros I H. pose proof (i_qstop _ _ I) as Hc. clear I.
  start H l; rw_eqs; cbn [negb andb orb ge_qstopped] in *; try assumption; try reflexivity; try discriminate.
  all: try (destruct (c_queue c); cbn in *; try discriminate; try assumption; reflexivity).
Qed.

Lemma pres_bclosed c s l s' : Inv c s -> step c s l = Some s' -> bclosed s' = (c_queue c && ge_flushwait (pc s')).
Proof.
  intros I H. pose proof (i_bclosed _ _ I) as Hc. pose proof (i_noqueue _ _ I) as Hn. clear I.
  start H l; rw_eqs; cbn [negb andb orb ge_flushwait] in *; try assumption; try reflexivity; try discriminate.
  all: try (destruct (c_queue c); cbn in *; try discriminate; try assumption; try reflexivity;
            destruct (Hn eq_refl) as (_ & _ & _ & _ & _ & _ & _ & _ & _ & X); rw_eqs; try contradiction; fail).
Qed.

Lemma pres_exited c s l s' : Inv c s -> step c s l = Some s' -> 1 <= exited s' -> qstop s' = true.
Proof.
  intros I H. pose proof (i_exited _ _ I) as Hc. clear I.
  start H l; rw_eqs; try assumption; try reflexivity.
  all: try (apply andb_prop in Heqb as [? _]; congruence).
Qed.
