From Verif Require Import Common.Base C03.Model.
