(* C03/ProofsB.v — preservation of the control-state parts of the invariant. *)
From Verif Require Import Common.Base C03.Model C03.Proofs.

Lemma pres_noqueue c s l s' : Inv c s -> step c s l = Some s' -> c_queue c = false ->
  queue s' = [] /\ holding s' = [] /\ current s' = [] /\ cflush s' = [] /\ timer s' = TNone /\ idle s' = 0 /\
  sumf wcons (works s') = 0 /\ sumf wfly (works s') = 0 /\ qstop s' = false /\
  match pc s' with PQStopped | PJoined | PFlushWait _ | PFlushed => False | _ => True end.
Proof.
  intros I H B. destruct (i_noqueue _ _ I B) as (H1 & H2 & H3 & H4 & H5 & H6 & H7 & H8 & H9 & H10). clear I.
  start H l; proj; rw_eqs; cbn [nonempty negb andb orb] in *;
    try (exfalso; eapply nth_nil; eassumption); try discriminate; try contradiction;
    repeat split; try assumption; try reflexivity; try congruence; try exact I; arith.
Qed.

Lemma pres_nobatch c s l s' : Inv c s -> step c s l = Some s' -> c_batch c = false ->
  holding s' = [] /\ current s' = [] /\ cflush s' = [] /\ timer s' = TNone /\ sumf wfly (works s') = 0 /\
  match pc s' with PFlushWait _ => False | _ => True end.
Proof.
  intros I H B. destruct (i_nobatch _ _ I B) as (H1 & H2 & H3 & H4 & H5 & H6). clear I.
  start H l; proj; rw_eqs; cbn [nonempty] in *;
    try (exfalso; eapply nth_nil; eassumption); try discriminate; try contradiction;
    repeat split; try assumption; try reflexivity; try congruence; try exact I; arith.
Qed.

Lemma pres_joined c s l s' : Inv c s -> step c s l = Some s' -> ge_joined (pc s') = true -> exited s' = ncons_eff c.
Proof.
  intros I H. pose proof (i_joined _ _ I) as Hc. pose proof (i_consumers _ _ I) as Hn.
  pose proof (i_noqueue _ _ I) as Hq. clear I.
  start H l; rw_eqs; cbn [ge_joined] in *; intros G; try discriminate; try (specialize (Hc G)); try assumption; try lia.
  all: try (apply andb_prop in Heqb as [_ ?]); try (apply Nat.eqb_eq; assumption).
  destruct (Hq eq_refl) as (_ & A2 & _ & A4 & _ & A6 & A7 & _). rewrite A2, A4, A6, A7 in Hn. simpl in Hn. lia.
Qed.

(* once the consumers are joined nobody holds a request outside the batcher *)
Lemma joined_quiet c s : Inv c s -> ge_joined (pc s) = true ->
  idle s = 0 /\ holding s = [] /\ cflush s = [] /\ sumf wcons (works s) = 0.
Proof.
  intros I G. pose proof (i_joined _ _ I G). pose proof (i_consumers _ _ I).
  repeat split; try apply len0; lia.
Qed.

Lemma pres_flushwait c s l s' : Inv c s -> step c s l = Some s' -> ge_flushwait (pc s') = true -> current s' = [].
Proof.
  intros I H. pose proof (i_flushwait _ _ I) as Hc.
  assert (Hq : ge_joined (pc s) = true -> holding s = []) by (intros G; apply (joined_quiet _ _ I G)).
  pose proof (i_noqueue _ _ I) as Hn. clear I.
  start H l; rw_eqs; cbn [ge_flushwait ge_joined] in *; intros G; try discriminate; try (specialize (Hc G)); try assumption;
    try reflexivity.
  all: try (destruct (pc s); cbn [ge_flushwait ge_joined] in *; try discriminate;
            rewrite (Hq eq_refl) in *; exfalso; eapply nth_nil; eassumption).
  all: try (destruct (current s); [reflexivity|discriminate]).
  all: try (destruct (Hn eq_refl) as (_ & _ & X & _); assumption).
Qed.

Lemma nofly_sum (l : list work) : forallb (fun w => negb (is_fly w)) l = true -> sumf wfly l = 0.
Proof.
  induction l as [|w l IH]; simpl; auto. intros H. apply andb_prop in H as [H1 H2].
  rewrite (IH H2). unfold wfly, is_fly in *. destruct (w_own w); try discriminate; reflexivity.
Qed.

Lemma pres_flushjoined c s l s' : Inv c s -> step c s l = Some s' -> ge_flushjoined (pc s') = true ->
  sumf wcons (works s') + sumf wfly (works s') = 0 /\ timer_dead (timer s') = true.
Proof.
  intros I H. pose proof (i_flushjoined _ _ I) as Hc.
  assert (Hq : ge_joined (pc s) = true -> idle s = 0 /\ holding s = [] /\ cflush s = [] /\ sumf wcons (works s) = 0)
    by (apply (joined_quiet c); assumption).
  pose proof (i_noqueue _ _ I) as Hn. clear I.
  start H l; rw_eqs; cbn [ge_flushjoined] in *; intros G; try discriminate;
    try (destruct (Hc G) as [Hw Ht]); try (split; [arith|assumption]).
  all: try (exfalso; assert (J : ge_joined (pc s) = true) by (destruct (pc s); cbn in *; congruence);
            destruct (Hq J) as (Hi & Hh & Hf & _);
            first [ discriminate Hi
                  | rewrite Hf in *; eapply nth_nil; eassumption
                  | rewrite Heqt in Ht; discriminate Ht
                  | cbn in Ht; discriminate Ht ]).
  all: try (destruct (Hc G) as [Hw Ht]; split; [assumption|reflexivity]).
  - (* LNoQueue *)
    destruct (Hn eq_refl) as (_ & _ & _ & _ & A5 & _ & A7 & A8 & _). rewrite A5, A7, A8. split; reflexivity.
  - (* LJoinFlushes *)
    apply andb_prop in Heqb as [Hb1 Hb3]. apply andb_prop in Hb1 as [Hb1 Hb2].
    destruct (Hq eq_refl) as (_ & _ & _ & Hz). rewrite Hz, (nofly_sum _ Hb1). split; [reflexivity|assumption].
Qed.


Lemma pres_late c s l s' : Inv c s -> step c s l = Some s' -> c_persist c = false -> 1 <= exited s' ->
  forall i, cnt i (queue s') <= cnt i (late s').
Proof.
  intros I H P. pose proof (i_late _ _ I P) as Hc. pose proof (i_exited _ _ I) as He. clear I.
  start H l; intros E ii; rw_eqs; cbn [orb andb negb nonempty] in *; try discriminate;
    try (specialize (Hc E ii)); try (specialize (He E)); try congruence; try solve [arith].
  all: try (destruct (queue s); [|discriminate]; unfold cnt; cbn [sumf]; lia).
  all: try (assert (E1 : 1 <= exited s) by lia; specialize (Hc E1 ii); arith).
  all: try (apply andb_prop in Heqb as [_ Hn]; destruct (queue s); [|discriminate]; unfold cnt; cbn [sumf]; lia).
Qed.

Lemma pres_prelate c s l s' : Inv c s -> step c s l = Some s' ->
  forall i, cnt i (accpre s') + cnt i (late s') <= cnt i (accepted s').
Proof.
  intros I H i. pose proof (i_prelate _ _ I i) as Hc. pose proof (i_qstop _ _ I) as Hq. clear I.
  start H l; try assumption.
  all: destruct (pc s); cbn [is_not ge_qstopped andb] in *; rewrite ?andb_false_r in *; try discriminate; try congruence; arith.
Qed.

Lemma pres_postb c s l s' : Inv c s -> step c s l = Some s' -> postb s' = 0.
Proof.
  intros I H. pose proof (i_postb _ _ I) as Hc. pose proof (i_flushjoined _ _ I) as Hj. clear I.
  start H l; try assumption.
  apply andb_prop in Heqb as [Ha Hb].
  destruct (pc s); cbn [after_inner ge_flushjoined] in *; try discriminate;
    destruct (Hj eq_refl) as [Hw _]; unfold is_caller, wcons, wfly in *; splits; destruct (w_own w); cbn in *; try discriminate; lia.
Qed.

(* ---- the persistent queue's client reference count -------------------------------------------- *)
Fixpoint remove_one (x : id) (l : list id) : list id :=
  match l with [] => [] | y :: r => if Nat.eqb y x then r else y :: remove_one x r end.

Lemma cnt_remove_one x i l : 1 <= cnt x l -> cnt i (remove_one x l) + one i x = cnt i l.
Proof.
  unfold cnt. induction l as [|y r IH]; cbn [sumf remove_one]; [lia|]. intros H.
  destruct (Nat.eqb y x) eqn:E.
  - apply Nat.eqb_eq in E. subst. lia.
  - cbn [sumf]. unfold one at 1 in H. rewrite E in H. specialize (IH ltac:(lia)). lia.
Qed.

Lemma length_remove_one x l : 1 <= cnt x l -> length l = S (length (remove_one x l)).
Proof.
  unfold cnt. induction l as [|y r IH]; cbn [sumf remove_one length]; [lia|]. intros H.
  destruct (Nat.eqb y x) eqn:E; [reflexivity|]. cbn [length]. unfold one at 1 in H. rewrite E in H.
  rewrite (IH ltac:(lia)). reflexivity.
Qed.

(* multiset inclusion bounds the length *)
Lemma cnt_le_length : forall A B, (forall i, cnt i A <= cnt i B) -> length A <= length B.
Proof.
  induction A as [|a A IH]; intros B H; simpl; [lia|].
  assert (Ha : 1 <= cnt a B). { specialize (H a). unfold cnt in *. cbn [sumf] in H. rewrite one_refl in H. lia. }
  rewrite (length_remove_one a B Ha). apply le_n_S. apply IH. intros i.
  pose proof (cnt_remove_one a i B Ha). specialize (H i). unfold cnt in *. cbn [sumf] in H. lia.
Qed.

Lemma length_map_fst {A B} (l : list (A * B)) : length (map fst l) = length l.
Proof. apply map_length. Qed.

Lemma cnt_map_fst i (l : list (id * result)) : cnt i (map fst l) = sumf (fin1 i) l.
Proof. unfold cnt, fin1. induction l; simpl; auto. Qed.

Lemma finals_bound c s k w (P : id -> bool) :
  Inv c s -> nth_error (works s) k = Some w ->
  (forall i, P i = true -> 1 <= cnt i (w_ids w) -> True) ->
  length (filter P (dedup (w_ids w))) + length (finished s) <= length (taken s).
Proof.
  intros I N _. rewrite <- (length_map_fst (finished s)), <- app_length. apply cnt_le_length. intros i.
  rewrite cnt_app, cnt_filter, cnt_dedup, cnt_map_fst.
  pose proof (i_cons _ _ I i) as C. pose proof (i_taken _ _ I i) as T.
  assert (cnt i (w_ids w) <= parts_out i s).
  { unfold parts_out. rewrite (sumf_split _ _ _ N). lia. }
  destruct (P i); lia.
Qed.

Lemma pres_refs c s l s' : Inv c s -> step c s l = Some s' -> c_persist c = true -> c_queue c = true ->
  refs s' + length (finished s') = (if qstop s' then 0 else 1) + length (taken s').
Proof.
  intros I H P Q. pose proof (i_refs _ _ I P Q) as Hc. pose proof (i_qstop _ _ I) as Hq.
  pose proof (i_nocaller _ _ I Q) as Hnc.
  assert (FT : length (finished s) <= length (taken s)).
  { rewrite <- (length_map_fst (finished s)). apply cnt_le_length. intros i. rewrite cnt_map_fst.
    pose proof (i_cons _ _ I i). pose proof (i_taken _ _ I i). lia. }
  assert (FB : forall k w Pf, nth_error (works s) k = Some w ->
               length (filter Pf (dedup (w_ids w))) + length (finished s) <= length (taken s))
    by (intros; eapply finals_bound; eauto).
  clear I.
  start H l; rw_eqs; cbn [andb orb negb ge_qstopped] in *; rw_eqs; try discriminate; try congruence; try solve [arith].
  all: try match goal with Hn : nth_error (works _) _ = Some _ |- context[filter ?Pf (dedup _)] =>
         pose proof (FB _ _ Pf Hn) end; clear FB;
       rewrite ?app_length, ?map_length in *; unfold is_caller, wcaller in *; splits; rw_eqs; cbn in *;
       try discriminate; try lia.
  all: cbn [andb ge_qstopped] in *; rw_eqs; cbn [andb ge_qstopped] in *; try lia.
Qed.

Lemma pres_closed c s l s' : Inv c s -> step c s l = Some s' -> closed s' = (c_persist c && Nat.eqb (refs s') 0).
Proof.
  intros I H. pose proof (i_closed _ _ I) as Hc. pose proof (i_qstop _ _ I) as Hq. pose proof (i_refs _ _ I) as Hr.
  pose proof (i_noqueue _ _ I) as Hn.
  assert (FT : length (finished s) <= length (taken s)).
  { rewrite <- (length_map_fst (finished s)). apply cnt_le_length. intros i. rewrite cnt_map_fst.
    pose proof (i_cons _ _ I i). pose proof (i_taken _ _ I i). lia. }
  clear I.
  start H l; rw_eqs; cbn [andb orb negb] in *; try discriminate; try assumption; try reflexivity.
  all: try (destruct (Nat.eqb (refs s) 0) eqn:E; [apply Nat.eqb_eq in E|apply Nat.eqb_neq in E]; cbn [andb orb];
            try reflexivity; try (rewrite E; reflexivity); fail).
  all: try (destruct (c_queue c) eqn:Q;
            [ specialize (Hr eq_refl eq_refl); cbn [andb] in *; rw_eqs;
              repeat match goal with E0 : ge_qstopped _ = _ |- _ => rewrite E0 in * end;
              destruct (Nat.eqb (refs s) 0) eqn:E; [apply Nat.eqb_eq in E; lia|reflexivity]
            | destruct (Hn eq_refl) as (_ & _ & _ & _ & _ & X & _); congruence ]).
  all: try (destruct (c_persist c); cbn [andb orb] in *; try discriminate; try reflexivity;
            destruct (Nat.eqb (refs s) 0) eqn:E; cbn [orb]; [apply Nat.eqb_eq in E; rewrite E; reflexivity | reflexivity]).
Qed.

Lemma pres_store c s l s' : Inv c s -> step c s l = Some s' -> c_persist c = true -> c_queue c = true ->
  forall i, 1 <= cnt i (accepted s') ->
  In i (store s') \/ exists r, In (i, r) (finished s') /\ r <> RShutdown.
Proof.
  intros I H P Q. pose proof (i_store _ _ I P Q) as Hc. clear I.
  start H l; rw_eqs; cbn [orb negb andb] in *; try discriminate; intros ii A; try (apply Hc; assumption); try congruence.
  all: try (unfold cnt in A; cbn [sumf] in A; unfold one at 1 in A;
            match type of A with context[Nat.eqb ?x ?y] => destruct (Nat.eqb x y) eqn:E end;
            [ apply Nat.eqb_eq in E; subst; left; left; reflexivity
            | destruct (Hc ii) as [Hs|Hf]; [unfold cnt; lia | left; right; assumption | right; assumption] ]).
  all: destruct (Hc ii A) as [Hs|(r0 & Hf & Hr)];
       [ | right; exists r0; split; [apply in_or_app; right; assumption|assumption] ].
  all: try (left; assumption).
  all: match goal with |- context[filter ?F (store _)] =>
         destruct (F ii) eqn:M; [left; apply filter_In; split; assumption|] end.
  all: apply negb_false_iff in M; apply andb_prop in M as [M1 M2]; apply negb_true_iff in M2.
  all: right; eexists; split; [apply in_or_app; left; apply in_map_iff; exists ii; split; [reflexivity|apply mem_in; exact M1]|].
  all: intros X; rewrite X in M2; discriminate.
Qed.

(* ---- the invariant holds in every reachable state ---------------------------------------------- *)
Lemma step_inv c s l s' : Inv c s -> step c s l = Some s' -> Inv c s'.
Proof.
  intros I H. constructor.
  - exact (pres_cons _ _ _ _ I H).
  - exact (pres_nodup _ _ _ _ I H).
  - exact (pres_taken _ _ _ _ I H).
  - exact (pres_parts _ _ _ _ I H).
  - exact (pres_fin_done _ _ _ _ I H).
  - exact (pres_begun_ge _ _ _ _ I H).
  - exact (pres_begun_eq _ _ _ _ I H).
  - exact (pres_noback _ _ _ _ I H).
  - exact (pres_failed_nil _ _ _ _ I H).
  - exact (pres_begun_eq1 _ _ _ _ I H).
  - exact (pres_noback1 _ _ _ _ I H).
  - exact (pres_ended _ _ _ _ I H).
  - exact (pres_consumers _ _ _ _ I H).
  - exact (pres_workers _ _ _ _ I H).
  - exact (pres_nocaller _ _ _ _ I H).
  - exact (pres_noqueue _ _ _ _ I H).
  - exact (pres_nobatch _ _ _ _ I H).
  - exact (pres_joined _ _ _ _ I H).
  - exact (pres_flushwait _ _ _ _ I H).
  - exact (pres_bclosed _ _ _ _ I H).
  - exact (pres_flushjoined _ _ _ _ I H).
  - exact (pres_qstop _ _ _ _ I H).
  - exact (pres_exited _ _ _ _ I H).
  - exact (pres_late _ _ _ _ I H).
  - exact (pres_prelate _ _ _ _ I H).
  - exact (pres_postb _ _ _ _ I H).
  - exact (pres_store _ _ _ _ I H).
  - exact (pres_refs _ _ _ _ I H).
  - exact (pres_closed _ _ _ _ I H).
Qed.

Lemma init_inv c : Inv c (init c).
Proof.
  constructor; unfold init, parts_out, tmb, pcb, cnt, ncons_eff; cbn; intros; try lia; try reflexivity; try discriminate.
  all: try (match goal with Hb : c_queue _ = false |- _ => rewrite Hb end; cbn; repeat split; reflexivity).
  all: try (match goal with Hb : c_batch _ = false |- _ => rewrite Hb, ?andb_false_r end; cbn; repeat split; reflexivity).
  all: try (match goal with |- context[c_queue ?c && c_batch ?c && c_timer ?c] => destruct (c_queue c && c_batch c && c_timer c) end; cbn; try lia; try reflexivity; try discriminate; repeat split; try reflexivity; fail).
  all: try (match goal with |- context[c_queue ?c] => destruct (c_queue c) end; cbn; try lia; reflexivity).
  all: try (match goal with |- context[c_persist ?c] => destruct (c_persist c) end; reflexivity).
Qed.

Lemma run_inv c : forall ls s s', Inv c s -> run c s ls = Some s' -> Inv c s'.
Proof.
  induction ls as [|l ls IH]; intros s s' I H; simpl in H.
  - injection H as <-. assumption.
  - destruct (step c s l) eqn:E; [|discriminate]. eapply IH; [eapply step_inv; eassumption | eassumption].
Qed.

Lemma reachable_inv c s : reachable c s -> Inv c s.
Proof. intros [ls H]. eapply run_inv; [apply init_inv | eassumption]. Qed.
