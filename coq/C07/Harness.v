(* C07/Harness.v — comparison of the concrete model with what the Go harness observed.
   case = (program, per-step observation); the observation of a step is
     (result code, [(handle, value of the whole handle read back through the public getters)],
      [(handle, path, field, cap)] capacities of struct slices read in-package). *)
From Verif Require Export Common.Base C07.Val C07.Model.

Definition obs := (nat * list (nat * vrow) * list (nat * path * nat * nat))%type.
Definition case := (list op * list obs)%type.

Definition check_val (st : cstate) (x : nat * vrow) : bool :=
  match row_of st (fst x) with
  | Some r => vrow_eqb (abs_row r) (snd x)
  | None => false
  end.
Definition check_cap (st : cstate) (x : nat * path * nat * nat) : bool :=
  let '(h, p, j, c) := x in
  match opt_bind (row_of st h) (fun r => opt_bind (cget r p) (fun q => nth_error q j)) with
  | Some s => Nat.eqb (cs_cap s) c
  | None => false
  end.
Fixpoint check_run (st : cstate) (p : list op) (os : list obs) : bool :=
  match p, os with
  | [], [] => true
  | o :: p', (code, vals, caps) :: os' =>
      let '(st1, c) := cstep pmetric_schema st o in
      Nat.eqb c code && forallb (check_val st1) vals && forallb (check_cap st1) caps && check_run st1 p' os'
  | _, _ => false
  end.
Definition check_case (c : case) : bool := check_run cstate0 (fst c) (snd c).

(* model output for replay files: result codes and final values of all handles *)
Definition model_out (c : case) : list nat * list vrow :=
  let '(st, codes) := run_c pmetric_schema cstate0 (fst c) in
  (codes, map (fun h => abs_row (h_row h)) (s_hs st)).

(* debugging aid for replays: index of the first step whose observation the model does not reproduce *)
Fixpoint first_bad (st : cstate) (p : list op) (os : list obs) (i : nat) : option (nat * nat * list vrow) :=
  match p, os with
  | o :: p', (code, vals, caps) :: os' =>
      let '(st1, c) := cstep pmetric_schema st o in
      if Nat.eqb c code && forallb (check_val st1) vals && forallb (check_cap st1) caps
      then first_bad st1 p' os' (S i)
      else Some (i, c, map (fun h => abs_row (h_row h)) (s_hs st1))
  | _, _ => None
  end.

(* ---- the property checked on the OBSERVED behaviour, without the concrete step function ---------------------
   spec_ok replays the program on the PURE interpreter (values only, CopyTo = assignment: the statement of the
   property) and compares every observation with it: result codes and the values of the handles the harness
   read back.  Capacities are ignored (they are not part of the property).  It does not use cstep. *)
Definition check_aval (st : astate) (x : nat * vrow) : bool :=
  match arow_of st (fst x) with
  | Some r => vrow_eqb r (snd x)
  | None => false
  end.
Fixpoint spec_run (st : astate) (p : list op) (os : list obs) : bool :=
  match p, os with
  | [], [] => true
  | o :: p', (code, vals, _) :: os' =>
      let '(st1, c) := astep pmetric_schema st o in
      Nat.eqb c code && forallb (check_aval st1) vals && spec_run st1 p' os'
  | _, _ => false
  end.
Definition spec_ok (c : case) : bool := spec_run [] (fst c) (snd c).

(* which clause is violated first: (step index, clause id, handle whose value is not the specified one)
   clause ids: 1 copy-equals-source, 2 move (transfers / source empty), 3 move-and-append, 4 remove-if, 5 sort,
   6 read-only (panic expected or data changed), 7 append / put / set / ensure-capacity / from-raw (local operation
   result), 8 independence (a handle the step must not touch changed), 9 new handle not empty, 0 result code *)
Definition clause_of (o : op) : nat :=
  match o with
  | OCopySlot _ _ _ _ _ _ _ => 1 | OCopyRow _ _ _ _ _ => 1
  | OMoveSlot _ _ _ _ _ _ => 2 | OMoveRow _ _ _ _ _ => 2
  | OMoveAppend _ _ _ _ _ _ _ => 3
  | OLocal _ _ (LRemoveIf _ _) => 4
  | OLocal _ _ (LSort _ _) => 5
  | OLocal _ _ _ => 7
  | ONew _ => 9
  | OReadOnly _ => 6
  end.
Definition op_writes (o : op) (h : nat) : bool :=
  match o with
  | ONew _ => false | OReadOnly _ => false
  | OLocal h' _ _ => Nat.eqb h' h
  | OCopySlot _ _ _ _ h2 _ _ => Nat.eqb h2 h
  | OCopyRow _ _ _ h2 _ => Nat.eqb h2 h
  | OMoveSlot h1 _ _ h2 _ _ => Nat.eqb h1 h || Nat.eqb h2 h
  | OMoveRow _ h1 _ h2 _ => Nat.eqb h1 h || Nat.eqb h2 h
  | OMoveAppend _ h1 _ _ h2 _ _ => Nat.eqb h1 h || Nat.eqb h2 h
  end.
Fixpoint spec_verdict_from (st : astate) (p : list op) (os : list obs) (i : nat) : option (nat * nat * nat) :=
  match p, os with
  | o :: p', (code, vals, _) :: os' =>
      let '(st1, c) := astep pmetric_schema st o in
      if negb (Nat.eqb c code) then Some (i, (if Nat.eqb c 1 || Nat.eqb code 1 then 6 else 0), 0)
      else match filter (fun x => negb (check_aval st1 x)) vals with
           | x :: _ => Some (i, (if Nat.eqb c 1 then 6 else if op_writes o (fst x) then clause_of o else 8), fst x)
           | [] => spec_verdict_from st1 p' os' (S i)
           end
  | _, _ => None
  end.
Definition spec_verdict (c : case) : option (nat * nat * nat) := spec_verdict_from [] (fst c) (snd c) 0.

(* what the driver evaluates on every case in ONE pass: the concrete model reproduces the observation (values, codes,
   capacities) AND the observation conforms to the pure semantics; props/C07/check.py then asks spec_verdict on the failing ones *)
Definition check_both (c : case) : bool := check_case c && spec_ok c.
