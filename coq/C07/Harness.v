(* C07/Harness.v — comparison of the concrete model with what the Go harness observed.
   case = (program, per-step observation); the observation of a step is
     (result code, [(handle, value of the whole handle read back through the public getters)],
      [(handle, path, field, cap)] capacities of struct slices read in-package). *)
From Verif Require Export Common.Base C07.Val C07.Model.

Definition obs := (nat * list (nat * vrow) * list (nat * path * nat * nat))%type.
Definition case := (list op * list obs)%type.

Definition check_val (st : cstate) (x : nat * vrow) : bool :=
  match row_of st (fst x) with
  | Some r => vrow_eqb (abs_row r) (snd x)
  | None => false
  end.
Definition check_cap (st : cstate) (x : nat * path * nat * nat) : bool :=
  let '(h, p, j, c) := x in
  match opt_bind (row_of st h) (fun r => opt_bind (cget r p) (fun q => nth_error q j)) with
  | Some s => Nat.eqb (cs_cap s) c
  | None => false
  end.
Fixpoint check_run (st : cstate) (p : list op) (os : list obs) : bool :=
  match p, os with
  | [], [] => true
  | o :: p', (code, vals, caps) :: os' =>
      let '(st1, c) := cstep pmetric_schema st o in
      Nat.eqb c code && forallb (check_val st1) vals && forallb (check_cap st1) caps && check_run st1 p' os'
  | _, _ => false
  end.
Definition check_case (c : case) : bool := check_run cstate0 (fst c) (snd c).

(* model output for replay files: result codes and final values of all handles *)
Definition model_out (c : case) : list nat * list vrow :=
  let '(st, codes) := run_c pmetric_schema cstate0 (fst c) in
  (codes, map (fun h => abs_row (h_row h)) (s_hs st)).

(* debugging aid for replays: index of the first step whose observation the model does not reproduce *)
Fixpoint first_bad (st : cstate) (p : list op) (os : list obs) (i : nat) : option (nat * nat * list vrow) :=
  match p, os with
  | o :: p', (code, vals, caps) :: os' =>
      let '(st1, c) := cstep pmetric_schema st o in
      if Nat.eqb c code && forallb (check_val st1) vals && forallb (check_cap st1) caps
      then first_bad st1 p' os' (S i)
      else Some (i, c, map (fun h => abs_row (h_row h)) (s_hs st1))
  | _, _ => None
  end.
