(* C07/Val.v — the SPECIFICATION level: pure values with value semantics by construction.

   A pdata value is a tree.  A row is the list of the fields (slots) of one message struct
   (inline sub-structs such as ResourceLogs.Resource are flattened into their parent row).
     VP z        scalar field (ints, enums, strings and ids are all abstracted to Z)
     VI tag z    immutable boxed scalar: optional field / oneof-of-primitives / scalar AnyValue
                 (tag 0 = unset / empty)
     VR r        reference to one row: element of a slice of pointers, oneof-of-messages,
                 container AnyValue (tag says which alternative); None = nil
     VS rows     slice of rows (generated slices of both flavours, pcommon.Map = rows [key; value],
                 pcommon.Slice = rows [value], primitive slices = rows [VP z])
   Executable Gallina only. *)
From Verif Require Import Common.Base.

Inductive vslot :=
| VP (z : Z)
| VI (tag : nat) (z : Z)
| VR (r : option (nat * list vslot))
| VS (rows : list (list vslot)).
Definition vrow := list vslot.

(* ---- schema: what pdatagen knows about a message struct ------------------------------------ *)
Inductive sty :=
| TP                    (* primitive field: dest.SetX(ms.X()) *)
| TI                    (* optional primitive / oneof of primitives: copied only when set in the source *)
| TSl (n : nat)         (* slice whose elements are rows of row type n (slice.go.tmpl, Map, Slice) *)
| TPs                   (* primitive slice (primitive_slice.go.tmpl): rows [TP] *)
| TPtr (n : nat)        (* *struct n — the element of a slice of pointers *)
| TOne (ns : list nat)  (* oneof of messages: tag i>0 refers to a row of type (nth (i-1) ns) *)
| TAny.                 (* otlpcommon.AnyValue *)
Definition schema := list (list sty).
Definition rowty (sc : schema) (n : nat) : list sty := nth n sc [].

(* fixed prefix of every schema (the common types) *)
Definition RT_ANY := 0.     (* [TAny]        element of pcommon.Slice            *)
Definition RT_KV := 1.      (* [TP; TAny]    element of pcommon.Map (KeyValue)   *)
Definition RT_KVL := 2.     (* [TSl RT_KV]   AnyValue_KvlistValue -> KeyValueList *)
Definition RT_ARR := 3.     (* [TSl RT_ANY]  AnyValue_ArrayValue -> ArrayValue    *)
Definition RT_BYTES := 4.   (* [TPs]         AnyValue_BytesValue                  *)
Definition RT_PRIM := 5.    (* [TP]          element of a primitive slice         *)
Definition common_schema : schema :=
  [[TAny]; [TP; TAny]; [TSl RT_KV]; [TSl RT_ANY]; [TPs]; [TP]].
Definition any_rowty (tag : nat) : nat := tag - 3.   (* tags 5,6,7 -> row types 2,3,4 *)

Definition vzero_slot (t : sty) : vslot :=
  match t with
  | TP => VP 0
  | TI => VI 0 0
  | TSl _ => VS []
  | TPs => VS []
  | TPtr _ => VR None
  | TOne _ => VR None
  | TAny => VI 0 0
  end.
Definition vzero_row (sc : schema) (n : nat) : vrow := map vzero_slot (rowty sc n).

(* ---- structural equality -------------------------------------------------------------------- *)
Fixpoint vslot_eqb (a b : vslot) {struct a} : bool :=
  match a, b with
  | VP x, VP y => Z.eqb x y
  | VI t x, VI u y => Nat.eqb t u && Z.eqb x y
  | VR None, VR None => true
  | VR (Some (t, r)), VR (Some (u, q)) =>
      Nat.eqb t u &&
      (fix go (r q : list vslot) {struct r} : bool :=
         match r, q with
         | [], [] => true
         | x :: r', y :: q' => vslot_eqb x y && go r' q'
         | _, _ => false
         end) r q
  | VS rs, VS qs =>
      (fix gos (rs qs : list (list vslot)) {struct rs} : bool :=
         match rs, qs with
         | [], [] => true
         | r :: rs', q :: qs' =>
             (fix go (r q : list vslot) {struct r} : bool :=
                match r, q with
                | [], [] => true
                | x :: r', y :: q' => vslot_eqb x y && go r' q'
                | _, _ => false
                end) r q && gos rs' qs'
         | _, _ => false
         end) rs qs
  | _, _ => false
  end.
Definition vrow_eqb (r q : vrow) : bool := list_eqb vslot_eqb r q.

(* ---- paths ---------------------------------------------------------------------------------- *)
Inductive pstep :=
| PS (j i : nat)    (* field j is a slice; go to its element i (i < len) *)
| PR (j : nat).     (* field j is a reference; go to the row it points to *)
Definition path := list pstep.

Fixpoint upd {A} (l : list A) (n : nat) (x : A) : list A :=
  match l, n with
  | [], _ => []
  | _ :: t, 0 => x :: t
  | y :: t, S n' => y :: upd t n' x
  end.

(* sub-row at a path *)
Fixpoint aget (r : vrow) (p : path) : option vrow :=
  match p with
  | [] => Some r
  | PS j i :: p' =>
      match nth_error r j with
      | Some (VS rows) => match nth_error rows i with Some r' => aget r' p' | None => None end
      | _ => None
      end
  | PR j :: p' =>
      match nth_error r j with
      | Some (VR (Some (_, r'))) => aget r' p'
      | _ => None
      end
  end.

(* replace the sub-row at a path by (f sub-row) *)
Fixpoint aupd (r : vrow) (p : path) (f : vrow -> option vrow) : option vrow :=
  match p with
  | [] => f r
  | PS j i :: p' =>
      match nth_error r j with
      | Some (VS rows) =>
          match nth_error rows i with
          | Some r' => match aupd r' p' f with
                       | Some r'' => Some (upd r j (VS (upd rows i r'')))
                       | None => None
                       end
          | None => None
          end
      | _ => None
      end
  | PR j :: p' =>
      match nth_error r j with
      | Some (VR (Some (t, r'))) =>
          match aupd r' p' f with
          | Some r'' => Some (upd r j (VR (Some (t, r''))))
          | None => None
          end
      | _ => None
      end
  end.

Definition aget_slot (r : vrow) (p : path) (j : nat) : option vslot :=
  match aget r p with Some r' => nth_error r' j | None => None end.
Definition aset_slot (r : vrow) (p : path) (j : nat) (f : vslot -> option vslot) : option vrow :=
  aupd r p (fun r' => match nth_error r' j with
                      | Some s => match f s with Some s' => Some (upd r' j s') | None => None end
                      | None => None
                      end).

(* ---- pure list operations (what the property's words mean) ------------------------------------ *)
Fixpoint remove_mask {A} (l : list A) (mask : list bool) : list A :=
  match l with
  | [] => []
  | x :: l' => match mask with
               | true :: m' => remove_mask l' m'
               | false :: m' => x :: remove_mask l' m'
               | [] => x :: remove_mask l' []
               end
  end.

Fixpoint insert_by {A} (key : A -> Z) (x : A) (l : list A) : list A :=
  match l with
  | [] => [x]
  | y :: l' => if Z.ltb (key x) (key y) then x :: l else y :: insert_by key x l'
  end.
(* stable insertion sort: equal keys keep their order (what sort.SliceStable with less = key< yields) *)
Definition sort_by {A} (key : A -> Z) (l : list A) : list A := fold_left (fun acc x => insert_by key x acc) l [].

(* sort key of a slice element: field k of the struct the element row points to (slices of pointers) *)
Definition vkey (k : nat) (r : vrow) : Z :=
  match r with
  | VR (Some (_, q)) :: _ => match nth_error q k with Some (VP z) => z | _ => 0%Z end
  | _ => 0%Z
  end.

Definition vrow_key (r : vrow) : Z := match r with VP z :: _ => z | _ => 0%Z end.
Fixpoint find_idx {A} (f : A -> bool) (l : list A) : option nat :=
  match l with
  | [] => None
  | x :: l' => if f x then Some 0 else option_map S (find_idx f l')
  end.
(* Map.Remove: the found entry is overwritten by the last one, the last one is dropped *)
Definition swap_remove {A} (i : nat) (l : list A) : list A :=
  match rev l with
  | [] => []
  | lst :: _ => if Nat.eqb i (length l - 1) then removelast l else upd (removelast l) i lst
  end.
