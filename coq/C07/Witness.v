(* C07/Witness.v — non-vacuity examples; the regression inputs of the repaired defects, evaluated on the
   model of the code as it is now and on the models of the old rules (what each fix bought). *)
From Verif Require Import Common.Base C07.Val C07.Model C07.Proofs C07.Proofs2 C07.Harness C07.Proofs3.

(* capacity re-use: map with 3 entries, one removed, then a 3-entry map copied into it (the old F7
   scenario), then both sides mutated *)
Definition w_prog : list op :=
  [ONew 2; ONew 2;
   OLocal 0 [] (LPut 0 1 2 10 1); OLocal 0 [] (LPut 0 2 2 20 2); OLocal 0 [] (LPut 0 3 2 30 4);
   OLocal 1 [] (LPut 0 7 2 70 1); OLocal 1 [] (LPut 0 8 2 80 2); OLocal 1 [] (LPut 0 9 2 90 4);
   OLocal 1 [] (LMapRemove 0 7);
   OCopySlot (TSl 1) 0 [] 0 1 [] 0;
   OLocal 1 [PS 0 1] (LSetI 1 2 99); OLocal 0 [] (LMapRemove 0 3)].
Example w_prog_runs :
  map a_row (fst (run_a common_schema [] w_prog)) =
  [[VS [[VP 1; VI 2 10]; [VP 2; VI 2 20]]]; [VS [[VP 1; VI 2 10]; [VP 2; VI 2 99]; [VP 3; VI 2 30]]]]%Z
  /\ snd (run_c common_schema cstate0 w_prog) = repeat 0 12.
Proof. vm_compute. split; reflexivity. Qed.

(* regression inputs of the repaired C07-COPYUNSET (fix ad68bfbbc): a HistogramDataPoint without Sum copied
   into one with Sum; the same through a slice that re-uses a stale element behind len *)
Definition w_copyunset : list op :=
  [ONew 7; ONew 7; OLocal 1 [] (LSetI 8 1 3); OCopyRow 7 0 [] 1 []].
Example copyunset_now_equal :
  let st := fst (run_c pmetric_schema cstate0 w_copyunset) in
  snd (run_c pmetric_schema cstate0 w_copyunset) = [0; 0; 0; 0] /\
  option_map abs_row (row_of st 1) = option_map abs_row (row_of st 0).
Proof. vm_compute. split; reflexivity. Qed.
Definition w_copyunset_slice : list op :=
  [ONew 22; ONew 22; ONew 22;
   OLocal 0 [] (LAppend 0 8 1); OLocal 0 [PS 0 0; PR 0] (LSetI 8 1 5);
   OCopySlot (TSl 8) 1 [] 0 0 [] 0;
   OLocal 2 [] (LAppend 0 8 1);
   OCopySlot (TSl 8) 2 [] 0 0 [] 0].
Example copyunset_slice_now_equal :
  let st := fst (run_c pmetric_schema cstate0 w_copyunset_slice) in
  option_map abs_row (row_of st 0) = option_map abs_row (row_of st 2).
Proof. vm_compute. reflexivity. Qed.
(* ... under the OLD field rule the destination kept its value and differed from the source *)
Example copyunset_old_rule_differs :
  option_map abs_slot (ccopy_old_field TI (CI 0 0) (CI 1 3%Z)) = Some (VI 1 3%Z) /\
  abs_slot (CI 0 0) <> VI 1 3%Z /\
  option_map abs_slot (ccopy_old_field (TOne [11]) (CR None) (CR (Some (5, 1, [])))) = Some (VR (Some (1, []))).
Proof. vm_compute. repeat split. discriminate. Qed.

(* old RemoveIf (before fix f97fa66cc): the vacated tail was not cleared.  [1;2;3] minus the first
   leaves the object of the last element reachable from TWO array entries: an address occurs twice,
   and the separation invariant sep (Proofs2.v: preserved by every step of the CURRENT code) is broken. *)
Definition cremove_if_old (s : cslot) (mask : list bool) : cslot :=
  match s with
  | CS (Some (a, live, tail)) =>
      let live' := remove_mask live mask in
      CS (Some (a, live', skipn (length live') live ++ tail))
  | _ => s
  end.
Definition w_three : cslot :=
  CS (Some (1, [[CR (Some (2, 0, [CP 1]))]; [CR (Some (3, 0, [CP 2]))]; [CR (Some (4, 0, [CP 3]))]], [])).
Example old_remove_if_aliases :
  count_occ Nat.eq_dec (ids_slot (cremove_if_old w_three [true; false; false])) 4 = 2 /\
  count_occ Nat.eq_dec (ids_slot (cremove_if w_three [true; false; false])) 4 = 1.
Proof. vm_compute. split; reflexivity. Qed.

(* read-only: hypotheses of readonly_total are satisfiable *)
Example w_readonly :
  let st := fst (run_c common_schema cstate0 [ONew 2; OReadOnly 0]) in
  ro st 0 = true /\ writes (OLocal 0 [] (LPut 0 1 2 10 1)) 0 /\
  cstep common_schema st (OLocal 0 [] (LPut 0 1 2 10 1)) = (st, 1).
Proof. vm_compute. repeat split. Qed.

(* the hypotheses of store_is_structural_update are satisfiable: after w_prog the second entry of handle 1
   is an object-free row, the map itself (slot 0 of the root row) is the object with address ... *)
Example w_store_hyps :
  let st := fst (run_c common_schema cstate0 w_prog) in
  exists r s a, row_of st 1 = Some r /\ cget r [] = Some r /\ nth_error r 0 = Some s /\ addr_of s = Some a /\ a <> 0.
Proof. vm_compute. eexists. eexists. eexists. repeat split; try reflexivity. discriminate. Qed.
(* the addresses of the two handles after w_prog (capacity re-use, a removed entry, a copy) are distinct *)
Example w_prog_ids : all_ids (fst (run_c common_schema cstate0 w_prog)) = [3; 6].
Proof. vm_compute. reflexivity. Qed.

(* non-vacuity of the history theorems: a program none of whose steps writes handle 0 (hypothesis of independent_forever),
   two diverging paths (hypothesis of independent_within_handle), an observed case that conforms (spec_ok) and one that
   does not (what C07-m12 produced: AppendEmpty resurrecting a stale element) *)
Example w_no_write_0 : Forall (fun o => ~ writes o 0) [OLocal 1 [] (LPut 0 1 2 10 1); OCopySlot (TSl 1) 0 [] 0 1 [] 0].
Proof. repeat constructor; simpl; discriminate. Qed.
Example w_diverge : diverge [PS 0 0; PR 0] [PS 0 1; PR 0] = true /\ diverge [PS 0 0] [PS 0 0; PR 0] = false.
Proof. split; reflexivity. Qed.
Example w_spec_ok :
  spec_ok ([ONew 3; OLocal 0 [] (LAppend 0 0 1)], [(0, [(0, [VS []])], []); (0, [(0, [VS [[VI 0 0]]])], [])]) = true /\
  spec_ok ([ONew 3; OLocal 0 [] (LAppend 0 0 1)], [(0, [(0, [VS []])], []); (0, [(0, [VS [[VI 2 7]]])], [])]) = false /\
  spec_verdict ([ONew 3; OLocal 0 [] (LAppend 0 0 1)], [(0, [(0, [VS []])], []); (0, [(0, [VS [[VI 2 7]]])], [])]) = Some (1, 7, 0).
Proof. vm_compute. repeat split. Qed.

(* observe on a real program: the record is not empty (12 steps, both handles after every step, one capacity) and is what
   the harness would have recorded; the checker accepts it, and rejects it as soon as one observed value is changed *)
Definition w_sels := repeat ([0; 1], [(1, @nil pstep, 0)]) 12.
Example w_observe :
  length (observe cstate0 w_prog w_sels) = 12 /\
  nth 9 (observe cstate0 w_prog w_sels) (0, [], []) =
    (0, [(0, [VS [[VP 1%Z; VI 2 10%Z]; [VP 2%Z; VI 2 20%Z]; [VP 3%Z; VI 2 30%Z]]]);
         (1, [VS [[VP 1%Z; VI 2 10%Z]; [VP 2%Z; VI 2 20%Z]; [VP 3%Z; VI 2 30%Z]]])],
        [(1, [], 0, 4)]) /\
  spec_ok (w_prog, observe cstate0 w_prog w_sels) = true /\
  spec_ok (w_prog, (0, [(0, [VS [[VP 5%Z]]])], []) :: tl (observe cstate0 w_prog w_sels)) = false.
Proof. vm_compute. repeat split. Qed.

(* nil versus empty bytes (visible on the wire, not through the getters): Map.PutEmptyBytes USED TO store a NIL slice,
   Value.CopyTo always allocates (make([]byte, 0) is not nil): the copy of a nil bytes value is an EMPTY NON-NIL one.
   The values are equal for abs (both read as an empty bytes value) but the canonical protobuf encodings differ
   (the marshaller omits bytes_value for a nil slice): that was finding C07-PUTEMPTYBYTES-NIL, repaired by 0d56d0db7. *)
Example copy_of_nil_bytes_is_not_nil :
  (* regression input of the repaired C07-PUTEMPTYBYTES-NIL (0d56d0db7): a NIL bytes value, which PutEmptyBytes used to store *)
  ccopy common_schema TAny (CR (Some (0, 7, [CS None]))) (CI 0 0) = CR (Some (0, 7, [cempty_bytes])) /\
  abs_slot (ccopy common_schema TAny (CR (Some (0, 7, [CS None]))) (CI 0 0)) = abs_slot (CR (Some (0, 7, [CS None]))) /\
  (* now PutEmptyBytes stores the empty non-nil slice, and its copy is the same object shape *)
  mk_any common_schema 7 0 = CR (Some (0, 7, [cempty_bytes])) /\
  ccopy common_schema TAny (mk_any common_schema 7 0) (CI 0 0) = mk_any common_schema 7 0.
Proof. vm_compute. repeat split. Qed.

(* arbitrary start contents: a map with a nested map and bytes, and a slice of two maps; the loaded state abstracts to
   exactly these values and its addresses are pairwise distinct *)
Example w_arbitrary :
  let vs := [(2, [VS [[VP 1%Z; VR (Some (5, [VS [[VP 2%Z; VI 2 7%Z]]]))]; [VP 3%Z; VR (Some (7, [VS [[VP 9%Z]]]))]]]);
             (3, [VS [[VR (Some (5, [VS []]))]; [VR (Some (5, [VS [[VP 4%Z; VI 1 1%Z]]]))]]])] in
  map a_row (abs_state (cload_all cstate0 vs)) = map snd vs /\
  all_ids (cload_all cstate0 vs) = [1; 2; 3; 4; 5; 6; 7; 8; 9].
Proof. vm_compute. split; reflexivity. Qed.

(* a move inside one payload: rename the attribute 1 -> 9 of a map (m.Get(1).MoveTo(m.PutEmpty(9))): code 0, the new key
   holds the old value, the old key holds an empty value; and the guard: a slot cannot be moved into itself or into its own content *)
Example w_move_within :
  let p := [ONew 2; OLocal 0 [] (LPut 0 1 2 10 1); OLocal 0 [] (LPut 0 9 0 0 2); OMoveSlot 0 [PS 0 0] 1 0 [PS 0 1] 1] in
  snd (run_c common_schema cstate0 p) = [0; 0; 0; 0] /\
  map a_row (fst (run_a common_schema [] p)) = [[VS [[VP 1; VI 0 0]; [VP 9; VI 2 10]]]]%Z /\
  sdiverge [PS 0 0] 1 [PS 0 1] 1 = true /\ sdiverge [PS 0 0] 1 [PS 0 0] 1 = false /\ sdiverge [] 0 [PS 0 0; PR 1] 0 = false.
Proof. vm_compute. repeat split. Qed.
