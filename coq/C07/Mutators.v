(* C07/Mutators.v — instance obligation over the generated mutator table (re-read from the current
   source on every run): every mutator of every data-model type starts with AssertMutable. *)
From Coq Require Import List String Bool.
From Verif Require Import Generated.C07PdataMutators.
Lemma all_mutators_guarded_l : all_mutators_guarded = true.
Proof. vm_compute. reflexivity. Qed.
Lemma table_not_empty_l : 400 <= n_mutators.
Proof. vm_compute. repeat constructor. Qed.
