(* C07/Proofs3.v — the observation checker spec_ok (Harness.v) is exactly "the observed behaviour conforms to the
   pure interpreter", i.e. to the statement of the property; clause-level consequences. *)
From Verif Require Import Common.Base C07.Val C07.Model C07.Proofs C07.Harness.

Section vslot_induction.
  Variable P : vslot -> Prop.
  Hypothesis HP : forall z, P (VP z).
  Hypothesis HI : forall t z, P (VI t z).
  Hypothesis HRN : P (VR None).
  Hypothesis HR : forall t r, Forall P r -> P (VR (Some (t, r))).
  Hypothesis HS : forall rows, Forall (Forall P) rows -> P (VS rows).
  Fixpoint vslot_ind' (s : vslot) : P s :=
    match s with
    | VP z => HP z
    | VI t z => HI t z
    | VR None => HRN
    | VR (Some (t, r)) =>
        HR t r ((fix go (r : list vslot) : Forall P r :=
                   match r with [] => Forall_nil _ | x :: r' => Forall_cons _ (vslot_ind' x) (go r') end) r)
    | VS rows =>
        HS rows ((fix gos (rs : list (list vslot)) : Forall (Forall P) rs :=
          match rs with
          | [] => Forall_nil _
          | r :: rs' => Forall_cons _ ((fix go (r : list vslot) : Forall P r :=
                     match r with [] => Forall_nil _ | x :: r' => Forall_cons _ (vslot_ind' x) (go r') end) r) (gos rs')
          end) rows)
    end.
End vslot_induction.

Lemma list_eqb_Forall {A} (eqb : A -> A -> bool) l1 :
  Forall (fun x => forall y, eqb x y = true <-> x = y) l1 ->
  forall l2, list_eqb eqb l1 l2 = true <-> l1 = l2.
Proof.
  induction 1 as [|x l1 Hx _ IH]; intros [|y l2]; simpl; try (split; congruence).
  rewrite andb_true_iff, Hx, IH. split; [intros [-> ->]; reflexivity|intros E; inversion E; auto].
Qed.

Lemma vslot_eqb_spec a : forall b, vslot_eqb a b = true <-> a = b.
Proof.
  induction a as [z|t z| |t r IH|rows IH] using vslot_ind'; intros b; destruct b as [z'|t' z'|[[t' r']|]|rows']; simpl;
    try (split; congruence).
  - rewrite Z.eqb_eq. split; congruence.
  - rewrite andb_true_iff, Nat.eqb_eq, Z.eqb_eq. split; [intros [-> ->]; reflexivity|intros E; inversion E; auto].
  - rewrite andb_true_iff, Nat.eqb_eq.
    assert (G : forall q, (fix go (r q : list vslot) {struct r} : bool :=
               match r, q with
               | [], [] => true
               | x :: r', y :: q' => vslot_eqb x y && go r' q'
               | _, _ => false
               end) r q = true <-> r = q).
    { clear t t'. induction IH as [|x r Hx _ IHr]; intros [|y q]; try (split; congruence).
      rewrite andb_true_iff, Hx, IHr. split; [intros [-> ->]; reflexivity|intros E; inversion E; auto]. }
    rewrite G. split; [intros [-> ->]; reflexivity|intros E; inversion E; auto].
  - assert (G : forall qs, (fix gos (rs qs : list (list vslot)) {struct rs} : bool :=
               match rs, qs with
               | [], [] => true
               | r :: rs', q :: qs' =>
                   (fix go (r q : list vslot) {struct r} : bool :=
                      match r, q with
                      | [], [] => true
                      | x :: r', y :: q' => vslot_eqb x y && go r' q'
                      | _, _ => false
                      end) r q && gos rs' qs'
               | _, _ => false
               end) rows qs = true <-> rows = qs).
    { induction IH as [|r rows Hr _ IHrs]; intros [|q qs]; try (split; congruence).
      rewrite andb_true_iff, IHrs.
      assert (Gr : forall q, (fix go (r q : list vslot) {struct r} : bool :=
               match r, q with
               | [], [] => true
               | x :: r', y :: q' => vslot_eqb x y && go r' q'
               | _, _ => false
               end) r q = true <-> r = q).
      { clear - Hr. induction Hr as [|x r Hx _ IHr]; intros [|y q]; try (split; congruence).
        rewrite andb_true_iff, Hx, IHr. split; [intros [-> ->]; reflexivity|intros E; inversion E; auto]. }
      rewrite Gr. split; [intros [-> ->]; reflexivity|intros E; inversion E; auto]. }
    rewrite G. split; congruence.
Qed.

Lemma vrow_eqb_spec a b : vrow_eqb a b = true <-> a = b.
Proof. unfold vrow_eqb. apply list_eqb_Forall. apply Forall_forall. intros x _. apply vslot_eqb_spec. Qed.

(* the observed behaviour CONFORMS to the property's pure semantics: same result code at every step, and every
   value that was read back is the value the pure interpreter holds for that handle *)
Inductive Conforms : astate -> list op -> list obs -> Prop :=
| conf_nil st : Conforms st [] []
| conf_step st o p code vals caps os st1 :
    astep pmetric_schema st o = (st1, code) ->
    (forall h r, In (h, r) vals -> arow_of st1 h = Some r) ->
    Conforms st1 p os ->
    Conforms st (o :: p) ((code, vals, caps) :: os).

Lemma check_aval_spec st h r : check_aval st (h, r) = true <-> arow_of st h = Some r.
Proof.
  unfold check_aval. simpl. destruct (arow_of st h) as [r0|]; [|split; discriminate].
  rewrite vrow_eqb_spec. split; congruence.
Qed.

Lemma spec_run_sound p : forall st os, spec_run st p os = true <-> Conforms st p os.
Proof.
  induction p as [|o p IH]; intros st [|[[code vals] caps] os]; simpl.
  - split; [constructor|auto].
  - split; [discriminate|intros H; inversion H].
  - split; [discriminate|intros H; inversion H].
  - destruct (astep pmetric_schema st o) as [st1 c] eqn:E. rewrite !andb_true_iff, Nat.eqb_eq, forallb_forall, IH. split.
    + intros [[-> Hv] Hc]. econstructor; eauto. intros h r Hin. apply check_aval_spec. apply (Hv (h, r) Hin).
    + intros H. inversion H; subst. rewrite E in H5. inversion H5; subst. repeat split; auto.
      intros [h r] Hin. apply check_aval_spec. auto.
Qed.

Theorem spec_ok_sound_l c : spec_ok c = true <-> Conforms [] (fst c) (snd c).
Proof. apply spec_run_sound. Qed.

(* ---- clauses over whole histories ------------------------------------------------------------------------------------- *)
Lemma writes_dec o h : {writes o h} + {~ writes o h}.
Proof.
  destruct o; simpl; try (right; tauto); try apply Nat.eq_dec;
    destruct (Nat.eq_dec h1 h); destruct (Nat.eq_dec h2 h); tauto.
Qed.

Lemma row_of_valid st h : row_of st h <> None <-> nth_error (s_hs st) h <> None.
Proof. unfold row_of. destruct (nth_error (s_hs st) h); simpl; split; congruence. Qed.

(* "later mutation of either side, or of any other value, never changes the other": whatever program runs later, as long
   as none of its steps writes handle h, h keeps its value *)
Lemma independent_run sc p : forall st h, nth_error (s_hs st) h <> None ->
  Forall (fun o => ~ writes o h) p -> row_of (fst (run_c sc st p)) h = row_of st h.
Proof.
  induction p as [|o p IH]; intros st h Hv Hp; simpl; auto.
  inversion Hp; subst. pose proof (frame_step sc st o h Hv H1) as F.
  destruct (cstep sc st o) as [st1 c] eqn:E. simpl in F.
  assert (Hv1 : nth_error (s_hs st1) h <> None) by (apply row_of_valid; rewrite F; apply row_of_valid; exact Hv).
  specialize (IH st1 h Hv1 H2). destruct (run_c sc st1 p) as [st2 cs]. simpl in *. congruence.
Qed.

(* "once a payload is marked read-only ... without changing anything": after the mark NO program whatsoever changes the
   value of that handle (steps that write it panic and leave the state as it is, the others do not touch it) *)
Lemma readonly_run sc p : forall st h, ro st h = true ->
  row_of (fst (run_c sc st p)) h = row_of st h /\ ro (fst (run_c sc st p)) h = true.
Proof.
  induction p as [|o p IH]; intros st h Hro; simpl; auto.
  assert (Hv : nth_error (s_hs st) h <> None) by (unfold ro in Hro; destruct (nth_error (s_hs st) h); congruence).
  assert (S1 : row_of (fst (cstep sc st o)) h = row_of st h).
  { destruct (writes_dec o h) as [W|W]; [rewrite (readonly_step sc st o h Hro W); reflexivity|apply frame_step; auto]. }
  pose proof (readonly_sticky sc st o h Hro) as S2.
  destruct (cstep sc st o) as [st1 c]. simpl in *. destruct (IH st1 h S2) as [I1 I2].
  destruct (run_c sc st1 p) as [st2 cs]. simpl in *. split; congruence.
Qed.

(* "while all readers keep working": reading is a function of the values only, and marking read-only changes no value *)
Lemma mark_readonly_keeps_values sc st h h' : nth_error (s_hs st) h' <> None ->
  row_of (fst (cstep sc st (OReadOnly h))) h' = row_of st h'.
Proof. intros Hv. apply frame_step; auto. Qed.

(* independence INSIDE one handle: an update at path p2 is invisible at a path p1 that diverges from it (neither is a
   prefix of the other), e.g. the source and the destination of a CopyTo between two elements of one payload *)
Lemma nth_error_upd_other {A} (l : list A) i k x : i <> k -> nth_error (upd l i x) k = nth_error l k.
Proof. intros H. rewrite nth_error_upd. apply Nat.eqb_neq in H. now rewrite H. Qed.

Lemma cget_cupd_diverge p1 : forall p2 r f r', diverge p1 p2 = true -> cupd r p2 f = Some r' -> cget r' p1 = cget r p1.
Proof.
  induction p1 as [|[j i|j] q1 IH]; intros [|[j' i'|j'] q2] r f r' Hd Hu; simpl in Hd; try discriminate; simpl in Hu.
  - (* PS / PS *)
    destruct (nth_error r j') as [[| | |[[[a live] tail]|]]|] eqn:Ej; try discriminate.
    destruct (nth_error live i') as [r0|] eqn:Ei; try discriminate.
    destruct (cupd r0 q2 f) as [r0'|] eqn:Eu; try discriminate. inversion Hu; subst. simpl.
    destruct (Nat.eqb j j') eqn:Ejj.
    + apply Nat.eqb_eq in Ejj. subst j'. rewrite (nth_error_upd_same _ _ _ _ Ej), Ej.
      destruct (Nat.eqb i i') eqn:Eii.
      * apply Nat.eqb_eq in Eii. subst i'. rewrite (nth_error_upd_same _ _ _ _ Ei), Ei. simpl in Hd. eapply IH; eauto.
      * apply Nat.eqb_neq in Eii. rewrite nth_error_upd_other by auto. reflexivity.
    + apply Nat.eqb_neq in Ejj. rewrite nth_error_upd_other by auto. reflexivity.
  - (* PS / PR *)
    destruct (nth_error r j') as [[| |[[[a t] r0]|]|]|] eqn:Ej; try discriminate.
    destruct (cupd r0 q2 f) as [r0'|] eqn:Eu; try discriminate. inversion Hu; subst. simpl.
    apply negb_true_iff, Nat.eqb_neq in Hd. rewrite nth_error_upd_other by auto. reflexivity.
  - (* PR / PS *)
    destruct (nth_error r j') as [[| | |[[[a live] tail]|]]|] eqn:Ej; try discriminate.
    destruct (nth_error live i') as [r0|] eqn:Ei; try discriminate.
    destruct (cupd r0 q2 f) as [r0'|] eqn:Eu; try discriminate. inversion Hu; subst. simpl.
    apply negb_true_iff, Nat.eqb_neq in Hd. rewrite nth_error_upd_other by auto. reflexivity.
  - (* PR / PR *)
    destruct (nth_error r j') as [[| |[[[a t] r0]|]|]|] eqn:Ej; try discriminate.
    destruct (cupd r0 q2 f) as [r0'|] eqn:Eu; try discriminate. inversion Hu; subst. simpl.
    destruct (Nat.eqb j j') eqn:Ejj.
    + apply Nat.eqb_eq in Ejj. subst j'. rewrite (nth_error_upd_same _ _ _ _ Ej), Ej. eapply IH; eauto.
    + apply Nat.eqb_neq in Ejj. rewrite nth_error_upd_other by auto. reflexivity.
Qed.

(* ---- the checker accepts everything the MODEL produces ------------------------------------------------------------------
   observe builds the observed-case record from the model's own run the way the harness builds it from the
   implementation's: per step the result code, the values (read through abs) of a selection of handles — the harness
   selects the written handles, and all handles after the last step; here ANY selection per step — and capacity
   observations of a selection of slots. *)
Definition obs_vals (st : cstate) (sel : list nat) : list (nat * vrow) :=
  flat_map (fun h => match row_of st h with Some r => [(h, abs_row r)] | None => [] end) sel.
Definition obs_caps (st : cstate) (sel : list (nat * path * nat)) : list (nat * path * nat * nat) :=
  flat_map (fun x => let '(h, p, j) := x in
              match opt_bind (row_of st h) (fun r => opt_bind (cget r p) (fun q => nth_error q j)) with
              | Some s => [(h, p, j, cs_cap s)]
              | None => []
              end) sel.
Fixpoint observe (st : cstate) (p : list op) (sels : list (list nat * list (nat * path * nat))) : list obs :=
  match p with
  | [] => []
  | o :: p' =>
      let '(st1, c) := cstep pmetric_schema st o in
      (c, obs_vals st1 (fst (hd ([], []) sels)), obs_caps st1 (snd (hd ([], []) sels))) :: observe st1 p' (tl sels)
  end.

Lemma vrow_eqb_refl r : vrow_eqb r r = true.
Proof. now apply vrow_eqb_spec. Qed.

Lemma obs_vals_spec_ok st sel : forallb (check_aval (abs_state st)) (obs_vals st sel) = true.
Proof.
  apply forallb_forall. intros [h r] Hin. unfold obs_vals in Hin. apply in_flat_map in Hin. destruct Hin as (h0 & _ & Hin).
  destruct (row_of st h0) as [r0|] eqn:E; simpl in Hin; [|contradiction]. destruct Hin as [Heq|[]]. inversion Heq; subst.
  unfold check_aval. simpl. rewrite row_of_abs, E. simpl. apply vrow_eqb_refl.
Qed.
Lemma obs_vals_model_ok st sel : forallb (check_val st) (obs_vals st sel) = true.
Proof.
  apply forallb_forall. intros [h r] Hin. unfold obs_vals in Hin. apply in_flat_map in Hin. destruct Hin as (h0 & _ & Hin).
  destruct (row_of st h0) as [r0|] eqn:E; simpl in Hin; [|contradiction]. destruct Hin as [Heq|[]]. inversion Heq; subst.
  unfold check_val. simpl. rewrite E. apply vrow_eqb_refl.
Qed.
Lemma obs_caps_model_ok st sel : forallb (check_cap st) (obs_caps st sel) = true.
Proof.
  apply forallb_forall. intros [[[h p] j] c] Hin. unfold obs_caps in Hin. apply in_flat_map in Hin.
  destruct Hin as ([[h0 p0] j0] & _ & Hin).
  destruct (opt_bind (row_of st h0) _) as [s|] eqn:E; simpl in Hin; [|contradiction]. destruct Hin as [Heq|[]]. inversion Heq; subst.
  unfold check_cap. rewrite E. apply Nat.eqb_refl.
Qed.

(* the pure-semantics checker accepts the model's own observations: for EVERY program, start state and selection *)
Lemma model_passes_spec p : forall st sels, spec_run (abs_state st) p (observe st p sels) = true.
Proof.
  induction p as [|o p IH]; intros st sels; simpl; auto.
  pose proof (cstep_refines pmetric_schema st o) as R.
  destruct (cstep pmetric_schema st o) as [st1 c] eqn:E. simpl in R. simpl. rewrite R.
  rewrite Nat.eqb_refl, obs_vals_spec_ok, IH. reflexivity.
Qed.
(* ... and so does the concrete-model checker (trivially: the model against itself), hence check_both *)
Lemma model_passes_check_run p : forall st sels, check_run st p (observe st p sels) = true.
Proof.
  induction p as [|o p IH]; intros st sels; simpl; auto.
  destruct (cstep pmetric_schema st o) as [st1 c] eqn:E. simpl.
  rewrite Nat.eqb_refl, obs_vals_model_ok, obs_caps_model_ok, IH. reflexivity.
Qed.

Lemma spec_verdict_none p : forall st os i, spec_run st p os = true -> spec_verdict_from st p os i = None.
Proof.
  induction p as [|o p IH]; intros st os i H; destruct os as [|[[code vals] caps] os]; simpl in *; try discriminate; auto.
  destruct (astep pmetric_schema st o) as [st1 c]. apply andb_true_iff in H. destruct H as [H H3].
  apply andb_true_iff in H. destruct H as [H1 H2]. rewrite H1. simpl.
  assert (F : filter (fun x => negb (check_aval st1 x)) vals = []).
  { clear - H2. induction vals as [|x vals IHv]; simpl in *; auto. apply andb_true_iff in H2. destruct H2 as [A B].
    rewrite A. simpl. auto. }
  rewrite F. apply IH. exact H3.
Qed.

Theorem model_passes_checker_l p sels :
  spec_ok (p, observe cstate0 p sels) = true /\ check_both (p, observe cstate0 p sels) = true /\
  spec_verdict (p, observe cstate0 p sels) = None.
Proof.
  assert (S : spec_ok (p, observe cstate0 p sels) = true) by apply (model_passes_spec p cstate0 sels).
  split; [exact S|]. split.
  - unfold check_both, check_case. simpl. rewrite (model_passes_check_run p cstate0 sels). exact S.
  - apply spec_verdict_none. exact S.
Qed.

(* ---- moves INSIDE one handle (two diverging positions of one payload) ------------------------------------------------------ *)
Definition aslot (r : vrow) (p : path) (j : nat) : option vslot := opt_bind (aget r p) (fun q => nth_error q j).

(* writing the slot (p2, j2) does not change what is read at a slot (p1, j1) that diverges from it *)
Lemma aslot_aupd_sdiverge j1 j2 (f : vslot -> vslot) p1 : forall p2 r r', sdiverge p1 j1 p2 j2 = true ->
  aupd r p2 (on_slot j2 f) = Some r' -> aslot r' p1 j1 = aslot r p1 j1.
Proof.
  unfold aslot. induction p1 as [|s1 q1 IH]; intros [|s2 q2] r r' Hd Hu; simpl in Hd.
  - simpl in *. unfold on_slot in Hu. destruct (nth_error r j2) as [s|] eqn:E; inversion Hu; subst.
    apply negb_true_iff, Nat.eqb_neq in Hd. rewrite nth_error_upd_other; auto.
  - apply negb_true_iff, Nat.eqb_neq in Hd. simpl. destruct s2 as [j' i'|j']; simpl in Hu, Hd.
    + destruct (nth_error r j') as [[| | |rows]|] eqn:Ej; try discriminate.
      destruct (nth_error rows i') as [r0|] eqn:Ei; try discriminate. destruct (aupd r0 q2 _) as [r0'|]; inversion Hu; subst.
      rewrite nth_error_upd_other; auto.
    + destruct (nth_error r j') as [[| |[[t r0]|]|]|] eqn:Ej; try discriminate. destruct (aupd r0 q2 _) as [r0'|]; inversion Hu; subst.
      rewrite nth_error_upd_other; auto.
  - simpl in Hu. unfold on_slot in Hu. destruct (nth_error r j2) as [s|] eqn:E; inversion Hu; subst.
    destruct s1 as [j i|j]; simpl in *; apply negb_true_iff, Nat.eqb_neq in Hd; rewrite nth_error_upd_other; auto.
  - destruct s1 as [j i|j]; destruct s2 as [j' i'|j']; simpl in Hu, Hd.
    + destruct (nth_error r j') as [[| | |rows]|] eqn:Ej; try discriminate.
      destruct (nth_error rows i') as [r0|] eqn:Ei; try discriminate. destruct (aupd r0 q2 _) as [r0'|] eqn:Eu; inversion Hu; subst. simpl.
      destruct (Nat.eqb j j') eqn:Ejj.
      * apply Nat.eqb_eq in Ejj. subst j'. rewrite (nth_error_upd_same _ _ _ _ Ej), Ej.
        destruct (Nat.eqb i i') eqn:Eii.
        -- apply Nat.eqb_eq in Eii. subst i'. rewrite (nth_error_upd_same _ _ _ _ Ei), Ei. eapply IH; eauto.
        -- apply Nat.eqb_neq in Eii. rewrite nth_error_upd_other by auto. reflexivity.
      * apply Nat.eqb_neq in Ejj. rewrite nth_error_upd_other by auto. reflexivity.
    + apply negb_true_iff, Nat.eqb_neq in Hd.
      destruct (nth_error r j') as [[| |[[t r0]|]|]|] eqn:Ej; try discriminate. destruct (aupd r0 q2 _) as [r0'|]; inversion Hu; subst. simpl.
      rewrite nth_error_upd_other; auto.
    + apply negb_true_iff, Nat.eqb_neq in Hd.
      destruct (nth_error r j') as [[| | |rows]|] eqn:Ej; try discriminate.
      destruct (nth_error rows i') as [r0|] eqn:Ei; try discriminate. destruct (aupd r0 q2 _) as [r0'|]; inversion Hu; subst. simpl.
      rewrite nth_error_upd_other; auto.
    + destruct (nth_error r j') as [[| |[[t r0]|]|]|] eqn:Ej; try discriminate. destruct (aupd r0 q2 _) as [r0'|] eqn:Eu; inversion Hu; subst. simpl.
      destruct (Nat.eqb j j') eqn:Ejj.
      * apply Nat.eqb_eq in Ejj. subst j'. rewrite (nth_error_upd_same _ _ _ _ Ej), Ej. eapply IH; eauto.
      * apply Nat.eqb_neq in Ejj. rewrite nth_error_upd_other by auto. reflexivity.
Qed.

(* Value / Map / primitive-slice MoveTo between two diverging slots of ONE handle: the destination reads the old source, the
   source reads empty (the rename of an attribute, body -> attribute, element -> element of one slice ...) *)
Lemma a_move_slot_same sc st h p1 j1 p2 j2 st' :
  astep sc st (OMoveSlot h p1 j1 h p2 j2) = (st', 0) ->
  exists r r' s, arow_of st h = Some r /\ arow_of st' h = Some r' /\
                 aslot r p1 j1 = Some s /\ aslot r' p2 j2 = Some s /\ aslot r' p1 j1 = Some (vmoved s).
Proof.
  unfold astep. destruct (aro st h || aro st h); try discriminate. rewrite Nat.eqb_refl.
  destruct (sdiverge p1 j1 p2 j2) eqn:Hd; try discriminate. unfold asame.
  destruct (arow_of st h) as [r|] eqn:Er; try discriminate.
  destruct (opt_bind (aget r p1) _) as [s|] eqn:Es; try discriminate.
  destruct (aupd r p1 _) as [r1|] eqn:E1; simpl; try discriminate.
  destruct (aupd r1 p2 _) as [r2|] eqn:E2; try discriminate. intros H; inversion H; subst.
  exists r, r2, s. split; auto. split; [eapply arow_aset_same; eauto|]. split; [exact Es|]. fold (aslot r p1 j1) in Es.
  destruct (aupd_slot_read _ _ _ _ _ E2) as (d & _ & B2). destruct (aupd_slot_read _ _ _ _ _ E1) as (s0 & A1 & B1).
  unfold aslot in Es. rewrite Es in A1. inversion A1; subst s0. split; [exact B2|].
  rewrite (aslot_aupd_sdiverge j1 j2 (fun _ => s) p1 p2 r1 r2 Hd E2). exact B1.
Qed.
