(* C07/Proofs2.v — the separation invariant: no address occurs twice among all handles (live entries and
   stale entries behind len alike), every address is positive and below the allocation pointer. *)
From Verif Require Import Common.Base C07.Val C07.Model C07.Proofs.
From Coq Require Import Permutation.

Definition cnt (l : list nat) (a : nat) : nat := count_occ Nat.eq_dec l a.
Arguments cnt : simpl never.
Lemma cnt_nil a : cnt [] a = 0.
Proof. reflexivity. Qed.
Ltac liac := unfold crow in *; rewrite ?cnt_nil in *; lia.
Definition le_ids (l' l : list nat) : Prop := forall a, a <> 0 -> cnt l' a <= cnt l a.
Definition nz_free (l : list nat) : Prop := forall a, a <> 0 -> cnt l a = 0.

Lemma cnt_app l1 l2 a : cnt (l1 ++ l2) a = cnt l1 a + cnt l2 a.
Proof. apply count_occ_app. Qed.
Lemma cnt_cons x l a : cnt (x :: l) a = (if Nat.eq_dec x a then 1 else 0) + cnt l a.
Proof. unfold cnt. simpl. destruct (Nat.eq_dec x a); reflexivity. Qed.
Lemma cnt_in l a : In a l <-> 0 < cnt l a.
Proof. unfold cnt. rewrite (count_occ_In Nat.eq_dec). liac. Qed.
Lemma cnt_zero_head l a : a <> 0 -> cnt (0 :: l) a = cnt l a.
Proof. intros H. rewrite cnt_cons. destruct (Nat.eq_dec 0 a); [congruence|reflexivity]. Qed.

Lemma cnt_flat_upd {A} (g : A -> list nat) l i x y a : nth_error l i = Some y ->
  cnt (flat_map g (upd l i x)) a + cnt (g y) a = cnt (flat_map g l) a + cnt (g x) a.
Proof.
  revert i; induction l as [|z l IH]; intros [|i] H; simpl in *; try discriminate.
  - inversion H; subst. rewrite !cnt_app. liac.
  - rewrite !cnt_app. specialize (IH i H). liac.
Qed.
Lemma cnt_flat_skipn {A} (g : A -> list nat) k l a : cnt (flat_map g (skipn k l)) a <= cnt (flat_map g l) a.
Proof. revert l; induction k; intros [|x l]; simpl; auto. rewrite cnt_app. specialize (IHk l). liac. Qed.
Lemma cnt_flat_split {A} (g : A -> list nat) k l a :
  cnt (flat_map g (firstn k l)) a + cnt (flat_map g (skipn k l)) a = cnt (flat_map g l) a.
Proof. rewrite <- cnt_app, <- flat_map_app, firstn_skipn. reflexivity. Qed.
Lemma cnt_flat_repeat_nil k a : cnt (flat_map (flat_map ids_slot) (repeat [] k)) a = 0.
Proof. induction k; simpl; auto. Qed.
Lemma cnt_flat_remove_mask {A} (g : A -> list nat) l a : forall m, cnt (flat_map g (remove_mask l m)) a <= cnt (flat_map g l) a.
Proof.
  induction l as [|x l IH]; intros m; simpl; auto.
  destruct m as [|[] m]; simpl; rewrite ?cnt_app.
  - specialize (IH []). liac.
  - specialize (IH m). liac.
  - specialize (IH m). liac.
Qed.
Lemma cnt_flat_perm {A} (g : A -> list nat) l l' a : Permutation l l' -> cnt (flat_map g l) a = cnt (flat_map g l') a.
Proof. induction 1; simpl; rewrite ?cnt_app; liac. Qed.
Lemma cnt_flat_removelast {A} (g : A -> list nat) l x a :
  cnt (flat_map g (removelast (l ++ [x]))) a + cnt (g x) a = cnt (flat_map g (l ++ [x])) a.
Proof. rewrite removelast_last, flat_map_app, cnt_app. simpl. rewrite app_nil_r. liac. Qed.
Lemma cnt_flat_swap_remove {A} (g : A -> list nat) i l a : cnt (flat_map g (swap_remove i l)) a <= cnt (flat_map g l) a.
Proof.
  unfold swap_remove. destruct (rev l) as [|lst rl] eqn:E; [unfold cnt; simpl; liac|].
  assert (El : l = rev rl ++ [lst]) by (rewrite <- (rev_involutive l), E; reflexivity).
  clear E. subst l. pose proof (cnt_flat_removelast g (rev rl) lst a) as R. rewrite !removelast_last in *.
  destruct (Nat.eqb i _); [liac|].
  destruct (nth_error (rev rl) i) as [y|] eqn:Ei.
  - pose proof (cnt_flat_upd g (rev rl) i lst y a Ei). liac.
  - assert (U : upd (rev rl) i lst = rev rl).
    { clear - Ei. revert i Ei. induction (rev rl) as [|z q IH]; intros [|i] Ei; simpl in *; auto; try discriminate. now rewrite IH. }
    rewrite U. liac.
Qed.

Lemma ids_rows_eq l : ids_rows l = flat_map (flat_map ids_slot) l.
Proof. reflexivity. Qed.
Lemma ids_row_eq r : ids_row r = flat_map ids_slot r.
Proof. reflexivity. Qed.

Ltac nrm := unfold ids_rows in *; change ids_row with (flat_map ids_slot) in *; unfold crow in *.

(* ---- id-free things ---------------------------------------------------------------------------------------- *)
Lemma ids_zero_slot t : ids_slot (czero_slot t) = [].
Proof. destruct t; reflexivity. Qed.
Lemma ids_zero_row sc n : ids_row (czero_row sc n) = [].
Proof. unfold ids_row, czero_row. induction (rowty sc n); simpl; auto. now rewrite ids_zero_slot. Qed.
Lemma nz_new_elem sc n : nz_free (ids_row (cnew_elem sc n)).
Proof.
  intros a Ha. unfold cnew_elem.
  assert (Z : cnt (ids_row (czero_row sc n)) a = 0) by now rewrite ids_zero_row.
  destruct (rowty sc n) as [|t ts] eqn:E; [exact Z|].
  destruct t; try exact Z. destruct ts; try exact Z.
  unfold ids_row. simpl. rewrite app_nil_r, cnt_zero_head by auto.
  change (flat_map ids_slot (czero_row sc n0)) with (ids_row (czero_row sc n0)). now rewrite ids_zero_row.
Qed.
Lemma nz_mk_any sc tag z : nz_free (ids_slot (mk_any sc tag z)).
Proof.
  intros a Ha. unfold mk_any. destruct (Nat.ltb tag 5); [reflexivity|].
  destruct (Nat.eqb tag 7); [change (ids_slot (CR (Some (0, 7, [cempty_bytes])))) with [0; 0]; now rewrite !cnt_zero_head|].
  simpl. rewrite cnt_zero_head by auto.
  change (flat_map ids_slot (czero_row sc (any_rowty tag))) with (ids_row (czero_row sc (any_rowty tag))). now rewrite ids_zero_row.
Qed.
Lemma nz_prim_rows zs : nz_free (ids_rows (prim_rows zs)).
Proof. intros a Ha. unfold ids_rows, prim_rows. induction zs; simpl; auto. Qed.

Lemma nz_cfresh s : nz_free (ids_slot (cfresh s)).
Proof.
  induction s as [z|t z| |a t r IH| |a live tail IHl IHt] using cslot_ind'; intros b Hb; simpl; auto.
  - rewrite cnt_zero_head by auto. induction IH as [|x r Hx _ IHr]; simpl; auto. rewrite cnt_app, (Hx b Hb). exact IHr.
  - rewrite cnt_zero_head, app_nil_r by auto. induction IHl as [|r l Hr _ IHrs]; simpl; auto.
    rewrite cnt_app, IHrs. clear IHrs. induction Hr as [|x r Hx _ IHr]; simpl; auto. rewrite cnt_app, (Hx b Hb). exact IHr.
Qed.
Lemma nz_map_cfresh r : nz_free (flat_map ids_slot (map cfresh r)).
Proof. intros a Ha. induction r; simpl; auto. rewrite cnt_app, (nz_cfresh _ a Ha). exact IHr. Qed.
Lemma nz_rows_cfresh l : nz_free (flat_map (flat_map ids_slot) (map (map cfresh) l)).
Proof. intros a Ha. induction l; simpl; auto. rewrite cnt_app, (nz_map_cfresh _ a Ha). exact IHl. Qed.
Lemma nz_bytes_clone s : nz_free (ids_slot (cbytes_clone s)).
Proof.
  destruct s as [| |r|[[[b l] t]|]]; try apply nz_cfresh; intros a Ha.
  - change (ids_slot (cbytes_clone (CS (Some (b, l, t))))) with (0 :: flat_map (flat_map ids_slot) (map (map cfresh) l) ++ []).
    rewrite cnt_zero_head by auto. rewrite app_nil_r. now apply nz_rows_cfresh.
  - change (ids_slot (cbytes_clone (CS None))) with [0]. now rewrite cnt_zero_head.
Qed.
Lemma nz_map_bytes_clone r : nz_free (flat_map ids_slot (map cbytes_clone r)).
Proof. intros a Ha. induction r; simpl; auto. rewrite cnt_app, (nz_bytes_clone _ a Ha). exact IHr. Qed.

Lemma nz_mk_cs rows : nz_free (flat_map (flat_map ids_slot) rows) -> nz_free (ids_slot (mk_cs rows)).
Proof.
  intros H a Ha. destruct rows as [|r rows]; [reflexivity|]. unfold mk_cs.
  change (ids_slot (CS (Some (0, r :: rows, [])))) with (0 :: flat_map (flat_map ids_slot) (r :: rows) ++ []).
  rewrite cnt_zero_head, app_nil_r by auto. apply H; auto.
Qed.
Lemma nz_craw r : nz_free (ids_slot (craw r)).
Proof.
  induction r as [|t z|zs|kvs IH|l IH] using raw_ind'; intros a Ha; simpl; auto.
  - rewrite cnt_zero_head, app_nil_r by auto.
    destruct zs as [|z zs]; simpl; rewrite cnt_zero_head by auto; [reflexivity|]. rewrite app_nil_r.
    induction zs; simpl; auto.
  - rewrite cnt_zero_head, app_nil_r by auto. apply nz_mk_cs; auto. clear a Ha. intros a Ha.
    induction IH as [|kv kvs Hkv _ IHk]; simpl; auto. rewrite app_nil_r, cnt_app, (Hkv a Ha). exact IHk.
  - rewrite cnt_zero_head, app_nil_r by auto. apply nz_mk_cs; auto. clear a Ha. intros a Ha.
    induction IH as [|v l Hv _ IHk]; simpl; auto. rewrite app_nil_r, cnt_app, (Hv a Ha). exact IHk.
Qed.

(* ---- slot functions of the local operations take addresses only from the slot they replace ------------------ *)
Lemma ids_cs s : is_cs s = true ->
  forall a, a <> 0 -> cnt (ids_slot s) a =
    (if Nat.eq_dec (cs_addr s) a then 1 else 0) + cnt (ids_rows (cs_live s)) a + cnt (ids_rows (cs_tail s)) a.
Proof.
  destruct s as [| | |[[[b l] t]|]]; try discriminate; intros _ a Ha; simpl.
  - rewrite cnt_cons, cnt_app. nrm. liac.
  - unfold cnt. destruct a; [congruence|reflexivity].
Qed.

Lemma capp_le s rows c : is_cs s = true -> nz_free (ids_rows rows) -> le_ids (ids_slot (capp s rows c)) (ids_slot s).
Proof.
  intros Hs Hr a Ha. rewrite (ids_cs s Hs a Ha). unfold capp.
  destruct (Nat.eqb (length rows) 0); [rewrite (ids_cs s Hs a Ha); liac|].
  destruct (Nat.leb _ _); simpl; rewrite cnt_cons, cnt_app; nrm;
    rewrite flat_map_app, cnt_app, (Hr a Ha).
  - pose proof (cnt_flat_skipn (flat_map ids_slot) (length rows) (cs_tail s) a). liac.
  - rewrite cnt_flat_repeat_nil. destruct (Nat.eq_dec 0 a); [congruence|liac].
Qed.

Lemma prim_copy_le rows d : nz_free (ids_rows rows) -> le_ids (ids_slot (cprim_copy rows d)) (ids_slot d).
Proof.
  intros Hr a Ha. nrm. destruct d as [| | |[[[b dl] dt]|]]; simpl.
  1-3,5: destruct (_ =? 0); simpl; [unfold cnt; simpl; liac|rewrite cnt_zero_head, app_nil_r, (Hr a Ha) by auto; liac].
  destruct (Nat.leb _ _); simpl.
  - rewrite !cnt_cons, !cnt_app, (Hr a Ha). pose proof (cnt_flat_skipn (flat_map ids_slot) (length rows) (dl ++ dt) a) as K.
    rewrite flat_map_app, cnt_app in K. liac.
  - rewrite cnt_zero_head, app_nil_r, (Hr a Ha) by auto. liac.
Qed.

Lemma on_cs_le f s : (forall s, is_cs s = true -> le_ids (ids_slot (f s)) (ids_slot s)) -> le_ids (ids_slot (on_cs f s)) (ids_slot s).
Proof. intros H. destruct s as [| | |x]; try (intros a _; simpl; liac). apply (H (CS x)). reflexivity. Qed.

Lemma local_slot_le sc lo x x' : clocal sc lo x = Some x' -> le_ids (ids_row x') (ids_row x).
Proof.
  assert (G : forall j (f : cslot -> cslot), (forall s, le_ids (ids_slot (f s)) (ids_slot s)) ->
              on_slot j f x = Some x' -> le_ids (ids_row x') (ids_row x)).
  { intros j f Hf H a Ha. unfold on_slot in H. destruct (nth_error x j) as [s|] eqn:E; try discriminate.
    inversion H; subst. pose proof (cnt_flat_upd ids_slot x j (f s) s a E). specialize (Hf s a Ha).
    unfold ids_row. liac. }
  destruct lo; simpl; intros H; eapply G; try exact H; intros s; try (apply on_cs_le; clear s; intros s Hs).
  - intros a Ha. simpl. liac.
  - intros a Ha. simpl. liac.
  - intros a Ha. simpl. rewrite cnt_zero_head by auto.
    change (flat_map ids_slot (czero_row sc n)) with (ids_row (czero_row sc n)). rewrite ids_zero_row. simpl. liac.
  - intros a Ha. unfold censure. destruct (Nat.leb _ _); [liac|]. rewrite (ids_cs s Hs a Ha). simpl.
    rewrite cnt_zero_head, cnt_app, cnt_flat_repeat_nil by auto. nrm. liac.
  - apply capp_le; auto. intros a Ha. unfold ids_rows. simpl. rewrite app_nil_r. now apply nz_new_elem.
  - apply capp_le; auto. apply nz_prim_rows.
  - intros a Ha. destruct s as [| | |[[[b l] t]|]]; try discriminate; simpl. 2: liac.
    rewrite !cnt_cons, !cnt_app, flat_map_app, cnt_app, cnt_flat_repeat_nil.
    pose proof (cnt_flat_remove_mask (flat_map ids_slot) l a mask). liac.
  - intros a Ha. destruct s as [| | |[[[b l] t]|]]; try discriminate; simpl. 2: liac.
    rewrite !cnt_cons, !cnt_app. rewrite (cnt_flat_perm (flat_map ids_slot) _ l a (sort_by_perm _ l)). liac.
  - intros a Ha. simpl. liac.
  - unfold cmap_put. destruct (find_idx (key_is k) (cs_live s)) as [i|] eqn:Ef.
    + intros a Ha. destruct s as [| | |[[[b l] t]|]]; try discriminate; simpl.
      rewrite !cnt_cons, !cnt_app. destruct (nth_error l i) as [y|] eqn:Ei.
      * pose proof (cnt_flat_upd (flat_map ids_slot) l i [CP k; mk_any sc tag z] y a Ei) as U. simpl in U.
        rewrite app_nil_r in U. rewrite (nz_mk_any sc tag z a Ha) in U. liac.
      * assert (U : upd l i [CP k; mk_any sc tag z] = l).
        { clear - Ei. revert i Ei. induction l as [|q l IH]; intros [|i] Ei; simpl in *; auto; try discriminate. now rewrite IH. }
        rewrite U. liac.
    + apply capp_le; auto. intros a Ha. nrm. simpl. rewrite !app_nil_r. now apply nz_mk_any.
  - intros a Ha. unfold cmap_remove. destruct s as [| | |[[[b l] t]|]]; try discriminate; [|liac].
    destruct (find_idx (key_is k) l); [|liac]. simpl. rewrite !cnt_cons, !cnt_app.
    pose proof (cnt_flat_swap_remove (flat_map ids_slot) n l a). liac.
  - apply prim_copy_le. apply nz_prim_rows.
  - intros a Ha. simpl. rewrite cnt_zero_head, app_nil_r by auto.
    pose proof (prim_copy_le (prim_rows zs) cempty_bytes (nz_prim_rows zs) a Ha) as K. unfold cempty_bytes in K. change (ids_slot (CS (Some (0, [], [])))) with [0] in K. rewrite cnt_zero_head in K by auto. simpl in K. liac.
  - intros a Ha. simpl. rewrite !cnt_zero_head by auto. liac.
  - intros a Ha. rewrite (nz_craw r a Ha). lia.
  - intros a Ha. rewrite nz_mk_cs; auto; [lia|]. clear. intros a Ha.
    induction kvs as [|kv kvs IH]; simpl; auto. rewrite app_nil_r, cnt_app, (nz_craw (snd kv) a Ha). exact IH.
  - intros a Ha. rewrite nz_mk_cs; auto; [lia|]. clear. intros a Ha.
    induction l as [|v l IH]; simpl; auto. rewrite app_nil_r, cnt_app, (nz_craw v a Ha). exact IH.
Qed.

(* ---- CopyTo takes addresses only from the destination -------------------------------------------------------- *)
Lemma map3d_le (f : sty -> cslot -> cslot -> cslot) r :
  Forall (fun s => forall t d, le_ids (ids_slot (f t s d)) (ids_slot d)) r ->
  forall ts dr, le_ids (ids_row (map3d f czero_slot ts r dr)) (ids_row dr).
Proof.
  induction 1 as [|s r Hs _ IH]; intros ts dr a Ha; simpl; [liac|].
  unfold ids_row in *. simpl. rewrite cnt_app. specialize (IH (tl ts) (tl dr) a Ha).
  destruct dr as [|d dr]; simpl in *.
  - specialize (Hs (hd TP ts) (czero_slot (hd TP ts)) a Ha). rewrite ids_zero_slot in Hs. simpl in Hs. liac.
  - specialize (Hs (hd TP ts) d a Ha). rewrite cnt_app. liac.
Qed.
Lemma map2d_le (g : crow -> crow -> crow) live :
  Forall (fun r => forall d, le_ids (ids_row (g r d)) (ids_row d)) live ->
  forall dl, le_ids (ids_rows (map2d g [] live dl)) (ids_rows dl).
Proof.
  induction 1 as [|r l Hr _ IH]; intros dl a Ha; simpl; [liac|].
  unfold ids_rows in *. simpl. rewrite cnt_app. specialize (IH (tl dl) a Ha).
  destruct dl as [|d dl]; simpl in *.
  - specialize (Hr [] a Ha). simpl in Hr. liac.
  - specialize (Hr d a Ha). rewrite cnt_app. liac.
Qed.

Lemma cnt_cons1 x l a : cnt (x :: l) a = cnt [x] a + cnt l a.
Proof. change (x :: l) with ([x] ++ l). apply cnt_app. Qed.
Lemma bytes_addr_le d b : b <> 0 ->
  cnt [match d with CR (Some (a, 7, _)) => a | _ => 0 end] b <= cnt (ids_slot d) b.
Proof.
  intros Hb. destruct d as [| |[[[a' tg'] dr]|]|]; simpl; try (rewrite cnt_zero_head by auto; liac).
  do 7 (destruct tg' as [|tg']; try (rewrite cnt_zero_head by auto; liac)).
  destruct tg'; [|rewrite cnt_zero_head by auto; liac].
  rewrite (cnt_cons1 a' (flat_map ids_slot dr)). liac.
Qed.

Lemma ccopy_le sc : forall s t d, le_ids (ids_slot (ccopy sc t s d)) (ids_slot d).
Proof.
  assert (F : forall s d, le_ids (ids_slot (cfresh s)) (ids_slot d)) by (intros s d a Ha; rewrite (nz_cfresh s a Ha); liac).
  induction s as [z|tg z| |a tg r IH| |a live tail IHl IHt] using cslot_ind'; intros t d.
  - destruct t; apply (F (CP z)).
  - destruct t; apply (F (CI tg z)).
  - destruct t; apply (F (CR None)).
  - assert (R : forall ts dr, le_ids (ids_row (map3d (ccopy sc) czero_slot ts r dr)) (ids_row dr)) by (apply map3d_le; exact IH).
    assert (R0 : forall ts b, b <> 0 -> cnt (flat_map ids_slot (map3d (ccopy sc) czero_slot ts r [])) b = 0)
      by (intros ts b Hb; specialize (R ts [] b Hb); unfold ids_row in R; simpl in R; liac).
    destruct t; try apply (F (CR (Some (a, tg, r)))); simpl; intros b Hb.
    + destruct d as [| |[[[a' tg'] dr]|]|]; simpl; rewrite ?cnt_zero_head, ?R0 by auto; try liac.
      rewrite !cnt_cons. specialize (R (rowty sc n) dr b Hb). unfold ids_row in R. liac.
    + rewrite cnt_zero_head, R0 by auto. liac.
    + destruct (Nat.eqb tg 7); simpl.
      * rewrite cnt_cons1, (nz_map_bytes_clone r b Hb). pose proof (bytes_addr_le d b Hb). liac.
      * destruct d as [| |[[[a' tg'] dr]|]|]; simpl; rewrite ?cnt_zero_head, ?R0 by auto; try liac.
        destruct (Nat.eqb tg tg'); simpl; rewrite ?cnt_zero_head, ?R0 by auto; try liac.
        rewrite !cnt_cons. specialize (R (rowty sc (any_rowty tg)) dr b Hb). unfold ids_row in R. liac.
  - destruct t; try apply (F (CS None)); simpl.
    + destruct d as [| | |[[[a' dl] dt]|]]; intros b Hb; simpl; try liac.
      rewrite !cnt_cons, !cnt_app, flat_map_app, cnt_app. liac.
    + apply prim_copy_le. intros b Hb. reflexivity.
  - assert (R : forall n dl, le_ids (ids_rows (map2d (map3d (ccopy sc) czero_slot (rowty sc n)) [] live dl)) (ids_rows dl)).
    { intros n dl. apply map2d_le. eapply Forall_impl; [|exact IHl]. intros r Hr dr. apply map3d_le. exact Hr. }
    assert (R0 : forall n b, b <> 0 -> cnt (flat_map (flat_map ids_slot) (map2d (map3d (ccopy sc) czero_slot (rowty sc n)) [] live [])) b = 0)
      by (intros n b Hb; specialize (R n [] b Hb); nrm; simpl in R; liac).
    destruct t; try apply (F (CS (Some (a, live, tail)))); simpl.
    + intros b Hb. destruct d as [| | |[[[a' dl] dt]|]]; simpl;
        try (destruct (Nat.eqb (length live) 0); simpl; [liac|rewrite cnt_zero_head, app_nil_r, R0 by auto; liac]).
      destruct (Nat.leb _ _); simpl.
      * rewrite !cnt_cons, !cnt_app. specialize (R n (firstn (length live) (dl ++ dt)) b Hb).
        pose proof (cnt_flat_split (flat_map ids_slot) (length live) (dl ++ dt) b) as K.
        rewrite flat_map_app, cnt_app in K. nrm. liac.
      * rewrite cnt_zero_head, app_nil_r, R0 by auto. liac.
    + apply prim_copy_le. apply nz_rows_cfresh.
Qed.

Lemma ccopy_row_le sc ts s d : le_ids (ids_row (ccopy_row sc ts s d)) (ids_row d).
Proof. unfold ccopy_row. apply map3d_le. apply Forall_forall. intros x _ t d0. apply ccopy_le. Qed.

(* ---- fresh addresses --------------------------------------------------------------------------------------------- *)
Fixpoint relabl (n : nat) (l : list nat) : list nat * nat :=
  match l with
  | [] => ([], n)
  | a :: l' => let '(a', n1) := fresh_addr n a in let '(l'', n2) := relabl n1 l' in (a' :: l'', n2)
  end.

Lemma relabl_app l1 : forall n l2,
  relabl n (l1 ++ l2) = (fst (relabl n l1) ++ fst (relabl (snd (relabl n l1)) l2), snd (relabl (snd (relabl n l1)) l2)).
Proof.
  induction l1 as [|a l1 IH]; intros n l2; simpl.
  - destruct (relabl n l2); reflexivity.
  - destruct (fresh_addr n a) as [a' n1]. rewrite IH. destruct (relabl n1 l1) as [x n2]. simpl.
    destruct (relabl n2 l2); reflexivity.
Qed.

Lemma mapacc_relabl {A} (f : nat -> A -> A * nat) (g : A -> list nat) l :
  Forall (fun x => forall n, g (fst (f n x)) = fst (relabl n (g x)) /\ snd (f n x) = snd (relabl n (g x))) l ->
  forall n, flat_map g (fst (mapacc f n l)) = fst (relabl n (flat_map g l)) /\
            snd (mapacc f n l) = snd (relabl n (flat_map g l)).
Proof.
  induction 1 as [|x l Hx _ IH]; intros n; simpl; [split; reflexivity|].
  destruct (Hx n) as [H1 H2]. destruct (f n x) as [y n1]. simpl in *.
  destruct (IH n1) as [I1 I2]. destruct (mapacc f n1 l) as [ys n2]. simpl in *.
  rewrite relabl_app. simpl. rewrite <- H2, <- H1, <- I1, <- I2. split; reflexivity.
Qed.

Lemma relab_ids s : forall n,
  ids_slot (fst (relab n s)) = fst (relabl n (ids_slot s)) /\ snd (relab n s) = snd (relabl n (ids_slot s)).
Proof.
  induction s as [z|t z| |a t r IH| |a live tail IHl IHt] using cslot_ind'; intros n; simpl; try (split; reflexivity).
  - destruct (fresh_addr n a) as [a' n1].
    destruct (mapacc_relabl relab ids_slot r IH n1) as [M1 M2].
    destruct (mapacc relab n1 r) as [r' n2]. simpl in *.
    destruct (relabl n1 (flat_map ids_slot r)) as [l2 n2']. simpl in *. subst. split; reflexivity.
  - destruct (fresh_addr n a) as [a' n1].
    assert (RL : forall rows, Forall (Forall (fun s => forall n, ids_slot (fst (relab n s)) = fst (relabl n (ids_slot s)) /\
                                                   snd (relab n s) = snd (relabl n (ids_slot s)))) rows ->
                 forall m, flat_map (flat_map ids_slot) (fst (mapacc (mapacc relab) m rows)) = fst (relabl m (flat_map (flat_map ids_slot) rows)) /\
                           snd (mapacc (mapacc relab) m rows) = snd (relabl m (flat_map (flat_map ids_slot) rows))).
    { intros rows Hrows. apply mapacc_relabl. eapply Forall_impl; [|exact Hrows]. intros q Hq m. now apply mapacc_relabl. }
    destruct (RL live IHl n1) as [L1 L2]. destruct (mapacc (mapacc relab) n1 live) as [live' n2]. simpl in *.
    destruct (RL tail IHt n2) as [T1 T2]. destruct (mapacc (mapacc relab) n2 tail) as [tail' n3]. simpl in *.
    rewrite relabl_app. simpl. rewrite <- L2, <- L1, <- T1, <- T2. split; reflexivity.
Qed.

Lemma relab_row_ids r n :
  ids_row (fst (relab_row n r)) = fst (relabl n (ids_row r)) /\ snd (relab_row n r) = snd (relabl n (ids_row r)).
Proof. apply (mapacc_relabl relab ids_slot). apply Forall_forall. intros x _ m. apply relab_ids. Qed.

Lemma cnt_notin l a : ~ In a l -> cnt l a = 0.
Proof. intros H. destruct (cnt l a) eqn:E; auto. exfalso. apply H. apply cnt_in. lia. Qed.

Lemma relabl_spec l : forall n, 0 < n -> (forall a, In a l -> a <> 0 -> a < n) ->
  n <= snd (relabl n l) /\
  (forall a, In a (fst (relabl n l)) -> 0 < a < snd (relabl n l)) /\
  (forall a, a <> 0 -> a < n -> cnt (fst (relabl n l)) a = cnt l a) /\
  (forall a, n <= a -> cnt (fst (relabl n l)) a <= 1).
Proof.
  induction l as [|x l IH]; intros n Hn Hb; simpl.
  - repeat split; auto; try contradiction; intros; rewrite ?cnt_nil; lia.
  - unfold fresh_addr. destruct (Nat.eqb x 0) eqn:Ex.
    + apply Nat.eqb_eq in Ex. subst x.
      assert (Hb' : forall a, In a l -> a <> 0 -> a < S n) by (intros a Ha Hz; specialize (Hb a (or_intror Ha) Hz); lia).
      destruct (IH (S n) (Nat.lt_0_succ n) Hb') as (I1 & I2 & I3 & I4).
      destruct (relabl (S n) l) as [l' n']. simpl in *.
      assert (Hnl : cnt l n = 0).
      { apply cnt_notin. intros Hin. specialize (Hb n (or_intror Hin)). lia. }
      repeat split.
      * lia.
      * destruct H as [<-|H]; [lia|apply (I2 a H)].
      * destruct H as [<-|H]; [lia|apply (I2 a H)].
      * intros a Ha Hlt. rewrite !cnt_cons. destruct (Nat.eq_dec n a); [lia|]. destruct (Nat.eq_dec 0 a); [lia|].
        rewrite I3 by lia. reflexivity.
      * intros a Hle. rewrite cnt_cons. destruct (Nat.eq_dec n a) as [<-|Hne].
        -- rewrite I3 by lia. lia.
        -- specialize (I4 a). lia.
    + apply Nat.eqb_neq in Ex.
      assert (Hx : x < n) by (apply Hb; [left; reflexivity|exact Ex]).
      assert (Hb' : forall a, In a l -> a <> 0 -> a < n) by (intros a Ha Hz; apply Hb; [right; exact Ha|exact Hz]).
      destruct (IH n Hn Hb') as (I1 & I2 & I3 & I4).
      destruct (relabl n l) as [l' n']. simpl in *.
      repeat split.
      * lia.
      * destruct H as [<-|H]; [lia|apply (I2 a H)].
      * destruct H as [<-|H]; [lia|apply (I2 a H)].
      * intros a Ha Hlt. rewrite !cnt_cons, I3 by auto. reflexivity.
      * intros a Hle. rewrite cnt_cons. destruct (Nat.eq_dec x a); [lia|]. specialize (I4 a). lia.
Qed.

(* ---- updates at a path: exact accounting of addresses ----------------------------------------------------------------- *)
Lemma cupd_cnt p : forall r f r', cupd r p f = Some r' ->
  exists x x', cget r p = Some x /\ f x = Some x' /\
    forall a, cnt (ids_row r') a + cnt (ids_row x) a = cnt (ids_row r) a + cnt (ids_row x') a.
Proof.
  induction p as [|[j i|j] p IH]; intros r f r' H; simpl in *.
  - exists r, r'. repeat split; auto. intros a. lia.
  - destruct (nth_error r j) as [[| | |[[[a0 live] tail]|]]|] eqn:Ej; try discriminate.
    destruct (nth_error live i) as [r0|] eqn:Ei; try discriminate.
    destruct (cupd r0 p f) as [r0'|] eqn:Eu; try discriminate. inversion H; subst.
    destruct (IH _ _ _ Eu) as (x & x' & A & B & C). exists x, x'. repeat split; auto. intros a.
    pose proof (cnt_flat_upd ids_slot r j (CS (Some (a0, upd live i r0', tail))) _ a Ej) as U1.
    pose proof (cnt_flat_upd (flat_map ids_slot) live i r0' _ a Ei) as U2.
    specialize (C a). simpl in U1. rewrite !cnt_cons, !cnt_app in U1. nrm. liac.
  - destruct (nth_error r j) as [[| |[[[a0 t] r0]|]|]|] eqn:Ej; try discriminate.
    destruct (cupd r0 p f) as [r0'|] eqn:Eu; try discriminate. inversion H; subst.
    destruct (IH _ _ _ Eu) as (x & x' & A & B & C). exists x, x'. repeat split; auto. intros a.
    pose proof (cnt_flat_upd ids_slot r j (CR (Some (a0, t, r0'))) _ a Ej) as U1.
    specialize (C a). simpl in U1. rewrite !cnt_cons in U1. nrm. liac.
Qed.

Lemma on_slot_cnt j (g : cslot -> cslot) x x' : on_slot j g x = Some x' ->
  exists s, nth_error x j = Some s /\
    forall a, cnt (ids_row x') a + cnt (ids_slot s) a = cnt (ids_row x) a + cnt (ids_slot (g s)) a.
Proof.
  unfold on_slot. destruct (nth_error x j) as [s|] eqn:E; try discriminate. intros H; inversion H; subst.
  exists s. split; auto. intros a. apply (cnt_flat_upd ids_slot x j (g s) s a E).
Qed.

Lemma cupd_le p r f r' : (forall x x', f x = Some x' -> le_ids (ids_row x') (ids_row x)) ->
  cupd r p f = Some r' -> le_ids (ids_row r') (ids_row r).
Proof.
  intros Hf H a Ha. destruct (cupd_cnt _ _ _ _ H) as (x & x' & _ & B & C). specialize (Hf _ _ B a Ha). specialize (C a). lia.
Qed.
Lemma on_slot_le j (g : cslot -> cslot) x x' : (forall s, le_ids (ids_slot (g s)) (ids_slot s)) ->
  on_slot j g x = Some x' -> le_ids (ids_row x') (ids_row x).
Proof. intros Hg H a Ha. destruct (on_slot_cnt _ _ _ _ H) as (s & _ & C). specialize (Hg s a Ha). specialize (C a). lia. Qed.

(* ---- the invariant ------------------------------------------------------------------------------------------------------ *)
Definition all_ids (st : cstate) : list nat := flat_map (fun h => ids_row (h_row h)) (s_hs st).
(* every address is positive and below the allocation pointer *)
Definition bounded (st : cstate) : Prop := 0 < s_next st /\ forall a, In a (all_ids st) -> 0 < a < s_next st.
(* ... and no address occurs twice: two positions of the unfolding (in any handles, live or behind len)
   never denote the same Go object *)
Definition sep (st : cstate) : Prop := bounded st /\ forall a, cnt (all_ids st) a <= 1.

Lemma sep_NoDup st : sep st -> NoDup (all_ids st).
Proof. intros [_ H]. apply (NoDup_count_occ Nat.eq_dec). exact H. Qed.

Lemma row_of_nth st h r : row_of st h = Some r -> exists hd, nth_error (s_hs st) h = Some hd /\ h_row hd = r.
Proof. unfold row_of. destruct (nth_error (s_hs st) h) as [hd|]; simpl; intros H; inversion H. eauto. Qed.

Lemma set_row_spec st h r r0 : bounded st -> row_of st h = Some r0 ->
  (forall a, In a (ids_row r) -> a <> 0 -> a < s_next st) ->
  bounded (set_row st h r) /\ s_next st <= s_next (set_row st h r) /\
  (forall a, a <> 0 -> a < s_next st ->
     cnt (all_ids (set_row st h r)) a + cnt (ids_row r0) a = cnt (all_ids st) a + cnt (ids_row r) a) /\
  (forall a, s_next st <= a -> cnt (all_ids (set_row st h r)) a <= 1).
Proof.
  intros [Hn Hb] Hr Hin. destruct (row_of_nth _ _ _ Hr) as (hd & E & Ehd). unfold set_row. rewrite E.
  destruct (relab_row_ids r (s_next st)) as [R1 R2].
  destruct (relabl_spec (ids_row r) (s_next st) Hn Hin) as (S1 & S2 & S3 & S4).
  destruct (relab_row (s_next st) r) as [r' n']. simpl in R1, R2. rewrite <- R1, <- R2 in *. clear R1 R2.
  assert (U : forall a, cnt (all_ids (mkS n' (upd (s_hs st) h (mkH (h_ro hd) (h_ty hd) r')))) a + cnt (ids_row r0) a =
                        cnt (all_ids st) a + cnt (ids_row r') a).
  { intros a. unfold all_ids. simpl.
    pose proof (cnt_flat_upd (fun h => ids_row (h_row h)) (s_hs st) h (mkH (h_ro hd) (h_ty hd) r') hd a E) as U.
    simpl in U. rewrite Ehd in U. exact U. }
  assert (Hold : forall a, s_next st <= a -> cnt (all_ids st) a = 0).
  { intros a Ha. apply cnt_notin. intros Hi. specialize (Hb a Hi). lia. }
  simpl. repeat split; simpl.
  - lia.
  - apply cnt_in in H. specialize (U a).
    destruct (Nat.eq_dec (cnt (ids_row r') a) 0) as [Z|Z].
    + assert (In a (all_ids st)) by (apply cnt_in; lia). specialize (Hb a H0). lia.
    + assert (In a (ids_row r')) by (apply cnt_in; lia). specialize (S2 a H0). lia.
  - apply cnt_in in H. specialize (U a).
    destruct (Nat.eq_dec (cnt (ids_row r') a) 0) as [Z|Z].
    + assert (In a (all_ids st)) by (apply cnt_in; lia). specialize (Hb a H0). lia.
    + assert (In a (ids_row r')) by (apply cnt_in; lia). specialize (S2 a H0). lia.
  - exact S1.
  - intros a Ha Hlt. rewrite (U a), (S3 a Ha Hlt). reflexivity.
  - intros a Ha. specialize (U a). rewrite (Hold a Ha) in U. specialize (S4 a Ha). lia.
Qed.

Lemma bounded_cnt0 st : bounded st -> cnt (all_ids st) 0 = 0.
Proof. intros [_ Hb]. apply cnt_notin. intros Hi. specialize (Hb 0 Hi). lia. Qed.

Lemma le_bounded st r r0 h : bounded st -> row_of st h = Some r0 ->
  (forall a, a <> 0 -> 0 < cnt (ids_row r) a -> 0 < cnt (ids_row r0) a + cnt (all_ids st) a) ->
  forall a, In a (ids_row r) -> a <> 0 -> a < s_next st.
Proof.
  intros [_ Hb] Hr H a Hi Ha. apply cnt_in in Hi. specialize (H a Ha Hi).
  destruct (row_of_nth _ _ _ Hr) as (hd & E & Ehd).
  assert (In a (all_ids st)).
  { destruct (Nat.eq_dec (cnt (all_ids st) a) 0) as [Z|Z]; [|apply cnt_in; lia].
    unfold all_ids. apply in_flat_map. exists hd. split; [eapply nth_error_In; eauto|]. rewrite Ehd. apply cnt_in. lia. }
  specialize (Hb a H0). lia.
Qed.

(* one handle rewritten with a row whose addresses all come from the old row (or are fresh) *)
Lemma sep_single st h r r0 : sep st -> row_of st h = Some r0 -> le_ids (ids_row r) (ids_row r0) -> sep (set_row st h r).
Proof.
  intros [Hbd Hc] Hr Hle.
  assert (Hin : forall a, In a (ids_row r) -> a <> 0 -> a < s_next st).
  { apply (le_bounded st r r0 h Hbd Hr). intros a Ha Hp. specialize (Hle a Ha). lia. }
  destruct (set_row_spec st h r r0 Hbd Hr Hin) as (B & N & C1 & C2). split; auto.
  intros a. destruct (Nat.eq_dec a 0) as [->|Ha]; [rewrite bounded_cnt0 by auto; lia|].
  destruct (Nat.lt_ge_cases a (s_next st)) as [Hlt|Hge].
  - specialize (C1 a Ha Hlt). specialize (Hle a Ha). specialize (Hc a). lia.
  - apply C2. exact Hge.
Qed.

(* two distinct handles rewritten, the addresses of the two new rows together come from the two old rows *)
Lemma sep_move st h1 h2 r1 r2 r10 r20 : sep st -> h1 <> h2 ->
  row_of st h1 = Some r10 -> row_of st h2 = Some r20 ->
  (forall a, a <> 0 -> cnt (ids_row r1) a + cnt (ids_row r2) a <= cnt (ids_row r10) a + cnt (ids_row r20) a) ->
  sep (set_row (set_row st h2 r2) h1 r1).
Proof.
  intros [Hbd Hc] Hne Hr1 Hr2 Hle.
  destruct (row_of_nth _ _ _ Hr1) as (hd1 & E1 & Ehd1). destruct (row_of_nth _ _ _ Hr2) as (hd2 & E2 & Ehd2).
  assert (Hall : forall a r0 hd h, nth_error (s_hs st) h = Some hd -> h_row hd = r0 -> cnt (ids_row r0) a <= cnt (all_ids st) a).
  { intros a r0 hd h E Eh. unfold all_ids. clear - E Eh. revert h E. induction (s_hs st) as [|x l IH]; intros [|h] E; simpl in *; try discriminate.
    - inversion E; subst. rewrite cnt_app. lia.
    - rewrite cnt_app. specialize (IH h E). lia. }
  assert (Hin2 : forall a, In a (ids_row r2) -> a <> 0 -> a < s_next st).
  { apply (le_bounded st r2 r20 h2 Hbd Hr2). intros a Ha Hp. specialize (Hle a Ha).
    pose proof (Hall a r10 hd1 h1 E1 Ehd1). lia. }
  destruct (set_row_spec st h2 r2 r20 Hbd Hr2 Hin2) as (B1 & N1 & C1 & D1).
  set (st1 := set_row st h2 r2) in *.
  assert (Hr1' : row_of st1 h1 = Some r10) by (unfold st1; rewrite row_of_set_row; auto).
  assert (Hin1 : forall a, In a (ids_row r1) -> a <> 0 -> a < s_next st).
  { apply (le_bounded st r1 r10 h1 Hbd Hr1). intros a Ha Hp. specialize (Hle a Ha).
    pose proof (Hall a r20 hd2 h2 E2 Ehd2). lia. }
  assert (Hin1' : forall a, In a (ids_row r1) -> a <> 0 -> a < s_next st1) by (intros a Hi Ha; specialize (Hin1 a Hi Ha); lia).
  destruct (set_row_spec st1 h1 r1 r10 B1 Hr1' Hin1') as (B2 & N2 & C2 & D2). split; auto.
  intros a. destruct (Nat.eq_dec a 0) as [->|Ha]; [rewrite bounded_cnt0 by auto; lia|].
  destruct (Nat.lt_ge_cases a (s_next st1)) as [Hlt1|Hge1]; [|apply D2; exact Hge1].
  specialize (C2 a Ha Hlt1).
  destruct (Nat.lt_ge_cases a (s_next st)) as [Hlt|Hge].
  - specialize (C1 a Ha Hlt). specialize (Hle a Ha). specialize (Hc a). lia.
  - specialize (D1 a Hge).
    assert (cnt (ids_row r1) a = 0).
    { apply cnt_notin. intros Hi. specialize (Hin1 a Hi Ha). lia. }
    lia.
Qed.

(* ---- every step preserves the invariant ------------------------------------------------------------------------------------ *)
Lemma nz_cmoved s : nz_free (ids_slot (cmoved s)).
Proof. intros a Ha. destruct s as [| |r|]; reflexivity. Qed.
Lemma nz_map_cmoved q : nz_free (ids_row (map cmoved q)).
Proof. intros a Ha. unfold ids_row. induction q; simpl; auto. rewrite cnt_app, (nz_cmoved _ a Ha). exact IHq. Qed.

Lemma capp_le2 s rows c a : is_cs s = true -> a <> 0 ->
  cnt (ids_slot (capp s rows c)) a <= cnt (ids_slot s) a + cnt (ids_rows rows) a.
Proof.
  intros Hs Ha. rewrite (ids_cs s Hs a Ha). unfold capp.
  destruct (Nat.eqb (length rows) 0); [rewrite (ids_cs s Hs a Ha); liac|].
  destruct (Nat.leb _ _); simpl; rewrite cnt_cons, cnt_app; nrm; rewrite flat_map_app, cnt_app.
  - pose proof (cnt_flat_skipn (flat_map ids_slot) (length rows) (cs_tail s) a). liac.
  - rewrite cnt_flat_repeat_nil. destruct (Nat.eq_dec 0 a); [congruence|liac].
Qed.

Lemma move_append_slot_le s d c a : is_cs s = true -> a <> 0 ->
  cnt (ids_slot (on_cs (fun d => if cs_nil d then s else capp d (cs_live s) c) d)) a <= cnt (ids_slot d) a + cnt (ids_slot s) a.
Proof.
  intros Hs Ha. destruct d as [| | |[[[b l] t]|]]; simpl; try liac.
  pose proof (capp_le2 (CS (Some (b, l, t))) (cs_live s) c a eq_refl Ha) as K.
  rewrite (ids_cs s Hs a Ha). simpl in K. liac.
Qed.

Lemma sep_new sc st n : sep st -> sep (fst (cstep sc st (ONew n))).
Proof.
  intros [[Hn Hb] Hc]. simpl.
  destruct (relab_row_ids (czero_row sc n) (s_next st)) as [R1 R2].
  destruct (relab_row (s_next st) (czero_row sc n)) as [r' n']. simpl in *.
  rewrite ids_zero_row in R1, R2. simpl in R1, R2. subst n'.
  assert (E : all_ids (mkS (s_next st) (s_hs st ++ [mkH false n r'])) = all_ids st).
  { unfold all_ids. simpl. rewrite flat_map_app. simpl. rewrite R1. now rewrite !app_nil_r. }
  split; [split|]; simpl; rewrite ?E; auto.
Qed.

Lemma sep_readonly sc st h : sep st -> sep (fst (cstep sc st (OReadOnly h))).
Proof.
  intros Hs. simpl. destruct (nth_error (s_hs st) h) as [hd|] eqn:E; simpl; auto.
  assert (C : forall a, cnt (all_ids (mkS (s_next st) (upd (s_hs st) h (mkH true (h_ty hd) (h_row hd))))) a = cnt (all_ids st) a).
  { intros a. unfold all_ids. simpl.
    pose proof (cnt_flat_upd (fun h => ids_row (h_row h)) (s_hs st) h (mkH true (h_ty hd) (h_row hd)) hd a E). simpl in H. lia. }
  destruct Hs as [[Hn Hb] Hc]. split; [split|]; simpl; auto.
  - intros a Hi. apply Hb. apply cnt_in. rewrite <- C. now apply cnt_in.
  - intros a. rewrite C. apply Hc.
Qed.

Lemma opt_bind_some {A B} (o : option A) (f : A -> option B) y : opt_bind o f = Some y -> exists x, o = Some x /\ f x = Some y.
Proof. destruct o; simpl; intros H; [eauto|discriminate]. Qed.

Lemma sep_csame {X} st h (rd : crow -> option X) us ud : sep st ->
  (forall r s r1 r2, rd r = Some s -> us r = Some r1 -> ud s r1 = Some r2 -> le_ids (ids_row r2) (ids_row r)) ->
  sep (fst (csame st h rd us ud)).
Proof.
  intros Hs H. unfold csame. destruct (row_of st h) as [r|] eqn:Er; simpl; auto. destruct (rd r) as [s|] eqn:E1; simpl; auto.
  destruct (us r) as [r1|] eqn:E2; simpl; auto. destruct (ud s r1) as [r2|] eqn:E3; simpl; auto.
  apply (sep_single st h r2 r Hs Er). eapply H; eauto.
Qed.

Theorem sep_step sc st o : sep st -> sep (fst (cstep sc st o)).
Proof.
  intros Hs. destruct o.
  - now apply sep_new.
  - (* OLocal *) simpl. destruct (ro st h); auto.
    destruct (opt_bind (row_of st h) _) as [r'|] eqn:E; simpl; auto.
    destruct (opt_bind_some _ _ _ E) as (r0 & Hr & Hu).
    apply (sep_single st h r' r0 Hs Hr). eapply cupd_le; [|exact Hu]. intros x x'. apply local_slot_le.
  - (* OCopySlot *) simpl. destruct (ro st h2); auto.
    destruct (opt_bind (row_of st h1) _) as [s|]; simpl; auto.
    destruct (opt_bind (row_of st h2) _) as [r'|] eqn:E; simpl; auto.
    destruct (opt_bind_some _ _ _ E) as (r0 & Hr & Hu).
    apply (sep_single st h2 r' r0 Hs Hr). eapply cupd_le; [|exact Hu]. intros x x'. apply on_slot_le. intros d. apply ccopy_le.
  - (* OCopyRow *) simpl. destruct (ro st h2); auto.
    destruct (opt_bind (row_of st h1) _) as [s|]; simpl; auto.
    destruct (opt_bind (row_of st h2) _) as [r'|] eqn:E; simpl; auto.
    destruct (opt_bind_some _ _ _ E) as (r0 & Hr & Hu).
    apply (sep_single st h2 r' r0 Hs Hr). eapply cupd_le; [|exact Hu]. intros x x' H. inversion H; subst. apply ccopy_row_le.
  - (* OMoveSlot *) simpl. destruct (ro st h1 || ro st h2); auto. destruct (Nat.eqb h1 h2) eqn:Eh.
    { destruct (sdiverge p1 j1 p2 j2); auto. apply sep_csame; auto. intros r s r1 r2 Hrd Hus Hud a Ha.
      destruct (cupd_cnt _ _ _ _ Hus) as (x1 & x1' & A1 & B1 & C1). destruct (on_slot_cnt _ _ _ _ B1) as (s1 & N1 & D1).
      rewrite A1 in Hrd. simpl in Hrd. rewrite N1 in Hrd. inversion Hrd; subst s1.
      destruct (cupd_cnt _ _ _ _ Hud) as (x2 & x2' & _ & B2 & C2). destruct (on_slot_cnt _ _ _ _ B2) as (d & _ & D2).
      specialize (C1 a). specialize (D1 a). specialize (C2 a). specialize (D2 a). rewrite (nz_cmoved s a Ha) in D1. lia. }
    apply Nat.eqb_neq in Eh.
    destruct (opt_bind (row_of st h1) (fun r => opt_bind (cget r p1) _)) as [s|] eqn:Es; simpl; auto.
    destruct (opt_bind (row_of st h2) _) as [r2|] eqn:E2; simpl; auto.
    destruct (opt_bind (row_of st h1) (fun r => cupd r p1 _)) as [r1|] eqn:E1; simpl; auto.
    destruct (opt_bind_some _ _ _ E2) as (r20 & Hr2 & Hu2). destruct (opt_bind_some _ _ _ E1) as (r10 & Hr1 & Hu1).
    rewrite Hr1 in Es. simpl in Es.
    apply (sep_move st h1 h2 r1 r2 r10 r20 Hs Eh Hr1 Hr2). intros a Ha.
    destruct (cupd_cnt _ _ _ _ Hu2) as (x2 & x2' & _ & B2 & C2). destruct (on_slot_cnt _ _ _ _ B2) as (d & _ & D2).
    destruct (cupd_cnt _ _ _ _ Hu1) as (x1 & x1' & A1 & B1 & C1). destruct (on_slot_cnt _ _ _ _ B1) as (s1 & N1 & D1).
    rewrite A1 in Es. simpl in Es. rewrite N1 in Es. inversion Es; subst s1.
    specialize (C2 a). specialize (D2 a). specialize (C1 a). specialize (D1 a). rewrite (nz_cmoved s a Ha) in D1. lia.
  - (* OMoveRow *) simpl. destruct (ro st h1 || ro st h2); auto. destruct (Nat.eqb h1 h2) eqn:Eh.
    { destruct (diverge p1 p2); auto. apply sep_csame; auto. intros r s r1 r2 Hrd Hus Hud a Ha.
      destruct (cupd_cnt _ _ _ _ Hus) as (x1 & x1' & A1 & B1 & C1). inversion B1; subst x1'. rewrite A1 in Hrd. inversion Hrd; subst x1.
      destruct (cupd_cnt _ _ _ _ Hud) as (x2 & x2' & _ & B2 & C2). inversion B2; subst x2'.
      specialize (C1 a). specialize (C2 a). rewrite ids_zero_row, cnt_nil in C1. lia. }
    apply Nat.eqb_neq in Eh.
    destruct (opt_bind (row_of st h1) (fun r => cget r p1)) as [s|] eqn:Es; simpl; auto.
    destruct (opt_bind (row_of st h2) _) as [r2|] eqn:E2; simpl; auto.
    destruct (opt_bind (row_of st h1) (fun r => cupd r p1 _)) as [r1|] eqn:E1; simpl; auto.
    destruct (opt_bind_some _ _ _ E2) as (r20 & Hr2 & Hu2). destruct (opt_bind_some _ _ _ E1) as (r10 & Hr1 & Hu1).
    rewrite Hr1 in Es. simpl in Es.
    apply (sep_move st h1 h2 r1 r2 r10 r20 Hs Eh Hr1 Hr2). intros a Ha.
    destruct (cupd_cnt _ _ _ _ Hu2) as (x2 & x2' & _ & B2 & C2). inversion B2; subst x2'.
    destruct (cupd_cnt _ _ _ _ Hu1) as (x1 & x1' & A1 & B1 & C1). inversion B1; subst x1'.
    rewrite A1 in Es. inversion Es; subst x1.
    specialize (C2 a). specialize (C1 a). rewrite ids_zero_row, cnt_nil in C1. lia.
  - (* OMoveAppend *) simpl. destruct (ro st h1 || ro st h2); auto. destruct (Nat.eqb h1 h2) eqn:Eh.
    { destruct (sdiverge p1 j1 p2 j2); auto. apply sep_csame; auto. intros r s r1 r2 Hrd Hus Hud a Ha.
      destruct (cupd_cnt _ _ _ _ Hus) as (x1 & x1' & A1 & B1 & C1). destruct (on_slot_cnt _ _ _ _ B1) as (s1 & N1 & D1).
      rewrite A1 in Hrd. simpl in Hrd. rewrite N1 in Hrd. simpl in Hrd. destruct (is_cs s1) eqn:Hcs; inversion Hrd; subst s1.
      destruct (cupd_cnt _ _ _ _ Hud) as (x2 & x2' & _ & B2 & C2). destruct (on_slot_cnt _ _ _ _ B2) as (d & _ & D2).
      pose proof (move_append_slot_le s d newcap a Hcs Ha) as K.
      specialize (C1 a). specialize (D1 a). specialize (C2 a). specialize (D2 a). simpl in D1. rewrite cnt_nil in D1. lia. }
    apply Nat.eqb_neq in Eh.
    destruct (opt_bind (row_of st h1) (fun r => opt_bind (cget r p1) _)) as [s|] eqn:Es; simpl; auto.
    destruct (is_cs s) eqn:Hcs; simpl; auto.
    destruct (opt_bind (row_of st h2) _) as [r2|] eqn:E2; simpl; auto.
    destruct (opt_bind (row_of st h1) (fun r => cupd r p1 _)) as [r1|] eqn:E1; simpl; auto.
    destruct (opt_bind_some _ _ _ E2) as (r20 & Hr2 & Hu2). destruct (opt_bind_some _ _ _ E1) as (r10 & Hr1 & Hu1).
    rewrite Hr1 in Es. simpl in Es.
    apply (sep_move st h1 h2 r1 r2 r10 r20 Hs Eh Hr1 Hr2). intros a Ha.
    destruct (cupd_cnt _ _ _ _ Hu2) as (x2 & x2' & _ & B2 & C2). destruct (on_slot_cnt _ _ _ _ B2) as (d & _ & D2).
    destruct (cupd_cnt _ _ _ _ Hu1) as (x1 & x1' & A1 & B1 & C1). destruct (on_slot_cnt _ _ _ _ B1) as (s1 & N1 & D1).
    rewrite A1 in Es. simpl in Es. rewrite N1 in Es. inversion Es; subst s1.
    pose proof (move_append_slot_le s d newcap a Hcs Ha) as K.
    specialize (C2 a). specialize (D2 a). specialize (C1 a). specialize (D1 a). simpl in D1. rewrite cnt_nil in D1. lia.
  - now apply sep_readonly.
Qed.

Lemma sep_empty : sep cstate0.
Proof. split; [split|]; simpl; auto. intros a []. Qed.

Theorem sep_run sc : forall p st, sep st -> sep (fst (run_c sc st p)).
Proof.
  induction p as [|o p IH]; intros st Hs; simpl; auto.
  pose proof (sep_step sc st o Hs) as H1. destruct (cstep sc st o) as [st1 c]. simpl in H1.
  specialize (IH st1 H1). destruct (run_c sc st1 p) as [st2 cs]. exact IH.
Qed.

(* ---- what the invariant is FOR: a store through a pointer is the structural update ------------------------------------------
   The Go heap gives every object one address.  In the unfolding, a store through a pointer to the object
   with address a rewrites that object WHEREVER it occurs: [waddr a f].  Under [sep] it occurs once, so the
   store is exactly the update at the path through which the operation reached it (what cstep does), and
   no other handle, and no other position of the same handle, sees it. *)
Fixpoint waddr (a : nat) (f : cslot -> cslot) (s : cslot) : cslot :=
  match s with
  | CR (Some (b, t, r)) => if Nat.eqb b a then f s else CR (Some (b, t, map (waddr a f) r))
  | CS (Some (b, live, tail)) =>
      if Nat.eqb b a then f s else CS (Some (b, map (map (waddr a f)) live, map (map (waddr a f)) tail))
  | _ => s
  end.
Definition waddr_state (a : nat) (f : cslot -> cslot) (st : cstate) : cstate :=
  mkS (s_next st) (map (fun h => mkH (h_ro h) (h_ty h) (map (waddr a f) (h_row h))) (s_hs st)).
Definition addr_of (s : cslot) : option nat :=
  match s with CR (Some (b, _, _)) => Some b | CS (Some (b, _, _)) => Some b | _ => None end.

Lemma cnt_flat_zero {A} (g : A -> list nat) l a : cnt (flat_map g l) a = 0 -> Forall (fun x => cnt (g x) a = 0) l.
Proof. induction l; simpl; intros H; constructor; rewrite cnt_app in H; [lia|apply IHl; lia]. Qed.
Lemma map_id_Forall {A} (w : A -> A) l : Forall (fun x => w x = x) l -> map w l = l.
Proof. induction 1; simpl; congruence. Qed.

Lemma waddr_notin a f s : cnt (ids_slot s) a = 0 -> waddr a f s = s.
Proof.
  induction s as [z|t z| |b t r IH| |b live tail IHl IHt] using cslot_ind'; intros H; simpl in *; auto.
  - rewrite cnt_cons in H. destruct (Nat.eq_dec b a) as [->|Hne]; [lia|]. apply Nat.eqb_neq in Hne. rewrite Hne.
    f_equal. f_equal. f_equal. apply map_id_Forall. simpl in H. apply cnt_flat_zero in H.
    clear - IH H. induction IH; inversion H; subst; constructor; auto.
  - rewrite cnt_cons, cnt_app in H. destruct (Nat.eq_dec b a) as [->|Hne]; [lia|]. apply Nat.eqb_neq in Hne. rewrite Hne.
    assert (R : forall rows, Forall (Forall (fun s => cnt (ids_slot s) a = 0 -> waddr a f s = s)) rows ->
                cnt (flat_map (flat_map ids_slot) rows) a = 0 -> map (map (waddr a f)) rows = rows).
    { intros rows Hr Hz. apply map_id_Forall. apply cnt_flat_zero in Hz. clear - Hr Hz.
      induction Hr as [|q rows Hq _ IHr]; inversion Hz; subst; constructor; auto.
      apply map_id_Forall. apply cnt_flat_zero in H1. clear - Hq H1. induction Hq; inversion H1; subst; constructor; auto. }
    rewrite (R live IHl), (R tail IHt) by lia. reflexivity.
Qed.
Lemma waddr_row_notin a f r : cnt (ids_row r) a = 0 -> map (waddr a f) r = r.
Proof. intros H. apply map_id_Forall. apply cnt_flat_zero in H. eapply Forall_impl; [|exact H]. intros s. apply waddr_notin. Qed.

(* the handles that do not contain the object are untouched by the store *)
Theorem store_frame st a f h r : row_of st h = Some r -> cnt (ids_row r) a = 0 -> row_of (waddr_state a f st) h = Some r.
Proof.
  unfold row_of, waddr_state. simpl. rewrite nth_error_map'. destruct (nth_error (s_hs st) h) as [hd|]; simpl; intros H Hz; inversion H; subst.
  now rewrite waddr_row_notin.
Qed.

Lemma cnt_handle_le st h r a : row_of st h = Some r -> cnt (ids_row r) a <= cnt (all_ids st) a.
Proof.
  intros Hr. destruct (row_of_nth _ _ _ Hr) as (hd & E & <-). unfold all_ids. clear Hr. revert h E.
  induction (s_hs st) as [|x l IH]; intros [|h] E; simpl in *; try discriminate.
  - inversion E; subst. rewrite cnt_app. lia.
  - rewrite cnt_app. specialize (IH h E). lia.
Qed.
Lemma cnt_two_handles st h h' r r' a : h <> h' -> row_of st h = Some r -> row_of st h' = Some r' ->
  cnt (ids_row r) a + cnt (ids_row r') a <= cnt (all_ids st) a.
Proof.
  intros Hne Hr Hr'. destruct (row_of_nth _ _ _ Hr) as (hd & E & <-). destruct (row_of_nth _ _ _ Hr') as (hd' & E' & <-).
  unfold all_ids. clear Hr Hr'. revert h h' Hne E E'.
  induction (s_hs st) as [|x l IH]; intros [|h] [|h'] Hne E E'; simpl in *; try discriminate; try congruence; rewrite cnt_app.
  - inversion E; subst. pose proof (cnt_handle_le (mkS 0 l) h' (h_row hd') a) as K. unfold row_of, all_ids in K. simpl in K.
    rewrite E' in K. specialize (K eq_refl). lia.
  - inversion E'; subst. pose proof (cnt_handle_le (mkS 0 l) h (h_row hd) a) as K. unfold row_of, all_ids in K. simpl in K.
    rewrite E in K. specialize (K eq_refl). lia.
  - assert (h <> h') by congruence. specialize (IH h h' H E E'). lia.
Qed.

Lemma cget_cnt p : forall r x a, cget r p = Some x -> cnt (ids_row x) a <= cnt (ids_row r) a.
Proof.
  induction p as [|[j i|j] p IH]; intros r x a H; simpl in *.
  - inversion H; subst. lia.
  - destruct (nth_error r j) as [[| | |[[[b live] tail]|]]|] eqn:Ej; try discriminate.
    destruct (nth_error live i) as [r0|] eqn:Ei; try discriminate. specialize (IH _ _ a H).
    pose proof (cnt_flat_upd ids_slot r j (CP 0) _ a Ej) as U1. pose proof (cnt_flat_upd (flat_map ids_slot) live i [] _ a Ei) as U2.
    simpl in U1, U2. rewrite cnt_cons, cnt_app in U1. nrm. liac.
  - destruct (nth_error r j) as [[| |[[[b t] r0]|]|]|] eqn:Ej; try discriminate. specialize (IH _ _ a H).
    pose proof (cnt_flat_upd ids_slot r j (CP 0) _ a Ej) as U1. simpl in U1. rewrite cnt_cons in U1. nrm. liac.
Qed.

(* under sep, a store through the pointer found at (h, p, j) touches no other handle *)
Theorem store_is_local st h p j r x s a f : sep st ->
  row_of st h = Some r -> cget r p = Some x -> nth_error x j = Some s -> addr_of s = Some a ->
  forall h' r', h' <> h -> row_of st h' = Some r' -> row_of (waddr_state a f st) h' = Some r'.
Proof.
  intros [_ Hc] Hr Hg Hn Ha h' r' Hne Hr'. apply store_frame; auto.
  assert (1 <= cnt (ids_row r) a).
  { pose proof (cget_cnt _ _ _ a Hg) as K. pose proof (cnt_flat_upd ids_slot x j (CP 0) s a Hn) as U. simpl in U.
    assert (1 <= cnt (ids_slot s) a).
    { destruct s as [| |[[[b t] q]|]|[[[b l] t]|]]; simpl in Ha; inversion Ha; subst; simpl; rewrite cnt_cons;
        destruct (Nat.eq_dec a a); try congruence; lia. }
    nrm. liac. }
  pose proof (cnt_two_handles st h h' r r' a (not_eq_sym Hne) Hr Hr'). specialize (Hc a). lia.
Qed.

Lemma cnt_flat_nth {A} (g : A -> list nat) l i y a : nth_error l i = Some y -> cnt (g y) a <= cnt (flat_map g l) a.
Proof. revert i; induction l as [|z l IH]; intros [|i] H; simpl in *; try discriminate; rewrite cnt_app; [inversion H; subst; lia|specialize (IH i H); lia]. Qed.

Lemma map_upd_only {A} (g : A -> list nat) (w : A -> A) a l : forall i y,
  nth_error l i = Some y -> (forall z, cnt (g z) a = 0 -> w z = z) -> cnt (flat_map g l) a <= cnt (g y) a ->
  map w l = upd l i (w y).
Proof.
  induction l as [|z l IH]; intros [|i] y H Hw Hle; simpl in *; try discriminate; rewrite cnt_app in Hle.
  - inversion H; subst. f_equal. apply map_id_Forall. assert (Z : cnt (flat_map g l) a = 0) by lia.
    apply cnt_flat_zero in Z. eapply Forall_impl; [|exact Z]. exact Hw.
  - pose proof (cnt_flat_nth g l i y a H). f_equal; [apply Hw; lia|apply IH; auto; lia].
Qed.

Lemma waddr_rows_notin a f rows : cnt (flat_map (flat_map ids_slot) rows) a = 0 -> map (map (waddr a f)) rows = rows.
Proof. intros H. apply map_id_Forall. apply cnt_flat_zero in H. eapply Forall_impl; [|exact H]. intros q. apply (waddr_row_notin a f q). Qed.

Lemma addr_cnt s a : addr_of s = Some a -> 1 <= cnt (ids_slot s) a /\ forall f, waddr a f s = f s.
Proof.
  destruct s as [| |[[[b t] q]|]|[[[b l] t]|]]; simpl; intros H; inversion H; subst; rewrite cnt_cons, Nat.eqb_refl;
    destruct (Nat.eq_dec a a); try congruence; split; auto; lia.
Qed.

(* under "no address twice", the store through the pointer at (p, j) IS the structural update at (p, j) *)
Lemma store_at_path a f j s p : forall r x, (forall b, cnt (ids_row r) b <= 1) ->
  cget r p = Some x -> nth_error x j = Some s -> addr_of s = Some a ->
  cupd r p (on_slot j f) = Some (map (waddr a f) r).
Proof.
  induction p as [|[j0 i|j0] p IH]; intros r x Hc Hg Hn Ha; simpl in *.
  - inversion Hg; subst. unfold on_slot. rewrite Hn. f_equal. destruct (addr_cnt s a Ha) as [H1 Hf]. rewrite <- Hf.
    symmetry. apply (map_upd_only ids_slot (waddr a f) a x j s Hn); [intros z; apply waddr_notin|]. specialize (Hc a). unfold ids_row in Hc. lia.
  - destruct (nth_error r j0) as [[| | |[[[b live] tail]|]]|] eqn:Ej; try discriminate.
    destruct (nth_error live i) as [r0|] eqn:Ei; try discriminate.
    destruct (addr_cnt s a Ha) as [H1 _].
    pose proof (cnt_flat_nth ids_slot x j s a Hn) as K1. pose proof (cget_cnt _ _ _ a Hg) as K2.
    pose proof (cnt_flat_nth (flat_map ids_slot) live i r0 a Ei) as K3.
    pose proof (cnt_flat_nth ids_slot r j0 _ a Ej) as K4. simpl in K4. rewrite cnt_cons, cnt_app in K4.
    pose proof (Hc a) as Ca. nrm.
    assert (Hba : b <> a) by (destruct (Nat.eq_dec b a); [liac|auto]).
    assert (Hc0 : forall b0, cnt (flat_map ids_slot r0) b0 <= 1).
    { intros b0. pose proof (cnt_flat_nth (flat_map ids_slot) live i r0 b0 Ei) as Q3.
      pose proof (cnt_flat_nth ids_slot r j0 _ b0 Ej) as Q4. simpl in Q4. rewrite cnt_cons, cnt_app in Q4. specialize (Hc b0). liac. }
    rewrite (IH r0 x Hc0 Hg Hn Ha). f_equal.
    rewrite (map_upd_only ids_slot (waddr a f) a r j0 _ Ej) by (try (intros z; apply waddr_notin); simpl; rewrite cnt_cons, cnt_app; liac).
    simpl. rewrite (proj2 (Nat.eqb_neq b a) Hba). f_equal. f_equal. f_equal. f_equal.
    + f_equal. symmetry. apply (map_upd_only (flat_map ids_slot) (map (waddr a f)) a live i r0 Ei); [intros z; apply (waddr_row_notin a f z)|].
      destruct (Nat.eq_dec b a); liac.
    + symmetry. apply waddr_rows_notin. destruct (Nat.eq_dec b a); liac.
  - destruct (nth_error r j0) as [[| |[[[b t] r0]|]|]|] eqn:Ej; try discriminate.
    destruct (addr_cnt s a Ha) as [H1 _].
    pose proof (cnt_flat_nth ids_slot x j s a Hn) as K1. pose proof (cget_cnt _ _ _ a Hg) as K2.
    pose proof (cnt_flat_nth ids_slot r j0 _ a Ej) as K4. simpl in K4. rewrite cnt_cons in K4.
    pose proof (Hc a) as Ca. nrm.
    assert (Hba : b <> a) by (destruct (Nat.eq_dec b a); [liac|auto]).
    assert (Hc0 : forall b0, cnt (flat_map ids_slot r0) b0 <= 1).
    { intros b0. pose proof (cnt_flat_nth ids_slot r j0 _ b0 Ej) as Q4. simpl in Q4. rewrite cnt_cons in Q4. specialize (Hc b0). liac. }
    rewrite (IH r0 x Hc0 Hg Hn Ha). f_equal.
    rewrite (map_upd_only ids_slot (waddr a f) a r j0 _ Ej) by (try (intros z; apply waddr_notin); simpl; rewrite cnt_cons; liac).
    simpl. rewrite (proj2 (Nat.eqb_neq b a) Hba). reflexivity.
Qed.

Theorem store_is_update st h p j r x s a f : sep st ->
  row_of st h = Some r -> cget r p = Some x -> nth_error x j = Some s -> addr_of s = Some a ->
  opt_bind (row_of st h) (fun r => cupd r p (on_slot j f)) = row_of (waddr_state a f st) h.
Proof.
  intros [_ Hc] Hr Hg Hn Ha. rewrite Hr. simpl.
  rewrite (store_at_path a f j s p r x); auto.
  - unfold row_of, waddr_state in *. simpl. rewrite nth_error_map'. destruct (nth_error (s_hs st) h); simpl in *; inversion Hr; subst; reflexivity.
  - intros b. pose proof (cnt_handle_le st h r b Hr). specialize (Hc b). lia.
Qed.

(* ---- arbitrary start contents ---------------------------------------------------------------------------------------------
   "starting from arbitrary contents": every pure value v is the abstraction of a heap that a constructor / unmarshaller
   builds with freshly allocated objects (cbuild: one new object per pointer and per non-empty slice, no spare capacity),
   and loading such values as new handles preserves sep.  So sep is not an assumption about an arbitrary start heap: every
   start content is reachable through cload from the empty state. *)
Fixpoint cbuild (s : vslot) : cslot :=
  match s with
  | VP z => CP z
  | VI t z => CI t z
  | VR None => CR None
  | VR (Some (t, r)) => CR (Some (0, t, map cbuild r))
  | VS rows => mk_cs (map (map cbuild) rows)
  end.
Definition cload (st : cstate) (n : nat) (v : vrow) : cstate :=
  let '(r', n') := relab_row (s_next st) (map cbuild v) in
  mkS n' (s_hs st ++ [mkH false n r']).

Section vslot_induction2.
  Variable P : vslot -> Prop.
  Hypothesis HP : forall z, P (VP z).
  Hypothesis HI : forall t z, P (VI t z).
  Hypothesis HRN : P (VR None).
  Hypothesis HR : forall t r, Forall P r -> P (VR (Some (t, r))).
  Hypothesis HS : forall rows, Forall (Forall P) rows -> P (VS rows).
  Fixpoint vslot_ind2 (s : vslot) : P s :=
    match s with
    | VP z => HP z
    | VI t z => HI t z
    | VR None => HRN
    | VR (Some (t, r)) =>
        HR t r ((fix go (r : list vslot) : Forall P r :=
                   match r with [] => Forall_nil _ | x :: r' => Forall_cons _ (vslot_ind2 x) (go r') end) r)
    | VS rows =>
        HS rows ((fix gos (rs : list (list vslot)) : Forall (Forall P) rs :=
          match rs with
          | [] => Forall_nil _
          | r :: rs' => Forall_cons _ ((fix go (r : list vslot) : Forall P r :=
                     match r with [] => Forall_nil _ | x :: r' => Forall_cons _ (vslot_ind2 x) (go r') end) r) (gos rs')
          end) rows)
    end.
End vslot_induction2.

Lemma abs_cbuild s : abs_slot (cbuild s) = s.
Proof.
  induction s as [z|t z| |t r IH|rows IH] using vslot_ind2; simpl; auto.
  - f_equal. f_equal. f_equal. rewrite map_map. rewrite <- (map_id r) at 2. now apply map_ext_Forall.
  - rewrite abs_mk_cs. f_equal. unfold abs_row. rewrite map_map. rewrite <- (map_id rows) at 2. apply map_ext_Forall.
    eapply Forall_impl; [|exact IH]. intros q Hq. simpl. rewrite map_map. rewrite <- (map_id q) at 2. now apply map_ext_Forall.
Qed.

Lemma nz_cbuild s : nz_free (ids_slot (cbuild s)).
Proof.
  induction s as [z|t z| |t r IH|rows IH] using vslot_ind2; intros a Ha; simpl; auto.
  - rewrite cnt_zero_head by auto. induction IH as [|x r Hx _ IHr]; simpl; auto. rewrite cnt_app, (Hx a Ha). exact IHr.
  - apply nz_mk_cs; auto. clear a Ha. intros a Ha. induction IH as [|q rows Hq _ IHr]; simpl; auto.
    rewrite cnt_app, IHr. clear IHr. induction Hq as [|x q Hx _ IHq]; simpl; auto. rewrite cnt_app, (Hx a Ha). exact IHq.
Qed.

Lemma sep_add_handle st n r : sep st -> nz_free (ids_row r) ->
  sep (mkS (snd (relab_row (s_next st) r)) (s_hs st ++ [mkH false n (fst (relab_row (s_next st) r))])).
Proof.
  intros [[Hn Hb] Hc] Hz.
  assert (Hin : forall a, In a (ids_row r) -> a <> 0 -> a < s_next st).
  { intros a Hi Ha. apply cnt_in in Hi. rewrite (Hz a Ha) in Hi. lia. }
  destruct (relab_row_ids r (s_next st)) as [R1 R2].
  destruct (relabl_spec (ids_row r) (s_next st) Hn Hin) as (S1 & S2 & S3 & S4).
  destruct (relab_row (s_next st) r) as [r' n']. simpl in *. rewrite <- R1, <- R2 in *. clear R1 R2.
  assert (E : forall a, cnt (all_ids (mkS n' (s_hs st ++ [mkH false n r']))) a = cnt (all_ids st) a + cnt (ids_row r') a).
  { intros a. unfold all_ids. simpl. rewrite flat_map_app, cnt_app. simpl. now rewrite app_nil_r. }
  split; [split|]; simpl.
  - lia.
  - intros a Hi. apply cnt_in in Hi. rewrite E in Hi.
    destruct (Nat.eq_dec (cnt (ids_row r') a) 0) as [Z|Z].
    + assert (In a (all_ids st)) by (apply cnt_in; lia). specialize (Hb a H). lia.
    + assert (In a (ids_row r')) by (apply cnt_in; lia). specialize (S2 a H). lia.
  - intros a. rewrite E. destruct (Nat.eq_dec a 0) as [->|Ha].
    + rewrite (bounded_cnt0 st (conj Hn Hb)). rewrite cnt_notin; [lia|]. intros Hi. specialize (S2 0 Hi). lia.
    + destruct (Nat.lt_ge_cases a (s_next st)) as [Hlt|Hge].
      * rewrite (S3 a Ha Hlt), (Hz a Ha). specialize (Hc a). lia.
      * rewrite (cnt_notin (all_ids st) a); [specialize (S4 a Hge); lia|]. intros Hi. specialize (Hb a Hi). lia.
Qed.

Lemma nz_map_cbuild v : nz_free (ids_row (map cbuild v)).
Proof. intros a Ha. unfold ids_row. induction v; simpl; auto. rewrite cnt_app, (nz_cbuild _ a Ha). exact IHv. Qed.

Theorem cload_sep st n v : sep st -> sep (cload st n v).
Proof.
  intros Hs. unfold cload. pose proof (sep_add_handle st n (map cbuild v) Hs (nz_map_cbuild v)) as H.
  destruct (relab_row (s_next st) (map cbuild v)) as [r' n']. exact H.
Qed.

Theorem cload_abs st n v : abs_state (cload st n v) = abs_state st ++ [mkA false n v].
Proof.
  unfold cload. pose proof (relab_row_abs (map cbuild v) (s_next st)) as A.
  destruct (relab_row (s_next st) (map cbuild v)) as [r' n']. simpl in A. unfold abs_state. simpl. rewrite map_app. simpl.
  unfold abs_handle at 2. simpl. rewrite A. unfold abs_row. rewrite map_map. f_equal. f_equal. f_equal.
  rewrite <- (map_id v) at 2. apply map_ext. apply abs_cbuild.
Qed.

(* every list of arbitrary start values is the abstraction of a state that satisfies sep *)
Fixpoint cload_all (st : cstate) (vs : list (nat * vrow)) : cstate :=
  match vs with [] => st | (n, v) :: vs' => cload_all (cload st n v) vs' end.
Theorem arbitrary_contents vs :
  sep (cload_all cstate0 vs) /\ abs_state (cload_all cstate0 vs) = map (fun nv => mkA false (fst nv) (snd nv)) vs.
Proof.
  assert (G : forall st, sep st -> sep (cload_all st vs) /\
              abs_state (cload_all st vs) = abs_state st ++ map (fun nv => mkA false (fst nv) (snd nv)) vs).
  { induction vs as [|[n v] vs IH]; intros st Hs; simpl.
    - split; auto. now rewrite app_nil_r.
    - destruct (IH (cload st n v) (cload_sep st n v Hs)) as [I1 I2]. split; auto. rewrite I2, cload_abs, <- app_assoc. reflexivity. }
  destruct (G cstate0 sep_empty) as [G1 G2]. split; auto.
Qed.
