(* C07/Model.v — the CONCRETE level: Go memory as far as the pdata types use it, the public
   operations written after the templates (slice.go.tmpl in both flavours, message.go.tmpl,
   primitive_slice.go.tmpl, base_fields.go GenerateCopyToValue) and after pcommon/{map,slice,value}.go,
   the shared state flag, programs, and the two interpreters run_c (concrete) / run_a (pure).

   Memory.  pdata object graphs are acyclic, so the reachable heap of a handle is presented as its
   UNFOLDING: a tree in which every heap object carries its address.
     CR (Some (a, tag, row))      pointer to the struct object at address a (element of a slice of
                                  pointers, oneof-of-messages alternative, container AnyValue wrapper)
     CS (Some (a, live, tail))    slice header pointing to the backing array at address a;
                                  len = |live|, cap = |live| + |tail|; the tail rows are the array
                                  entries behind len (stale or zero; [] stands for a zero entry)
     CS None                      nil slice;  CR None  nil pointer
     CP z / CI tag z              scalar / immutable boxed scalar (optional, oneof of primitives,
                                  scalar AnyValue: the wrapper is replaced, never written through)
   Address 0 means "allocated by the operation that is running"; [relab] gives such objects the next
   free addresses when the operation ends.  Two occurrences of one address in a state mean that
   two positions denote the SAME Go object (aliasing): the separation invariant of Proofs.v is
   "no address occurs twice", and under it a store through one position cannot be seen through any
   other, which is what makes the tree-shaped update of this file the heap update.
   Executable Gallina only. *)
From Verif Require Import Common.Base C07.Val.

Inductive cslot :=
| CP (z : Z)
| CI (tag : nat) (z : Z)
| CR (r : option (nat * nat * list cslot))
| CS (s : option (nat * list (list cslot) * list (list cslot))).
Definition crow := list cslot.

(* ---- abstraction: forget addresses and tails ------------------------------------------------- *)
Fixpoint abs_slot (s : cslot) : vslot :=
  match s with
  | CP z => VP z
  | CI t z => VI t z
  | CR None => VR None
  | CR (Some (_, t, r)) => VR (Some (t, map abs_slot r))
  | CS None => VS []
  | CS (Some (_, live, _)) => VS (map (map abs_slot) live)
  end.
Definition abs_row (r : crow) : vrow := map abs_slot r.

(* every address in a tree, live and tail *)
Fixpoint ids_slot (s : cslot) : list nat :=
  match s with
  | CP _ => []
  | CI _ _ => []
  | CR None => []
  | CR (Some (a, _, r)) => a :: flat_map ids_slot r
  | CS None => []
  | CS (Some (a, live, tail)) => a :: flat_map (flat_map ids_slot) live ++ flat_map (flat_map ids_slot) tail
  end.
Definition ids_row (r : crow) : list nat := flat_map ids_slot r.
Definition ids_rows (rs : list crow) : list nat := flat_map ids_row rs.

(* a fresh deep clone: same value, every object newly allocated, no spare capacity *)
Fixpoint cfresh (s : cslot) : cslot :=
  match s with
  | CP z => CP z
  | CI t z => CI t z
  | CR None => CR None
  | CR (Some (_, t, r)) => CR (Some (0, t, map cfresh r))
  | CS None => CS None
  | CS (Some (_, live, _)) => CS (Some (0, map (map cfresh) live, []))
  end.

(* a fresh copy of a byte array as Value.CopyTo makes it: make([]byte, len(src)) is NEVER nil, also when the source is *)
Definition cbytes_clone (s : cslot) : cslot :=
  match s with
  | CS (Some (_, live, _)) => CS (Some (0, map (map cfresh) live, []))
  | CS None => CS (Some (0, [], []))
  | _ => cfresh s
  end.
(* []byte{} : empty, not nil (Value.SetEmptyBytes / NewValueBytes since ee4467fcf, Map.PutEmptyBytes since 0d56d0db7) *)
Definition cempty_bytes : cslot := CS (Some (0, [], [])).

(* ---- zero values ------------------------------------------------------------------------------ *)
Definition czero_slot (t : sty) : cslot :=
  match t with
  | TP => CP 0
  | TI => CI 0 0
  | TSl _ => CS None
  | TPs => CS None
  | TPtr _ => CR None
  | TOne _ => CR None
  | TAny => CI 0 0
  end.
Definition czero_row (sc : schema) (n : nat) : crow := map czero_slot (rowty sc n).
(* the element AppendEmpty appends: &T{} for a slice of pointers, T{} otherwise *)
Definition cnew_elem (sc : schema) (n : nat) : crow :=
  match rowty sc n with
  | [TPtr m] => [CR (Some (0, 0, czero_row sc m))]
  | _ => czero_row sc n
  end.
Definition vnew_elem (sc : schema) (n : nat) : vrow :=
  match rowty sc n with
  | [TPtr m] => [VR (Some (0, vzero_row sc m))]
  | _ => vzero_row sc n
  end.

(* ---- slice primitives -------------------------------------------------------------------------- *)
Definition cs_live (s : cslot) : list crow := match s with CS (Some (_, l, _)) => l | _ => [] end.
Definition cs_tail (s : cslot) : list crow := match s with CS (Some (_, _, t)) => t | _ => [] end.
Definition cs_addr (s : cslot) : nat := match s with CS (Some (a, _, _)) => a | _ => 0 end.
Definition cs_cap (s : cslot) : nat := length (cs_live s) + length (cs_tail s).
Definition cs_nil (s : cslot) : bool := match s with CS (Some _) => false | _ => true end.

(* append(s, rows...) ; newcap = the capacity Go chose when it had to grow (run-time oracle) *)
Definition capp (s : cslot) (rows : list crow) (newcap : nat) : cslot :=
  let k := length rows in
  if Nat.eqb k 0 then s
  else if Nat.leb k (length (cs_tail s)) then CS (Some (cs_addr s, cs_live s ++ rows, skipn k (cs_tail s)))
  else CS (Some (0, cs_live s ++ rows, repeat [] (newcap - (length (cs_live s) + k)))).

(* EnsureCapacity *)
Definition censure (s : cslot) (c : nat) : cslot :=
  if Nat.leb c (cs_cap s) then s
  else CS (Some (0, cs_live s, repeat [] (c - length (cs_live s)))).

(* RemoveIf (template after the fix: the vacated tail is cleared) *)
Definition cremove_if (s : cslot) (mask : list bool) : cslot :=
  match s with
  | CS (Some (a, live, tail)) =>
      let live' := remove_mask live mask in
      CS (Some (a, live', repeat [] (length live - length live') ++ tail))
  | _ => s
  end.

Definition ckey (k : nat) (r : crow) : Z := vkey k (abs_row r).
Definition csort (s : cslot) (k : nat) : cslot :=
  match s with
  | CS (Some (a, live, tail)) => CS (Some (a, sort_by (ckey k) live, tail))
  | _ => s
  end.

Definition crow_key (r : crow) : Z := match r with CP z :: _ => z | _ => 0%Z end.
Definition key_is (k : Z) (r : crow) : bool := Z.eqb (crow_key r) k.
Definition mk_any (sc : schema) (tag : nat) (z : Z) : cslot :=
  if Nat.ltb tag 5 then CI tag z
  else if Nat.eqb tag 7 then CR (Some (0, 7, [cempty_bytes]))   (* PutEmptyBytes: []byte{}, non-nil since 0d56d0db7 *)
  else CR (Some (0, tag, czero_row sc (any_rowty tag))).
Definition vmk_any (sc : schema) (tag : nat) (z : Z) : vslot :=
  if Nat.ltb tag 5 then VI tag z
  else if Nat.eqb tag 7 then VR (Some (7, [VS []]))
  else VR (Some (tag, vzero_row sc (any_rowty tag))).

(* Map.Put* : overwrite the value of the first entry with that key, else append a new entry *)
Definition cmap_put (sc : schema) (s : cslot) (k : Z) (tag : nat) (z : Z) (newcap : nat) : cslot :=
  match find_idx (key_is k) (cs_live s) with
  | Some i =>
      match s with
      | CS (Some (a, live, tail)) => CS (Some (a, upd live i [CP k; mk_any sc tag z], tail))
      | _ => s
      end
  | None => capp s [[CP k; mk_any sc tag z]] newcap
  end.

(* Map.Remove (after the fix: the vacated last entry is zeroed) *)
Definition cmap_remove (s : cslot) (k : Z) : cslot :=
  match s with
  | CS (Some (a, live, tail)) =>
      match find_idx (key_is k) live with
      | Some i => CS (Some (a, swap_remove i live, [] :: tail))
      | None => s
      end
  | _ => s
  end.

(* copyXSlice(dst, src) = append(dst[:0], src...) of a primitive slice *)
Definition cprim_copy (rows : list crow) (d : cslot) : cslot :=
  let n := length rows in
  match d with
  | CS (Some (a, dl, dt)) =>
      if Nat.leb n (length dl + length dt) then CS (Some (a, rows, skipn n (dl ++ dt)))
      else CS (Some (0, rows, []))
  | _ => if Nat.eqb n 0 then CS None else CS (Some (0, rows, []))
  end.

(* ---- CopyTo ------------------------------------------------------------------------------------- *)
Definition map2d {A B C} (f : A -> B -> C) (dflt : B) : list A -> list B -> list C :=
  fix go (l : list A) (d : list B) : list C :=
    match l with
    | [] => []
    | x :: l' => f x (hd dflt d) :: go l' (tl d)
    end.
Definition map3d {A B C} (f : sty -> A -> B -> C) (dflt : sty -> B) : list sty -> list A -> list B -> list C :=
  fix go (ts : list sty) (l : list A) (d : list B) : list C :=
    match l with
    | [] => []
    | x :: l' => f (hd TP ts) x (hd (dflt (hd TP ts)) d) :: go (tl ts) l' (tl d)
    end.

(* ms.CopyTo(dest) for one field of type t: s = source slot, d = destination slot *)
Fixpoint ccopy (sc : schema) (t : sty) (s d : cslot) {struct s} : cslot :=
  match t, s with
  (* optional / oneof of primitives (TI) and an unset oneof of messages (TOne, CR None): since the fix
     "else dest.RemoveX()" / "default: dest.orig.F = nil" the destination takes the source's state,
     set or unset: these fall under the last case (the immutable wrapper / nil is assigned) *)
  | TOne ns, CR (Some (_, tg, r)) =>       (* ms.X().CopyTo(dest.SetEmptyX()) *)
      CR (Some (0, tg, map3d (ccopy sc) czero_slot (rowty sc (nth (tg - 1) ns 0)) r []))
  | TPtr m, CR (Some (_, tg, r)) =>
      match d with
      | CR (Some (a, _, dr)) => CR (Some (a, tg, map3d (ccopy sc) czero_slot (rowty sc m) r dr))
      | _ => CR (Some (0, tg, map3d (ccopy sc) czero_slot (rowty sc m) r []))
      end
  | TAny, CR (Some (_, tg, r)) =>
      if Nat.eqb tg 7 then                  (* bytes: wrapper kept if of the same kind, array always new *)
        CR (Some (match d with CR (Some (a, 7, _)) => a | _ => 0 end, 7, map cbytes_clone r))
      else
        match d with
        | CR (Some (a, tg', dr)) =>
            if Nat.eqb tg tg' then CR (Some (a, tg, map3d (ccopy sc) czero_slot (rowty sc (any_rowty tg)) r dr))
            else CR (Some (0, tg, map3d (ccopy sc) czero_slot (rowty sc (any_rowty tg)) r []))
        | _ => CR (Some (0, tg, map3d (ccopy sc) czero_slot (rowty sc (any_rowty tg)) r []))
        end
  | TSl n, CS (Some (_, live, _)) =>
      let k := length live in
      match d with
      | CS (Some (a, dl, dt)) =>
          if Nat.leb k (length dl + length dt)
          then CS (Some (a, map2d (map3d (ccopy sc) czero_slot (rowty sc n)) [] live (firstn k (dl ++ dt)),
                         skipn k (dl ++ dt)))
          else CS (Some (0, map2d (map3d (ccopy sc) czero_slot (rowty sc n)) [] live [], []))
      | _ => if Nat.eqb k 0 then CS None     (* nil[:0:0] is nil *)
             else CS (Some (0, map2d (map3d (ccopy sc) czero_slot (rowty sc n)) [] live [], []))
      end
  | TSl _, CS None =>
      match d with
      | CS (Some (a, dl, dt)) => CS (Some (a, [], dl ++ dt))
      | _ => CS None
      end
  | TPs, CS (Some (_, live, _)) => cprim_copy (map (map cfresh) live) d
  | TPs, CS None => cprim_copy [] d
  | _, _ => cfresh s
  end.
Definition ccopy_row (sc : schema) (ts : list sty) (s d : crow) : crow := map3d (ccopy sc) czero_slot ts s d.

(* ---- fresh addresses ---------------------------------------------------------------------------- *)
Definition mapacc {A B} (f : nat -> A -> B * nat) : nat -> list A -> list B * nat :=
  fix go (n : nat) (l : list A) : list B * nat :=
    match l with
    | [] => ([], n)
    | x :: l' => let '(y, n1) := f n x in let '(ys, n2) := go n1 l' in (y :: ys, n2)
    end.
Definition fresh_addr (n a : nat) : nat * nat := if Nat.eqb a 0 then (n, S n) else (a, n).
Fixpoint relab (n : nat) (s : cslot) : cslot * nat :=
  match s with
  | CP z => (CP z, n)
  | CI t z => (CI t z, n)
  | CR None => (CR None, n)
  | CR (Some (a, t, r)) =>
      let '(a', n1) := fresh_addr n a in
      let '(r', n2) := mapacc relab n1 r in
      (CR (Some (a', t, r')), n2)
  | CS None => (CS None, n)
  | CS (Some (a, live, tail)) =>
      let '(a', n1) := fresh_addr n a in
      let '(live', n2) := mapacc (mapacc relab) n1 live in
      let '(tail', n3) := mapacc (mapacc relab) n2 tail in
      (CS (Some (a', live', tail')), n3)
  end.
Definition relab_row : nat -> crow -> crow * nat := mapacc relab.

(* ---- navigation --------------------------------------------------------------------------------- *)
Fixpoint cget (r : crow) (p : path) : option crow :=
  match p with
  | [] => Some r
  | PS j i :: p' =>
      match nth_error r j with
      | Some (CS (Some (_, live, _))) => match nth_error live i with Some r' => cget r' p' | None => None end
      | _ => None
      end
  | PR j :: p' =>
      match nth_error r j with
      | Some (CR (Some (_, _, r'))) => cget r' p'
      | _ => None
      end
  end.
Fixpoint cupd (r : crow) (p : path) (f : crow -> option crow) : option crow :=
  match p with
  | [] => f r
  | PS j i :: p' =>
      match nth_error r j with
      | Some (CS (Some (a, live, tail))) =>
          match nth_error live i with
          | Some r' => match cupd r' p' f with
                       | Some r'' => Some (upd r j (CS (Some (a, upd live i r'', tail))))
                       | None => None
                       end
          | None => None
          end
      | _ => None
      end
  | PR j :: p' =>
      match nth_error r j with
      | Some (CR (Some (a, t, r'))) =>
          match cupd r' p' f with
          | Some r'' => Some (upd r j (CR (Some (a, t, r''))))
          | None => None
          end
      | _ => None
      end
  end.
Definition on_slot {S} (j : nat) (f : S -> S) (r : list S) : option (list S) :=
  match nth_error r j with Some s => Some (upd r j (f s)) | None => None end.

(* ---- raw values (the argument of Value.FromRaw / Map.FromRaw / Slice.FromRaw) ------------------------
   nil | scalar (string, ints, floats, bool: tag 1..4 as pcommon.ValueType) | []byte | map[string]any | []any.
   A raw map is given as the list of its entries IN THE ORDER in which Map.FromRaw stored them (Go map
   iteration order is a run-time choice: the harness reads the order back and passes it in, like a capacity). *)
Inductive raw :=
| RNil
| RScalar (tag : nat) (z : Z)
| RBytes (zs : list Z)
| RMap (kvs : list (Z * raw))
| RSlice (l : list raw).

Definition mk_cs (rows : list crow) : cslot :=          (* make([]T, n) filled, or nil when there is nothing *)
  match rows with [] => CS None | _ => CS (Some (0, rows, [])) end.
Definition mk_vs (rows : list vrow) : vslot := VS rows.

(* Value.FromRaw(iv): a new wrapper per composite value, every element converted recursively, bytes copied *)
Fixpoint craw (r : raw) : cslot :=
  match r with
  | RNil => CI 0 0
  | RScalar t z => CI t z
  | RBytes zs => CR (Some (0, 7, [cprim_copy (map (fun z => [CP z]) zs) cempty_bytes]))   (* SetEmptyBytes().FromRaw(raw) *)
  | RMap kvs => CR (Some (0, 5, [mk_cs (map (fun kv => [CP (fst kv); craw (snd kv)]) kvs)]))
  | RSlice l => CR (Some (0, 6, [mk_cs (map (fun v => [craw v]) l)]))
  end.
Fixpoint vraw (r : raw) : vslot :=
  match r with
  | RNil => VI 0 0
  | RScalar t z => VI t z
  | RBytes zs => VR (Some (7, [VS (map (fun z => [VP z]) zs)]))
  | RMap kvs => VR (Some (5, [VS (map (fun kv => [VP (fst kv); vraw (snd kv)]) kvs)]))
  | RSlice l => VR (Some (6, [VS (map (fun v => [vraw v]) l)]))
  end.

(* ---- operations ---------------------------------------------------------------------------------- *)
Inductive lop :=
| LSetP (j : nat) (z : Z)                        (* SetX(v) of a primitive field; SetAt on a primitive slice element *)
| LSetI (j : nat) (tag : nat) (z : Z)            (* optional Set/Remove (tag 0), oneof-of-primitives Set, Value.SetStr/Int/Double/Bool, FromRaw(nil) *)
| LSetRef (j : nat) (tag : nat) (n : nat)        (* SetEmptyX of a oneof-of-messages; Value.SetEmptyMap/Slice/Bytes *)
| LEnsure (j : nat) (c : nat)
| LAppend (j : nat) (n : nat) (newcap : nat)     (* AppendEmpty of an element of row type n *)
| LAppendP (j : nat) (zs : list Z)               (* primitive slice Append(elms...) *)
| LRemoveIf (j : nat) (mask : list bool)
| LSort (j : nat) (k : nat)                      (* Sort by field k of the element *)
| LClear (j : nat)                               (* Map.Clear, FromRaw(empty) *)
| LPut (j : nat) (k : Z) (tag : nat) (z : Z) (newcap : nat)   (* Map.PutStr/Int/Double/Bool/Empty/EmptyBytes/EmptyMap/EmptySlice *)
| LMapRemove (j : nat) (k : Z)
| LFromRawP (j : nat) (zs : list Z)              (* primitive slice FromRaw *)
| LFromRawB (j : nat) (zs : list Z)
| LSetBytes (j : nat)                            (* Value.SetEmptyBytes: a new wrapper around an empty NON-NIL slice *)
| LFromRawV (j : nat) (r : raw)                  (* Value.FromRaw(nested raw value) *)
| LFromRawM (j : nat) (kvs : list (Z * raw))     (* Map.FromRaw(map[string]any), entries in stored order *)
| LFromRawS (j : nat) (l : list raw).            (* Slice.FromRaw([]any) *)             (* Value.FromRaw([]byte): SetEmptyBytes().FromRaw(raw) — new wrapper, the bytes are copied *)

Inductive op :=
| ONew (n : nat)
| OLocal (h : nat) (p : path) (o : lop)
| OCopySlot (t : sty) (h1 : nat) (p1 : path) (j1 : nat) (h2 : nat) (p2 : path) (j2 : nat)
| OCopyRow (n : nat) (h1 : nat) (p1 : path) (h2 : nat) (p2 : path)
| OMoveSlot (h1 : nat) (p1 : path) (j1 : nat) (h2 : nat) (p2 : path) (j2 : nat)
| OMoveRow (n : nat) (h1 : nat) (p1 : path) (h2 : nat) (p2 : path)   (* struct MoveTo; n = row type: the source is reset to the zero struct *)
| OMoveAppend (newcap : nat) (h1 : nat) (p1 : path) (j1 : nat) (h2 : nat) (p2 : path) (j2 : nat)
| OReadOnly (h : nat).

Definition on_cs (f : cslot -> cslot) (s : cslot) : cslot := match s with CS _ => f s | _ => s end.
Definition on_vs (f : vslot -> vslot) (s : vslot) : vslot := match s with VS _ => f s | _ => s end.
Definition is_cs (s : cslot) : bool := match s with CS _ => true | _ => false end.
Definition is_vs (s : vslot) : bool := match s with VS _ => true | _ => false end.
Definition prim_rows (zs : list Z) : list crow := map (fun z => [CP z]) zs.
Definition vprim_rows (zs : list Z) : list vrow := map (fun z => [VP z]) zs.

Definition clocal (sc : schema) (o : lop) (r : crow) : option crow :=
  match o with
  | LSetP j z => on_slot j (fun _ => CP z) r
  | LSetI j tag z => on_slot j (fun _ => CI tag z) r
  | LSetRef j tag n => on_slot j (fun _ => CR (Some (0, tag, czero_row sc n))) r
  | LEnsure j c => on_slot j (on_cs (fun s => censure s c)) r
  | LAppend j n newcap => on_slot j (on_cs (fun s => capp s [cnew_elem sc n] newcap)) r
  | LAppendP j zs => on_slot j (on_cs (fun s => capp s (prim_rows zs) 0)) r
  | LRemoveIf j mask => on_slot j (on_cs (fun s => cremove_if s mask)) r
  | LSort j k => on_slot j (on_cs (fun s => csort s k)) r
  | LClear j => on_slot j (on_cs (fun _ => CS None)) r
  | LPut j k tag z newcap => on_slot j (on_cs (fun s => cmap_put sc s k tag z newcap)) r
  | LMapRemove j k => on_slot j (on_cs (fun s => cmap_remove s k)) r
  | LFromRawP j zs => on_slot j (on_cs (fun s => cprim_copy (prim_rows zs) s)) r
  | LFromRawB j zs => on_slot j (fun _ => CR (Some (0, 7, [cprim_copy (prim_rows zs) cempty_bytes]))) r
  | LSetBytes j => on_slot j (fun _ => CR (Some (0, 7, [cempty_bytes]))) r
  | LFromRawV j rv => on_slot j (fun _ => craw rv) r
  | LFromRawM j kvs => on_slot j (on_cs (fun _ => mk_cs (map (fun kv => [CP (fst kv); craw (snd kv)]) kvs))) r
  | LFromRawS j l => on_slot j (on_cs (fun _ => mk_cs (map (fun v => [craw v]) l))) r
  end.

(* the slot with which a move leaves its source: nil slice, nil pointer, empty AnyValue, zero scalar *)
Definition cmoved (s : cslot) : cslot :=
  match s with
  | CP _ => CP 0
  | CI _ _ => CI 0 0
  | CR _ => CI 0 0      (* only a container AnyValue can be the source of a slot MoveTo: v.Value = nil *)
  | CS _ => CS None
  end.
Definition vmoved (s : vslot) : vslot :=
  match s with
  | VP _ => VP 0
  | VI _ _ => VI 0 0
  | VR _ => VI 0 0
  | VS _ => VS []
  end.

Record handle := mkH { h_ro : bool; h_ty : nat; h_row : crow }.
Record cstate := mkS { s_next : nat; s_hs : list handle }.
Definition cstate0 : cstate := mkS 1 [].

Definition set_row (st : cstate) (h : nat) (r : crow) : cstate :=
  match nth_error (s_hs st) h with
  | Some hd =>
      let '(r', n') := relab_row (s_next st) r in
      mkS n' (upd (s_hs st) h (mkH (h_ro hd) (h_ty hd) r'))
  | None => st
  end.
Definition ro (st : cstate) (h : nat) : bool :=
  match nth_error (s_hs st) h with Some hd => h_ro hd | None => false end.
Definition row_of (st : cstate) (h : nat) : option crow :=
  option_map h_row (nth_error (s_hs st) h).

(* two positions of ONE handle between which a move is meaningful: neither lies inside the other.
   rows: the paths differ in a field or in the element index of the same slice; slots (path, field): likewise,
   a slot and anything inside one of its own elements do not diverge *)
Fixpoint diverge (p1 p2 : path) : bool :=
  match p1, p2 with
  | PS j i :: q1, PS j' i' :: q2 => if Nat.eqb j j' && Nat.eqb i i' then diverge q1 q2 else true
  | PR j :: q1, PR j' :: q2 => if Nat.eqb j j' then diverge q1 q2 else true
  | PS j _ :: _, PR j' :: _ => negb (Nat.eqb j j')
  | PR j :: _, PS j' _ :: _ => negb (Nat.eqb j j')
  | _, _ => false
  end.
Definition step_fld (s : pstep) : nat := match s with PS j _ => j | PR j => j end.
Fixpoint sdiverge (p1 : path) (j1 : nat) (p2 : path) (j2 : nat) : bool :=
  match p1, p2 with
  | [], [] => negb (Nat.eqb j1 j2)
  | [], s :: _ => negb (Nat.eqb j1 (step_fld s))
  | s :: _, [] => negb (Nat.eqb (step_fld s) j2)
  | PS j i :: q1, PS j' i' :: q2 =>
      if Nat.eqb j j' then (if Nat.eqb i i' then sdiverge q1 j1 q2 j2 else true) else true
  | PR j :: q1, PR j' :: q2 => if Nat.eqb j j' then sdiverge q1 j1 q2 j2 else true
  | s1 :: _, s2 :: _ => negb (Nat.eqb (step_fld s1) (step_fld s2))
  end.

(* a move between two diverging positions of the SAME handle: read the source, empty it, write the destination *)
Definition csame {X} (st : cstate) (h : nat) (rd : crow -> option X) (usrc : crow -> option crow)
           (udst : X -> crow -> option crow) : cstate * nat :=
  match row_of st h with
  | Some r =>
      match rd r with
      | Some s => match opt_bind (usrc r) (udst s) with
                  | Some r2 => (set_row st h r2, 0)
                  | None => (st, 2)
                  end
      | None => (st, 2)
      end
  | None => (st, 2)
  end.

(* result code of a step: 0 done, 1 panic "invalid access to shared data" (state unchanged),
   2 fault (the program does not type-check against the state: bad handle / path / field) *)
Definition cstep (sc : schema) (st : cstate) (o : op) : cstate * nat :=
  match o with
  | ONew n =>
      let '(r', n') := relab_row (s_next st) (czero_row sc n) in
      (mkS n' (s_hs st ++ [mkH false n r']), 0)
  | OReadOnly h =>
      match nth_error (s_hs st) h with
      | Some hd => (mkS (s_next st) (upd (s_hs st) h (mkH true (h_ty hd) (h_row hd))), 0)
      | None => (st, 2)
      end
  | OLocal h p lo =>
      if ro st h then (st, 1) else
      match opt_bind (row_of st h) (fun r => cupd r p (clocal sc lo)) with
      | Some r' => (set_row st h r', 0)
      | None => (st, 2)
      end
  | OCopySlot t h1 p1 j1 h2 p2 j2 =>
      if ro st h2 then (st, 1) else
      match opt_bind (row_of st h1) (fun r => opt_bind (cget r p1) (fun q => nth_error q j1)) with
      | Some s =>
          match opt_bind (row_of st h2) (fun r => cupd r p2 (on_slot j2 (fun d => ccopy sc t s d))) with
          | Some r' => (set_row st h2 r', 0)
          | None => (st, 2)
          end
      | None => (st, 2)
      end
  | OCopyRow n h1 p1 h2 p2 =>
      if ro st h2 then (st, 1) else
      match opt_bind (row_of st h1) (fun r => cget r p1) with
      | Some s =>
          match opt_bind (row_of st h2) (fun r => cupd r p2 (fun d => Some (ccopy_row sc (rowty sc n) s d))) with
          | Some r' => (set_row st h2 r', 0)
          | None => (st, 2)
          end
      | None => (st, 2)
      end
  | OMoveSlot h1 p1 j1 h2 p2 j2 =>
      if ro st h1 || ro st h2 then (st, 1) else
      if Nat.eqb h1 h2 then
        (if sdiverge p1 j1 p2 j2
         then csame st h1 (fun r => opt_bind (cget r p1) (fun q => nth_error q j1))
                    (fun r => cupd r p1 (on_slot j1 cmoved)) (fun s r => cupd r p2 (on_slot j2 (fun _ => s)))
         else (st, 2)) else
      match opt_bind (row_of st h1) (fun r => opt_bind (cget r p1) (fun q => nth_error q j1)) with
      | Some s =>
          match opt_bind (row_of st h2) (fun r => cupd r p2 (on_slot j2 (fun _ => s))),
                opt_bind (row_of st h1) (fun r => cupd r p1 (on_slot j1 cmoved)) with
          | Some r2, Some r1 => (set_row (set_row st h2 r2) h1 r1, 0)
          | _, _ => (st, 2)
          end
      | None => (st, 2)
      end
  | OMoveRow n h1 p1 h2 p2 =>
      if ro st h1 || ro st h2 then (st, 1) else
      if Nat.eqb h1 h2 then
        (if diverge p1 p2
         then csame st h1 (fun r => cget r p1) (fun r => cupd r p1 (fun _ => Some (czero_row sc n)))
                    (fun s r => cupd r p2 (fun _ => Some s))
         else (st, 2)) else
      match opt_bind (row_of st h1) (fun r => cget r p1) with
      | Some s =>
          match opt_bind (row_of st h2) (fun r => cupd r p2 (fun _ => Some s)),
                opt_bind (row_of st h1) (fun r => cupd r p1 (fun _ => Some (czero_row sc n))) with
          | Some r2, Some r1 => (set_row (set_row st h2 r2) h1 r1, 0)
          | _, _ => (st, 2)
          end
      | None => (st, 2)
      end
  | OMoveAppend newcap h1 p1 j1 h2 p2 j2 =>
      if ro st h1 || ro st h2 then (st, 1) else
      if Nat.eqb h1 h2 then
        (if sdiverge p1 j1 p2 j2
         then csame st h1 (fun r => opt_bind (opt_bind (cget r p1) (fun q => nth_error q j1)) (fun s => if is_cs s then Some s else None))
                    (fun r => cupd r p1 (on_slot j1 (fun _ => CS None)))
                    (fun s r => cupd r p2 (on_slot j2 (on_cs (fun d => if cs_nil d then s else capp d (cs_live s) newcap))))
         else (st, 2)) else
      match opt_bind (row_of st h1) (fun r => opt_bind (cget r p1) (fun q => nth_error q j1)) with
      | Some s =>
          if negb (is_cs s) then (st, 2) else
          match opt_bind (row_of st h2) (fun r => cupd r p2 (on_slot j2 (on_cs (fun d => if cs_nil d then s else capp d (cs_live s) newcap)))),
                opt_bind (row_of st h1) (fun r => cupd r p1 (on_slot j1 (fun _ => CS None))) with
          | Some r2, Some r1 => (set_row (set_row st h2 r2) h1 r1, 0)
          | _, _ => (st, 2)
          end
      | None => (st, 2)
      end
  end.

Fixpoint run_c (sc : schema) (st : cstate) (p : list op) : cstate * list nat :=
  match p with
  | [] => (st, [])
  | o :: p' => let '(st1, c) := cstep sc st o in
               let '(st2, cs) := run_c sc st1 p' in (st2, c :: cs)
  end.

(* ---- the pure interpreter (the specification): handles hold values, CopyTo is assignment -------- *)
Definition vs_rows (s : vslot) : list vrow := match s with VS l => l | _ => [] end.
Definition vapp (s : vslot) (rows : list vrow) : vslot := VS (vs_rows s ++ rows).
Definition vmap_put (sc : schema) (s : vslot) (k : Z) (tag : nat) (z : Z) : vslot :=
  match find_idx (fun r => Z.eqb (vrow_key r) k) (vs_rows s) with
  | Some i => VS (upd (vs_rows s) i [VP k; vmk_any sc tag z])
  | None => vapp s [[VP k; vmk_any sc tag z]]
  end.
Definition vmap_remove (s : vslot) (k : Z) : vslot :=
  match find_idx (fun r => Z.eqb (vrow_key r) k) (vs_rows s) with
  | Some i => VS (swap_remove i (vs_rows s))
  | None => VS (vs_rows s)
  end.
Definition vlocal (sc : schema) (o : lop) (r : vrow) : option vrow :=
  match o with
  | LSetP j z => on_slot j (fun _ => VP z) r
  | LSetI j tag z => on_slot j (fun _ => VI tag z) r
  | LSetRef j tag n => on_slot j (fun _ => VR (Some (tag, vzero_row sc n))) r
  | LEnsure j c => on_slot j (on_vs (fun s => s)) r
  | LAppend j n _ => on_slot j (on_vs (fun s => vapp s [vnew_elem sc n])) r
  | LAppendP j zs => on_slot j (on_vs (fun s => vapp s (vprim_rows zs))) r
  | LRemoveIf j mask => on_slot j (on_vs (fun s => VS (remove_mask (vs_rows s) mask))) r
  | LSort j k => on_slot j (on_vs (fun s => VS (sort_by (vkey k) (vs_rows s)))) r
  | LClear j => on_slot j (on_vs (fun _ => VS [])) r
  | LPut j k tag z _ => on_slot j (on_vs (fun s => vmap_put sc s k tag z)) r
  | LMapRemove j k => on_slot j (on_vs (fun s => vmap_remove s k)) r
  | LFromRawP j zs => on_slot j (on_vs (fun _ => VS (vprim_rows zs))) r
  | LFromRawB j zs => on_slot j (fun _ => VR (Some (7, [VS (vprim_rows zs)]))) r
  | LSetBytes j => on_slot j (fun _ => VR (Some (7, [VS []]))) r
  | LFromRawV j rv => on_slot j (fun _ => vraw rv) r
  | LFromRawM j kvs => on_slot j (on_vs (fun _ => VS (map (fun kv => [VP (fst kv); vraw (snd kv)]) kvs))) r
  | LFromRawS j l => on_slot j (on_vs (fun _ => VS (map (fun v => [vraw v]) l))) r
  end.

Record ahandle := mkA { a_ro : bool; a_ty : nat; a_row : vrow }.
Definition astate := list ahandle.
Definition aro (st : astate) (h : nat) : bool :=
  match nth_error st h with Some hd => a_ro hd | None => false end.
Definition arow_of (st : astate) (h : nat) : option vrow := option_map a_row (nth_error st h).
Definition aset_row (st : astate) (h : nat) (r : vrow) : astate :=
  match nth_error st h with
  | Some hd => upd st h (mkA (a_ro hd) (a_ty hd) r)
  | None => st
  end.

Definition asame {X} (st : astate) (h : nat) (rd : vrow -> option X) (usrc : vrow -> option vrow)
           (udst : X -> vrow -> option vrow) : astate * nat :=
  match arow_of st h with
  | Some r =>
      match rd r with
      | Some s => match opt_bind (usrc r) (udst s) with
                  | Some r2 => (aset_row st h r2, 0)
                  | None => (st, 2)
                  end
      | None => (st, 2)
      end
  | None => (st, 2)
  end.

Definition astep (sc : schema) (st : astate) (o : op) : astate * nat :=
  match o with
  | ONew n => (st ++ [mkA false n (vzero_row sc n)], 0)
  | OReadOnly h =>
      match nth_error st h with
      | Some hd => (upd st h (mkA true (a_ty hd) (a_row hd)), 0)
      | None => (st, 2)
      end
  | OLocal h p lo =>
      if aro st h then (st, 1) else
      match opt_bind (arow_of st h) (fun r => aupd r p (vlocal sc lo)) with
      | Some r' => (aset_row st h r', 0)
      | None => (st, 2)
      end
  | OCopySlot t h1 p1 j1 h2 p2 j2 =>
      if aro st h2 then (st, 1) else
      match opt_bind (arow_of st h1) (fun r => opt_bind (aget r p1) (fun q => nth_error q j1)) with
      | Some s =>
          match opt_bind (arow_of st h2) (fun r => aupd r p2 (on_slot j2 (fun _ => s))) with
          | Some r' => (aset_row st h2 r', 0)
          | None => (st, 2)
          end
      | None => (st, 2)
      end
  | OCopyRow n h1 p1 h2 p2 =>
      if aro st h2 then (st, 1) else
      match opt_bind (arow_of st h1) (fun r => aget r p1) with
      | Some s =>
          match opt_bind (arow_of st h2) (fun r => aupd r p2 (fun _ => Some s)) with
          | Some r' => (aset_row st h2 r', 0)
          | None => (st, 2)
          end
      | None => (st, 2)
      end
  | OMoveSlot h1 p1 j1 h2 p2 j2 =>
      if aro st h1 || aro st h2 then (st, 1) else
      if Nat.eqb h1 h2 then
        (if sdiverge p1 j1 p2 j2
         then asame st h1 (fun r => opt_bind (aget r p1) (fun q => nth_error q j1))
                    (fun r => aupd r p1 (on_slot j1 vmoved)) (fun s r => aupd r p2 (on_slot j2 (fun _ => s)))
         else (st, 2)) else
      match opt_bind (arow_of st h1) (fun r => opt_bind (aget r p1) (fun q => nth_error q j1)) with
      | Some s =>
          match opt_bind (arow_of st h2) (fun r => aupd r p2 (on_slot j2 (fun _ => s))),
                opt_bind (arow_of st h1) (fun r => aupd r p1 (on_slot j1 vmoved)) with
          | Some r2, Some r1 => (aset_row (aset_row st h2 r2) h1 r1, 0)
          | _, _ => (st, 2)
          end
      | None => (st, 2)
      end
  | OMoveRow n h1 p1 h2 p2 =>
      if aro st h1 || aro st h2 then (st, 1) else
      if Nat.eqb h1 h2 then
        (if diverge p1 p2
         then asame st h1 (fun r => aget r p1) (fun r => aupd r p1 (fun _ => Some (vzero_row sc n)))
                    (fun s r => aupd r p2 (fun _ => Some s))
         else (st, 2)) else
      match opt_bind (arow_of st h1) (fun r => aget r p1) with
      | Some s =>
          match opt_bind (arow_of st h2) (fun r => aupd r p2 (fun _ => Some s)),
                opt_bind (arow_of st h1) (fun r => aupd r p1 (fun _ => Some (vzero_row sc n))) with
          | Some r2, Some r1 => (aset_row (aset_row st h2 r2) h1 r1, 0)
          | _, _ => (st, 2)
          end
      | None => (st, 2)
      end
  | OMoveAppend _ h1 p1 j1 h2 p2 j2 =>
      if aro st h1 || aro st h2 then (st, 1) else
      if Nat.eqb h1 h2 then
        (if sdiverge p1 j1 p2 j2
         then asame st h1 (fun r => opt_bind (opt_bind (aget r p1) (fun q => nth_error q j1)) (fun s => if is_vs s then Some s else None))
                    (fun r => aupd r p1 (on_slot j1 (fun _ => VS [])))
                    (fun s r => aupd r p2 (on_slot j2 (on_vs (fun d => vapp d (vs_rows s)))))
         else (st, 2)) else
      match opt_bind (arow_of st h1) (fun r => opt_bind (aget r p1) (fun q => nth_error q j1)) with
      | Some s =>
          if negb (is_vs s) then (st, 2) else
          match opt_bind (arow_of st h2) (fun r => aupd r p2 (on_slot j2 (on_vs (fun d => vapp d (vs_rows s))))),
                opt_bind (arow_of st h1) (fun r => aupd r p1 (on_slot j1 (fun _ => VS []))) with
          | Some r2, Some r1 => (aset_row (aset_row st h2 r2) h1 r1, 0)
          | _, _ => (st, 2)
          end
      | None => (st, 2)
      end
  end.

Fixpoint run_a (sc : schema) (st : astate) (p : list op) : astate * list nat :=
  match p with
  | [] => (st, [])
  | o :: p' => let '(st1, c) := astep sc st o in
               let '(st2, cs) := run_a sc st1 p' in (st2, c :: cs)
  end.

Definition abs_handle (h : handle) : ahandle := mkA (h_ro h) (h_ty h) (abs_row (h_row h)).
Definition abs_state (st : cstate) : astate := map abs_handle (s_hs st).

(* ---- the copy rule BEFORE the fix ad68bfbbc (kept only for Witness.v: what the fix bought) -------------- *)
Definition ccopy_old_field (t : sty) (s d : cslot) : option cslot :=
  match t, s with
  | TI, CI 0 _ => Some d        (* if ms.HasX() { dest.SetX(..) }  -- no else *)
  | TOne _, CR None => Some d   (* switch ms.Type() { ... }        -- no default *)
  | _, _ => None                (* otherwise as ccopy *)
  end.

(* ---- the schema instance used by the correspondence harness (pdata/pmetric + common types) -------
   row types: 0 AnyValue  1 KeyValue  2 KeyValueList  3 ArrayValue  4 bytes  5 primitive element
   6 Exemplar (value-flavour element)  7 HistogramDataPoint  8 *HistogramDataPoint  9 NumberDataPoint
   10 *NumberDataPoint  11 Gauge  12 Sum  13 Histogram  14 Metric  15 *Metric  16 ScopeMetrics (Scope inlined)
   17 *ScopeMetrics  18 ResourceMetrics (Resource inlined)  19 *ResourceMetrics  20 Metrics
   21 MetricSlice  22 HistogramDataPointSlice  23 ExemplarSlice  24 NumberDataPointSlice  25.. see below *)
Definition pmetric_schema : schema :=
  common_schema ++
  [ [TP; TI; TSl 1; TP; TP];
    [TSl 1; TP; TP; TP; TPs; TPs; TSl 6; TP; TI; TI; TI];
    [TPtr 7];
    [TSl 1; TP; TP; TI; TSl 6; TP];
    [TPtr 9];
    [TSl 10];
    [TP; TP; TSl 10];
    [TP; TSl 8];
    [TP; TP; TP; TSl 1; TOne [11; 12; 13; 27; 32]];
    [TPtr 14];
    [TP; TP; TSl 1; TP; TP; TSl 15];
    [TPtr 16];
    [TSl 1; TP; TP; TSl 17];
    [TPtr 18];
    [TSl 19];
    [TSl 15]; [TSl 8]; [TSl 6]; [TSl 10];
    (* 25 ExponentialHistogramDataPoint (Positive / Negative buckets inlined)  26 *25  27 ExponentialHistogram *)
    [TSl 1; TP; TP; TP; TP; TP; TP; TPs; TP; TPs; TSl 6; TP; TI; TI; TI; TP];
    [TPtr 25];
    [TP; TSl 26];
    (* 28 SummaryDataPoint_ValueAtQuantile  29 *28  30 SummaryDataPoint  31 *30  32 Summary *)
    [TP; TP];
    [TPtr 28];
    [TSl 1; TP; TP; TP; TP; TSl 29; TP];
    [TPtr 30];
    [TSl 31];
    (* 33 ExponentialHistogramDataPointSlice  34 SummaryDataPointSlice *)
    [TSl 26]; [TSl 31] ].
