(* C07/Proofs.v — part 1: the concrete interpreter refines the pure one (abs commutes with every
   operation); read-only totality. *)
From Verif Require Import Common.Base C07.Val C07.Model.
From Coq Require Import Permutation.

(* ---- induction principle for the nested type cslot ------------------------------------------------ *)
Section cslot_induction.
  Variable P : cslot -> Prop.
  Hypothesis HP : forall z, P (CP z).
  Hypothesis HI : forall t z, P (CI t z).
  Hypothesis HRN : P (CR None).
  Hypothesis HR : forall a t r, Forall P r -> P (CR (Some (a, t, r))).
  Hypothesis HSN : P (CS None).
  Hypothesis HS : forall a live tail, Forall (Forall P) live -> Forall (Forall P) tail -> P (CS (Some (a, live, tail))).
  Fixpoint cslot_ind' (s : cslot) : P s :=
    match s with
    | CP z => HP z
    | CI t z => HI t z
    | CR None => HRN
    | CR (Some (a, t, r)) =>
        HR a t r ((fix go (r : list cslot) : Forall P r :=
                     match r with [] => Forall_nil _ | x :: r' => Forall_cons _ (cslot_ind' x) (go r') end) r)
    | CS None => HSN
    | CS (Some (a, live, tail)) =>
        let rows := fix gos (rs : list (list cslot)) : Forall (Forall P) rs :=
          match rs with
          | [] => Forall_nil _
          | r :: rs' => Forall_cons _ ((fix go (r : list cslot) : Forall P r :=
                     match r with [] => Forall_nil _ | x :: r' => Forall_cons _ (cslot_ind' x) (go r') end) r) (gos rs')
          end in
        HS a live tail (rows live) (rows tail)
    end.
End cslot_induction.

(* ---- induction principle for the nested type raw -------------------------------------------------- *)
Section raw_induction.
  Variable P : raw -> Prop.
  Hypothesis HN : P RNil.
  Hypothesis HSc : forall t z, P (RScalar t z).
  Hypothesis HB : forall zs, P (RBytes zs).
  Hypothesis HM : forall kvs, Forall (fun kv => P (snd kv)) kvs -> P (RMap kvs).
  Hypothesis HS : forall l, Forall P l -> P (RSlice l).
  Fixpoint raw_ind' (r : raw) : P r :=
    match r with
    | RNil => HN
    | RScalar t z => HSc t z
    | RBytes zs => HB zs
    | RMap kvs => HM kvs ((fix go (l : list (Z * raw)) : Forall (fun kv => P (snd kv)) l :=
                             match l with [] => Forall_nil _ | kv :: l' => Forall_cons _ (raw_ind' (snd kv)) (go l') end) kvs)
    | RSlice l => HS l ((fix go (l : list raw) : Forall P l :=
                           match l with [] => Forall_nil _ | x :: l' => Forall_cons _ (raw_ind' x) (go l') end) l)
    end.
End raw_induction.

(* ---- small list facts -------------------------------------------------------------------------------- *)
Lemma map_upd {A B} (f : A -> B) (l : list A) i x : map f (upd l i x) = upd (map f l) i (f x).
Proof. revert i; induction l as [|y l IH]; intros [|i]; simpl; auto. now rewrite IH. Qed.

Lemma nth_error_map' {A B} (f : A -> B) l i : nth_error (map f l) i = option_map f (nth_error l i).
Proof. revert i; induction l; intros [|i]; simpl; auto. Qed.

Lemma map_ext_Forall {A B} (f g : A -> B) l : Forall (fun x => f x = g x) l -> map f l = map g l.
Proof. induction 1; simpl; congruence. Qed.

Lemma on_slot_abs {A B} (ab : A -> B) (fc : A -> A) (fv : B -> B) j r :
  (forall s, ab (fc s) = fv (ab s)) ->
  option_map (map ab) (on_slot j fc r) = on_slot j fv (map ab r).
Proof.
  intros H. unfold on_slot. rewrite nth_error_map'. destruct (nth_error r j); simpl; auto.
  now rewrite map_upd, H.
Qed.

(* ---- relabelling does not change values -------------------------------------------------------------- *)
Lemma mapacc_abs {A B} (f : nat -> A -> A * nat) (ab : A -> B) l :
  Forall (fun x => forall n, ab (fst (f n x)) = ab x) l ->
  forall n, map ab (fst (mapacc f n l)) = map ab l.
Proof.
  induction 1 as [|x l Hx _ IH]; intros n; simpl; auto.
  specialize (Hx n). destruct (f n x) as [y n1]. specialize (IH n1). destruct (mapacc f n1 l) as [ys n2].
  simpl in *. congruence.
Qed.

Lemma relab_abs s : forall n, abs_slot (fst (relab n s)) = abs_slot s.
Proof.
  induction s as [z|t z| |a t r IH| |a live tail IHl IHt] using cslot_ind'; intros n; simpl; auto.
  - destruct (fresh_addr n a) as [a' n1]. pose proof (mapacc_abs relab abs_slot r IH n1) as E.
    destruct (mapacc relab n1 r) as [r' n2]. simpl in *. now rewrite E.
  - destruct (fresh_addr n a) as [a' n1].
    assert (E : forall m, map (map abs_slot) (fst (mapacc (mapacc relab) m live)) = map (map abs_slot) live).
    { apply mapacc_abs. eapply Forall_impl; [|exact IHl]. intros r Hr m. now apply mapacc_abs. }
    specialize (E n1). destruct (mapacc (mapacc relab) n1 live) as [live' n2].
    destruct (mapacc (mapacc relab) n2 tail) as [tail' n3]. simpl in *. now rewrite E.
Qed.

Lemma relab_row_abs r n : abs_row (fst (relab_row n r)) = abs_row r.
Proof. apply mapacc_abs. apply Forall_forall. intros x _ m. apply relab_abs. Qed.

(* ---- navigation commutes ------------------------------------------------------------------------------ *)
Lemma cget_abs p : forall r, aget (abs_row r) p = option_map abs_row (cget r p).
Proof.
  induction p as [|[j i|j] p IH]; intros r; simpl; auto.
  - unfold abs_row at 1. rewrite nth_error_map'.
    destruct (nth_error r j) as [[| |[[[a t] q]|]|[[[a live] tail]|]]|]; simpl; auto; try (now destruct i).
    rewrite nth_error_map'. destruct (nth_error live i); simpl; auto.
  - unfold abs_row at 1. rewrite nth_error_map'.
    destruct (nth_error r j) as [[| |[[[a t] q]|]|[[[a live] tail]|]]|]; simpl; auto.
Qed.

Lemma cupd_abs (f : crow -> option crow) (g : vrow -> option vrow) :
  (forall x, option_map abs_row (f x) = g (abs_row x)) ->
  forall p r, option_map abs_row (cupd r p f) = aupd (abs_row r) p g.
Proof.
  intros H. induction p as [|[j i|j] p IH]; intros r; simpl; auto.
  - unfold abs_row at 2. rewrite nth_error_map'.
    destruct (nth_error r j) as [[| |[[[a t] q]|]|[[[a live] tail]|]]|]; simpl; auto; try (now destruct i).
    rewrite nth_error_map'. destruct (nth_error live i) as [r'|]; simpl; auto.
    specialize (IH r'). fold (abs_row r'). rewrite <- IH. destruct (cupd r' p f); simpl; auto.
    unfold abs_row. rewrite map_upd. simpl. now rewrite map_upd.
  - unfold abs_row at 2. rewrite nth_error_map'.
    destruct (nth_error r j) as [[| |[[[a t] q]|]|[[[a live] tail]|]]|]; simpl; auto.
    specialize (IH q). fold (abs_row q). rewrite <- IH. destruct (cupd q p f); simpl; auto.
    unfold abs_row. now rewrite map_upd.
Qed.

(* ---- local operations commute -------------------------------------------------------------------------- *)
Lemma abs_zero_slot t : abs_slot (czero_slot t) = vzero_slot t.
Proof. destruct t; reflexivity. Qed.
Lemma abs_zero_row sc n : abs_row (czero_row sc n) = vzero_row sc n.
Proof. unfold abs_row, czero_row, vzero_row. rewrite map_map. apply map_ext. apply abs_zero_slot. Qed.
Lemma abs_zero_row' sc n : map abs_slot (czero_row sc n) = vzero_row sc n.
Proof. apply abs_zero_row. Qed.
Lemma abs_new_elem sc n : abs_row (cnew_elem sc n) = vnew_elem sc n.
Proof.
  unfold cnew_elem, vnew_elem.
  destruct (rowty sc n) as [|t ts]; try apply abs_zero_row.
  destruct t as [ | |k| |m|ns| ]; try apply abs_zero_row.
  destruct ts; try apply abs_zero_row. simpl. now rewrite abs_zero_row'.
Qed.
Lemma abs_mk_any sc tag z : abs_slot (mk_any sc tag z) = vmk_any sc tag z.
Proof. unfold mk_any, vmk_any. destruct (Nat.ltb tag 5); simpl; auto. destruct (Nat.eqb tag 7); simpl; auto. now rewrite abs_zero_row'. Qed.

Lemma abs_cs s : is_cs s = true -> abs_slot s = VS (map abs_row (cs_live s)).
Proof. destruct s as [| | |[[[a l] t]|]]; simpl; try discriminate; auto. Qed.
Lemma vs_rows_abs s : is_cs s = true -> vs_rows (abs_slot s) = map abs_row (cs_live s).
Proof. intros H. now rewrite (abs_cs s H). Qed.

Lemma abs_capp s rows c : is_cs s = true ->
  abs_slot (capp s rows c) = vapp (abs_slot s) (map abs_row rows).
Proof.
  intros H. unfold capp, vapp. rewrite (vs_rows_abs s H).
  destruct rows as [|r rows]; simpl Nat.eqb; cbv iota.
  - simpl. rewrite app_nil_r. now apply abs_cs.
  - destruct (Nat.leb _ _); simpl; now rewrite map_app.
Qed.

Lemma remove_mask_map {A B} (f : A -> B) l m : remove_mask (map f l) m = map f (remove_mask l m).
Proof. revert m; induction l; intros [|[] m]; simpl; auto; now rewrite IHl. Qed.

Lemma insert_by_map {A B} (f : A -> B) (k : B -> Z) x l :
  insert_by k (f x) (map f l) = map f (insert_by (fun y => k (f y)) x l).
Proof. induction l; simpl; auto. destruct (Z.ltb _ _); simpl; auto. now rewrite IHl. Qed.
Lemma sort_by_map {A B} (f : A -> B) (k : B -> Z) l :
  sort_by k (map f l) = map f (sort_by (fun y => k (f y)) l).
Proof.
  unfold sort_by. change (@nil B) with (map f []). generalize (@nil A).
  induction l; intros acc; simpl; auto. rewrite insert_by_map. apply IHl.
Qed.

Lemma find_idx_map {A B} (f : A -> B) (p : B -> bool) l :
  find_idx p (map f l) = find_idx (fun x => p (f x)) l.
Proof. induction l; simpl; auto. destruct (p (f a)); auto. now rewrite IHl. Qed.
Lemma find_idx_ext {A} (p q : A -> bool) l : (forall x, p x = q x) -> find_idx p l = find_idx q l.
Proof. intros H. induction l; simpl; auto. rewrite H, IHl. reflexivity. Qed.

Lemma removelast_map {A B} (f : A -> B) l : removelast (map f l) = map f (removelast l).
Proof. induction l as [|x [|y l] IH]; simpl; auto. simpl in IH. now rewrite IH. Qed.
Lemma swap_remove_map {A B} (f : A -> B) i l : swap_remove i (map f l) = map f (swap_remove i l).
Proof.
  unfold swap_remove. rewrite <- map_rev, map_length. destruct (rev l); simpl; auto.
  destruct (Nat.eqb _ _); rewrite removelast_map; auto. now rewrite map_upd.
Qed.

Lemma key_abs r : vrow_key (abs_row r) = crow_key r.
Proof. destruct r as [|[z|t z|[[[a t] q]|]|[[[a l] t]|]] r]; reflexivity. Qed.

Lemma abs_prim_rows zs : map abs_row (prim_rows zs) = vprim_rows zs.
Proof. unfold prim_rows, vprim_rows. rewrite map_map. reflexivity. Qed.

Lemma abs_prim_copy rows d : is_cs d = true -> abs_slot (cprim_copy rows d) = VS (map abs_row rows).
Proof.
  intros H. destruct d as [| | |[[[a dl] dt]|]]; try discriminate; simpl.
  - destruct (Nat.leb _ _); reflexivity.
  - destruct rows; reflexivity.
Qed.

Lemma on_cs_abs fc fv s :
  (forall s, is_cs s = true -> abs_slot (fc s) = fv (abs_slot s)) ->
  abs_slot (on_cs fc s) = on_vs fv (abs_slot s).
Proof.
  intros H. destruct s as [| |[[[a t] r]|]|[[[a l] t]|]]; try reflexivity;
    unfold on_cs; rewrite H by reflexivity; reflexivity.
Qed.

Lemma abs_mk_cs rows : abs_slot (mk_cs rows) = VS (map abs_row rows).
Proof. destruct rows; reflexivity. Qed.

Lemma abs_craw r : abs_slot (craw r) = vraw r.
Proof.
  induction r as [|t z|zs|kvs IH|l IH] using raw_ind'; simpl; auto.
  - pose proof (abs_prim_copy (map (fun z => [CP z]) zs) cempty_bytes eq_refl) as E. simpl in E. rewrite E.
    unfold abs_row. rewrite map_map. reflexivity.
  - rewrite abs_mk_cs. unfold abs_row. rewrite map_map. f_equal. f_equal. f_equal. f_equal. f_equal.
    apply map_ext_Forall. eapply Forall_impl; [|exact IH]. intros kv H. simpl. now rewrite H.
  - rewrite abs_mk_cs. unfold abs_row. rewrite map_map. f_equal. f_equal. f_equal. f_equal. f_equal.
    apply map_ext_Forall. eapply Forall_impl; [|exact IH]. intros v H. simpl. now rewrite H.
Qed.

Lemma clocal_abs sc lo x : option_map abs_row (clocal sc lo x) = vlocal sc lo (abs_row x).
Proof.
  destruct lo; simpl; unfold abs_row; apply on_slot_abs; intros s; simpl; auto;
    try (apply on_cs_abs; clear s; intros s Hs).
  - now rewrite abs_zero_row'.
  - unfold censure. destruct (Nat.leb _ _); auto. rewrite (abs_cs s Hs). reflexivity.
  - rewrite abs_capp by auto. simpl. now rewrite abs_new_elem.
  - rewrite abs_capp by auto. now rewrite abs_prim_rows.
  - destruct s as [| | |[[[a l] t]|]]; try discriminate; simpl; auto.
    now rewrite remove_mask_map.
  - destruct s as [| | |[[[a l] t]|]]; try discriminate; simpl; auto.
    rewrite sort_by_map. reflexivity.
  - reflexivity.
  - unfold cmap_put, vmap_put. rewrite (vs_rows_abs s Hs), find_idx_map.
    rewrite (find_idx_ext (fun x0 : crow => (vrow_key (abs_row x0) =? k)%Z) (key_is k)) by (intros r; unfold key_is; now rewrite key_abs).
    destruct (find_idx (key_is k) (cs_live s)) as [i|].
    + destruct s as [| | |[[[a l] t]|]]; try discriminate; simpl.
      * fold abs_row. rewrite map_upd. simpl. now rewrite abs_mk_any.
      * reflexivity.
    + rewrite abs_capp by auto. simpl. now rewrite abs_mk_any.
  - unfold cmap_remove, vmap_remove. rewrite (vs_rows_abs s Hs), find_idx_map.
    rewrite (find_idx_ext (fun x0 : crow => (vrow_key (abs_row x0) =? k)%Z) (key_is k)) by (intros r; unfold key_is; now rewrite key_abs).
    destruct s as [| | |[[[a l] t]|]]; try discriminate; simpl; auto.
    destruct (find_idx (key_is k) l); simpl; fold abs_row; auto. now rewrite swap_remove_map.
  - rewrite abs_prim_copy by auto. now rewrite abs_prim_rows.
  - pose proof (abs_prim_copy (prim_rows zs) cempty_bytes eq_refl) as E. simpl in E. rewrite E. now rewrite abs_prim_rows.
  - apply abs_craw.
  - rewrite abs_mk_cs. unfold abs_row. rewrite map_map. f_equal. apply map_ext. intros kv. simpl. now rewrite abs_craw.
  - rewrite abs_mk_cs. unfold abs_row. rewrite map_map. f_equal. apply map_ext. intros v. simpl. now rewrite abs_craw.
Qed.

(* ---- CopyTo is exact when no field is "copied only when set" ------------------------------------------- *)
Lemma abs_cfresh s : abs_slot (cfresh s) = abs_slot s.
Proof.
  induction s as [z|t z| |a t r IH| |a live tail IHl IHt] using cslot_ind'; simpl; auto.
  - rewrite map_map. f_equal. f_equal. f_equal. now apply map_ext_Forall.
  - rewrite map_map. f_equal. apply map_ext_Forall. eapply Forall_impl; [|exact IHl].
    intros r Hr. simpl. rewrite map_map. now apply map_ext_Forall.
Qed.

Lemma map3d_exact (f : sty -> cslot -> cslot -> cslot) dflt r :
  Forall (fun s => forall t d, abs_slot (f t s d) = abs_slot s) r ->
  forall ts dr, map abs_slot (map3d f dflt ts r dr) = map abs_slot r.
Proof. induction 1 as [|s r Hs _ IH]; intros ts dr; simpl; auto. now rewrite Hs, IH. Qed.

Lemma map2d_exact (f : crow -> crow -> crow) live :
  Forall (fun r => forall d, abs_row (f r d) = abs_row r) live ->
  forall dl, map abs_row (map2d f [] live dl) = map abs_row live.
Proof. induction 1 as [|r l Hr _ IH]; intros dl; simpl; auto. now rewrite Hr, IH. Qed.

Lemma abs_map_cfresh r : map abs_slot (map cfresh r) = map abs_slot r.
Proof. rewrite map_map. apply map_ext. apply abs_cfresh. Qed.
Lemma abs_bytes_clone s : abs_slot (cbytes_clone s) = abs_slot s.
Proof. destruct s as [| |r|[[[a l] t]|]]; try apply abs_cfresh; simpl; auto. f_equal. rewrite map_map. apply map_ext. intros q. rewrite map_map. apply map_ext. apply abs_cfresh. Qed.
Lemma abs_map_bytes_clone r : map abs_slot (map cbytes_clone r) = map abs_slot r.
Proof. rewrite map_map. apply map_ext. apply abs_bytes_clone. Qed.
Lemma abs_rows_cfresh live : map (map abs_slot) (map (map cfresh) live) = map (map abs_slot) live.
Proof. rewrite map_map. apply map_ext. intros r. apply abs_map_cfresh. Qed.

(* CopyTo makes the destination equal to the source: every schema, every field type, every destination *)
Lemma ccopy_exact sc : forall s t d, abs_slot (ccopy sc t s d) = abs_slot s.
Proof.
  induction s as [z|tg z| |a tg r IH| |a live tail IHl IHt] using cslot_ind'; intros t d.
  - destruct t; reflexivity.
  - destruct t; reflexivity.
  - destruct t; reflexivity.
  - assert (R : forall ts dr, map abs_slot (map3d (ccopy sc) czero_slot ts r dr) = map abs_slot r)
      by (apply map3d_exact; exact IH).
    destruct t; simpl; rewrite ?abs_map_cfresh; auto.
    + destruct d as [| |[[[a' tg'] dr]|]|]; simpl; now rewrite R.
    + now rewrite R.
    + destruct (Nat.eqb tg 7) eqn:E7; simpl.
      * apply Nat.eqb_eq in E7. subst. now rewrite abs_map_bytes_clone.
      * destruct d as [| |[[[a' tg'] dr]|]|]; simpl; try (now rewrite R).
        destruct (Nat.eqb tg tg'); simpl; now rewrite R.
  - destruct t; simpl; auto; destruct d as [| | |[[[a' dl] dt]|]]; reflexivity.
  - assert (R : forall n dl, map abs_row (map2d (map3d (ccopy sc) czero_slot (rowty sc n)) [] live dl) = map abs_row live).
    { intros n dl. apply map2d_exact. eapply Forall_impl; [|exact IHl]. intros r Hr dr.
      apply map3d_exact; auto. }
    unfold abs_row in R.
    destruct t; simpl; rewrite ?abs_rows_cfresh; auto.
    + destruct d as [| | |[[[a' dl] dt]|]]; simpl;
        try (destruct (Nat.eqb (length live) 0) eqn:E; simpl;
             [apply Nat.eqb_eq in E; destruct live; [reflexivity|discriminate]|now rewrite R]).
      destruct (Nat.leb _ _); simpl; now rewrite R.
    + rewrite <- (abs_rows_cfresh live). generalize (map (map cfresh) live). intros rows.
      destruct d as [| | |[[[a' dl] dt]|]]; simpl; try (destruct rows; reflexivity).
      destruct (Nat.leb _ _); reflexivity.
Qed.

(* ---- one step of the concrete interpreter refines one step of the pure one ------------------------------ *)
Lemma abs_set_row st h r : abs_state (set_row st h r) = aset_row (abs_state st) h (abs_row r).
Proof.
  unfold set_row, aset_row, abs_state. rewrite nth_error_map'.
  destruct (nth_error (s_hs st) h) as [hd|]; simpl; auto.
  pose proof (relab_row_abs r (s_next st)) as A.
  destruct (relab_row (s_next st) r) as [r' n']. simpl in *.
  rewrite map_upd. unfold abs_handle at 2. simpl. now rewrite A.
Qed.
Lemma ro_abs st h : aro (abs_state st) h = ro st h.
Proof. unfold aro, ro, abs_state. rewrite nth_error_map'. destruct (nth_error (s_hs st) h); reflexivity. Qed.
Lemma row_of_abs st h : arow_of (abs_state st) h = option_map abs_row (row_of st h).
Proof. unfold arow_of, row_of, abs_state. rewrite nth_error_map'. destruct (nth_error (s_hs st) h); reflexivity. Qed.

Lemma read_row_abs st h p :
  opt_bind (arow_of (abs_state st) h) (fun r => aget r p) =
  option_map abs_row (opt_bind (row_of st h) (fun r => cget r p)).
Proof. rewrite row_of_abs. destruct (row_of st h); simpl; auto. apply cget_abs. Qed.
Lemma read_slot_abs st h p j :
  opt_bind (arow_of (abs_state st) h) (fun r => opt_bind (aget r p) (fun q => nth_error q j)) =
  option_map abs_slot (opt_bind (row_of st h) (fun r => opt_bind (cget r p) (fun q => nth_error q j))).
Proof.
  rewrite row_of_abs. destruct (row_of st h) as [r|]; simpl; auto. rewrite cget_abs.
  destruct (cget r p) as [q|]; simpl; auto. unfold abs_row. apply nth_error_map'.
Qed.
Lemma upd_abs st h p f g : (forall x, option_map abs_row (f x) = g (abs_row x)) ->
  opt_bind (arow_of (abs_state st) h) (fun r => aupd r p g) =
  option_map abs_row (opt_bind (row_of st h) (fun r => cupd r p f)).
Proof. intros H. rewrite row_of_abs. destruct (row_of st h); simpl; auto. symmetry. now apply cupd_abs. Qed.

Lemma abs_cmoved s : abs_slot (cmoved s) = vmoved (abs_slot s).
Proof. destruct s as [| |[[[a t] r]|]|[[[a l] t]|]]; reflexivity. Qed.
Lemma is_cs_abs s : is_vs (abs_slot s) = is_cs s.
Proof. destruct s as [| |[[[a t] r]|]|[[[a l] t]|]]; reflexivity. Qed.

Lemma csame_abs {X Y} (ab : X -> Y) (Q : X -> Prop) st h (rd : crow -> option X) usrc udst (rd' : vrow -> option Y) usrc' udst' :
  (forall r, rd' (abs_row r) = option_map ab (rd r)) ->
  (forall r s, rd r = Some s -> Q s) ->
  (forall r, option_map abs_row (usrc r) = usrc' (abs_row r)) ->
  (forall s r, Q s -> option_map abs_row (udst s r) = udst' (ab s) (abs_row r)) ->
  asame (abs_state st) h rd' usrc' udst' = (abs_state (fst (csame st h rd usrc udst)), snd (csame st h rd usrc udst)).
Proof.
  intros Hr HQ Hs Hd. unfold asame, csame. rewrite row_of_abs. destruct (row_of st h) as [r|]; simpl; auto.
  rewrite Hr. destruct (rd r) as [s|] eqn:E; simpl; auto. specialize (HQ r s E).
  rewrite <- Hs. destruct (usrc r) as [r1|]; simpl; auto.
  rewrite <- (Hd s r1 HQ). destruct (udst s r1) as [r2|]; simpl; auto. now rewrite abs_set_row.
Qed.

Lemma cstep_refines sc st o :
  astep sc (abs_state st) o = (abs_state (fst (cstep sc st o)), snd (cstep sc st o)).
Proof.
  destruct o; simpl.
  - (* ONew *)
    pose proof (relab_row_abs (czero_row sc n) (s_next st)) as A.
    destruct (relab_row (s_next st) (czero_row sc n)) as [r' n']. simpl in *.
    unfold abs_state. simpl. rewrite map_app. simpl. unfold abs_handle at 3. simpl.
    now rewrite A, abs_zero_row.
  - (* OLocal *)
    rewrite ro_abs. destruct (ro st h); auto.
    rewrite (upd_abs st h p (clocal sc o) (vlocal sc o)) by apply clocal_abs.
    destruct (opt_bind (row_of st h) _); simpl; auto. now rewrite abs_set_row.
  - (* OCopySlot *)
    rewrite ro_abs. destruct (ro st h2); auto. rewrite read_slot_abs.
    destruct (opt_bind (row_of st h1) _) as [s|]; simpl; auto.
    rewrite (upd_abs st h2 p2 (on_slot j2 (fun d => ccopy sc t s d)) (on_slot j2 (fun _ => abs_slot s))).
    + destruct (opt_bind (row_of st h2) _); simpl; auto. now rewrite abs_set_row.
    + intros x. unfold abs_row. apply on_slot_abs. intros d. apply ccopy_exact.
  - (* OCopyRow *)
    rewrite ro_abs. destruct (ro st h2); auto. rewrite read_row_abs.
    destruct (opt_bind (row_of st h1) _) as [s|]; simpl; auto.
    rewrite (upd_abs st h2 p2 (fun d => Some (ccopy_row sc (rowty sc n) s d)) (fun _ => Some (abs_row s))).
    + destruct (opt_bind (row_of st h2) _); simpl; auto. now rewrite abs_set_row.
    + intros x. simpl. f_equal. unfold ccopy_row, abs_row. apply map3d_exact.
      apply Forall_forall. intros y _ t d. apply ccopy_exact.
  - (* OMoveSlot *)
    rewrite !ro_abs. destruct (ro st h1 || ro st h2); auto. destruct (Nat.eqb h1 h2).
    { destruct (sdiverge p1 j1 p2 j2); auto. apply (csame_abs abs_slot (fun _ => True)); auto.
      - intros r. rewrite cget_abs. destruct (cget r p1) as [q|]; simpl; auto. unfold abs_row. apply nth_error_map'.
      - intros r. apply cupd_abs. intros x. unfold abs_row. apply on_slot_abs. apply abs_cmoved.
      - intros s r _. apply cupd_abs. intros x. unfold abs_row. apply on_slot_abs. auto. }
    rewrite read_slot_abs. destruct (opt_bind (row_of st h1) (fun r => opt_bind (cget r p1) _)) as [s|]; simpl; auto.
    rewrite (upd_abs st h2 p2 (on_slot j2 (fun _ => s)) (on_slot j2 (fun _ => abs_slot s)))
      by (intros x; unfold abs_row; apply on_slot_abs; auto).
    rewrite (upd_abs st h1 p1 (on_slot j1 cmoved) (on_slot j1 vmoved))
      by (intros x; unfold abs_row; apply on_slot_abs; apply abs_cmoved).
    destruct (opt_bind (row_of st h2) _); simpl; auto.
    destruct (opt_bind (row_of st h1) _); simpl; auto. now rewrite !abs_set_row.
  - (* OMoveRow *)
    rewrite !ro_abs. destruct (ro st h1 || ro st h2); auto. destruct (Nat.eqb h1 h2).
    { destruct (diverge p1 p2); auto. apply (csame_abs abs_row (fun _ => True)); auto.
      - intros r. apply cget_abs.
      - intros r. apply cupd_abs. intros x. simpl. f_equal. apply abs_zero_row.
      - intros s r _. apply cupd_abs. intros x. reflexivity. }
    rewrite read_row_abs. destruct (opt_bind (row_of st h1) (fun r => cget r p1)) as [s|]; simpl; auto.
    rewrite (upd_abs st h2 p2 (fun _ => Some s) (fun _ => Some (abs_row s))) by reflexivity.
    rewrite (upd_abs st h1 p1 (fun _ => Some (czero_row sc n)) (fun _ => Some (vzero_row sc n))).
    + destruct (opt_bind (row_of st h2) _); simpl; auto.
      destruct (opt_bind (row_of st h1) _); simpl; auto. now rewrite !abs_set_row.
    + intros x. simpl. f_equal. apply abs_zero_row.
  - (* OMoveAppend *)
    rewrite !ro_abs. destruct (ro st h1 || ro st h2); auto. destruct (Nat.eqb h1 h2).
    { destruct (sdiverge p1 j1 p2 j2); auto.
      apply (csame_abs abs_slot (fun s => is_cs s = true)).
      - intros r. rewrite cget_abs. destruct (cget r p1) as [q|]; simpl; auto. unfold abs_row. rewrite nth_error_map'.
        destruct (nth_error q j1) as [s|]; simpl; auto. rewrite is_cs_abs. destruct (is_cs s); reflexivity.
      - intros r s H. destruct (opt_bind (cget r p1) _) as [s0|]; simpl in H; try discriminate.
        destruct (is_cs s0) eqn:E; inversion H; subst; auto.
      - intros r. apply cupd_abs. intros x. unfold abs_row. apply on_slot_abs. auto.
      - intros s r Hs. apply cupd_abs. intros x. unfold abs_row. apply on_slot_abs. intros d. apply on_cs_abs. clear d. intros d Hd.
        rewrite (vs_rows_abs s Hs). destruct (cs_nil d) eqn:Hn.
        + destruct d as [| | |[[[a l] t]|]]; try discriminate. simpl. now apply abs_cs.
        + now apply abs_capp. }
    rewrite read_slot_abs. destruct (opt_bind (row_of st h1) (fun r => opt_bind (cget r p1) _)) as [s|]; simpl; auto.
    rewrite is_cs_abs. destruct (is_cs s) eqn:Hs; simpl; auto.
    rewrite (upd_abs st h2 p2 (on_slot j2 (on_cs (fun d => if cs_nil d then s else capp d (cs_live s) newcap)))
               (on_slot j2 (on_vs (fun d => vapp d (vs_rows (abs_slot s)))))).
    + rewrite (upd_abs st h1 p1 (on_slot j1 (fun _ => CS None)) (on_slot j1 (fun _ => VS [])))
        by (intros x; unfold abs_row; apply on_slot_abs; auto).
      destruct (opt_bind (row_of st h2) _); simpl; auto.
      destruct (opt_bind (row_of st h1) _); simpl; auto. now rewrite !abs_set_row.
    + intros x. unfold abs_row. apply on_slot_abs. intros d. apply on_cs_abs. clear d. intros d Hd.
      rewrite (vs_rows_abs s Hs). destruct (cs_nil d) eqn:Hn.
      * destruct d as [| | |[[[a l] t]|]]; try discriminate. simpl. now apply abs_cs.
      * now apply abs_capp.
  - (* OReadOnly *)
    unfold abs_state at 1. rewrite nth_error_map'. destruct (nth_error (s_hs st) h) as [hd|]; simpl; auto.
    unfold abs_state. simpl. now rewrite map_upd.
Qed.

Lemma run_refines sc : forall p st,
  run_a sc (abs_state st) p = (abs_state (fst (run_c sc st p)), snd (run_c sc st p)).
Proof.
  induction p as [|o p IH]; intros st; simpl; auto.
  rewrite cstep_refines. destruct (cstep sc st o) as [st1 c]. simpl.
  rewrite IH. destruct (run_c sc st1 p) as [st2 cs]. reflexivity.
Qed.

(* ---- read-only totality ------------------------------------------------------------------------------------ *)
Definition writes (o : op) (h : nat) : Prop :=
  match o with
  | ONew _ => False
  | OReadOnly _ => False
  | OLocal h' _ _ => h' = h
  | OCopySlot _ _ _ _ h2 _ _ => h2 = h
  | OCopyRow _ _ _ h2 _ => h2 = h
  | OMoveSlot h1 _ _ h2 _ _ => h1 = h \/ h2 = h
  | OMoveRow _ h1 _ h2 _ => h1 = h \/ h2 = h
  | OMoveAppend _ h1 _ _ h2 _ _ => h1 = h \/ h2 = h
  end.

Lemma readonly_step sc st o h : ro st h = true -> writes o h -> cstep sc st o = (st, 1).
Proof.
  intros Hro Hw. destruct o; simpl in *; try contradiction; subst; try now rewrite Hro.
  all: destruct Hw; subst; rewrite Hro; auto; now rewrite orb_true_r.
Qed.

Lemma nth_error_upd {A} (l : list A) i k x :
  nth_error (upd l i x) k =
  if Nat.eqb i k then match nth_error l i with Some _ => Some x | None => None end else nth_error l k.
Proof.
  revert i k; induction l as [|y l IH]; intros [|i] [|k]; simpl; auto.
  all: try (destruct (Nat.eqb i k); reflexivity).
Qed.

Lemma ro_set_row st h h' r : ro (set_row st h' r) h = ro st h.
Proof.
  unfold set_row. destruct (nth_error (s_hs st) h') as [hd|] eqn:E; auto.
  destruct (relab_row (s_next st) r) as [r' n']. unfold ro. simpl. rewrite nth_error_upd, E.
  destruct (Nat.eqb h' h) eqn:Eq; auto. apply Nat.eqb_eq in Eq. subst. now rewrite E.
Qed.

Lemma ro_csame {X} st h h' (rd : crow -> option X) us ud : ro (fst (csame st h' rd us ud)) h = ro st h.
Proof.
  unfold csame. destruct (row_of st h') as [r|]; simpl; auto. destruct (rd r) as [s|]; simpl; auto.
  destruct (opt_bind (us r) (ud s)); simpl; auto. apply ro_set_row.
Qed.

Lemma readonly_sticky sc st o h : ro st h = true -> ro (fst (cstep sc st o)) h = true.
Proof.
  intros Hro. destruct o; simpl.
  - destruct (relab_row _ _) as [r' n']. simpl. unfold ro in *. simpl.
    destruct (nth_error (s_hs st) h) eqn:E; try discriminate. erewrite nth_error_app1; [now rewrite E|].
    apply nth_error_Some. congruence.
  - destruct (ro st h0); auto. destruct (opt_bind _ _); simpl; auto. now rewrite ro_set_row.
  - destruct (ro st h2); auto. destruct (opt_bind _ _); simpl; auto. destruct (opt_bind _ _); simpl; auto.
    now rewrite ro_set_row.
  - destruct (ro st h2); auto. destruct (opt_bind _ _); simpl; auto. destruct (opt_bind _ _); simpl; auto.
    now rewrite ro_set_row.
  - destruct (ro st h1 || ro st h2); auto. destruct (Nat.eqb h1 h2).
    { match goal with |- context [if ?c then _ else _] => destruct c end; auto. now rewrite ro_csame. }
    destruct (opt_bind _ _); simpl; auto. destruct (opt_bind _ _); simpl; auto. destruct (opt_bind _ _); simpl; auto.
    now rewrite !ro_set_row.
  - destruct (ro st h1 || ro st h2); auto. destruct (Nat.eqb h1 h2).
    { match goal with |- context [if ?c then _ else _] => destruct c end; auto. now rewrite ro_csame. }
    destruct (opt_bind _ _); simpl; auto. destruct (opt_bind _ _); simpl; auto. destruct (opt_bind _ _); simpl; auto.
    now rewrite !ro_set_row.
  - destruct (ro st h1 || ro st h2); auto. destruct (Nat.eqb h1 h2).
    { match goal with |- context [if ?c then _ else _] => destruct c end; auto. now rewrite ro_csame. }
    destruct (opt_bind _ _); simpl; auto. destruct (is_cs c); simpl; auto.
    destruct (opt_bind _ _); simpl; auto. destruct (opt_bind _ _); simpl; auto.
    now rewrite !ro_set_row.
  - destruct (nth_error (s_hs st) h0) as [hd|] eqn:E; simpl; auto. unfold ro in *. simpl.
    rewrite nth_error_upd, E. destruct (Nat.eqb h0 h) eqn:Eq; auto.
Qed.

(* ---- frame: a step changes only the handles it writes ----------------------------------------------------- *)
Lemma row_of_set_row st h h' r : h <> h' -> row_of (set_row st h' r) h = row_of st h.
Proof.
  intros Hne. unfold set_row. destruct (nth_error (s_hs st) h') as [hd|] eqn:E; auto.
  destruct (relab_row (s_next st) r) as [r' n']. unfold row_of. simpl. rewrite nth_error_upd, E.
  destruct (Nat.eqb h' h) eqn:Eq; auto. apply Nat.eqb_eq in Eq. congruence.
Qed.

Lemma row_of_csame_other {X} st h h' (rd : crow -> option X) us ud : h <> h' ->
  row_of (fst (csame st h' rd us ud)) h = row_of st h.
Proof.
  intros Hne. unfold csame. destruct (row_of st h') as [r|]; simpl; auto. destruct (rd r) as [s|]; simpl; auto.
  destruct (opt_bind (us r) (ud s)); simpl; auto. now apply row_of_set_row.
Qed.

Lemma frame_step sc st o h : nth_error (s_hs st) h <> None -> ~ writes o h ->
  row_of (fst (cstep sc st o)) h = row_of st h.
Proof.
  intros Hin Hw. destruct o; simpl in *.
  - destruct (relab_row _ _) as [r' n']. simpl. unfold row_of. simpl.
    rewrite nth_error_app1; auto. now apply nth_error_Some.
  - destruct (ro st h0); auto. destruct (opt_bind _ _); simpl; auto. apply row_of_set_row. congruence.
  - destruct (ro st h2); auto. destruct (opt_bind _ _); simpl; auto. destruct (opt_bind _ _); simpl; auto.
    apply row_of_set_row. congruence.
  - destruct (ro st h2); auto. destruct (opt_bind _ _); simpl; auto. destruct (opt_bind _ _); simpl; auto.
    apply row_of_set_row. congruence.
  - destruct (ro st h1 || ro st h2); auto. destruct (Nat.eqb h1 h2) eqn:Eh.
    { apply Nat.eqb_eq in Eh. subst h2. match goal with |- context [if ?c then _ else _] => destruct c end; auto.
      apply row_of_csame_other. intros ->; tauto. }
    destruct (opt_bind _ _); simpl; auto. destruct (opt_bind _ _); simpl; auto. destruct (opt_bind _ _); simpl; auto.
    rewrite !row_of_set_row; auto; intros ->; tauto.
  - destruct (ro st h1 || ro st h2); auto. destruct (Nat.eqb h1 h2) eqn:Eh.
    { apply Nat.eqb_eq in Eh. subst h2. match goal with |- context [if ?c then _ else _] => destruct c end; auto.
      apply row_of_csame_other. intros ->; tauto. }
    destruct (opt_bind _ _); simpl; auto. destruct (opt_bind _ _); simpl; auto. destruct (opt_bind _ _); simpl; auto.
    rewrite !row_of_set_row; auto; intros ->; tauto.
  - destruct (ro st h1 || ro st h2); auto. destruct (Nat.eqb h1 h2) eqn:Eh.
    { apply Nat.eqb_eq in Eh. subst h2. match goal with |- context [if ?c then _ else _] => destruct c end; auto.
      apply row_of_csame_other. intros ->; tauto. }
    destruct (opt_bind _ _); simpl; auto. destruct (is_cs c); simpl; auto.
    destruct (opt_bind _ _); simpl; auto. destruct (opt_bind _ _); simpl; auto.
    rewrite !row_of_set_row; auto; intros ->; tauto.
  - destruct (nth_error (s_hs st) h0) as [hd|] eqn:E; simpl; auto. unfold row_of. simpl.
    rewrite nth_error_upd, E. destruct (Nat.eqb h0 h) eqn:Eq; auto. apply Nat.eqb_eq in Eq. subst. now rewrite E.
Qed.

(* ---- sorting permutes ---------------------------------------------------------------------------------------- *)
Lemma insert_by_perm {A} (k : A -> Z) x l : Permutation (insert_by k x l) (x :: l).
Proof.
  induction l as [|y l IH]; simpl; auto. destruct (Z.ltb _ _); auto.
  eapply perm_trans; [apply perm_skip, IH|apply perm_swap].
Qed.
Lemma sort_by_perm {A} (k : A -> Z) l : Permutation (sort_by k l) l.
Proof.
  unfold sort_by. assert (G : forall acc, Permutation (fold_left (fun acc x => insert_by k x acc) l acc) (l ++ acc)).
  { induction l as [|x l IH]; intros acc; simpl; auto.
    eapply perm_trans; [apply IH|]. eapply perm_trans; [apply Permutation_app_head, insert_by_perm|].
    apply Permutation_sym, Permutation_middle. }
  specialize (G []). now rewrite app_nil_r in G.
Qed.


(* ---- the clauses of the property in its own words, on the values of the handles after a step --------------- *)
Definition aread_slot (st : astate) (h : nat) (p : path) (j : nat) : option vslot :=
  opt_bind (arow_of st h) (fun r => opt_bind (aget r p) (fun q => nth_error q j)).
Definition aread_row (st : astate) (h : nat) (p : path) : option vrow :=
  opt_bind (arow_of st h) (fun r => aget r p).

Lemma nth_error_upd_same {A} (l : list A) i x y : nth_error l i = Some y -> nth_error (upd l i x) i = Some x.
Proof. intros H. rewrite nth_error_upd, Nat.eqb_refl, H. reflexivity. Qed.

Lemma aget_aupd p : forall r f r', aupd r p f = Some r' ->
  exists x x', aget r p = Some x /\ f x = Some x' /\ aget r' p = Some x'.
Proof.
  induction p as [|[j i|j] p IH]; intros r f r' H; simpl in *.
  - exists r, r'. auto.
  - destruct (nth_error r j) as [[| | |rows]|] eqn:Ej; try discriminate.
    destruct (nth_error rows i) as [r0|] eqn:Ei; try discriminate.
    destruct (aupd r0 p f) as [r0'|] eqn:Eu; try discriminate. inversion H; subst.
    destruct (IH _ _ _ Eu) as (x & x' & A & B & C). exists x, x'. repeat split; auto.
    rewrite (nth_error_upd_same _ _ _ _ Ej). now rewrite (nth_error_upd_same _ _ _ _ Ei).
  - destruct (nth_error r j) as [[| |[[t r0]|]|]|] eqn:Ej; try discriminate.
    destruct (aupd r0 p f) as [r0'|] eqn:Eu; try discriminate. inversion H; subst.
    destruct (IH _ _ _ Eu) as (x & x' & A & B & C). exists x, x'. repeat split; auto.
    now rewrite (nth_error_upd_same _ _ _ _ Ej).
Qed.

Lemma aupd_slot_read r p j (f : vslot -> vslot) r' : aupd r p (on_slot j f) = Some r' ->
  exists s, opt_bind (aget r p) (fun q => nth_error q j) = Some s /\
            opt_bind (aget r' p) (fun q => nth_error q j) = Some (f s).
Proof.
  intros H. destruct (aget_aupd _ _ _ _ H) as (x & x' & A & B & C). rewrite A, C. simpl.
  unfold on_slot in B. destruct (nth_error x j) as [s|] eqn:E; try discriminate. inversion B; subst.
  exists s. split; auto. now apply nth_error_upd_same with (y := s).
Qed.

Lemma arow_aset_same st h r r0 : arow_of st h = Some r0 -> arow_of (aset_row st h r) h = Some r.
Proof.
  unfold arow_of, aset_row. destruct (nth_error st h) as [hd|] eqn:E; try discriminate. intros _.
  now rewrite (nth_error_upd_same _ _ _ _ E).
Qed.
Lemma arow_aset_other st h h' r : h <> h' -> arow_of (aset_row st h' r) h = arow_of st h.
Proof.
  intros Hne. unfold arow_of, aset_row. destruct (nth_error st h') as [hd|] eqn:E; auto.
  rewrite nth_error_upd, E. destruct (Nat.eqb h' h) eqn:Eq; auto. apply Nat.eqb_eq in Eq. congruence.
Qed.

(* CopyTo: afterwards the destination reads what the source read before (and, the handles being distinct, still reads) *)
Lemma a_copy_slot sc st t h1 p1 j1 h2 p2 j2 st' :
  astep sc st (OCopySlot t h1 p1 j1 h2 p2 j2) = (st', 0) ->
  exists s, aread_slot st h1 p1 j1 = Some s /\ aread_slot st' h2 p2 j2 = Some s /\
            (h1 <> h2 -> aread_slot st' h1 p1 j1 = Some s).
Proof.
  unfold astep, aread_slot. destruct (aro st h2); try discriminate.
  destruct (opt_bind (arow_of st h1) _) as [s|] eqn:Es; try discriminate.
  destruct (arow_of st h2) as [r2|] eqn:E2; simpl; try discriminate.
  destruct (aupd r2 p2 _) as [r2'|] eqn:Eu; try discriminate. intros H; inversion H; subst.
  exists s. split; auto. split.
  - rewrite (arow_aset_same _ _ _ _ E2). simpl. destruct (aupd_slot_read _ _ _ _ _ Eu) as (s0 & _ & B). exact B.
  - intros Hne. rewrite arow_aset_other by auto. exact Es.
Qed.

Lemma a_copy_row sc st n h1 p1 h2 p2 st' :
  astep sc st (OCopyRow n h1 p1 h2 p2) = (st', 0) ->
  exists s, aread_row st h1 p1 = Some s /\ aread_row st' h2 p2 = Some s /\
            (h1 <> h2 -> aread_row st' h1 p1 = Some s).
Proof.
  unfold astep, aread_row. destruct (aro st h2); try discriminate.
  destruct (opt_bind (arow_of st h1) _) as [s|] eqn:Es; try discriminate.
  destruct (arow_of st h2) as [r2|] eqn:E2; simpl; try discriminate.
  destruct (aupd r2 p2 _) as [r2'|] eqn:Eu; try discriminate. intros H; inversion H; subst.
  exists s. split; auto. split.
  - rewrite (arow_aset_same _ _ _ _ E2). simpl. destruct (aget_aupd _ _ _ _ Eu) as (x & x' & _ & B & C).
    inversion B; subst. exact C.
  - intros Hne. rewrite arow_aset_other by auto. exact Es.
Qed.

(* MoveTo of a slice / map / value: the destination reads the old source, the source reads empty *)
Lemma a_move_slot sc st h1 p1 j1 h2 p2 j2 st' :
  h1 <> h2 -> astep sc st (OMoveSlot h1 p1 j1 h2 p2 j2) = (st', 0) ->
  exists s, aread_slot st h1 p1 j1 = Some s /\ aread_slot st' h2 p2 j2 = Some s /\
            aread_slot st' h1 p1 j1 = Some (vmoved s).
Proof.
  intros Hne. unfold astep, aread_slot. destruct (aro st h1 || aro st h2); try discriminate.
  destruct (Nat.eqb h1 h2) eqn:Eh; [apply Nat.eqb_eq in Eh; contradiction|]. apply Nat.eqb_neq in Eh.
  destruct (opt_bind (arow_of st h1) (fun r => opt_bind (aget r p1) _)) as [s|] eqn:Es; try discriminate.
  destruct (arow_of st h2) as [r2|] eqn:E2; simpl; try discriminate.
  destruct (aupd r2 p2 _) as [r2'|] eqn:Eu2; try discriminate.
  destruct (arow_of st h1) as [r1|] eqn:E1; simpl in *; try discriminate.
  destruct (aupd r1 p1 _) as [r1'|] eqn:Eu1; try discriminate. intros H; inversion H; subst.
  exists s. split; auto.
  assert (E1' : arow_of (aset_row st h2 r2') h1 = Some r1) by (rewrite arow_aset_other; auto).
  split.
  - rewrite arow_aset_other by auto. rewrite (arow_aset_same _ _ _ _ E2). simpl.
    destruct (aupd_slot_read _ _ _ _ _ Eu2) as (s0 & _ & B). exact B.
  - rewrite (arow_aset_same _ _ _ _ E1'). simpl.
    destruct (aupd_slot_read _ _ _ _ _ Eu1) as (s0 & A & B). rewrite Es in A. inversion A; subst. exact B.
Qed.

(* MoveTo of a struct: the destination reads the old source, every field of the source reads empty *)
Lemma a_move_row sc st n h1 p1 h2 p2 st' :
  h1 <> h2 -> astep sc st (OMoveRow n h1 p1 h2 p2) = (st', 0) ->
  exists s, aread_row st h1 p1 = Some s /\ aread_row st' h2 p2 = Some s /\
            aread_row st' h1 p1 = Some (vzero_row sc n).
Proof.
  intros Hne. unfold astep, aread_row. destruct (aro st h1 || aro st h2); try discriminate.
  destruct (Nat.eqb h1 h2) eqn:Eh; [apply Nat.eqb_eq in Eh; contradiction|]. apply Nat.eqb_neq in Eh.
  destruct (opt_bind (arow_of st h1) (fun r => aget r p1)) as [s|] eqn:Es; try discriminate.
  destruct (arow_of st h2) as [r2|] eqn:E2; simpl; try discriminate.
  destruct (aupd r2 p2 _) as [r2'|] eqn:Eu2; try discriminate.
  destruct (arow_of st h1) as [r1|] eqn:E1; simpl in *; try discriminate.
  destruct (aupd r1 p1 _) as [r1'|] eqn:Eu1; try discriminate. intros H; inversion H; subst.
  exists s. split; auto.
  assert (E1' : arow_of (aset_row st h2 r2') h1 = Some r1) by (rewrite arow_aset_other; auto).
  split.
  - rewrite arow_aset_other by auto. rewrite (arow_aset_same _ _ _ _ E2). simpl.
    destruct (aget_aupd _ _ _ _ Eu2) as (x & x' & _ & B & C). inversion B; subst. exact C.
  - rewrite (arow_aset_same _ _ _ _ E1'). simpl.
    destruct (aget_aupd _ _ _ _ Eu1) as (x & x' & A & B & C). rewrite Es in A. inversion A; inversion B; subst. exact C.
Qed.

(* MoveAndAppendTo: destination = old destination ++ old source in order, source empty *)
Lemma a_move_append sc st c h1 p1 j1 h2 p2 j2 st' :
  h1 <> h2 -> astep sc st (OMoveAppend c h1 p1 j1 h2 p2 j2) = (st', 0) ->
  exists s d, aread_slot st h1 p1 j1 = Some s /\ aread_slot st h2 p2 j2 = Some d /\
              aread_slot st' h2 p2 j2 = Some (on_vs (fun d => VS (vs_rows d ++ vs_rows s)) d) /\
              aread_slot st' h1 p1 j1 = Some (VS []).
Proof.
  intros Hne. unfold astep, aread_slot. destruct (aro st h1 || aro st h2); try discriminate.
  destruct (Nat.eqb h1 h2) eqn:Eh; [apply Nat.eqb_eq in Eh; contradiction|]. apply Nat.eqb_neq in Eh.
  destruct (opt_bind (arow_of st h1) (fun r => opt_bind (aget r p1) _)) as [s|] eqn:Es; try discriminate.
  destruct (is_vs s); simpl; try discriminate.
  destruct (arow_of st h2) as [r2|] eqn:E2; simpl; try discriminate.
  destruct (aupd r2 p2 _) as [r2'|] eqn:Eu2; try discriminate.
  destruct (arow_of st h1) as [r1|] eqn:E1; simpl in *; try discriminate.
  destruct (aupd r1 p1 _) as [r1'|] eqn:Eu1; try discriminate. intros H; inversion H; subst.
  destruct (aupd_slot_read _ _ _ _ _ Eu2) as (d & A2 & B2).
  destruct (aupd_slot_read _ _ _ _ _ Eu1) as (s0 & A1 & B1).
  exists s, d. split; auto. split; auto.
  assert (E1' : arow_of (aset_row st h2 r2') h1 = Some r1) by (rewrite arow_aset_other; auto).
  split.
  - rewrite arow_aset_other by auto. rewrite (arow_aset_same _ _ _ _ E2). simpl. exact B2.
  - rewrite (arow_aset_same _ _ _ _ E1'). simpl. exact B1.
Qed.

(* RemoveIf: exactly the elements whose mask bit is false, in their order *)
Lemma a_remove_if sc st h p j mask st' :
  astep sc st (OLocal h p (LRemoveIf j mask)) = (st', 0) ->
  exists s, aread_slot st h p j = Some s /\
            aread_slot st' h p j = Some (on_vs (fun s => VS (remove_mask (vs_rows s) mask)) s).
Proof.
  unfold astep, aread_slot. destruct (aro st h); try discriminate.
  destruct (arow_of st h) as [r|] eqn:E; simpl; try discriminate.
  destruct (aupd r p _) as [r'|] eqn:Eu; try discriminate. intros H; inversion H; subst.
  simpl in Eu. destruct (aupd_slot_read _ _ _ _ _ Eu) as (s & A & B). exists s. split; auto.
  rewrite (arow_aset_same _ _ _ _ E). simpl. exact B.
Qed.

(* Sort: a permutation of the elements *)
Lemma a_sort sc st h p j k st' :
  astep sc st (OLocal h p (LSort j k)) = (st', 0) ->
  exists s, aread_slot st h p j = Some s /\
            exists s', aread_slot st' h p j = Some s' /\ Permutation (vs_rows s') (vs_rows s).
Proof.
  unfold astep, aread_slot. destruct (aro st h); try discriminate.
  destruct (arow_of st h) as [r|] eqn:E; simpl; try discriminate.
  destruct (aupd r p _) as [r'|] eqn:Eu; try discriminate. intros H; inversion H; subst.
  simpl in Eu. destruct (aupd_slot_read _ _ _ _ _ Eu) as (s & A & B). exists s. split; auto.
  eexists. split.
  - rewrite (arow_aset_same _ _ _ _ E). simpl. exact B.
  - destruct s; simpl; auto. apply sort_by_perm.
Qed.

(* transport: what a concrete step leaves in the handles is what the pure step leaves *)
Lemma cstep_astep sc st o st' c : cstep sc st o = (st', c) -> astep sc (abs_state st) o = (abs_state st', c).
Proof. intros H. rewrite cstep_refines, H. reflexivity. Qed.

(* remove_mask keeps a subsequence: order is preserved and nothing is invented *)
Inductive subseq {A} : list A -> list A -> Prop :=
| sub_nil : subseq [] []
| sub_keep x l l' : subseq l l' -> subseq (x :: l) (x :: l')
| sub_drop x l l' : subseq l l' -> subseq l (x :: l').
Lemma remove_mask_subseq {A} (l : list A) m : subseq (remove_mask l m) l.
Proof. revert m; induction l as [|x l IH]; intros [|[] m]; simpl; constructor; auto. Qed.
