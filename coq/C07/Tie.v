(* C07/Tie.v — obligations that tie the hand-written encodings of Model.v (and of the harnesses) to what
   translator T1 (tools/go2coq) reads from the CURRENT Go source into Generated/C07Consts.v, and the
   regex-scanned mutator table (Generated/C07PdataMutators.v) to the method sets the Go type checker reports.
   An edit of the Go source changes the generated file; a divergence breaks a named obligation here. *)
From Coq Require Import List String Bool ZArith Ascii.
From Verif Require Import Common.Base C07.Val C07.Model Generated.C07Consts Generated.C07PdataMutators.
Import ListNotations.
Local Open Scope Z_scope.

(* ---- state flag: the model's bool is the Go State ------------------------------------------------------- *)
Lemma state_tie_l : Z.b2z false = StateMutable /\ Z.b2z true = StateReadOnly /\ state_consts = [StateMutable; StateReadOnly].
Proof. vm_compute. repeat split. Qed.

(* ---- pcommon.ValueType: the tags of AnyValue slots (VI/CI tag, CR tag of containers) ------------------------ *)
(* the kinds the model treats as containers, in the order map, slice, bytes *)
Definition model_container_tags : list nat := [5; 6; 7]%nat.
Lemma value_type_tie_l :
  value_type_consts = [ValueTypeEmpty; ValueTypeStr; ValueTypeInt; ValueTypeDouble; ValueTypeBool;
                       ValueTypeMap; ValueTypeSlice; ValueTypeBytes] /\
  map Z.to_nat [ValueTypeMap; ValueTypeSlice; ValueTypeBytes] = model_container_tags /\
  (* mk_any: scalar kinds are exactly the tags below ValueTypeMap *)
  forallb (fun t => Bool.eqb (Nat.ltb (Z.to_nat t) 5) (negb (existsb (Z.eqb t) [ValueTypeMap; ValueTypeSlice; ValueTypeBytes])))
          value_type_consts = true /\
  (* the row types behind the container kinds *)
  any_rowty (Z.to_nat ValueTypeMap) = RT_KVL /\ any_rowty (Z.to_nat ValueTypeSlice) = RT_ARR /\
  any_rowty (Z.to_nat ValueTypeBytes) = RT_BYTES /\
  (* FromRaw builds these kinds *)
  craw (RMap []) = CR (Some (0%nat, Z.to_nat ValueTypeMap, [CS None])) /\
  craw (RSlice []) = CR (Some (0%nat, Z.to_nat ValueTypeSlice, [CS None])) /\
  craw (RBytes []) = CR (Some (0%nat, Z.to_nat ValueTypeBytes, [cempty_bytes])) /\
  craw RNil = CI (Z.to_nat ValueTypeEmpty) 0 /\
  (* the scalar tags the harness uses for Str / Int / Double / Bool *)
  map Z.to_nat [ValueTypeStr; ValueTypeInt; ValueTypeDouble; ValueTypeBool] = [1; 2; 3; 4]%nat.
Proof. vm_compute. repeat split. Qed.

(* names used by the reflection sweep to find the container kinds (fmt.Sprint(v.Type())) *)
Lemma value_type_names_l :
  value_type_string ValueTypeMap = "Map"%string /\ value_type_string ValueTypeSlice = "Slice"%string /\
  value_type_string ValueTypeBytes = "Bytes"%string.
Proof. vm_compute. repeat split. Qed.

(* ---- pmetric.MetricType: the alternatives of the Metric oneof in pmetric_schema -------------------------------- *)
Definition metric_alts : list nat :=
  match nth_error (rowty pmetric_schema 14) 4 with Some (TOne ns) => ns | _ => [] end.
Definition metric_row (t : Z) : nat := nth (Z.to_nat t - 1) metric_alts 0%nat.
Lemma metric_type_tie_l :
  metric_type_consts = [MetricTypeEmpty; MetricTypeGauge; MetricTypeSum; MetricTypeHistogram;
                        MetricTypeExponentialHistogram; MetricTypeSummary] /\
  MetricTypeEmpty = 0 /\
  List.length metric_alts = (List.length metric_type_consts - 1)%nat /\
  (* tag -> row type of the alternative: Gauge 11, Sum 12, Histogram 13, ExponentialHistogram 27, Summary 32 *)
  map metric_row [MetricTypeGauge; MetricTypeSum; MetricTypeHistogram; MetricTypeExponentialHistogram; MetricTypeSummary]
    = [11; 12; 13; 27; 32]%nat /\
  map metric_type_string [MetricTypeGauge; MetricTypeSum; MetricTypeHistogram; MetricTypeExponentialHistogram; MetricTypeSummary]
    = ["Gauge"; "Sum"; "Histogram"; "ExponentialHistogram"; "Summary"]%string.
Proof. vm_compute. repeat split. Qed.

(* oneof-of-primitives tags (TI slots of NumberDataPoint / Exemplar): 0 unset, 1 int, 2 double *)
Lemma value_oneof_tie_l :
  ndp_value_type_consts = [NumberDataPointValueTypeEmpty; NumberDataPointValueTypeInt; NumberDataPointValueTypeDouble] /\
  exemplar_value_type_consts = [ExemplarValueTypeEmpty; ExemplarValueTypeInt; ExemplarValueTypeDouble] /\
  [NumberDataPointValueTypeEmpty; NumberDataPointValueTypeInt; NumberDataPointValueTypeDouble] = [0; 1; 2] /\
  [ExemplarValueTypeEmpty; ExemplarValueTypeInt; ExemplarValueTypeDouble] = [0; 1; 2].
Proof. vm_compute. repeat split. Qed.

(* ---- method sets: the regex scan sees exactly the exported methods the type checker reports ----------------- *)
Definition exported (m : string) : bool :=
  match m with
  | String c _ => Nat.leb 65 (nat_of_ascii c) && Nat.leb (nat_of_ascii c) 90
  | EmptyString => false
  end.
Definition table_methods (pkg ty : string) : list string :=
  map (fun r : string * string * string * bool * bool => let '(_, _, m, _, _) := r in m)
      (filter (fun r : string * string * string * bool * bool => let '(p, t, _, _, _) := r in String.eqb p pkg && String.eqb t ty) pdata_methods).
Definition same_set (a b : list string) : bool :=
  forallb (fun x => existsb (String.eqb x) b) a && forallb (fun x => existsb (String.eqb x) a) b.
Definition methodset_ok (pkg ty : string) (t1 : list string) : bool :=
  same_set (filter exported t1) (table_methods pkg ty).
Lemma methodsets_tie_l :
  methodset_ok "pcommon" "Map" methods_Map = true /\
  methodset_ok "pcommon" "Slice" methods_Slice = true /\
  methodset_ok "pcommon" "Value" methods_Value = true /\
  methodset_ok "pcommon" "UInt64Slice" methods_UInt64Slice = true /\
  methodset_ok "pmetric" "MetricSlice" methods_MetricSlice = true /\
  methodset_ok "pmetric" "Metric" methods_Metric = true /\
  methodset_ok "pmetric" "HistogramDataPoint" methods_HistogramDataPoint = true.
Proof. vm_compute. repeat split. Qed.
