(* C07/Properties.v — the property theorems, nothing else.  Values of handles are read with
   aread_slot / aread_row on abs_state st (the values behind the addresses and capacities). *)
From Verif Require Import Common.Base C07.Val C07.Model C07.Proofs C07.Proofs2 C07.Harness C07.Proofs3.
From Coq Require Import Permutation.
From Verif Require Import Generated.C07PdataMutators C07.Mutators Generated.C07Consts C07.Tie.
From Coq Require Import String.

(* REFINEMENT (central), full strength: for EVERY schema (every slice, map, value and struct type built
   from the pdatagen templates: logs, metrics, traces, profiles, common types), every finite program of
   public operations (new, set-*, set-optional / remove-optional, set-oneof, set-empty-*, ensure-capacity,
   append, remove-if, sort, clear, put, map-remove, from-raw, copy-to of slices / maps / values /
   primitive slices / structs, move-to, move-and-append-to, mark-read-only) between handles, every growth
   oracle and every starting state (arbitrary contents, capacities, stale entries): the concrete
   interpreter computes exactly what the pure interpreter computes on plain values, in which CopyTo is
   assignment and values share nothing — same values in every handle, same panic / fault code at every step. *)
Theorem refines : forall sc p st,
  run_a sc (abs_state st) p = (abs_state (fst (run_c sc st p)), snd (run_c sc st p)).
Proof. exact run_refines. Qed.
Print Assumptions refines.

Theorem refines_from_empty : forall sc p,
  run_a sc [] p = (abs_state (fst (run_c sc cstate0 p)), snd (run_c sc cstate0 p)).
Proof. exact (fun sc p => run_refines sc p cstate0). Qed.
Print Assumptions refines_from_empty.

Theorem step_refines : forall sc st o,
  astep sc (abs_state st) o = (abs_state (fst (cstep sc st o)), snd (cstep sc st o)).
Proof. exact cstep_refines. Qed.
Print Assumptions step_refines.

(* COPY EQUALS SOURCE: the template-level statement — for every schema, field type, source and destination
   (empty, shorter, longer, previously filtered, pre-sized, holding set optional / oneof fields) *)
Theorem copy_equal : forall sc s t d, abs_slot (ccopy sc t s d) = abs_slot s.
Proof. exact ccopy_exact. Qed.
Print Assumptions copy_equal.

(* ... and on programs: after a CopyTo step the destination reads what the source read, and the source
   still reads the same *)
Theorem copy_equal_independent : forall sc st t h1 p1 j1 h2 p2 j2 st',
  cstep sc st (OCopySlot t h1 p1 j1 h2 p2 j2) = (st', 0) ->
  exists s, aread_slot (abs_state st) h1 p1 j1 = Some s /\ aread_slot (abs_state st') h2 p2 j2 = Some s /\
            (h1 <> h2 -> aread_slot (abs_state st') h1 p1 j1 = Some s).
Proof. exact (fun sc st t h1 p1 j1 h2 p2 j2 st' H => a_copy_slot sc _ t h1 p1 j1 h2 p2 j2 _ (cstep_astep _ _ _ _ _ H)). Qed.
Print Assumptions copy_equal_independent.

Theorem copy_struct_equal_independent : forall sc st n h1 p1 h2 p2 st',
  cstep sc st (OCopyRow n h1 p1 h2 p2) = (st', 0) ->
  exists s, aread_row (abs_state st) h1 p1 = Some s /\ aread_row (abs_state st') h2 p2 = Some s /\
            (h1 <> h2 -> aread_row (abs_state st') h1 p1 = Some s).
Proof. exact (fun sc st n h1 p1 h2 p2 st' H => a_copy_row sc _ n h1 p1 h2 p2 _ (cstep_astep _ _ _ _ _ H)). Qed.
Print Assumptions copy_struct_equal_independent.

(* INDEPENDENCE: a step changes no handle other than the ones it writes (the destination of a copy; both
   sides of a move; the target of a local operation) — later mutation of either side of a copy, or of any
   other value, never changes the other *)
Theorem independent : forall sc st o h, nth_error (s_hs st) h <> None -> ~ writes o h ->
  row_of (fst (cstep sc st o)) h = row_of st h.
Proof. exact frame_step. Qed.
Print Assumptions independent.

(* SEPARATION.  sep st: every address in the unfolding of the state (all handles, live entries and the
   stale entries behind len alike) is positive, below the allocation pointer, and occurs ONCE: two positions
   never denote the same Go object.  It holds in the empty state and is preserved by every step of every
   program, for every schema, growth oracle and program annotation. *)
Theorem sep_holds_initially : sep cstate0.
Proof. exact sep_empty. Qed.
Print Assumptions sep_holds_initially.
Theorem sep_preserved : forall sc st o, sep st -> sep (fst (cstep sc st o)).
Proof. exact sep_step. Qed.
Print Assumptions sep_preserved.
Theorem sep_invariant : forall sc p, sep (fst (run_c sc cstate0 p)).
Proof. exact (fun sc p => sep_run sc p cstate0 sep_empty). Qed.
Print Assumptions sep_invariant.
Theorem no_address_twice : forall sc p, NoDup (all_ids (fst (run_c sc cstate0 p))).
Proof. exact (fun sc p => sep_NoDup _ (sep_run sc p cstate0 sep_empty)). Qed.
Print Assumptions no_address_twice.

(* ... and this is what makes the tree-shaped update of the model THE heap update.  A Go store through a
   pointer to the object with address a rewrites that object wherever it occurs in the unfolding
   (waddr_state a f).  Under sep: it is exactly the update at the path (h, p, j) through which the
   operation reached the object — which is what cstep performs — and every other handle is untouched. *)
Theorem store_is_structural_update : forall st h p j r x s a f, sep st ->
  row_of st h = Some r -> cget r p = Some x -> nth_error x j = Some s -> addr_of s = Some a ->
  opt_bind (row_of st h) (fun r => cupd r p (on_slot j f)) = row_of (waddr_state a f st) h.
Proof. exact store_is_update. Qed.
Print Assumptions store_is_structural_update.
Theorem store_touches_no_other_handle : forall st h p j r x s a f, sep st ->
  row_of st h = Some r -> cget r p = Some x -> nth_error x j = Some s -> addr_of s = Some a ->
  forall h' r', h' <> h -> row_of st h' = Some r' -> row_of (waddr_state a f st) h' = Some r'.
Proof. exact store_is_local. Qed.
Print Assumptions store_touches_no_other_handle.

(* MOVE transfers the content and leaves the source empty (vmoved s: nil slice / empty value / zero) *)
Theorem move_empties_source : forall sc st h1 p1 j1 h2 p2 j2 st', h1 <> h2 ->
  cstep sc st (OMoveSlot h1 p1 j1 h2 p2 j2) = (st', 0) ->
  exists s, aread_slot (abs_state st) h1 p1 j1 = Some s /\ aread_slot (abs_state st') h2 p2 j2 = Some s /\
            aread_slot (abs_state st') h1 p1 j1 = Some (vmoved s).
Proof. exact (fun sc st h1 p1 j1 h2 p2 j2 st' Hne H => a_move_slot sc _ h1 p1 j1 h2 p2 j2 _ Hne (cstep_astep _ _ _ _ _ H)). Qed.
Print Assumptions move_empties_source.

Theorem move_struct_empties_source : forall sc st n h1 p1 h2 p2 st', h1 <> h2 ->
  cstep sc st (OMoveRow n h1 p1 h2 p2) = (st', 0) ->
  exists s, aread_row (abs_state st) h1 p1 = Some s /\ aread_row (abs_state st') h2 p2 = Some s /\
            aread_row (abs_state st') h1 p1 = Some (vzero_row sc n).
Proof. exact (fun sc st n h1 p1 h2 p2 st' Hne H => a_move_row sc _ n h1 p1 h2 p2 _ Hne (cstep_astep _ _ _ _ _ H)). Qed.
Print Assumptions move_struct_empties_source.

(* in particular a move from an EMPTY source overrides the destination: it reads empty afterwards (the
   boundary case that an "if len(src) == 0 { return }" shortcut gets wrong) *)
Theorem move_from_empty_overrides_destination : forall sc st h1 p1 j1 h2 p2 j2 st', h1 <> h2 ->
  cstep sc st (OMoveSlot h1 p1 j1 h2 p2 j2) = (st', 0) ->
  aread_slot (abs_state st) h1 p1 j1 = Some (VS []) ->
  aread_slot (abs_state st') h2 p2 j2 = Some (VS []).
Proof.
  exact (fun sc st h1 p1 j1 h2 p2 j2 st' Hne H E =>
    match a_move_slot sc _ h1 p1 j1 h2 p2 j2 _ Hne (cstep_astep _ _ _ _ _ H) with
    | ex_intro _ s (conj A (conj B _)) =>
        eq_ind_r (fun x => aread_slot (abs_state st') h2 p2 j2 = x) B
                 (eq_sym (eq_trans (eq_sym A) E))
    end).
Qed.
Print Assumptions move_from_empty_overrides_destination.

Theorem moved_is_empty : forall l t z, vmoved (VS l) = VS [] /\ vmoved (VI t z) = VI 0 0 /\ vmoved (VP z) = VP 0.
Proof. exact (fun l t z => conj eq_refl (conj eq_refl eq_refl)). Qed.
Print Assumptions moved_is_empty.

(* MOVE-AND-APPEND: destination = old destination followed by old source, in order; source empty *)
Theorem move_append_keeps_order : forall sc st c h1 p1 j1 h2 p2 j2 st', h1 <> h2 ->
  cstep sc st (OMoveAppend c h1 p1 j1 h2 p2 j2) = (st', 0) ->
  exists s d, aread_slot (abs_state st) h1 p1 j1 = Some s /\ aread_slot (abs_state st) h2 p2 j2 = Some d /\
              aread_slot (abs_state st') h2 p2 j2 = Some (on_vs (fun d => VS (vs_rows d ++ vs_rows s)) d) /\
              aread_slot (abs_state st') h1 p1 j1 = Some (VS []).
Proof. exact (fun sc st c h1 p1 j1 h2 p2 j2 st' Hne H => a_move_append sc _ c h1 p1 j1 h2 p2 j2 _ Hne (cstep_astep _ _ _ _ _ H)). Qed.
Print Assumptions move_append_keeps_order.

(* REMOVE-IF keeps exactly the elements whose predicate is false, in their order *)
Theorem remove_if_keeps_order : forall sc st h p j mask st',
  cstep sc st (OLocal h p (LRemoveIf j mask)) = (st', 0) ->
  exists s, aread_slot (abs_state st) h p j = Some s /\
            aread_slot (abs_state st') h p j = Some (on_vs (fun s => VS (remove_mask (vs_rows s) mask)) s).
Proof. exact (fun sc st h p j mask st' H => a_remove_if sc _ h p j mask _ (cstep_astep _ _ _ _ _ H)). Qed.
Print Assumptions remove_if_keeps_order.
Theorem remove_mask_is_subsequence : forall (l : list vrow) mask, subseq (remove_mask l mask) l.
Proof. exact (fun l mask => remove_mask_subseq l mask). Qed.
Print Assumptions remove_mask_is_subsequence.

(* SORT permutes without loss *)
Theorem sort_is_permutation : forall sc st h p j k st',
  cstep sc st (OLocal h p (LSort j k)) = (st', 0) ->
  exists s, aread_slot (abs_state st) h p j = Some s /\
            exists s', aread_slot (abs_state st') h p j = Some s' /\ Permutation (vs_rows s') (vs_rows s).
Proof. exact (fun sc st h p j k st' H => a_sort sc _ h p j k _ (cstep_astep _ _ _ _ _ H)). Qed.
Print Assumptions sort_is_permutation.

(* READ-ONLY: every mutator on a read-only handle panics and changes nothing (readers are the abs
   functions: untouched state, same values) ... *)
Theorem readonly_total : forall sc st o h, ro st h = true -> writes o h -> cstep sc st o = (st, 1).
Proof. exact readonly_step. Qed.
Print Assumptions readonly_total.
(* ... and a handle stays read-only for ever *)
Theorem readonly_forever : forall sc st o h, ro st h = true -> ro (fst (cstep sc st o)) h = true.
Proof. exact readonly_sticky. Qed.
Print Assumptions readonly_forever.

(* instance obligation (table regenerated from the current source on every run): every exported
   mutator of every data-model wrapper type of pcommon, plog, pmetric, ptrace and pprofile begins
   with AssertMutable (or only delegates to such mutators); this instantiates readonly_total *)
Theorem all_mutators_guarded_holds : all_mutators_guarded = true.
Proof. exact all_mutators_guarded_l. Qed.
Print Assumptions all_mutators_guarded_holds.
Theorem mutator_table_not_empty : 400 <= n_mutators.
Proof. exact table_not_empty_l. Qed.
Print Assumptions mutator_table_not_empty.

(* FROM-RAW: Value.FromRaw / Map.FromRaw / Slice.FromRaw of a nested raw value (nil, scalars, []byte,
   map[string]any, []any, arbitrarily nested) build exactly the value the raw data describes; the operations
   LFromRawV / LFromRawM / LFromRawS are covered by refines, sep_preserved and readonly_total like every other *)
Theorem from_raw_builds_value : forall r, abs_slot (craw r) = vraw r.
Proof. exact abs_craw. Qed.
Print Assumptions from_raw_builds_value.

(* TRANSLATOR TIE (Generated/C07Consts.v is re-read from the Go source by tools/go2coq on every run):
   the hand-written encodings of Model.v and of the harnesses equal what the code says now *)
Theorem tie_state_consts : Z.b2z false = StateMutable /\ Z.b2z true = StateReadOnly /\ state_consts = [StateMutable; StateReadOnly].
Proof. exact state_tie_l. Qed.
Print Assumptions tie_state_consts.
Theorem tie_value_type_tags :
  map Z.to_nat [ValueTypeMap; ValueTypeSlice; ValueTypeBytes] = model_container_tags /\
  any_rowty (Z.to_nat ValueTypeMap) = RT_KVL /\ any_rowty (Z.to_nat ValueTypeSlice) = RT_ARR /\
  any_rowty (Z.to_nat ValueTypeBytes) = RT_BYTES /\
  map Z.to_nat [ValueTypeStr; ValueTypeInt; ValueTypeDouble; ValueTypeBool] = [1; 2; 3; 4].
Proof. pose proof value_type_tie_l as H. tauto. Qed.
Print Assumptions tie_value_type_tags.
Theorem tie_metric_type_alternatives :
  map metric_row [MetricTypeGauge; MetricTypeSum; MetricTypeHistogram; MetricTypeExponentialHistogram; MetricTypeSummary]
    = [11; 12; 13; 27; 32].
Proof. pose proof metric_type_tie_l as H. tauto. Qed.
Print Assumptions tie_metric_type_alternatives.
Theorem tie_method_sets :
  methodset_ok "pcommon" "Map" methods_Map = true /\
  methodset_ok "pcommon" "Slice" methods_Slice = true /\
  methodset_ok "pcommon" "Value" methods_Value = true /\
  methodset_ok "pcommon" "UInt64Slice" methods_UInt64Slice = true /\
  methodset_ok "pmetric" "MetricSlice" methods_MetricSlice = true /\
  methodset_ok "pmetric" "Metric" methods_Metric = true /\
  methodset_ok "pmetric" "HistogramDataPoint" methods_HistogramDataPoint = true.
Proof. exact methodsets_tie_l. Qed.
Print Assumptions tie_method_sets.

(* FAILING-INPUT SEARCH: the boolean checker that the driver runs over every observed case (program + what the
   implementation answered) is exactly "the observation conforms to the pure semantics" - same result code at every
   step, every value read back equal to the value of the pure interpreter, in which the clauses above are definitions *)
Theorem spec_ok_sound : forall c, spec_ok c = true <-> Conforms [] (fst c) (snd c).
Proof. exact spec_ok_sound_l. Qed.
Print Assumptions spec_ok_sound.

(* HISTORIES.  "later mutation of either side, or of any other value, NEVER changes the other": for every later program in
   which no step writes handle h (the source after a copy, the copy while the source is mutated, any bystander), h keeps
   its value - unbounded histories, every schema, every oracle *)
Theorem independent_forever : forall sc p st h, nth_error (s_hs st) h <> None ->
  Forall (fun o => ~ writes o h) p -> row_of (fst (run_c sc st p)) h = row_of st h.
Proof. exact independent_run. Qed.
Print Assumptions independent_forever.

(* ... and inside ONE payload: an update at path p2 is invisible at every path p1 that diverges from it *)
Theorem independent_within_handle : forall p1 p2 r f r', diverge p1 p2 = true -> cupd r p2 f = Some r' -> cget r' p1 = cget r p1.
Proof. exact cget_cupd_diverge. Qed.
Print Assumptions independent_within_handle.

(* "once a payload is marked read-only every mutator ... without changing ANYTHING": after the mark no program at all
   changes the value of that handle, and it stays read-only *)
Theorem readonly_value_forever : forall sc p st h, ro st h = true ->
  row_of (fst (run_c sc st p)) h = row_of st h /\ ro (fst (run_c sc st p)) h = true.
Proof. exact readonly_run. Qed.
Print Assumptions readonly_value_forever.

(* "while all readers keep working": values are read by total functions of the state (row_of, aread_slot, aread_row) that do not look at
   the flag, and marking read-only changes no value of any handle *)
Theorem mark_readonly_changes_no_value : forall sc st h h', nth_error (s_hs st) h' <> None ->
  row_of (fst (cstep sc st (OReadOnly h))) h' = row_of st h'.
Proof. exact mark_readonly_keeps_values. Qed.
Print Assumptions mark_readonly_changes_no_value.

(* THE CHECKER ACCEPTS THE MODEL.  For every program (no guard: ill-typed programs included, they get code 2 on both sides),
   every growth oracle inside it and every selection of handles / slots to observe, the observed-case record built from the
   MODEL's own run (observe: result code, values read through abs, capacities - the way the harness builds it from the
   implementation's run) passes the pure-semantics checker spec_ok, the driver's check_both, and has no clause verdict.
   So a verdict of the checker on an implementation trace is a statement about the same clauses the theorems prove of the
   model, and the checker never demands more than the model delivers (no false alarm can come from the checker itself). *)
Theorem model_passes_checker : forall p sels,
  spec_ok (p, observe cstate0 p sels) = true /\ check_both (p, observe cstate0 p sels) = true /\
  spec_verdict (p, observe cstate0 p sels) = None.
Proof. exact model_passes_checker_l. Qed.
Print Assumptions model_passes_checker.
(* ... from any start state, for the pure-semantics part *)
Theorem model_passes_spec_from_any_state : forall p st sels, spec_run (abs_state st) p (observe st p sels) = true.
Proof. exact model_passes_spec. Qed.
Print Assumptions model_passes_spec_from_any_state.

(* ARBITRARY START CONTENTS.  Every list of pure values (any contents of any handles) is the abstraction of a state built
   by the model's constructor cload (freshly allocated objects, the way a constructor or an unmarshaller builds them), and
   that state satisfies sep; loading further values preserves sep.  Hence no theorem above assumes sep of an arbitrary
   heap: "starting from arbitrary contents" = starting from cload_all cstate0 vs, followed by any program (sep_preserved). *)
Theorem arbitrary_start_contents : forall vs,
  sep (cload_all cstate0 vs) /\ abs_state (cload_all cstate0 vs) = map (fun nv => mkA false (fst nv) (snd nv)) vs.
Proof. exact arbitrary_contents. Qed.
Print Assumptions arbitrary_start_contents.
Theorem load_preserves_sep : forall st n v, sep st -> sep (cload st n v).
Proof. exact cload_sep. Qed.
Print Assumptions load_preserves_sep.
Theorem sep_from_arbitrary_contents : forall sc vs p, sep (fst (run_c sc (cload_all cstate0 vs) p)).
Proof. exact (fun sc vs p => sep_run sc p _ (proj1 (arbitrary_contents vs))). Qed.
Print Assumptions sep_from_arbitrary_contents.

(* MOVES INSIDE ONE PAYLOAD.  The model also executes MoveTo / MoveAndAppendTo between two DIVERGING positions of the same
   handle (renaming an attribute: m.Get(a).MoveTo(m.PutEmpty(b)); body -> attribute of one log record; element -> element of
   one slice); refines, sep_preserved, readonly_total cover them like every other step.  For a slot move inside one handle:
   the destination reads the old source and the source reads empty *)
Theorem move_within_one_payload : forall sc st h p1 j1 p2 j2 st',
  cstep sc st (OMoveSlot h p1 j1 h p2 j2) = (st', 0) ->
  exists r r' s, arow_of (abs_state st) h = Some r /\ arow_of (abs_state st') h = Some r' /\
                 aslot r p1 j1 = Some s /\ aslot r' p2 j2 = Some s /\ aslot r' p1 j1 = Some (vmoved s).
Proof. exact (fun sc st h p1 j1 p2 j2 st' H => a_move_slot_same sc _ h p1 j1 p2 j2 _ (cstep_astep _ _ _ _ _ H)). Qed.
Print Assumptions move_within_one_payload.
