(* C10/Proofs6.v — configuration reloads and provider faults: every service that is built lives
   exactly one life time. *)
From Verif Require Import Common.Base C10.Model C10.Proofs1 C10.Proofs2 C10.Proofs3 C10.Proofs4.

Lemma gen_run_eq n : gen_run n = (fst (gen_start n) ++ fst (gen_shutdown n), snd (gen_start n) ++ snd (gen_shutdown n)).
Proof. unfold gen_run, gen_start, gen_shutdown. apply run_eq. Qed.

Definition gen_log (n : gen) : list ev := fst (gen_run n).

(* events: whatever the provider does *)
Lemma leave_loop_eq t pf cur : leave_loop t pf cur = collector_shutdown pf cur.
Proof. destruct t; reflexivity. Qed.

Lemma reload_loop_events t pf : forall rest cur ls,
  gen_start cur = (ls, []) ->
  exists k, k <= length rest /\ map fst (reload_loop t pf cur ls rest) = map gen_log (cur :: firstn k rest).
Proof.
  induction rest as [|nxt rest IH]; intros cur ls Hs; simpl.
  - exists 0. split; [lia|]. rewrite leave_loop_eq. unfold gen_log, collector_shutdown. rewrite gen_run_eq, Hs. simpl.
    destruct (gen_shutdown cur). reflexivity.
  - assert (Ecur : gen_log cur = ls ++ fst (gen_shutdown cur)).
    { unfold gen_log. rewrite gen_run_eq, Hs. reflexivity. }
    destruct (gen_shutdown cur) as [ld ed] eqn:Ed. simpl in Ecur. destruct ed as [|e ed].
    + destruct (gn_close_fails cur).
      * exists 0. split; [lia|]. simpl. rewrite Ecur. reflexivity.
      * destruct (gen_start nxt) as [ls2 es2] eqn:Es. destruct es2 as [|e2 es2].
        -- destruct (IH nxt ls2 Es) as (k & Hk & E). exists (S k). split; [lia|].
           simpl. rewrite E. simpl. rewrite Ecur. reflexivity.
        -- exists 1. split; [lia|]. simpl. rewrite Ecur. unfold gen_log. rewrite (gen_run_eq nxt), Es. simpl.
           destruct (gen_shutdown nxt). reflexivity.
    + exists 0. split; [lia|]. simpl. rewrite Ecur. reflexivity.
Qed.

(* Run over any sequence of configurations, with any provider behaviour: the services that get
   built are a prefix of the sequence, and each of them sees exactly the event sequence of ONE
   life time [collector_run] *)
Lemma l_reload_generations_events t pf gens :
  exists k, k <= length gens /\ map fst (collector_run_reload t pf gens) = map gen_log (firstn k gens).
Proof.
  destruct gens as [|g0 rest]; simpl.
  - exists 0. split; [lia|reflexivity].
  - destruct (gen_start g0) as [ls es] eqn:Es. destruct es as [|e es].
    + destruct (reload_loop_events t pf rest g0 ls Es) as (k & Hk & E). exists (S k). split; [lia|]. exact E.
    + exists 1. split; [lia|]. simpl. unfold gen_log. rewrite gen_run_eq, Es. simpl. destruct (gen_shutdown g0). reflexivity.
Qed.

(* with a well-behaved provider also the reported errors are those of the life times *)
Lemma reload_loop_spec t : forall rest cur ls,
  gen_start cur = (ls, []) -> gn_close_fails cur = false -> Forall (fun n => gn_close_fails n = false) rest ->
  exists k, k <= length rest /\ reload_loop t false cur ls rest = map gen_run (cur :: firstn k rest).
Proof.
  induction rest as [|nxt rest IH]; intros cur ls Hs Hc Hr; simpl.
  - exists 0. split; [lia|]. rewrite leave_loop_eq. unfold collector_shutdown, provider_errs. rewrite gen_run_eq, Hs, Hc. simpl.
    destruct (gen_shutdown cur). reflexivity.
  - assert (Ecur : gen_run cur = (ls ++ fst (gen_shutdown cur), snd (gen_shutdown cur))).
    { rewrite gen_run_eq, Hs. reflexivity. }
    inversion Hr as [|? ? Hn Hr']; subst. rewrite Hc.
    destruct (gen_shutdown cur) as [ld ed] eqn:Ed. simpl in Ecur. destruct ed as [|e ed].
    + destruct (gen_start nxt) as [ls2 es2] eqn:Es. destruct es2 as [|e2 es2].
      * destruct (IH nxt ls2 Es Hn Hr') as (k & Hk & E). exists (S k). split; [lia|].
        rewrite E. simpl. rewrite Ecur. reflexivity.
      * exists 1. split; [lia|]. simpl. rewrite Ecur. rewrite (gen_run_eq nxt), Es. simpl.
        destruct (gen_shutdown nxt). reflexivity.
    + exists 0. split; [lia|]. simpl. rewrite Ecur. reflexivity.
Qed.

Lemma l_reload_generations t gens : Forall (fun n => gn_close_fails n = false) gens ->
  exists k, k <= length gens /\ collector_run_reload t false gens = map gen_run (firstn k gens).
Proof.
  intros Hf. destruct gens as [|g0 rest]; simpl.
  - exists 0. split; [lia|reflexivity].
  - inversion Hf as [|? ? H0 Hr]; subst. destruct (gen_start g0) as [ls es] eqn:Es. destruct es as [|e es].
    + destruct (reload_loop_spec t rest g0 ls Es H0 Hr) as (k & Hk & E). exists (S k). split; [lia|]. exact E.
    + exists 1. split; [lia|]. simpl. rewrite gen_run_eq, Es. simpl. destruct (gen_shutdown g0). reflexivity.
Qed.

(* at least the first configuration's service is always built and torn down, whatever the provider does *)
Lemma l_reload_first t pf g0 rest : exists tl, map fst (collector_run_reload t pf (g0 :: rest)) = gen_log g0 :: tl.
Proof.
  simpl. destruct (gen_start g0) as [ls es] eqn:Es. destruct es as [|e es].
  - destruct (reload_loop_events t pf rest g0 ls Es) as (k & _ & E). rewrite E. simpl. eexists. reflexivity.
  - unfold gen_log. rewrite gen_run_eq, Es. destruct (gen_shutdown g0). simpl. eexists. reflexivity.
Qed.

(* which trigger makes Run leave its loop never changes anything: the running service is shut down
   (completely, once) in every case *)
Lemma reload_loop_trigger t t' pf : forall rest cur ls, reload_loop t pf cur ls rest = reload_loop t' pf cur ls rest.
Proof.
  induction rest as [|nxt rest IH]; intros cur ls; simpl.
  - rewrite !leave_loop_eq. reflexivity.
  - destruct (gen_shutdown cur) as [ld [|e ed]]; [|reflexivity]. destruct (gn_close_fails cur); [reflexivity|].
    destruct (gen_start nxt) as [ls2 [|e2 es2]]; [|reflexivity]. rewrite IH. reflexivity.
Qed.

Lemma l_every_trigger_shuts_down t t' pf gens : collector_run_reload t pf gens = collector_run_reload t' pf gens.
Proof.
  destruct gens as [|g0 rest]; simpl; [reflexivity|]. destruct (gen_start g0) as [ls [|e es]]; [|reflexivity].
  apply reload_loop_trigger.
Qed.

(* the service that is running when Run leaves its loop receives its complete shutdown sequence *)
Lemma l_last_generation_shut_down t pf cur ls : gen_start cur = (ls, []) ->
  map fst (reload_loop t pf cur ls []) = [ls ++ fst (gen_shutdown cur)].
Proof. intros _. simpl. rewrite leave_loop_eq. unfold collector_shutdown. destruct (gen_shutdown cur). reflexivity. Qed.
