(* C10/Proofs6.v — configuration reloads: every service that is built lives exactly one life time. *)
From Verif Require Import Common.Base C10.Model C10.Proofs1 C10.Proofs2 C10.Proofs3 C10.Proofs4.

Lemma gen_run_eq n : gen_run n = (fst (gen_start n) ++ fst (gen_shutdown n), snd (gen_start n) ++ snd (gen_shutdown n)).
Proof. unfold gen_run, gen_start, gen_shutdown. apply run_eq. Qed.

Lemma reload_loop_spec : forall rest cur ls,
  gen_start cur = (ls, []) ->
  exists k, k <= length rest /\ reload_loop cur ls rest = map gen_run (cur :: firstn k rest).
Proof.
  induction rest as [|nxt rest IH]; intros cur ls Hs; simpl.
  - exists 0. split; [lia|]. rewrite gen_run_eq, Hs. simpl. destruct (gen_shutdown cur). reflexivity.
  - assert (Ecur : gen_run cur = (ls ++ fst (gen_shutdown cur), snd (gen_shutdown cur))).
    { rewrite gen_run_eq, Hs. reflexivity. }
    destruct (gen_shutdown cur) as [ld ed] eqn:Ed. simpl in Ecur. destruct ed as [|e ed].
    + destruct (gen_start nxt) as [ls2 es2] eqn:Es. destruct es2 as [|e2 es2].
      * destruct (IH nxt ls2 Es) as (k & Hk & E). exists (S k). split; [lia|].
        rewrite E. simpl. rewrite Ecur. reflexivity.
      * exists 1. split; [lia|]. simpl. rewrite Ecur. rewrite (gen_run_eq nxt), Es. simpl.
        destruct (gen_shutdown nxt). reflexivity.
    + exists 0. split; [lia|]. simpl. rewrite Ecur. reflexivity.
Qed.

(* Run over any sequence of configurations: the services that get built are a prefix of the
   sequence, and each of them sees exactly the life time [collector_run] of the theorems *)
Lemma l_reload_generations gens :
  exists k, k <= length gens /\ collector_run_reload gens = map gen_run (firstn k gens).
Proof.
  destruct gens as [|g0 rest]; simpl.
  - exists 0. split; [lia|reflexivity].
  - destruct (gen_start g0) as [ls es] eqn:Es. destruct es as [|e es].
    + destruct (reload_loop_spec rest g0 ls Es) as (k & Hk & E). exists (S k). split; [lia|]. exact E.
    + exists 1. split; [lia|]. simpl. rewrite gen_run_eq, Es. simpl. destruct (gen_shutdown g0). reflexivity.
Qed.

(* at least the first configuration's service is always built (and torn down) *)
Lemma l_reload_first g0 rest : exists tl, collector_run_reload (g0 :: rest) = gen_run g0 :: tl.
Proof.
  destruct (l_reload_generations (g0 :: rest)) as (k & Hk & E). rewrite E.
  destruct k as [|k].
  - exfalso. simpl in E. destruct (gen_start g0) as [ls es]. destruct es.
    + destruct rest; simpl in E; destruct (gen_shutdown g0) as [ld ed]; try destruct ed; try discriminate;
        destruct (gen_start g) as [a b]; destruct b; try discriminate; destruct (gen_shutdown g); discriminate.
    + destruct (gen_shutdown g0). discriminate.
  - simpl. eexists. reflexivity.
Qed.
