(* C10/Proofs7.v — the topological sort as an algorithm: every output is a valid order (so the
   ordering theorems need no hypothesis on the order), and a cycle error names a real cycle. *)
From Verif Require Import Common.Base C10.Model C10.Proofs1 C10.Proofs2 C10.Proofs3 C10.Proofs4.

Definition edges_in (ns : list nat) (es : list (nat * nat)) : Prop :=
  forall u v, In (u, v) es -> In u ns /\ In v ns.

(* ---- is_topo is complete for its specification -------------------------------------------------- *)
Lemma NoDup_nodupb l : NoDup l -> nodupb l = true.
Proof.
  induction 1 as [|a l Hn Hnd IH]; simpl; [reflexivity|]. rewrite IH, andb_true_r.
  destruct (mem a l) eqn:E; [|reflexivity]. apply mem_In in E. contradiction.
Qed.

Lemma index_app_notin a x l : ~ In a x -> index a (x ++ l) = length x + index a l.
Proof.
  induction x as [|y x IH]; intros Hn; simpl; [reflexivity|].
  destruct (Nat.eqb a y) eqn:E.
  - apply Nat.eqb_eq in E. subst. exfalso. apply Hn. left. reflexivity.
  - rewrite IH; [reflexivity|]. intro H. apply Hn. right. exact H.
Qed.

Lemma index_head a l : index a (a :: l) = 0.
Proof. simpl. rewrite Nat.eqb_refl. reflexivity. Qed.

Lemma precedes_index u v o : NoDup o -> precedes u v o -> index u o < index v o.
Proof.
  intros Hnd (x & y & z & ->).
  assert (Hux : ~ In u x).
  { apply NoDup_remove_2 in Hnd. intro H. apply Hnd. apply in_or_app. left. exact H. }
  assert (Hv : ~ In v (x ++ u :: y)).
  { replace (x ++ u :: y ++ v :: z) with ((x ++ u :: y) ++ v :: z) in Hnd by (rewrite <- app_assoc; reflexivity).
    apply NoDup_remove_2 in Hnd. intro H. apply Hnd. apply in_or_app. left. exact H. }
  rewrite (index_app_notin u x _ Hux). rewrite index_head.
  replace (x ++ u :: y ++ v :: z) with ((x ++ u :: y) ++ v :: z) by (rewrite <- app_assoc; reflexivity).
  rewrite (index_app_notin v _ _ Hv). rewrite index_head. rewrite app_length. simpl. lia.
Qed.

Lemma is_topo_complete ns es o :
  NoDup o -> (forall x, In x o <-> In x ns) -> (forall u v, In (u, v) es -> precedes u v o) ->
  is_topo ns es o = true.
Proof.
  intros Hnd Hs He. unfold is_topo. rewrite (NoDup_nodupb _ Hnd). simpl.
  apply andb_true_iff. split.
  - unfold same_set. apply andb_true_iff. split; apply forallb_forall; intros x Hx; apply mem_In; apply Hs; exact Hx.
  - apply forallb_forall. intros [u v] Hin. simpl. specialize (He u v Hin).
    pose proof (precedes_index u v o Hnd He) as Hlt. destruct He as (a & b & c & ->).
    apply andb_true_iff. split; [apply andb_true_iff; split|].
    + apply mem_In. apply in_or_app. right. left. reflexivity.
    + apply mem_In. apply in_or_app. right. right. apply in_or_app. right. left. reflexivity.
    + apply Nat.ltb_lt. exact Hlt.
Qed.

(* ---- the sort ---------------------------------------------------------------------------------------- *)
Lemma first_ready_some es rem : forall pref n,
  first_ready es rem pref = Some n -> In n rem /\ is_ready es rem n = true.
Proof.
  induction pref as [|p r IH]; intros n H; simpl in H; [discriminate|].
  destruct (mem p rem) eqn:E1; [|apply IH; exact H].
  destruct (is_ready es rem p) eqn:E2; [|apply IH; exact H].
  inversion H; subst. apply mem_In in E1. auto.
Qed.

Lemma first_ready_none es rem : forall pref,
  first_ready es rem pref = None -> forall x, In x pref -> In x rem -> is_ready es rem x = false.
Proof.
  induction pref as [|p r IH]; intros H x Hx Hr; simpl in H; [destruct Hx|].
  destruct (mem p rem) eqn:E1.
  - destruct (is_ready es rem p) eqn:E2; [discriminate|].
    destruct Hx as [->|Hx]; [exact E2|apply IH; assumption].
  - destruct Hx as [->|Hx]; [|apply IH; assumption]. apply mem_In in Hr. congruence.
Qed.

Lemma in_remove_node n x l : In x (remove_node n l) <-> In x l /\ x <> n.
Proof.
  unfold remove_node. rewrite filter_In. split; intros [H1 H2]; split; auto.
  - intro E. subst. rewrite Nat.eqb_refl in H2. discriminate.
  - apply negb_true_iff. apply Nat.eqb_neq. exact H2.
Qed.

Lemma filter_len_le {A} (f : A -> bool) l : length (filter f l) <= length l.
Proof. induction l as [|a l IH]; simpl; [lia|]. destruct (f a); simpl; lia. Qed.

Lemma remove_node_length n l : In n l -> length (remove_node n l) < length l.
Proof.
  induction l as [|a l IH]; intros Hin; [destruct Hin|]. simpl.
  destruct (Nat.eqb a n) eqn:E; simpl.
  - pose proof (filter_len_le (fun x => negb (Nat.eqb x n)) l). unfold remove_node. lia.
  - destruct Hin as [->|Hin]; [rewrite Nat.eqb_refl in E; discriminate|]. specialize (IH Hin). unfold remove_node in *. lia.
Qed.

Definition inv (ns : list nat) (es : list (nat * nat)) (rem pl : list nat) : Prop :=
  NoDup pl /\ (forall x, In x ns <-> In x pl \/ In x rem) /\ (forall x, In x pl -> ~ In x rem) /\
  (forall u v, In (u, v) es -> forall a b, pl = a ++ v :: b -> In u b).

Lemma is_ready_pred es rem n u : is_ready es rem n = true -> In (u, n) es -> ~ In u rem.
Proof.
  unfold is_ready. rewrite forallb_forall. intros H Hin Hr. specialize (H _ Hin). simpl in H.
  rewrite Nat.eqb_refl in H. apply mem_In in Hr. rewrite Hr in H. discriminate.
Qed.

Lemma aux_sound ns es pref : edges_in ns es -> forall fuel rem pl o,
  inv ns es rem pl -> topo_sort_aux fuel es pref rem pl = Sorted o ->
  NoDup o /\ (forall x, In x o <-> In x ns) /\ (forall u v, In (u, v) es -> precedes u v o).
Proof.
  intros Hes. induction fuel as [|fuel IH]; intros rem pl o (Ha & Hb & Hc & Hd) H.
  - destruct rem as [|r rem]; simpl in H; [|discriminate]. inversion H; subst. clear H.
    split; [apply NoDup_rev; exact Ha|]. split.
    + intros x. rewrite <- in_rev. rewrite Hb. simpl. tauto.
    + intros u v Hin. destruct (Hes u v Hin) as [_ Hv]. apply Hb in Hv. destruct Hv as [Hv|[]].
      apply in_split in Hv. destruct Hv as (a & b & E). pose proof (Hd u v Hin a b E) as Hu.
      apply in_split in Hu. destruct Hu as (b1 & b2 & ->). subst pl.
      exists (rev b2), (rev b1), (rev a). rewrite rev_app_distr. simpl. rewrite rev_app_distr. simpl.
      repeat rewrite <- app_assoc. reflexivity.
  - destruct rem as [|r rem].
    + simpl in H. inversion H; subst. clear H.
      split; [apply NoDup_rev; exact Ha|]. split.
      * intros x. rewrite <- in_rev. rewrite Hb. simpl. tauto.
      * intros u v Hin. destruct (Hes u v Hin) as [_ Hv]. apply Hb in Hv. destruct Hv as [Hv|[]].
        apply in_split in Hv. destruct Hv as (a & b & E). pose proof (Hd u v Hin a b E) as Hu.
        apply in_split in Hu. destruct Hu as (b1 & b2 & ->). subst pl.
        exists (rev b2), (rev b1), (rev a). rewrite rev_app_distr. simpl. rewrite rev_app_distr. simpl.
        repeat rewrite <- app_assoc. reflexivity.
    + cbn [topo_sort_aux] in H. destruct (first_ready es (r :: rem) pref) as [n|] eqn:F; [|discriminate].
      apply first_ready_some in F. destruct F as [Hn Hr].
      assert (Hinv : inv ns es (remove_node n (r :: rem)) (n :: pl)).
      { split; [|split; [|split]].
        * constructor; [|exact Ha]. intro Hp. apply (Hc n Hp). exact Hn.
        * intros x. rewrite Hb. rewrite in_remove_node.
          destruct (Nat.eq_dec x n) as [->|Hne]; [simpl; tauto|]. split.
          -- intros [H1|H1]; [left; right; exact H1|right; split; assumption].
          -- intros [[H1|H1]|[H1 _]]; [congruence|left; exact H1|right; exact H1].
        * intros x [<-|Hx]; rewrite in_remove_node; [tauto|]. intros [H1 _]. apply (Hc x Hx H1).
        * intros u v Hin a b E. destruct a as [|a0 a]; simpl in E.
          -- inversion E; subst. pose proof (is_ready_pred _ _ _ _ Hr Hin) as Hnr.
             destruct (Hes u v Hin) as [Hu _]. apply Hb in Hu. tauto.
          -- inversion E; subst. eapply Hd; eauto. }
      exact (IH _ _ _ Hinv H).
Qed.

Lemma inv_init ns es : NoDup ns -> inv ns es ns [].
Proof.
  intros _. split; [constructor|]. split; [intros x; simpl; tauto|]. split; [intros x []|].
  intros u v _ a b E. destruct a; discriminate.
Qed.

Lemma l_topo_sort_sound ns es pref o : edges_in ns es -> NoDup ns ->
  topo_sort ns es pref = Sorted o -> is_topo ns es o = true.
Proof.
  intros Hes Hnd H. unfold topo_sort in H.
  destruct (aux_sound ns es (pref ++ ns) Hes _ _ _ _ (inv_init ns es Hnd) H) as (A & B & C).
  apply is_topo_complete; assumption.
Qed.

(* ---- the cycle named by the error ------------------------------------------------------------------- *)
Fixpoint chainP (es : list (nat * nat)) (l : list nat) : Prop :=
  match l with
  | a :: ((b :: _) as r) => In (a, b) es /\ chainP es r
  | _ => True
  end.

Lemma chainP_b es : forall l, chainP es l -> chainb es l = true.
Proof.
  induction l as [|a l IH]; [reflexivity|]. destruct l as [|b l]; [reflexivity|].
  intros [H1 H2]. change (existsb (fun e => Nat.eqb (fst e) a && Nat.eqb (snd e) b) es && chainb es (b :: l) = true).
  rewrite (IH H2), andb_true_r. apply existsb_exists. exists (a, b). split; [exact H1|]. simpl. rewrite !Nat.eqb_refl. reflexivity.
Qed.

Lemma chain_take_to es p : forall r x, chainP es (x :: r) -> In p r -> chainP es (x :: take_to p r ++ [p]).
Proof.
  induction r as [|y r IH]; intros x Hc Hin; [destruct Hin|]. simpl. destruct (Nat.eqb y p) eqn:E.
  - apply Nat.eqb_eq in E. subst y. simpl. split; [apply Hc|exact I].
  - apply Nat.eqb_neq in E. destruct Hin as [Hin|Hin]; [congruence|].
    destruct Hc as [H1 H2]. split; [exact H1|]. apply IH; assumption.
Qed.

Lemma cycle_from_chain es p ch c0 : chainP es ch -> hd_error ch = Some c0 -> In (p, c0) es -> In p ch ->
  chainP es ((p :: take_to p ch) ++ [p]).
Proof.
  intros Hc Hh He Hin. destruct ch as [|x r]; [destruct Hin|]. simpl in Hh. inversion Hh; subst c0.
  simpl. destruct (Nat.eqb x p) eqn:E.
  - apply Nat.eqb_eq in E. subst x. simpl. split; [exact He|exact I].
  - apply Nat.eqb_neq in E. destruct Hin as [Hin|Hin]; [congruence|].
    change (In (p, x) es /\ chainP es (x :: take_to p r ++ [p])). split; [exact He|]. apply chain_take_to; assumption.
Qed.

Lemma pred_in_spec es rem cur p : pred_in es rem cur = Some p -> In (p, cur) es /\ In p rem.
Proof.
  unfold pred_in. destruct (find _ es) as [[a b]|] eqn:F; [|discriminate]. simpl. intros E. inversion E; subst.
  apply find_some in F. destruct F as [Hin Hf]. simpl in Hf. apply andb_true_iff in Hf. destruct Hf as [H1 H2].
  apply Nat.eqb_eq in H1. subst b. apply mem_In in H2. auto.
Qed.

Lemma not_ready_pred es rem x : is_ready es rem x = false -> exists p, pred_in es rem x = Some p.
Proof.
  intros H. unfold pred_in. destruct (find (fun e => Nat.eqb (snd e) x && mem (fst e) rem) es) as [e|] eqn:F.
  - exists (fst e). reflexivity.
  - exfalso. unfold is_ready in H.
    assert (forallb (fun e => if Nat.eqb (snd e) x then negb (mem (fst e) rem) else true) es = true); [|congruence].
    apply forallb_forall. intros e He. pose proof (find_none _ _ F e He) as Hn. simpl in Hn.
    destruct (Nat.eqb (snd e) x); [|reflexivity]. simpl in Hn. rewrite Hn. reflexivity.
Qed.

Definition cycleP (es : list (nat * nat)) (c : list nat) : Prop :=
  match c with [] => False | a :: _ => chainP es (c ++ [a]) end.

Lemma walk_cycle es rem : forall fuel ch c,
  chainP es ch -> walk fuel es rem ch = c -> c <> [] -> cycleP es c.
Proof.
  induction fuel as [|fuel IH]; intros ch c Hc H Hne; simpl in H; [congruence|].
  destruct ch as [|cur r]; [congruence|].
  destruct (pred_in es rem cur) as [p|] eqn:P; [|congruence].
  apply pred_in_spec in P. destruct P as [Pe Pr].
  destruct (mem p (cur :: r)) eqn:M.
  - subst c. apply mem_In in M. unfold cycleP. eapply cycle_from_chain; eauto. reflexivity.
  - apply (IH (p :: cur :: r) c); [|exact H|exact Hne]. split; [exact Pe|exact Hc].
Qed.

Lemma walk_nonempty es rem : (forall x, In x rem -> exists p, pred_in es rem x = Some p) ->
  forall fuel ch, ch <> [] -> NoDup ch -> incl ch rem -> length rem < fuel + length ch -> walk fuel es rem ch <> [].
Proof.
  intros Hp. induction fuel as [|fuel IH]; intros ch Hne Hnd Hi Hl.
  - exfalso. pose proof (NoDup_incl_length Hnd Hi). simpl in Hl. lia.
  - simpl. destruct ch as [|cur r]; [congruence|].
    destruct (Hp cur (Hi cur (or_introl eq_refl))) as [p P]. rewrite P.
    destruct (mem p (cur :: r)) eqn:M; [discriminate|].
    apply IH; [discriminate| | |simpl in *; lia].
    + constructor; [|exact Hnd]. intro H. apply mem_In in H. congruence.
    + intros y [<-|Hy]; [apply pred_in_spec in P; apply P|apply Hi; exact Hy].
Qed.

Lemma aux_cyclic ns es pref : incl ns pref -> forall fuel rem pl c,
  incl rem ns -> length rem <= fuel -> topo_sort_aux fuel es pref rem pl = Cyclic c -> is_cycle es c = true.
Proof.
  intros Hpref. induction fuel as [|fuel IH]; intros rem pl c Hi Hl H.
  - destruct rem; simpl in *; [discriminate|lia].
  - destruct rem as [|r rem]; [simpl in H; discriminate|]. cbn [topo_sort_aux] in H.
    destruct (first_ready es (r :: rem) pref) as [n|] eqn:F.
    + pose proof (first_ready_some _ _ _ _ F) as [Hn _].
      apply (IH (remove_node n (r :: rem)) (n :: pl) c); [| |exact H].
      * intros y Hy. apply in_remove_node in Hy. apply Hi. apply Hy.
      * pose proof (remove_node_length n (r :: rem) Hn). lia.
    + assert (Ec : c = find_cycle es (r :: rem)) by congruence. rewrite Ec. clear H Ec.
      assert (Hp : forall x, In x (r :: rem) -> exists p, pred_in es (r :: rem) x = Some p).
      { intros x Hx. apply not_ready_pred. eapply first_ready_none; eauto. }
      change (find_cycle es (r :: rem)) with (walk (S (length (r :: rem))) es (r :: rem) [r]).
      remember (walk (S (length (r :: rem))) es (r :: rem) [r]) as w eqn:W.
      assert (Hne : w <> []).
      { rewrite W. apply (walk_nonempty es (r :: rem) Hp); [discriminate|constructor; [intros []|constructor]| |simpl; lia].
        intros y [<-|[]]. left. reflexivity. }
      assert (Hc : cycleP es w).
      { apply (walk_cycle es (r :: rem) (S (length (r :: rem))) [r] w); [exact I|symmetry; exact W|exact Hne]. }
      destruct w as [|a c0]; [congruence|]. unfold is_cycle. apply chainP_b. exact Hc.
Qed.

Lemma l_topo_sort_cycle ns es pref c : topo_sort ns es pref = Cyclic c -> is_cycle es c = true.
Proof.
  unfold topo_sort. apply (aux_cyclic ns es (pref ++ ns)).
  - intros x Hx. apply in_or_app. right. exact Hx.
  - intros x Hx. exact Hx.
  - lia.
Qed.

(* a graph that has a cycle has no topological order: the two outcomes are exclusive *)
Lemma cycle_no_order ns es c o : is_cycle es c = true -> is_topo ns es o = true -> False.
Proof.
  intros Hc Ht. apply is_topo_facts in Ht.
  destruct c as [|a c]; [discriminate|]. unfold is_cycle in Hc.
  (* along a chain the index strictly increases; a closed chain gives index a < index a *)
  assert (G : forall l x y, chainb es (x :: l ++ [y]) = true -> index x o < index y o).
  { induction l as [|z l IH]; intros x y H.
    - simpl in H. apply andb_true_iff in H. destruct H as [H _]. apply existsb_exists in H.
      destruct H as ([u v] & Hin & E). simpl in E. apply andb_true_iff in E. destruct E as [E1 E2].
      apply Nat.eqb_eq in E1. apply Nat.eqb_eq in E2. subst. destruct Ht as (_ & _ & He). apply (He _ _ Hin).
    - change (chainb es (x :: z :: l ++ [y]) = true) in H. simpl in H. apply andb_true_iff in H. destruct H as [H H2].
      apply existsb_exists in H. destruct H as ([u v] & Hin & E). simpl in E. apply andb_true_iff in E. destruct E as [E1 E2].
      apply Nat.eqb_eq in E1. apply Nat.eqb_eq in E2. subst. destruct Ht as (Ha & Hb & He).
      pose proof (proj2 (proj2 (He _ _ Hin))). specialize (IH z y H2). lia. }
  specialize (G c a a Hc). lia.
Qed.

(* the orders computed by the algorithm satisfy the hypothesis of the ordering theorems *)
Definition wf_topology (g : graph) (x : extset) : Prop :=
  NoDup (exts x) /\ edges_in (exts x) (deps x) /\ NoDup (nodes g) /\ edges_in (nodes g) (edges g).

Lemma l_orders_by_ok g x pe ps pp o : wf_topology g x -> orders_by g x pe ps pp = Some o -> orders_ok g x o = true.
Proof.
  intros (H1 & H2 & H3 & H4). unfold orders_by.
  destruct (topo_sort (exts x) (deps x) pe) as [eo|] eqn:E1; [|discriminate].
  destruct (topo_sort (nodes g) (edges g) ps) as [so|] eqn:E2; [|discriminate].
  destruct (topo_sort (nodes g) (edges g) pp) as [po|] eqn:E3; [|discriminate].
  intros E. inversion E; subst. unfold orders_ok. simpl.
  rewrite (l_topo_sort_sound _ _ _ _ H2 H1 E1), (l_topo_sort_sound _ _ _ _ H4 H3 E2), (l_topo_sort_sound _ _ _ _ H4 H3 E3).
  reflexivity.
Qed.

(* ---- completeness: every valid order is an output (for pref = that order) ------------------------- *)
Lemma index_lt_in u : forall d l, index u (d ++ l) < length d -> In u d.
Proof.
  induction d as [|a d IH]; intros l H; simpl in *; [lia|].
  destruct (Nat.eqb u a) eqn:E; [apply Nat.eqb_eq in E; left; congruence|]. right. apply (IH l). lia.
Qed.

Lemma first_ready_skip es rem : forall d rest, (forall x, In x d -> ~ In x rem) ->
  first_ready es rem (d ++ rest) = first_ready es rem rest.
Proof.
  induction d as [|a d IH]; intros rest H; simpl; [reflexivity|].
  destruct (mem a rem) eqn:E.
  - apply mem_In in E. exfalso. apply (H a (or_introl eq_refl) E).
  - apply IH. intros x Hx. apply H. right. exact Hx.
Qed.

Lemma aux_complete ns es o : topo_facts ns es o -> forall todo done rem fuel,
  o = done ++ todo -> (forall x, In x rem <-> In x todo) -> length todo <= fuel ->
  topo_sort_aux fuel es (o ++ ns) rem (rev done) = Sorted o.
Proof.
  intros (Hnd & Hs & He). induction todo as [|t todo IH]; intros done rem fuel Eo Hr Hf.
  - destruct rem as [|r rem]; [|exfalso; apply (proj1 (Hr r)); left; reflexivity].
    destruct fuel; simpl; rewrite rev_involutive; rewrite Eo, app_nil_r; reflexivity.
  - destruct rem as [|r rem]; [exfalso; apply (proj2 (Hr t)); left; reflexivity|].
    destruct fuel as [|fuel]; [simpl in Hf; lia|]. cbn [topo_sort_aux].
    assert (Hdis : forall x, In x done -> ~ In x (r :: rem)).
    { intros x Hx Hrx. apply Hr in Hrx. rewrite Eo in Hnd. clear -Hnd Hx Hrx.
      induction done as [|a d IHd]; [destruct Hx|]. simpl in Hnd. inversion Hnd; subst.
      destruct Hx as [->|Hx]; [apply H1; apply in_or_app; right; exact Hrx|auto]. }
    assert (Ht : ~ In t done /\ ~ In t todo).
    { rewrite Eo in Hnd. split.
      - intro H. apply (Hdis t H). apply Hr. left. reflexivity.
      - apply NoDup_remove_2 in Hnd. intro H. apply Hnd. apply in_or_app. right. exact H. }
    assert (Hready : is_ready es (r :: rem) t = true).
    { unfold is_ready. apply forallb_forall. intros [u v] Hin. cbn [fst snd].
      destruct (Nat.eqb v t) eqn:E; [|reflexivity]. apply Nat.eqb_eq in E. subst v.
      destruct (He u t Hin) as (_ & _ & Hlt).
      assert (Hit : index t o = length done).
      { rewrite Eo. rewrite (index_app_notin t done _ (proj1 Ht)). simpl. rewrite Nat.eqb_refl. lia. }
      assert (Hud : In u done). { apply (index_lt_in u done (t :: todo)). rewrite <- Eo. lia. }
      destruct (mem u (r :: rem)) eqn:M; [|reflexivity]. apply mem_In in M. exfalso. apply (Hdis u Hud M). }
    assert (F : first_ready es (r :: rem) (o ++ ns) = Some t).
    { rewrite Eo. rewrite <- app_assoc. rewrite (first_ready_skip es (r :: rem) done _ Hdis). simpl.
      assert (M : mem t (r :: rem) = true) by (apply mem_In; apply Hr; left; reflexivity).
      simpl in M. rewrite M. rewrite Hready. reflexivity. }
    rewrite F. change (t :: rev done) with (rev [t] ++ rev done). rewrite <- rev_app_distr.
    apply (IH (done ++ [t]) (remove_node t (r :: rem)) fuel).
    + rewrite Eo. rewrite <- app_assoc. reflexivity.
    + intros x. rewrite in_remove_node. rewrite Hr. simpl. split.
      * intros [[->|H] Hne]; [congruence|exact H].
      * intros H. split; [right; exact H|]. intro E. subst. apply (proj2 Ht H).
    + simpl in Hf. lia.
Qed.

Lemma l_topo_sort_complete ns es o : is_topo ns es o = true -> NoDup ns -> topo_sort ns es o = Sorted o.
Proof.
  intros H Hn. pose proof (is_topo_facts _ _ _ H) as Hf. unfold topo_sort.
  change ns with ns at 3.
  replace (@nil nat) with (rev (@nil nat)) by reflexivity.
  apply (aux_complete ns es o Hf o [] ns (length ns)); [reflexivity| |].
  - intros x. destruct Hf as (_ & Hs & _). symmetry. apply Hs.
  - destruct Hf as (Hnd & Hs & _).
    apply NoDup_incl_length; [exact Hnd|]. intros x Hx. apply Hs. exact Hx.
Qed.

(* the outputs of the algorithm are EXACTLY the valid topological orders *)
Lemma l_topo_sort_exact ns es o : edges_in ns es -> NoDup ns ->
  ((exists pref, topo_sort ns es pref = Sorted o) <-> is_topo ns es o = true).
Proof.
  intros He Hn. split.
  - intros [pref H]. eapply l_topo_sort_sound; eauto.
  - intros H. exists o. apply l_topo_sort_complete; assumption.
Qed.
