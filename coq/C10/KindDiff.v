(* C10/KindDiff.v — enumeration of the finite domain of the translated table: the node types on which
   the hand-written [kind_is_comp] and the generated method sets differ (empty on the unchanged tree;
   evaluated by the check when the obligation Properties.kind_is_comp_generated breaks). *)
From Coq Require Import String.
From Verif Require Import Common.Base C10.Model Generated.C10NodeKinds.

Definition has_m (m : string) (ms : list string) : bool := existsb (String.eqb m) ms.
Definition gen_is_comp (ms : list string) : bool := has_m "Start"%string ms && has_m "Shutdown"%string ms.

Definition kind_diff : list nat :=
  (if Bool.eqb (kind_is_comp KReceiver) (gen_is_comp ms_receiverNode) then [] else [0]) ++
  (if Bool.eqb (kind_is_comp KProcessor) (gen_is_comp ms_processorNode) then [] else [1]) ++
  (if Bool.eqb (kind_is_comp KExporter) (gen_is_comp ms_exporterNode) then [] else [2]) ++
  (if Bool.eqb (kind_is_comp KConnector) (gen_is_comp ms_connectorNode) then [] else [3]) ++
  (if Bool.eqb (kind_is_comp KCapabilities) (gen_is_comp ms_capabilitiesNode) then [] else [4]) ++
  (if Bool.eqb (kind_is_comp KFanOut) (gen_is_comp ms_fanOutNode) then [] else [5]).
