(* C10/Harness.v — comparison functions used by the generated correspondence files
   (work/C10/Cases_k.v): the model run on the recorded input vs. the event log and the returned
   errors recorded from the Go implementation.

   One case = (kind, (L, P))   L : list (list nat)   P : list (list (nat * nat))
     kinds 0 (graph: StartAll then ShutdownAll), 1 (extensions: Start then Shutdown),
           2 (service.Start / Shutdown driven as collector.go does), 3 (the real otelcol Collector.Run)
       L = [comps; auxs; exts; cfgw; pipew; ext_order; start_order; stop_order;
            fx_start; fx_stop; fc_start; fc_stop; f_cfg; f_ready; f_notready; [has_conf]]
       P = [edges; deps; observed events (tag, id); observed errors (tag, id)]
     kind 5 (internal/e2e: a service whose receivers are shared between signals through the real
           sharedcomponent): see check_shared_service below
     kind 4 (one sharedcomponent.Component, a script of Start / Shutdown calls)
       L = [ops (1 = Start, 0 = Shutdown); [inner start fails; inner shutdown fails]; observed returned errors (0/1)]
       P = [observed inner events (tag, 0)]
   tags: 0 XStart 1 XStop 2 CStart 3 CStop 4 NCfg 5 NReady 6 NNotReady 7 IStart 8 IStop
         (errors: the tag of the call that failed) *)
From Verif Require Import Common.Base C10.Model C10.Checker.

Definition nthL (i : nat) (L : list (list nat)) : list nat := nth i L [].
Definition nthP (i : nat) (P : list (list (nat * nat))) : list (nat * nat) := nth i P [].

Definition ev_wire (e : ev) : nat * nat :=
  match e with
  | XStart n => (0, n) | XStop n => (1, n) | CStart n => (2, n) | CStop n => (3, n)
  | NCfg n => (4, n) | NReady n => (5, n) | NNotReady n => (6, n) | IStart n => (7, n) | IStop n => (8, n)
  end.

Definition err_wire (e : err) : nat * nat :=
  match e with
  | ErrXStart n => (0, n) | ErrXStop n => (1, n) | ErrCStart n => (2, n) | ErrCStop n => (3, n)
  | ErrCfg n => (4, n) | ErrReady n => (5, n) | ErrNotReady n => (6, n) | ErrProvider n => (9, n)
  end.

Definition pair_eqb (a b : nat * nat) : bool := Nat.eqb (fst a) (fst b) && Nat.eqb (snd a) (snd b).

Definition graph_of (L : list (list nat)) (P : list (list (nat * nat))) : graph :=
  {| comps := nthL 0 L; auxs := nthL 1 L; edges := nthP 0 P |}.
Definition extset_of (L : list (list nat)) (P : list (list (nat * nat))) : extset :=
  {| exts := nthL 2 L; deps := nthP 1 P; cfgw := nthL 3 L; pipew := nthL 4 L;
     has_conf := match nthL 15 L with 1 :: _ => true | _ => false end |}.
Definition orders_of (L : list (list nat)) : orders :=
  {| ext_order := nthL 5 L; start_order := nthL 6 L; stop_order := nthL 7 L |}.
Definition faults_of (L : list (list nat)) : faults :=
  {| fx_start := fun n => mem n (nthL 8 L); fx_stop := fun n => mem n (nthL 9 L);
     fc_start := fun n => mem n (nthL 10 L); fc_stop := fun n => mem n (nthL 11 L);
     f_cfg := fun n => mem n (nthL 12 L); f_ready := fun n => mem n (nthL 13 L);
     f_notready := fun n => mem n (nthL 14 L) |}.

(* the model's answer for a life-cycle case: None when the recorded orders are not valid
   topological orders of the recorded topology (the gonum contract, validated per case) *)
Definition flag (i : nat) (l : list nat) : bool := Nat.eqb (nth i l 0) 1.

(* the contexts of the run: L[18] = [Start's context already done; Shutdown's context already done],
   L[19..22] = extensions / components that end the context in Start, in Shutdown,
   L[23], L[24] = context-sensitive extensions / components (return ctx.Err() when the context is done) *)
Definition cx_of (L : list (list nat)) : cx :=
  {| d0_start := flag 0 (nthL 18 L); d0_stop := flag 1 (nthL 18 L);
     xc_start := fun n => mem n (nthL 19 L); cc_start := fun n => mem n (nthL 20 L);
     xc_stop := fun n => mem n (nthL 21 L); cc_stop := fun n => mem n (nthL 22 L);
     x_sens := fun n => mem n (nthL 23 L); c_sens := fun n => mem n (nthL 24 L) |}.

(* kinds 0 and 1 are the life time of a service without extensions / without pipelines
   (Properties.graph_lifetime_is_run, ext_lifetime_is_run); the harnesses pass empty lists there *)
(* the tie of the sort ALGORITHM: with the order the implementation produced as preference the
   model algorithm reproduces exactly that order (so the real order is one of its outputs) *)
Definition reproduces (ns : list nat) (es : list (nat * nat)) (o : list nat) : bool :=
  match topo_sort ns es o with
  | Sorted o' => list_eqb Nat.eqb o' o
  | Cyclic _ => false
  end.

Definition orders_tied (g : graph) (x : extset) (o : orders) : bool :=
  wf_b g x &&      (* the hypothesis wf_topology of the theorems about computed orders (Properties.wf_b_sound) *)
  orders_ok g x o &&
  reproduces (exts x) (deps x) (ext_order o) &&
  reproduces (nodes g) (edges g) (start_order o) &&
  reproduces (nodes g) (edges g) (stop_order o).

(* kind 0 only: P[4] = (node, Go type of the node: 0 receiverNode 1 processorNode 2 exporterNode
   3 connectorNode 4 capabilitiesNode 5 fanOutNode); the nodes for which the type assertion
   node.(component.Component) succeeded at run time (L[0]) must be those the model's table says *)
Definition kind_of_code (c : nat) : node_kind :=
  match c with 0 => KReceiver | 1 => KProcessor | 2 => KExporter | 3 => KConnector | 4 => KCapabilities | _ => KFanOut end.

Definition kinds_agree (kind : nat) (L : list (list nat)) (P : list (list (nat * nat))) : bool :=
  match kind with
  | 0 => list_eqb Nat.eqb (nthL 0 L) (map fst (filter (fun p => kind_is_comp (kind_of_code (snd p))) (nthP 4 P))) &&
         list_eqb Nat.eqb (nthL 1 L) (map fst (filter (fun p => negb (kind_is_comp (kind_of_code (snd p)))) (nthP 4 P)))
  | _ => true
  end.

(* kinds 1, 2, 3: L[16] = the service::extensions list AS CONFIGURED (possibly with repetitions); the
   recorded extension set must be the one extensions.New derives from it *)
Definition cfg_agrees (kind : nat) (L : list (list nat)) : bool :=
  match kind with
  | 1 | 2 | 3 => same_set (nthL 2 L) (extensions_new (nthL 16 L))
  | _ => true
  end.

Definition model_raw (kind : nat) (L : list (list nat)) (P : list (list (nat * nat)))
  : option (list ev * list err) :=
  let g := graph_of L P in let x := extset_of L P in let o := orders_of L in let f := faults_of L in
  if orders_tied g x o && kinds_agree kind L P && cfg_agrees kind L then Some (collector_run_cx g x o f (cx_of L)) else None.

(* ---- kind 7: a configured extension set whose dependency declarations contain a cycle:
   L = [exts; the cycle named by the implementation's error (empty when no error was returned); [panicked]], P = [deps].
   The model algorithm must reject it too, and both named cycles must be real cycles of deps. *)
Definition check_cyclic (L : list (list nat)) (P : list (list (nat * nat))) : bool :=
  (* L[2] = [extensions.New panicked (self-dependency: simple.SetEdge "adding self edge");
             it returned "unable to find extension ..." (dependency on an extension that is not configured)] *)
  if missing_dependency (nthL 0 L) (nthP 0 P) then flag 1 (nthL 2 L) && negb (flag 0 (nthL 2 L))
  else
  negb (flag 1 (nthL 2 L)) &&
  match compute_order (nthL 0 L) (nthP 0 P) [] with
  | None => flag 0 (nthL 2 L)
  | Some (Cyclic c) => negb (flag 0 (nthL 2 L)) && is_cycle (nthP 0 P) c && is_cycle (nthP 0 P) (nthL 1 L)
  | Some (Sorted _) => false
  end.

Definition model_lifecycle (kind : nat) (L : list (list nat)) (P : list (list (nat * nat)))
  : option (list (nat * nat) * list (nat * nat)) :=
  option_map (fun r => (map ev_wire (fst r), map err_wire (snd r))) (model_raw kind L P).

(* ---- kind 5: a service whose receivers are shared between signals through the REAL
   sharedcomponent (internal/e2e).  L, P as for kind 2 plus
     L[16] = keys whose inner Start fails, L[17] = keys whose inner Shutdown fails,
     P[4]  = (graph node, key) for the nodes that are wrappers of a shared component;
   the observed log P[2] additionally holds the inner events (7, key) / (8, key).
   fc_start / fc_stop (L[10], L[11]) hold, for shared nodes, the INDUCED failures (the wrapper
   returned an error); the model recomputes them from the once-guards and compares. *)
Fixpoint callers_of (shared : list (nat * nat)) (k : nat) (l : list ev) : list (bool * nat) :=
  match l with
  | [] => []
  | CStart n :: r => match key_of shared n with
                     | Some k' => if Nat.eqb k' k then (true, n) :: callers_of shared k r else callers_of shared k r
                     | None => callers_of shared k r end
  | CStop n :: r => match key_of shared n with
                    | Some k' => if Nat.eqb k' k then (false, n) :: callers_of shared k r else callers_of shared k r
                    | None => callers_of shared k r end
  | _ :: r => callers_of shared k r
  end.

Definition check_key (L : list (list nat)) (shared obs : list (nat * nat)) (mlog : list ev) (k : nat) : bool :=
  let fs := mem k (nthL 16 L) in let fp := mem k (nthL 17 L) in
  let callers := callers_of shared k mlog in
  let '(inner, rets) := sc_run k fs fp sc0 (map fst callers) in
  (* the inner events of key k, as observed *)
  list_eqb pair_eqb (map ev_wire inner)
           (filter (fun e => Nat.leb 7 (fst e) && Nat.eqb (snd e) k) obs) &&
  (* the wrapper returned an error exactly when the once-guard model says so *)
  forallb (fun cr => let '((is_start, n), r) := cr in
                     Bool.eqb r (mem n (if is_start : bool then nthL 10 L else nthL 11 L)))
          (combine callers rets).

Definition check_shared_service (L : list (list nat)) (P : list (list (nat * nat))) : bool :=
  let shared := nthP 4 P in let obs := nthP 2 P in
  match model_raw 5 L P with
  | Some (mlog, merrs) =>
      list_eqb pair_eqb (map ev_wire mlog) (filter (fun e => Nat.ltb (fst e) 7) obs) &&
      list_eqb pair_eqb (map err_wire merrs) (nthP 3 P) &&
      forallb (fun p => check_key L shared obs mlog (snd p)) shared
  | None => false
  end.

(* ---- kind 6: the real Collector.Run over a SEQUENCE of configurations (reload events), one
   generation of component instances per configuration.  Generation j occupies L[25j .. 25j+24] and
   P[4j .. 4j+3] (same layout as kind 2; observed log / errors of that generation's instances; the
   errors Run returned are recorded with the last generation that was built).  Generations the
   model says are never built must have an empty observed log. *)
Fixpoint split_gens (fuel : nat) (L : list (list nat)) (P : list (list (nat * nat)))
  : list (list (list nat) * list (list (nat * nat))) :=
  match fuel with
  | 0 => []
  | S fuel' => match L with
               | [] => []
               | _ => (firstn 25 L, firstn 4 P) :: split_gens fuel' (skipn 25 L) (skipn 4 P)
               end
  end.

Definition gen_of (lp : list (list nat) * list (list (nat * nat))) : gen :=
  {| gn_graph := graph_of (fst lp) (snd lp); gn_ext := extset_of (fst lp) (snd lp);
     gn_ord := orders_of (fst lp); gn_faults := faults_of (fst lp);
     gn_close_fails := flag 0 (nthL 16 (fst lp)) |}.

Fixpoint check_gens (gs : list (list (list nat) * list (list (nat * nat)))) (ms : list (list ev * list err)) : bool :=
  match gs, ms with
  | [], [] => true
  | [], _ :: _ => false
  | lp :: gs', [] =>
      match nthP 2 (snd lp), nthP 3 (snd lp) with [], [] => check_gens gs' [] | _, _ => false end
  | lp :: gs', m :: ms' =>
      orders_tied (gn_graph (gen_of lp)) (gn_ext (gen_of lp)) (gn_ord (gen_of lp)) &&
      list_eqb pair_eqb (map ev_wire (fst m)) (nthP 2 (snd lp)) &&
      list_eqb pair_eqb (map err_wire (snd m)) (nthP 3 (snd lp)) &&
      check_gens gs' ms'
  end.

(* 0 Collector.Shutdown()  1 cancelled Run context  2 asynchronous error  3 config-watch error  4 termination signal *)
Definition trigger_of (c : nat) : trigger :=
  match c with 0 => TShutdownReq | 1 => TCtxDone | 2 => TAsyncError | 3 => TWatchError | _ => TSignalTerm end.

Definition check_reload (L : list (list nat)) (P : list (list (nat * nat))) : bool :=
  let gs := split_gens (length L) L P in
  (* L[17] of generation 0 = [the provider's Shutdown fails; how Run's loop is left]; L[16] of a generation = [its close function fails] *)
  check_gens gs (collector_run_reload (trigger_of (nth 1 (nthL 17 L) 0)) (flag 0 (nthL 17 L)) (map gen_of gs)).

Definition model_shared (L : list (list nat)) : list (nat * nat) * list nat :=
  let ops := map (fun b => Nat.eqb b 1) (nthL 0 L) in
  let fstart := Nat.eqb (nth 0 (nthL 1 L) 0) 1 in
  let fstop := Nat.eqb (nth 1 (nthL 1 L) 0) 1 in
  let '(evs, errs) := sc_run 0 fstart fstop sc0 ops in
  (map ev_wire evs, map (fun b : bool => if b then 1 else 0) errs).

Definition check_case (c : nat * (list (list nat) * list (list (nat * nat)))) : bool :=
  let '(kind, (L, P)) := c in
  match kind with
  | 4 => let '(evs, errs) := model_shared L in
         list_eqb pair_eqb evs (nthP 0 P) && list_eqb Nat.eqb errs (nthL 2 L)
  | 5 => check_shared_service L P
  | 6 => check_reload L P
  | 7 => check_cyclic L P
  | _ => match model_lifecycle kind L P with
         | Some (evs, errs) => list_eqb pair_eqb evs (nthP 2 P) && list_eqb pair_eqb errs (nthP 3 P)
         | None => false
         end
  end.

(* model output, for replay files *)
Definition model_out (c : nat * (list (list nat) * list (list (nat * nat))))
  : option (list (nat * nat) * list (nat * nat)) :=
  let '(kind, (L, P)) := c in
  match kind with
  | 4 => let '(evs, errs) := model_shared L in Some (evs, map (fun e => (9, e)) errs)
  | 6 => let gs := split_gens (length L) L P in
         (* replay aid: generation separators (99, j) between the per-generation logs *)
         let ms := collector_run_reload (trigger_of (nth 1 (nthL 17 L) 0)) (flag 0 (nthL 17 L)) (map gen_of gs) in
         Some (flat_map (fun m => (99, 0) :: map ev_wire (fst m)) ms, flat_map (fun m => (99, 0) :: map err_wire (snd m)) ms)
  | _ => model_lifecycle kind L P
  end.

(* ---- the clause checker (Checker.v, proved to decide the clauses: Properties.prop_ok_iff) on the
   OBSERVED behaviour of every case — an oracle inside Coq that does not use the model's step
   functions.  kind 0: P[5] = the configuration-derived component-to-component "sends data to" pairs. *)
Definition ev_of_wire (p : nat * nat) : option ev :=
  match fst p with
  | 0 => Some (XStart (snd p)) | 1 => Some (XStop (snd p)) | 2 => Some (CStart (snd p)) | 3 => Some (CStop (snd p))
  | 4 => Some (NCfg (snd p)) | 5 => Some (NReady (snd p)) | 6 => Some (NNotReady (snd p))
  | _ => None    (* inner events of shared components: not the subject of these clauses *)
  end.

Definition err_of_wire (p : nat * nat) : option err :=
  match fst p with
  | 0 => Some (ErrXStart (snd p)) | 1 => Some (ErrXStop (snd p)) | 2 => Some (ErrCStart (snd p)) | 3 => Some (ErrCStop (snd p))
  | 4 => Some (ErrCfg (snd p)) | 5 => Some (ErrReady (snd p)) | 6 => Some (ErrNotReady (snd p)) | 9 => Some (ErrProvider (snd p))
  | _ => None
  end.

Fixpoint keep_some {A B} (f : A -> option B) (l : list A) : list B :=
  match l with
  | [] => []
  | x :: r => match f x with Some y => y :: keep_some f r | None => keep_some f r end
  end.

Definition obs_of (kind : nat) (L : list (list nat)) (P : list (list (nat * nat))) : obs :=
  {| o_comps := nthL 0 L; o_exts := nthL 2 L;
     o_sends := match kind with 0 => nthP 5 P | _ => nthP 0 P end;
     o_deps := nthP 1 P;
     o_fcs := nthL 10 L; o_fxs := nthL 8 L; o_fcp := nthL 11 L; o_fxp := nthL 9 L;
     o_log := keep_some ev_of_wire (nthP 2 P); o_errs := keep_some err_of_wire (nthP 3 P) |}.

(* kind 6: every generation that was built (non-empty observed log) *)
Definition gens_obs (L : list (list nat)) (P : list (list (nat * nat))) : list obs :=
  map (fun lp => obs_of 2 (fst lp) (snd lp))
      (filter (fun lp => match nthP 2 (snd lp) with [] => false | _ => true end) (split_gens (length L) L P)).

Definition prop_case (c : nat * (list (list nat) * list (list (nat * nat)))) : bool :=
  let '(kind, (L, P)) := c in
  match kind with
  | 4 | 7 => true
  | 6 => forallb prop_ok (gens_obs L P)
  | _ => prop_ok (obs_of kind L P)
  end.

Definition prop_violated (c : nat * (list (list nat) * list (list (nat * nat)))) : list nat :=
  let '(kind, (L, P)) := c in
  match kind with
  | 4 | 7 => []
  | 6 => flat_map violated (gens_obs L P)
  | _ => violated (obs_of kind L P)
  end.
