(* C10/Proofs1.v — generic list facts, soundness of the topological-order checker, and the
   equational characterisation of the two loop shapes of the life cycle. *)
From Verif Require Import Common.Base C10.Model.

(* ---- order of occurrence in a list ------------------------------------------------------------ *)
(* [before a b l]: at EVERY occurrence of b in l, a has already occurred. *)
Definition before {A} (a b : A) (l : list A) : Prop := forall l1 l2, l = l1 ++ b :: l2 -> In a l1.
Definition precedes {A} (a b : A) (l : list A) : Prop := exists x y z, l = x ++ a :: y ++ b :: z.
Definition prefix {A} (p l : list A) : Prop := exists r, l = p ++ r.

Lemma split_unique {A} (b : A) : forall p l q p' q',
  NoDup l -> l = p ++ b :: q -> l = p' ++ b :: q' -> p = p'.
Proof.
  induction p as [|a p IH]; intros l q p' q' Hnd E1 E2; subst l.
  - destruct p' as [|a' p']; [reflexivity|]. simpl in E2. inversion E2; subst.
    inversion Hnd; subst. exfalso. apply H1. apply in_or_app. right. left. reflexivity.
  - destruct p' as [|a' p']; simpl in E2.
    + inversion E2; subst. inversion Hnd; subst. exfalso. apply H1. apply in_or_app. right. left. reflexivity.
    + inversion E2; subst. f_equal. inversion Hnd; subst. eapply IH; eauto.
Qed.

Lemma precedes_before {A} (a b : A) l : NoDup l -> precedes a b l -> before a b l.
Proof.
  intros Hnd (x & y & z & E) l1 l2 E2.
  assert (l1 = x ++ a :: y) as ->.
  { symmetry. eapply split_unique with (l := l) (q := z) (q' := l2); eauto.
    rewrite E. rewrite <- app_assoc. reflexivity. }
  apply in_or_app. right. left. reflexivity.
Qed.

Lemma prefix_before {A} (a b : A) l p : NoDup l -> precedes a b l -> prefix p l -> before a b p.
Proof.
  intros Hnd Hp [r Er] l1 l2 E. apply (precedes_before a b l Hnd Hp l1 (l2 ++ r)).
  rewrite Er, E. rewrite <- app_assoc. reflexivity.
Qed.

Lemma before_map {A B} (mk : A -> B) (a b : A) p :
  (forall x y, mk x = mk y -> x = y) -> before a b p -> before (mk a) (mk b) (map mk p).
Proof.
  intros Hinj Hb l1 l2 E. apply map_eq_app in E. destruct E as (p1 & p2 & -> & <- & E2).
  apply map_eq_cons in E2. destruct E2 as (b' & t & -> & Eb & _). apply Hinj in Eb. subst b'.
  apply in_map. eapply Hb. reflexivity.
Qed.

Lemma before_absent {A} (a b : A) l : ~ In b l -> before a b l.
Proof. intros Hn l1 l2 E. exfalso. apply Hn. rewrite E. apply in_or_app. right. left. reflexivity. Qed.

Lemma before_app_l {A} (a b : A) l1 l2 : before a b l1 -> ~ In b l2 -> before a b (l1 ++ l2).
Proof.
  intros Hb Hn p q E. apply app_eq_app in E. destruct E as [m [[E1 E2]|[E1 E2]]].
  - destruct m as [|b' m]; simpl in E2.
    + exfalso. apply Hn. rewrite <- E2. left. reflexivity.
    + inversion E2; subst. eapply Hb. reflexivity.
  - exfalso. apply Hn. rewrite E2. apply in_or_app. right. left. reflexivity.
Qed.

Lemma before_app_r {A} (a b : A) l1 l2 : ~ In b l1 -> before a b l2 -> before a b (l1 ++ l2).
Proof.
  intros Hn Hb p q E. apply app_eq_app in E. destruct E as [m [[E1 E2]|[E1 E2]]].
  - destruct m as [|b' m]; simpl in E2.
    + exfalso. specialize (Hb [] q (eq_sym E2)). exact Hb.
    + inversion E2; subst. exfalso. apply Hn. apply in_or_app. right. left. reflexivity.
  - subst p. apply in_or_app. right. eapply Hb. exact E2.
Qed.

Lemma before_app_cross {A} (a b : A) l1 l2 : In a l1 -> ~ In b l1 -> before a b (l1 ++ l2).
Proof.
  intros Ha Hn p q E. apply app_eq_app in E. destruct E as [m [[E1 E2]|[E1 E2]]].
  - destruct m as [|b' m]; simpl in E2.
    + rewrite app_nil_r in E1. subst p. exact Ha.
    + inversion E2; subst. exfalso. apply Hn. apply in_or_app. right. left. reflexivity.
  - subst p. apply in_or_app. left. exact Ha.
Qed.

Lemma precedes_rev {A} (a b : A) l : precedes a b l -> precedes b a (rev l).
Proof.
  intros (x & y & z & ->). exists (rev z), (rev y), (rev x).
  rewrite rev_app_distr. simpl. rewrite rev_app_distr. simpl.
  repeat rewrite <- app_assoc. reflexivity.
Qed.

Lemma precedes_filter {A} (sel : A -> bool) (a b : A) l :
  precedes a b l -> sel a = true -> sel b = true -> precedes a b (filter sel l).
Proof.
  intros (x & y & z & ->) Ha Hb. exists (filter sel x), (filter sel y), (filter sel z).
  rewrite filter_app. simpl. rewrite Ha. rewrite filter_app. simpl. rewrite Hb. reflexivity.
Qed.

Lemma prefix_NoDup {A} (p l : list A) : prefix p l -> NoDup l -> NoDup p.
Proof.
  intros [r ->]. revert r. induction p as [|a p IH]; intros r Hnd; [constructor|].
  simpl in Hnd. inversion Hnd; subst. constructor.
  - intro Hin. apply H1. apply in_or_app. left. exact Hin.
  - eapply IH. exact H2.
Qed.

Lemma prefix_In {A} (p l : list A) x : prefix p l -> In x p -> In x l.
Proof. intros [r ->] H. apply in_or_app. left. exact H. Qed.

Lemma filter_all (l : list nat) : filter all l = l.
Proof. induction l as [|a l IH]; simpl; [reflexivity|]. rewrite IH. reflexivity. Qed.

(* ---- the boolean checkers --------------------------------------------------------------------- *)
Lemma mem_In x l : mem x l = true <-> In x l.
Proof.
  unfold mem. rewrite existsb_exists. split.
  - intros (y & Hy & E). apply Nat.eqb_eq in E. subst. exact Hy.
  - intros H. exists x. split; [exact H|apply Nat.eqb_refl].
Qed.

Lemma nodupb_NoDup l : nodupb l = true -> NoDup l.
Proof.
  induction l as [|a l IH]; simpl; intros H; [constructor|].
  apply andb_true_iff in H. destruct H as [H1 H2]. constructor; [|auto].
  intro Hin. apply mem_In in Hin. rewrite Hin in H1. discriminate.
Qed.

Lemma same_set_In a b : same_set a b = true -> forall x, In x a <-> In x b.
Proof.
  unfold same_set. intros H x. apply andb_true_iff in H. destruct H as [H1 H2].
  rewrite forallb_forall in H1, H2. split; intros Hx.
  - apply mem_In. apply H1. exact Hx.
  - apply mem_In. apply H2. exact Hx.
Qed.

Lemma index_split u v : forall o, In u o -> In v o -> index u o < index v o -> precedes u v o.
Proof.
  induction o as [|y r IH]; intros Hu Hv Hlt; [destruct Hu|].
  simpl in Hlt. destruct (Nat.eqb u y) eqn:Eu.
  - apply Nat.eqb_eq in Eu. subst y. destruct (Nat.eqb v u) eqn:Ev; [lia|].
    apply Nat.eqb_neq in Ev. destruct Hv as [Hv|Hv]; [congruence|].
    apply in_split in Hv. destruct Hv as (b & c & ->). exists [], b, c. reflexivity.
  - destruct (Nat.eqb v y) eqn:Ev; [lia|].
    apply Nat.eqb_neq in Eu. apply Nat.eqb_neq in Ev.
    destruct Hu as [Hu|Hu]; [congruence|]. destruct Hv as [Hv|Hv]; [congruence|].
    destruct (IH Hu Hv ltac:(lia)) as (a & b & c & ->). exists (y :: a), b, c. reflexivity.
Qed.

(* data-flow paths: u sends data to v, possibly through other nodes *)
Inductive path (es : list (nat * nat)) : nat -> nat -> Prop :=
| path_edge u v : In (u, v) es -> path es u v
| path_step u w v : In (u, w) es -> path es w v -> path es u v.

Definition topo_facts (ns : list nat) (es : list (nat * nat)) (o : list nat) : Prop :=
  NoDup o /\ (forall x, In x o <-> In x ns) /\
  (forall u v, In (u, v) es -> In u o /\ In v o /\ index u o < index v o).

Lemma is_topo_facts ns es o : is_topo ns es o = true -> topo_facts ns es o.
Proof.
  unfold is_topo. intros H. apply andb_true_iff in H. destruct H as [H H3].
  apply andb_true_iff in H. destruct H as [H1 H2].
  split; [apply nodupb_NoDup; exact H1|]. split; [apply same_set_In; exact H2|].
  intros u v Hin. rewrite forallb_forall in H3. specialize (H3 _ Hin). simpl in H3.
  apply andb_true_iff in H3. destruct H3 as [H3 Hlt]. apply andb_true_iff in H3. destruct H3 as [Hu Hv].
  apply mem_In in Hu. apply mem_In in Hv. apply Nat.ltb_lt in Hlt. auto.
Qed.

Lemma topo_path ns es o u v : topo_facts ns es o -> path es u v ->
  In u o /\ In v o /\ index u o < index v o.
Proof.
  intros (_ & _ & He) Hp. induction Hp as [u v Hin|u w v Hin Hp IH].
  - apply He. exact Hin.
  - destruct (He _ _ Hin) as (Hu & _ & H1). destruct IH as (_ & Hv & H2). repeat split; auto. lia.
Qed.

Lemma topo_path_precedes ns es o u v : topo_facts ns es o -> path es u v -> precedes u v o.
Proof. intros Ht Hp. destruct (topo_path _ _ _ _ _ Ht Hp) as (Hu & Hv & Hlt). apply index_split; auto. Qed.

(* ---- the loops, equationally --------------------------------------------------------------------- *)
(* the elements visited by an aborting loop: up to and including the first failing one *)
Fixpoint take_until (f : nat -> bool) (l : list nat) : list nat :=
  match l with
  | [] => []
  | n :: r => if f n then [n] else n :: take_until f r
  end.

Lemma start_loop_eq mk sel fails l :
  start_loop mk sel fails l = (map mk (take_until fails (filter sel l)), find fails (filter sel l)).
Proof.
  induction l as [|a l IH]; simpl; [reflexivity|].
  destruct (sel a); simpl; [|exact IH]. destruct (fails a); [reflexivity|]. rewrite IH. reflexivity.
Qed.

Lemma stop_loop_eq mk sel fails l :
  stop_loop mk sel fails l = (map mk (filter sel l), filter fails (filter sel l)).
Proof.
  induction l as [|a l IH]; simpl; [reflexivity|]. rewrite IH.
  destruct (sel a); simpl; [|reflexivity]. destruct (fails a); reflexivity.
Qed.

Lemma take_until_prefix f l : prefix (take_until f l) l.
Proof.
  induction l as [|a l [r IH]]; simpl; [exists []; reflexivity|].
  destruct (f a); [exists l; reflexivity|]. exists r. simpl. rewrite <- IH. reflexivity.
Qed.

Lemma take_until_none f l : find f l = None -> take_until f l = l.
Proof.
  induction l as [|a l IH]; simpl; [reflexivity|]. destruct (f a); [discriminate|].
  intros H. rewrite (IH H). reflexivity.
Qed.

Lemma take_until_some f l n : find f l = Some n ->
  exists p, take_until f l = p ++ [n] /\ f n = true /\ forall m, In m p -> f m = false.
Proof.
  induction l as [|a l IH]; simpl; [discriminate|]. destruct (f a) eqn:Ea.
  - intros E. inversion E; subst. exists []. split; [reflexivity|]. split; [exact Ea|]. intros m [].
  - intros E. destruct (IH E) as (p & E1 & E2 & E3). exists (a :: p). split; [simpl; rewrite E1; reflexivity|].
    split; [exact E2|]. intros m [<-|Hm]; auto.
Qed.

Lemma take_until_nonempty f l : l <> [] -> take_until f l <> [].
Proof. destruct l as [|a l]; [congruence|]. intros _. simpl. destruct (f a); discriminate. Qed.
