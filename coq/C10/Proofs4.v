(* C10/Proofs4.v — the lemmas of Proofs2/3 restated over the boolean validity check of the orders
   (what the correspondence run evaluates on every case), in the form used by Properties.v. *)
From Verif Require Import Common.Base C10.Model C10.Proofs1 C10.Proofs2 C10.Proofs3.

(* the event log / the reported errors of one service life time *)
Definition log (g : graph) (x : extset) (o : orders) (f : faults) : list ev := fst (collector_run g x o f).
Definition reported (g : graph) (x : extset) (o : orders) (f : faults) : list err := snd (collector_run g x o f).

Lemma orders_ok_facts g x o : orders_ok g x o = true ->
  topo_facts (exts x) (deps x) (ext_order o) /\
  topo_facts (nodes g) (edges g) (start_order o) /\
  topo_facts (nodes g) (edges g) (stop_order o).
Proof.
  unfold orders_ok. intros H. apply andb_true_iff in H. destruct H as [H H3].
  apply andb_true_iff in H. destruct H as [H1 H2]. split; [apply is_topo_facts; assumption|]. split; apply is_topo_facts; assumption.
Qed.

Lemma l_is_topo_sound ns es o : is_topo ns es o = true ->
  NoDup o /\ (forall x, In x o <-> In x ns) /\
  (forall u v, In (u, v) es -> index u o < index v o) /\
  (forall u v, path es u v -> index u o < index v o /\ precedes u v o).
Proof.
  intros H. apply is_topo_facts in H. pose proof H as (H1 & H2 & H3). split; [exact H1|]. split; [exact H2|]. split.
  - intros u v Hin. apply H3. exact Hin.
  - intros u v Hp. split; [apply (topo_path _ _ _ _ _ H Hp)|apply (topo_path_precedes _ _ _ _ _ H Hp)].
Qed.

Lemma p_start_downstream_first g x o f : orders_ok g x o = true ->
  forall u v, path (edges g) u v -> In u (comps g) -> In v (comps g) ->
  before (CStart v) (CStart u) (log g x o f).
Proof. intros H u v. destruct (orders_ok_facts _ _ _ H) as (H1 & H2 & H3). apply l_start_downstream_first; assumption. Qed.

Lemma p_extensions_first g x o f : orders_ok g x o = true ->
  (forall e n, In e (exts x) -> before (XStart e) (CStart n) (log g x o f)) /\
  (forall d e, In (d, e) (deps x) -> before (XStart d) (XStart e) (log g x o f)).
Proof.
  intros H. destruct (orders_ok_facts _ _ _ H) as (H1 & H2 & H3). split.
  - intros e n. apply l_extensions_first; assumption.
  - intros d e. apply l_extension_after_dependencies; assumption.
Qed.

Lemma p_stop_upstream_first g x o f : orders_ok g x o = true ->
  forall u v, path (edges g) u v -> In u (comps g) -> In v (comps g) ->
  before (CStop u) (CStop v) (log g x o f).
Proof. intros H u v. destruct (orders_ok_facts _ _ _ H) as (H1 & H2 & H3). apply l_stop_upstream_first; assumption. Qed.

Lemma p_extensions_last g x o f : orders_ok g x o = true ->
  (forall e n, In n (comps g) -> before (CStop n) (XStop e) (log g x o f)) /\
  (forall d e, In (d, e) (deps x) -> before (XStop e) (XStop d) (log g x o f)).
Proof.
  intros H. destruct (orders_ok_facts _ _ _ H) as (H1 & H2 & H3). split.
  - intros e n. apply l_extensions_last; assumption.
  - intros d e. apply l_extension_stops_before_dependencies; assumption.
Qed.

Lemma p_exactly_once g x o f : orders_ok g x o = true -> forall n,
  count (CStart n) (log g x o f) <= 1 /\ count (XStart n) (log g x o f) <= 1 /\
  (In n (comps g) -> count (CStop n) (log g x o f) = 1) /\
  (In n (exts x) -> count (XStop n) (log g x o f) = 1) /\
  (In (CStart n) (log g x o f) \/ In (CStop n) (log g x o f) -> In n (comps g)) /\
  (In (XStart n) (log g x o f) \/ In (XStop n) (log g x o f) -> In n (exts x)).
Proof.
  intros H n. destruct (orders_ok_facts _ _ _ H) as (H1 & H2 & H3).
  split; [apply l_comp_start_at_most_once; assumption|].
  split; [apply l_ext_start_at_most_once; assumption|].
  split; [apply l_comp_stop_exactly_once; assumption|].
  split; [apply l_ext_stop_exactly_once; assumption|].
  apply l_only_known; assumption.
Qed.

Lemma p_all_started g x o f : orders_ok g x o = true ->
  (forall e, In e (exts x) -> fx_start f e = false) ->
  (forall n, In n (comps g) -> fc_start f n = false) ->
  (forall e, In e (exts x) -> f_cfg f e = false) ->
  (forall e, In e (exts x) -> count (XStart e) (log g x o f) = 1) /\
  (forall n, In n (comps g) -> count (CStart n) (log g x o f) = 1).
Proof.
  intros H Ha Hb Hc. destruct (orders_ok_facts _ _ _ H) as (H1 & H2 & H3).
  destruct (l_all_started g x o f H1 H2 Ha Hb Hc) as [A B]. split.
  - intros e He. specialize (A e He). pose proof (l_ext_start_at_most_once g x o f H1 e) as Hle.
    unfold log. assert (count (XStart e) (fst (collector_run g x o f)) > 0); [|lia].
    unfold count. apply count_occ_In. exact A.
  - intros n Hn. specialize (B n Hn). pose proof (l_comp_start_at_most_once g x o f H2 n) as Hle.
    unfold log. assert (count (CStart n) (fst (collector_run g x o f)) > 0); [|lia].
    unfold count. apply count_occ_In. exact B.
Qed.

(* a start failure aborts start-up with that error, and the service still shuts everything down *)
Lemma p_start_failure_aborts g x o f :
  log g x o f = fst (service_start g x o f) ++ fst (service_shutdown g x o f) /\
  reported g x o f = snd (service_start g x o f) ++ snd (service_shutdown g x o f) /\
  fst (service_shutdown g x o f) =
    map NNotReady (filter (pw x) (ext_order o)) ++ map CStop (stop_seq g o) ++ map XStop (rev (ext_order o)) /\
  forall n,
  (In (ErrXStart n) (snd (service_start g x o f)) ->
     fx_start f n = true /\ snd (service_start g x o f) = [ErrXStart n] /\
     exists p, fst (service_start g x o f) = p ++ [XStart n] /\ forall m, In (XStart m) p -> fx_start f m = false) /\
  (In (ErrCStart n) (snd (service_start g x o f)) ->
     fc_start f n = true /\ snd (service_start g x o f) = [ErrCStart n] /\
     exists p, fst (service_start g x o f) = p ++ [CStart n] /\ forall m, In (CStart m) p -> fc_start f m = false).
Proof.
  unfold log, reported. rewrite run_eq. simpl. split; [reflexivity|]. split; [reflexivity|].
  split; [rewrite shutdown_eq; reflexivity|].
  intros n. apply (l_start_failure_aborts g x o f). destruct (service_start g x o f); reflexivity.
Qed.

(* Start reports no error only if no Start call it made failed *)
Lemma p_start_ok g x o f : snd (service_start g x o f) = [] ->
  forall e, (In (XStart e) (fst (service_start g x o f)) -> fx_start f e = false) /\
            (In (CStart e) (fst (service_start g x o f)) -> fc_start f e = false).
Proof.
  intros H. apply (l_start_ok_iff g x o f (fst (service_start g x o f)) (snd (service_start g x o f))); [|exact H].
  destruct (service_start g x o f); reflexivity.
Qed.

Lemma p_stop_failure_continues g x o f :
  (forall f', fst (service_shutdown g x o f) = fst (service_shutdown g x o f')) /\
  forall n,
  (In (ErrCStop n) (snd (service_shutdown g x o f)) <-> In n (stop_seq g o) /\ fc_stop f n = true) /\
  (In (ErrXStop n) (snd (service_shutdown g x o f)) <-> In n (ext_order o) /\ fx_stop f n = true).
Proof. split; [intros f'; apply l_shutdown_events_independent|apply l_stop_failure_reported]. Qed.

(* shared components: the inner component behind the nodes mapped to key k *)
Lemma p_shared_once g x o f shared k fs fp : orders_ok g x o = true ->
  let inner := inner_events shared k fs fp (log g x o f) in
  count (IStart k) inner <= 1 /\ count (IStop k) inner <= 1 /\
  (forall n, In n (comps g) -> key_of shared n = Some k -> count (IStop k) inner = 1).
Proof.
  intros H inner. unfold inner, inner_events.
  destruct (l_sc_once k fs fp (calls_of shared k (log g x o f))) as (A & B & _ & D).
  split; [exact A|]. split; [exact B|]. intros n Hn Hk. apply D.
  apply (calls_of_stop shared k n); [|exact Hk].
  destruct (p_exactly_once g x o f H n) as (_ & _ & Hc & _). specialize (Hc Hn).
  destruct (in_dec ev_eq_dec (CStop n) (log g x o f)) as [Hin|Hnin]; [exact Hin|].
  apply count_other in Hnin. lia.
Qed.

(* the two halves run alone (harness kinds 0 and 1) are the life time of a service without
   extensions resp. without pipelines *)
Definition no_exts : extset := {| exts := []; deps := []; cfgw := []; pipew := []; has_conf := false |}.
Definition no_graph : graph := {| comps := []; auxs := []; edges := [] |}.

Lemma l_graph_lifetime_is_run g o f : ext_order o = [] ->
  graph_lifetime g o f = collector_run g no_exts o f.
Proof.
  intros E. unfold graph_lifetime, collector_run, service_start, service_shutdown,
    ext_start, ext_shutdown, notify_config, notify_ready, notify_notready. rewrite E. simpl.
  destruct (graph_start_all g f (start_order o)) as [l1 [n|]];
    destruct (graph_shutdown_all g f (stop_order o)) as [l2 e2]; simpl; rewrite !app_nil_r; reflexivity.
Qed.

Lemma l_ext_lifetime_is_run x o f : start_order o = [] -> stop_order o = [] -> has_conf x = false -> pipew x = [] ->
  ext_lifetime o f = collector_run no_graph x o f.
Proof.
  intros E1 E2 E3 E4. unfold ext_lifetime, collector_run, service_start, service_shutdown,
    graph_start_all, graph_shutdown_all, notify_ready, notify_notready. rewrite E1, E2, E3, E4. simpl.
  rewrite !start_loop_eq, !stop_loop_eq. simpl.
  assert (Hf : forall l, filter (fun _ : nat => false) l = []) by (induction l; auto).
  rewrite !Hf. simpl.
  destruct (ext_start f (ext_order o)) as [l1 [e|]]; destruct (ext_shutdown f (ext_order o)) as [l2 e2];
    simpl; rewrite ?app_nil_r; reflexivity.
Qed.
