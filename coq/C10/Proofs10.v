(* C10/Proofs10.v — round 5: the gaps of the clause audit (extensions stop in the exact reverse of their
   start order; a shared component is started exactly once), soundness of the well-formedness check, and
   the model satisfies the decidable clause checker (so the checker is consistent with the theorems). *)
From Verif Require Import Common.Base C10.Model C10.Checker C10.Proofs1 C10.Proofs2 C10.Proofs3 C10.Proofs4 C10.Proofs7 C10.Proofs9.

(* ---- extensions are shut down in the exact reverse of the order they were started in ---------- *)
Definition xstarts (l : list ev) : list nat := flat_map (fun e => match e with XStart n => [n] | _ => [] end) l.
Definition xstops (l : list ev) : list nat := flat_map (fun e => match e with XStop n => [n] | _ => [] end) l.

Lemma xstarts_app a b : xstarts (a ++ b) = xstarts a ++ xstarts b.
Proof. apply flat_map_app. Qed.
Lemma xstops_app a b : xstops (a ++ b) = xstops a ++ xstops b.
Proof. apply flat_map_app. Qed.

Lemma xstarts_same l : xstarts (map XStart l) = l.
Proof. induction l; simpl; congruence. Qed.
Lemma xstops_same l : xstops (map XStop l) = l.
Proof. induction l; simpl; congruence. Qed.

Lemma xstarts_other (mk : nat -> ev) l : (forall n m, mk n <> XStart m) -> xstarts (map mk l) = [].
Proof.
  intros H. induction l as [|a l IH]; [reflexivity|].
  change (xstarts (map mk (a :: l))) with ((match mk a with XStart n => [n] | _ => [] end) ++ xstarts (map mk l)).
  rewrite IH. destruct (mk a) eqn:E; try reflexivity. exfalso. eapply H; eauto.
Qed.
Lemma xstops_other (mk : nat -> ev) l : (forall n m, mk n <> XStop m) -> xstops (map mk l) = [].
Proof.
  intros H. induction l as [|a l IH]; [reflexivity|].
  change (xstops (map mk (a :: l))) with ((match mk a with XStop n => [n] | _ => [] end) ++ xstops (map mk l)).
  rewrite IH. destruct (mk a) eqn:E; try reflexivity. exfalso. eapply H; eauto.
Qed.

Lemma l_ext_reverse g x o f :
  let L := fst (collector_run g x o f) in
  xstops L = rev (ext_order o) /\ prefix (xstarts L) (ext_order o) /\
  ((forall e, In e (ext_order o) -> fx_start f e = false) -> xstops L = rev (xstarts L)).
Proof.
  intros L. unfold L. rewrite run_eq. simpl. rewrite shutdown_eq. simpl.
  destruct (service_start g x o f) as [ls es] eqn:E. simpl.
  pose proof (start_cases _ _ _ _ _ _ E) as C. apply start_shape in E.
  destruct E as (xs & cf & cs & rs & -> & Hxs & _ & _).
  assert (S1 : xstops (map XStart xs ++ map NCfg cf ++ map CStart cs ++ map NReady rs) = []).
  { rewrite !xstops_app. rewrite !xstops_other; try reflexivity; intros n m; discriminate. }
  assert (S2 : xstarts (map XStart xs ++ map NCfg cf ++ map CStart cs ++ map NReady rs) = xs).
  { rewrite !xstarts_app. rewrite xstarts_same. rewrite !xstarts_other; try (intros n m; discriminate). rewrite !app_nil_r. reflexivity. }
  assert (S3 : xstops (map NNotReady (filter (pw x) (ext_order o)) ++ map CStop (stop_seq g o) ++ map XStop (rev (ext_order o))) = rev (ext_order o)).
  { rewrite !xstops_app. rewrite xstops_same. rewrite !xstops_other; try (intros n m; discriminate). reflexivity. }
  assert (S4 : xstarts (map NNotReady (filter (pw x) (ext_order o)) ++ map CStop (stop_seq g o) ++ map XStop (rev (ext_order o))) = []).
  { rewrite !xstarts_app. rewrite !xstarts_other; try reflexivity; intros n m; discriminate. }
  rewrite xstops_app, xstarts_app, S1, S2, S3, S4. simpl. rewrite app_nil_r.
  split; [reflexivity|]. split; [exact Hxs|].
  intros Hnf. f_equal.
  (* without an extension start failure the whole order was started *)
  destruct C as [(e & p & E1 & E2 & _ & Els & _)|[(Ex & cf' & _ & Els & _)|[(Ex & cfl & n & p & _ & _ & _ & Els & _)|(Ex & _ & cfl & rs' & Els & _)]]].
  - exfalso. rewrite Hnf in E2; [discriminate|].
    eapply prefix_In; [apply (take_until_prefix (fx_start f))|]. rewrite E1. apply in_or_app. right. left. reflexivity.
  - apply (f_equal xstarts) in Els. rewrite S2 in Els. rewrite Els.
    rewrite !xstarts_app, xstarts_same, xstarts_other; [rewrite app_nil_r; reflexivity|intros n m; discriminate].
  - apply (f_equal xstarts) in Els. rewrite S2 in Els. rewrite Els.
    rewrite !xstarts_app, xstarts_same, !xstarts_other; try (intros a b; discriminate). rewrite !app_nil_r. reflexivity.
  - apply (f_equal xstarts) in Els. rewrite S2 in Els. rewrite Els.
    rewrite !xstarts_app, xstarts_same, !xstarts_other; try (intros a b; discriminate). rewrite !app_nil_r. reflexivity.
Qed.

(* ---- a shared component is STARTED exactly once as soon as one of its nodes starts --------------- *)
Lemma l_shared_started_once g x o f shared k fs fp n :
  In (CStart n) (log g x o f) -> key_of shared n = Some k ->
  count (IStart k) (inner_events shared k fs fp (log g x o f)) = 1.
Proof.
  intros Hin Hk. unfold inner_events.
  destruct (l_sc_once k fs fp (calls_of shared k (log g x o f))) as (_ & _ & C & _).
  apply C. apply (calls_of_start shared k n); assumption.
Qed.

(* ---- the well-formedness check evaluated on every case is sound --------------------------------- *)
Lemma edges_in_b_sound ns es : edges_in_b ns es = true -> edges_in ns es.
Proof.
  unfold edges_in_b, edges_in. rewrite forallb_forall. intros H u v Hin. specialize (H _ Hin). simpl in H.
  apply andb_true_iff in H. destruct H as [H1 H2]. split; apply mem_In; assumption.
Qed.

Lemma l_wf_b_sound g x : wf_b g x = true -> wf_topology g x.
Proof.
  unfold wf_b, wf_topology. intros H. apply andb_true_iff in H. destruct H as [H H4].
  apply andb_true_iff in H. destruct H as [H H3]. apply andb_true_iff in H. destruct H as [H1 H2].
  split; [apply nodupb_NoDup; exact H1|]. split; [apply edges_in_b_sound; exact H2|].
  split; [apply nodupb_NoDup; exact H3|apply edges_in_b_sound; exact H4].
Qed.

Lemma countb_count e l : countb e l = count e l.
Proof.
  unfold countb, count. induction l as [|a l IH]; simpl; [reflexivity|].
  destruct (ev_eq_dec a e) as [->|Hne].
  - rewrite ev_eqb_refl. simpl. rewrite IH. reflexivity.
  - destruct (ev_eqb e a) eqn:E; [apply ev_eqb_spec in E; congruence|exact IH].
Qed.

Lemma split_unique_notin {A} (e : A) : forall a a' b b', ~ In e a' -> ~ In e b' ->
  a ++ e :: b = a' ++ e :: b' -> a = a' /\ b = b'.
Proof.
  induction a as [|x a IH]; intros a' b b' Ha Hb E.
  - destruct a' as [|y a']; simpl in E; inversion E; subst; [auto|].
    exfalso. apply Ha. left. reflexivity.
  - destruct a' as [|y a']; simpl in E; inversion E; subst.
    + exfalso. apply Hb. apply in_or_app. right. left. reflexivity.
    + destruct (IH a' b b') as [-> ->]; auto. intro H. apply Ha. right. exact H.
Qed.

Definition model_obs (g : graph) (x : extset) (o : orders) (f : faults) (R : list (nat * nat)) (fcs fxs fcp fxp : list nat) : obs :=
  {| o_comps := comps g; o_exts := exts x; o_sends := R; o_deps := deps x;
     o_fcs := fcs; o_fxs := fxs; o_fcp := fcp; o_fxp := fxp;
     o_log := log g x o f; o_errs := reported g x o f |}.

Lemma no_start_in_shutdown g x o f e : In e (fst (service_shutdown g x o f)) -> is_start e = false.
Proof.
  rewrite shutdown_eq. simpl. intros H. repeat (apply in_app_or in H; destruct H as [H|H]);
    apply in_map_iff in H; destruct H as (y & <- & _); reflexivity.
Qed.

Lemma l_prop_ok_model g x o f R fcs fxs fcp fxp : orders_ok g x o = true ->
  (forall u v, In (u, v) R -> path (edges g) u v /\ In u (comps g) /\ In v (comps g)) ->
  (forall n, In n fcs -> fc_start f n = true) -> (forall n, In n fxs -> fx_start f n = true) ->
  (forall n, In n fcp -> fc_stop f n = true) -> (forall n, In n fxp -> fx_stop f n = true) ->
  prop_ok (model_obs g x o f R fcs fxs fcp fxp) = true.
Proof.
  intros Hok HR Hfcs Hfxs Hfcp Hfxp. apply l_prop_ok_iff. unfold Clauses, model_obs; simpl.
  pose proof (p_exactly_once g x o f Hok) as EO.
  destruct (p_extensions_first g x o f Hok) as [EF1 EF2].
  destruct (p_extensions_last g x o f Hok) as [EL1 EL2].
  split; [|split; [|split; [|split; [|split; [|split; [|split]]]]]].
  - unfold C_count; simpl. split; intros n Hn; rewrite !countb_count; destruct (EO n) as (A & B & C & D & _); auto.
  - unfold C_start_order; simpl. intros u v Hin. destruct (HR u v Hin) as (P & U & V).
    apply (p_start_downstream_first g x o f Hok u v P U V).
  - unfold C_stop_order; simpl. intros u v Hin. destruct (HR u v Hin) as (P & U & V).
    apply (p_stop_upstream_first g x o f Hok u v P U V).
  - unfold C_ext_first; simpl. intros e n He _. apply EF1. exact He.
  - unfold C_ext_last; simpl. intros e n _ Hn. apply EL1. exact Hn.
  - unfold C_ext_deps; simpl. intros d e Hin. split; [apply EF2|apply EL2]; exact Hin.
  - unfold C_abort; simpl. unfold log, reported. rewrite run_eq. simpl.
    destruct (service_start g x o f) as [ls es] eqn:E. simpl.
    pose proof (start_cases _ _ _ _ _ _ E) as C.
    intros l1 y l2 EL. split; intros n -> Hin.
    + specialize (Hfcs n Hin).
      assert (Hld : ~ In (CStart n) (fst (service_shutdown g x o f))).
      { intro H. apply no_start_in_shutdown in H. discriminate. }
      destruct C as [(e & p & _ & _ & _ & -> & _)|[(Ex & cf & _ & -> & _)|[(Ex & cfl & k & p & _ & Hk & Hp & -> & ->)|(Ex & Ec & cfl & rs & -> & _)]]].
      * exfalso. assert (In (CStart n) (map XStart (p ++ [e]) ++ fst (service_shutdown g x o f))) by (rewrite EL; apply in_or_app; right; left; reflexivity).
        apply in_app_or in H. destruct H as [H|H]; [apply in_map_iff in H; destruct H as (? & ? & _); discriminate|contradiction].
      * exfalso. assert (In (CStart n) ((map XStart (ext_order o) ++ map NCfg (filter (cw x) (ext_order o))) ++ fst (service_shutdown g x o f))) by (rewrite EL; apply in_or_app; right; left; reflexivity).
        apply in_app_or in H. destruct H as [H|H]; [|contradiction].
        apply in_app_or in H. destruct H as [H|H]; apply in_map_iff in H; destruct H as (? & ? & _); discriminate.
      * (* the aborting component start: n = k, the last event of Start *)
        assert (Hn : n = k).
        { assert (In (CStart n) ((map XStart (ext_order o) ++ map NCfg cfl ++ map CStart (p ++ [k])) ++ fst (service_shutdown g x o f))) by (rewrite EL; apply in_or_app; right; left; reflexivity).
          apply in_app_or in H. destruct H as [H|H]; [|contradiction].
          apply in_app_or in H. destruct H as [H|H]; [apply in_map_iff in H; destruct H as (? & ? & _); discriminate|].
          apply in_app_or in H. destruct H as [H|H]; [apply in_map_iff in H; destruct H as (? & ? & _); discriminate|].
          apply in_map_iff in H. destruct H as (m & Em & Hm). inversion Em; subst m.
          apply in_app_or in Hm. destruct Hm as [Hm|[Hm|[]]]; [rewrite (Hp n Hm) in Hfcs; discriminate|congruence]. }
        subst k.
        assert (Esplit : (map XStart (ext_order o) ++ map NCfg cfl ++ map CStart (p ++ [n])) ++ fst (service_shutdown g x o f) =
                         (map XStart (ext_order o) ++ map NCfg cfl ++ map CStart p) ++ CStart n :: fst (service_shutdown g x o f)).
        { rewrite map_app. simpl. rewrite <- !app_assoc. reflexivity. }
        rewrite Esplit in EL. symmetry in EL.
        apply split_unique_notin in EL; [| |exact Hld].
        -- destruct EL as [_ ->]. split; [intros e He; apply (no_start_in_shutdown g x o f e He)|eexists; reflexivity].
        -- intro H. apply in_app_or in H. destruct H as [H|H]; [apply in_map_iff in H; destruct H as (? & ? & _); discriminate|].
           apply in_app_or in H. destruct H as [H|H]; [apply in_map_iff in H; destruct H as (? & ? & _); discriminate|].
           apply in_map_iff in H. destruct H as (m & Em & Hm). inversion Em; subst m. rewrite (Hp n Hm) in Hfcs. discriminate.
      * exfalso. assert (In (CStart n) ((map XStart (ext_order o) ++ map NCfg cfl ++ map CStart (start_seq g o) ++ map NReady rs) ++ fst (service_shutdown g x o f))) by (rewrite EL; apply in_or_app; right; left; reflexivity).
        apply in_app_or in H. destruct H as [H|H]; [|contradiction].
        apply in_app_or in H. destruct H as [H|H]; [apply in_map_iff in H; destruct H as (? & ? & _); discriminate|].
        apply in_app_or in H. destruct H as [H|H]; [apply in_map_iff in H; destruct H as (? & ? & _); discriminate|].
        apply in_app_or in H. destruct H as [H|H]; [|apply in_map_iff in H; destruct H as (? & ? & _); discriminate].
        apply in_map_iff in H. destruct H as (m & Em & Hm). inversion Em; subst m.
        rewrite (find_none _ _ Ec n Hm) in Hfcs. discriminate.
    + specialize (Hfxs n Hin).
      assert (Hld : ~ In (XStart n) (fst (service_shutdown g x o f))).
      { intro H. apply no_start_in_shutdown in H. discriminate. }
      destruct C as [(e & p & _ & He & Hp & -> & ->)|[(Ex & cf & _ & -> & _)|[(Ex & cfl & k & p & _ & _ & _ & -> & _)|(Ex & Ec & cfl & rs & -> & _)]]].
      * assert (Hn : n = e).
        { assert (In (XStart n) (map XStart (p ++ [e]) ++ fst (service_shutdown g x o f))) by (rewrite EL; apply in_or_app; right; left; reflexivity).
          apply in_app_or in H. destruct H as [H|H]; [|contradiction].
          apply in_map_iff in H. destruct H as (m & Em & Hm). inversion Em; subst m.
          apply in_app_or in Hm. destruct Hm as [Hm|[Hm|[]]]; [rewrite (Hp n Hm) in Hfxs; discriminate|congruence]. }
        subst e.
        assert (Esplit : map XStart (p ++ [n]) ++ fst (service_shutdown g x o f) = map XStart p ++ XStart n :: fst (service_shutdown g x o f)).
        { rewrite map_app. simpl. rewrite <- app_assoc. reflexivity. }
        rewrite Esplit in EL. symmetry in EL. apply split_unique_notin in EL; [| |exact Hld].
        -- destruct EL as [_ ->]. split; [intros e He'; apply (no_start_in_shutdown g x o f e He')|eexists; reflexivity].
        -- intro H. apply in_map_iff in H. destruct H as (m & Em & Hm). inversion Em; subst m. rewrite (Hp n Hm) in Hfxs. discriminate.
      * exfalso. assert (H : In (XStart n) ((map XStart (ext_order o) ++ map NCfg (filter (cw x) (ext_order o))) ++ fst (service_shutdown g x o f))) by (rewrite EL; apply in_or_app; right; left; reflexivity).
        apply in_app_or in H. destruct H as [H|H]; [|contradiction].
        apply in_app_or in H. destruct H as [H|H]; [|apply in_map_iff in H; destruct H as (? & ? & _); discriminate].
        apply in_map_iff in H. destruct H as (m & Em & Hm). inversion Em; subst m. rewrite (find_none _ _ Ex n Hm) in Hfxs. discriminate.
      * exfalso. assert (H : In (XStart n) ((map XStart (ext_order o) ++ map NCfg cfl ++ map CStart (p ++ [k])) ++ fst (service_shutdown g x o f))) by (rewrite EL; apply in_or_app; right; left; reflexivity).
        apply in_app_or in H. destruct H as [H|H]; [|contradiction].
        apply in_app_or in H. destruct H as [H|H].
        -- apply in_map_iff in H. destruct H as (m & Em & Hm). inversion Em; subst m. rewrite (find_none _ _ Ex n Hm) in Hfxs. discriminate.
        -- apply in_app_or in H. destruct H as [H|H]; apply in_map_iff in H; destruct H as (? & ? & _); discriminate.
      * exfalso. assert (H : In (XStart n) ((map XStart (ext_order o) ++ map NCfg cfl ++ map CStart (start_seq g o) ++ map NReady rs) ++ fst (service_shutdown g x o f))) by (rewrite EL; apply in_or_app; right; left; reflexivity).
        apply in_app_or in H. destruct H as [H|H]; [|contradiction].
        apply in_app_or in H. destruct H as [H|H].
        -- apply in_map_iff in H. destruct H as (m & Em & Hm). inversion Em; subst m. rewrite (find_none _ _ Ex n Hm) in Hfxs. discriminate.
        -- apply in_app_or in H. destruct H as [H|H]; [apply in_map_iff in H; destruct H as (? & ? & _); discriminate|].
           apply in_app_or in H. destruct H as [H|H]; apply in_map_iff in H; destruct H as (? & ? & _); discriminate.
  - unfold C_stop_reported; simpl. unfold reported. rewrite run_eq. simpl.
    destruct (orders_ok_facts _ _ _ Hok) as (H1 & H2 & H3).
    split; intros n Hn Hl; apply in_or_app; right.
    + apply (l_stop_failure_reported g x o f n). split; [|apply Hfcp; exact Hn].
      apply (in_stop_seq g o H3). destruct (EO n) as (_ & _ & _ & _ & K & _). apply K. right. exact Hl.
    + apply (l_stop_failure_reported g x o f n). split; [|apply Hfxp; exact Hn].
      apply (in_eo x o H1). destruct (EO n) as (_ & _ & _ & _ & _ & K). apply K. right. exact Hl.
Qed.

(* ---- clause 4' of the audit: exactly which order ShutdownAll uses for the pipeline components ----- *)
Definition cstarts (l : list ev) : list nat := flat_map (fun e => match e with CStart n => [n] | _ => [] end) l.
Definition cstops (l : list ev) : list nat := flat_map (fun e => match e with CStop n => [n] | _ => [] end) l.

Lemma cstarts_app a b : cstarts (a ++ b) = cstarts a ++ cstarts b.
Proof. apply flat_map_app. Qed.
Lemma cstops_app a b : cstops (a ++ b) = cstops a ++ cstops b.
Proof. apply flat_map_app. Qed.
Lemma cstarts_same l : cstarts (map CStart l) = l.
Proof. induction l; simpl; congruence. Qed.
Lemma cstops_same l : cstops (map CStop l) = l.
Proof. induction l; simpl; congruence. Qed.
Lemma cstarts_other (mk : nat -> ev) l : (forall n m, mk n <> CStart m) -> cstarts (map mk l) = [].
Proof.
  intros H. induction l as [|a l IH]; [reflexivity|].
  change (cstarts (map mk (a :: l))) with ((match mk a with CStart n => [n] | _ => [] end) ++ cstarts (map mk l)).
  rewrite IH. destruct (mk a) eqn:E; try reflexivity. exfalso. eapply H; eauto.
Qed.
Lemma cstops_other (mk : nat -> ev) l : (forall n m, mk n <> CStop m) -> cstops (map mk l) = [].
Proof.
  intros H. induction l as [|a l IH]; [reflexivity|].
  change (cstops (map mk (a :: l))) with ((match mk a with CStop n => [n] | _ => [] end) ++ cstops (map mk l)).
  rewrite IH. destruct (mk a) eqn:E; try reflexivity. exfalso. eapply H; eauto.
Qed.

(* the Shutdown calls of the pipeline components are EXACTLY the component subsequence of the
   topological order that the sort inside ShutdownAll returned (a second, independent sort); the
   Start calls are a prefix of the reversed component subsequence of the order StartAll's sort
   returned.  When both sorts return the same order and no start fails, the shutdown sequence is
   the exact reverse of the start sequence. *)
Lemma l_component_orders g x o f :
  let L := fst (collector_run g x o f) in
  cstops L = filter (is_comp g) (stop_order o) /\
  prefix (cstarts L) (filter (is_comp g) (rev (start_order o))) /\
  (stop_order o = start_order o -> cstarts L = filter (is_comp g) (rev (start_order o)) -> cstops L = rev (cstarts L)).
Proof.
  intros L. unfold L. rewrite run_eq. simpl. rewrite shutdown_eq. simpl.
  destruct (service_start g x o f) as [ls es] eqn:E. simpl. apply start_shape in E.
  destruct E as (xs & cf & cs & rs & -> & _ & Hcs & _).
  assert (S1 : cstops (map XStart xs ++ map NCfg cf ++ map CStart cs ++ map NReady rs) = []).
  { rewrite !cstops_app. rewrite !cstops_other; try reflexivity; intros n m; discriminate. }
  assert (S2 : cstarts (map XStart xs ++ map NCfg cf ++ map CStart cs ++ map NReady rs) = cs).
  { rewrite !cstarts_app. rewrite cstarts_same. rewrite !cstarts_other; try (intros n m; discriminate). rewrite app_nil_r. reflexivity. }
  assert (S3 : cstops (map NNotReady (filter (pw x) (ext_order o)) ++ map CStop (stop_seq g o) ++ map XStop (rev (ext_order o))) = stop_seq g o).
  { rewrite !cstops_app. rewrite cstops_same. rewrite !cstops_other; try (intros n m; discriminate). rewrite app_nil_r. reflexivity. }
  assert (S4 : cstarts (map NNotReady (filter (pw x) (ext_order o)) ++ map CStop (stop_seq g o) ++ map XStop (rev (ext_order o))) = []).
  { rewrite !cstarts_app. rewrite !cstarts_other; try reflexivity; intros n m; discriminate. }
  rewrite cstops_app, cstarts_app, S1, S2, S3, S4. simpl. rewrite app_nil_r.
  split; [reflexivity|]. split; [exact Hcs|].
  intros Eo Ec. rewrite Ec. unfold stop_seq. rewrite Eo.
  (* filter commutes with rev *)
  assert (FR : forall l, filter (is_comp g) (rev l) = rev (filter (is_comp g) l)).
  { induction l as [|a l IH]; [reflexivity|]. simpl. rewrite filter_app, IH. simpl.
    destruct (is_comp g a); simpl; [reflexivity|rewrite app_nil_r; reflexivity]. }
  rewrite FR, rev_involutive. reflexivity.
Qed.

(* two valid results of the two sorts for which the shutdown sequence is not the reverse of the start
   sequence: start order 0 10 1 11 2 3 12 13 4 (starts 4 3 2 1 0), shutdown order 0 10 1 11 3 12 13 4 2 *)
Lemma l_component_stop_not_reverse : exists g x o f,
  orders_ok g x o = true /\ cstops (fst (collector_run g x o f)) <> rev (cstarts (fst (collector_run g x o f))).
Proof.
  exists {| comps := [0; 1; 2; 3; 4]; auxs := [10; 11; 12; 13];
            edges := [(0, 10); (10, 1); (1, 11); (11, 2); (11, 3); (3, 12); (12, 13); (13, 4)] |},
         {| exts := []; deps := []; cfgw := []; pipew := []; has_conf := false |},
         {| ext_order := []; start_order := [0; 10; 1; 11; 2; 3; 12; 13; 4]; stop_order := [0; 10; 1; 11; 3; 12; 13; 4; 2] |},
         {| fx_start := fun _ => false; fx_stop := fun _ => false; fc_start := fun _ => false; fc_stop := fun _ => false;
            f_cfg := fun _ => false; f_ready := fun _ => false; f_notready := fun _ => false |}.
  split; [vm_compute; reflexivity|]. vm_compute. discriminate.
Qed.

(* ---- lists accepted with repetitions: the extension set derived from the configured list -------- *)
Lemma dedup_In x : forall l, In x (dedup l) <-> In x l.
Proof.
  induction l as [|a l IH]; simpl; [tauto|]. destruct (mem a l) eqn:M.
  - rewrite IH. apply mem_In in M. split; [auto|]. intros [<-|H]; assumption.
  - simpl. rewrite IH. tauto.
Qed.

Lemma dedup_NoDup : forall l, NoDup (dedup l).
Proof.
  induction l as [|a l IH]; simpl; [constructor|]. destruct (mem a l) eqn:M; [exact IH|].
  constructor; [|exact IH]. rewrite dedup_In. intro H. apply mem_In in H. congruence.
Qed.

(* whatever repetitions service::extensions contains, every configured extension is started at most
   once and shut down exactly once (orders computed by the sort algorithm) *)
Lemma l_configured_twice_started_once g x configured pe ps pp o f :
  exts x = extensions_new configured -> edges_in (exts x) (deps x) -> NoDup (nodes g) -> edges_in (nodes g) (edges g) ->
  orders_by g x pe ps pp = Some o ->
  forall e, In e configured -> count (XStart e) (log g x o f) <= 1 /\ count (XStop e) (log g x o f) = 1.
Proof.
  intros Ex He Hn Hg Ho e Hin.
  assert (W : wf_topology g x).
  { split; [rewrite Ex; apply dedup_NoDup|]. split; [exact He|]. split; assumption. }
  pose proof (l_orders_by_ok g x pe ps pp o W Ho) as Hok.
  destruct (p_exactly_once g x o f Hok e) as (_ & A & _ & B & _). split; [exact A|].
  apply B. rewrite Ex. apply dedup_In. exact Hin.
Qed.
