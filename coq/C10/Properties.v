(* C10/Properties.v — the property theorems, nothing else.  Each is closed by [exact lemma] and
   followed by Print Assumptions (captured into the evidence by the check driver).

   Quantification: EVERY topology (component graph g with data-flow edges, capabilities/fan-out
   nodes; extension set x with dependency pairs, config / pipeline watchers), EVERY triple of
   orders o that gonum may return (any valid topological orders: [orders_ok g x o = true], the
   check evaluated on every correspondence case), EVERY assignment f of failing Start / Shutdown /
   notification calls.  [log g x o f] is the global event log of one service life time as
   otelcol/collector.go drives it (Service.Start; Service.Shutdown also after a failed Start);
   [before a b l]: at every occurrence of b in l, a has occurred earlier. *)
From Verif Require Import Common.Base C10.Model C10.Proofs1 C10.Proofs2 C10.Proofs3 C10.Proofs4 C10.Proofs5 C10.Proofs6 C10.Proofs7 C10.Proofs8 C10.Checker C10.Proofs9 C10.Proofs10.

(* the checker that validates the order taken from the implementation is sound *)
Theorem is_topo_sound : forall ns es o, is_topo ns es o = true ->
  NoDup o /\ (forall x, In x o <-> In x ns) /\
  (forall u v, In (u, v) es -> index u o < index v o) /\
  (forall u v, path es u v -> index u o < index v o /\ precedes u v o).
Proof. exact l_is_topo_sound. Qed.
Print Assumptions is_topo_sound.

(* every pipeline component is started only after all components it sends data to (directly or
   through further nodes) have started *)
Theorem start_downstream_first : forall g x o f, orders_ok g x o = true ->
  forall u v, path (edges g) u v -> In u (comps g) -> In v (comps g) ->
  before (CStart v) (CStart u) (log g x o f).
Proof. exact p_start_downstream_first. Qed.
Print Assumptions start_downstream_first.

(* every extension is started before any pipeline component, and after the extensions it depends on *)
Theorem extensions_first : forall g x o f, orders_ok g x o = true ->
  (forall e n, In e (exts x) -> before (XStart e) (CStart n) (log g x o f)) /\
  (forall d e, In (d, e) (deps x) -> before (XStart d) (XStart e) (log g x o f)).
Proof. exact p_extensions_first. Qed.
Print Assumptions extensions_first.

(* a component is shut down only after every component that sends data to it *)
Theorem stop_upstream_first : forall g x o f, orders_ok g x o = true ->
  forall u v, path (edges g) u v -> In u (comps g) -> In v (comps g) ->
  before (CStop u) (CStop v) (log g x o f).
Proof. exact p_stop_upstream_first. Qed.
Print Assumptions stop_upstream_first.

(* extensions last, an extension before the extensions it depends on *)
Theorem extensions_last : forall g x o f, orders_ok g x o = true ->
  (forall e n, In n (comps g) -> before (CStop n) (XStop e) (log g x o f)) /\
  (forall d e, In (d, e) (deps x) -> before (XStop e) (XStop d) (log g x o f)).
Proof. exact p_extensions_last. Qed.
Print Assumptions extensions_last.

(* at most one Start, exactly one Shutdown per component / extension, whatever fails; and only
   configured components appear in the log *)
Theorem exactly_once : forall g x o f, orders_ok g x o = true -> forall n,
  count (CStart n) (log g x o f) <= 1 /\ count (XStart n) (log g x o f) <= 1 /\
  (In n (comps g) -> count (CStop n) (log g x o f) = 1) /\
  (In n (exts x) -> count (XStop n) (log g x o f) = 1) /\
  (In (CStart n) (log g x o f) \/ In (CStop n) (log g x o f) -> In n (comps g)) /\
  (In (XStart n) (log g x o f) \/ In (XStop n) (log g x o f) -> In n (exts x)).
Proof. exact p_exactly_once. Qed.
Print Assumptions exactly_once.

(* when no Start and no config notification fails, everything is started exactly once *)
Theorem all_started_without_failure : forall g x o f, orders_ok g x o = true ->
  (forall e, In e (exts x) -> fx_start f e = false) ->
  (forall n, In n (comps g) -> fc_start f n = false) ->
  (forall e, In e (exts x) -> f_cfg f e = false) ->
  (forall e, In e (exts x) -> count (XStart e) (log g x o f) = 1) /\
  (forall n, In n (comps g) -> count (CStart n) (log g x o f) = 1).
Proof. exact p_all_started. Qed.
Print Assumptions all_started_without_failure.

(* a start failure aborts start-up with that error (the failing Start is the last event of
   Service.Start, its error the only one Start returns and the first one reported), and the
   service still runs the complete shutdown sequence *)
Theorem start_failure_aborts : forall g x o f,
  log g x o f = fst (service_start g x o f) ++ fst (service_shutdown g x o f) /\
  reported g x o f = snd (service_start g x o f) ++ snd (service_shutdown g x o f) /\
  fst (service_shutdown g x o f) =
    map NNotReady (filter (pw x) (ext_order o)) ++ map CStop (stop_seq g o) ++ map XStop (rev (ext_order o)) /\
  forall n,
  (In (ErrXStart n) (snd (service_start g x o f)) ->
     fx_start f n = true /\ snd (service_start g x o f) = [ErrXStart n] /\
     exists p, fst (service_start g x o f) = p ++ [XStart n] /\ forall m, In (XStart m) p -> fx_start f m = false) /\
  (In (ErrCStart n) (snd (service_start g x o f)) ->
     fc_start f n = true /\ snd (service_start g x o f) = [ErrCStart n] /\
     exists p, fst (service_start g x o f) = p ++ [CStart n] /\ forall m, In (CStart m) p -> fc_start f m = false).
Proof. exact p_start_failure_aborts. Qed.
Print Assumptions start_failure_aborts.

(* nothing is started once the shutdown sequence has begun: every Start call of the life time
   precedes every Shutdown call *)
Theorem starts_precede_stops : forall g x o f a b l1 l2,
  log g x o f = l1 ++ a :: l2 -> is_start_ev a = true -> is_stop_ev b = true -> ~ In b l1.
Proof. exact l_starts_precede_stops. Qed.
Print Assumptions starts_precede_stops.

(* conversely Start reports success only if no Start call it made failed *)
Theorem start_ok_means_no_failure : forall g x o f, snd (service_start g x o f) = [] ->
  forall e, (In (XStart e) (fst (service_start g x o f)) -> fx_start f e = false) /\
            (In (CStart e) (fst (service_start g x o f)) -> fc_start f e = false).
Proof. exact p_start_ok. Qed.
Print Assumptions start_ok_means_no_failure.

(* a shutdown failure is reported but does not stop the remaining shutdowns: the shutdown event
   sequence does not depend on which calls fail, and exactly the failing calls are reported *)
Theorem stop_failure_continues : forall g x o f,
  (forall f', fst (service_shutdown g x o f) = fst (service_shutdown g x o f')) /\
  forall n,
  (In (ErrCStop n) (snd (service_shutdown g x o f)) <-> In n (stop_seq g o) /\ fc_stop f n = true) /\
  (In (ErrXStop n) (snd (service_shutdown g x o f)) <-> In n (ext_order o) /\ fx_stop f n = true).
Proof. exact p_stop_failure_continues. Qed.
Print Assumptions stop_failure_continues.

(* ---- the context handed to Start / Shutdown (collector_run_cx: contexts already done, components
   that end the context during their call, context-sensitive components) ------------------------- *)

(* with a live context that nobody ends the context-aware life time IS the life time of the
   theorems above (so they all apply to it) *)
Theorem run_cx_live : forall g x o f c, live_cx c -> collector_run_cx g x o f c = collector_run g x o f.
Proof. exact l_run_cx_live. Qed.
Print Assumptions run_cx_live.

(* a cancelled / expired context never stops the remaining shutdowns: for EVERY context scenario
   (done beforehand, ended by any component at any point, any set of context-sensitive components)
   Service.Shutdown issues exactly the same complete call sequence *)
Theorem shutdown_ignores_context : forall g x o f c done,
  fst (service_shutdown_cx g x o f c done) = fst (service_shutdown g x o f).
Proof. exact l_shutdown_ignores_context. Qed.
Print Assumptions shutdown_ignores_context.

(* ... failing Shutdown calls are still reported *)
Theorem shutdown_failures_reported_any_context : forall g x o f c done n,
  (In n (stop_seq g o) -> fc_stop f n = true -> In (ErrCStop n) (snd (service_shutdown_cx g x o f c done))) /\
  (In n (ext_order o) -> fx_stop f n = true -> In (ErrXStop n) (snd (service_shutdown_cx g x o f c done))).
Proof. exact l_shutdown_cx_reports. Qed.
Print Assumptions shutdown_failures_reported_any_context.

(* ... and every component / extension is shut down exactly once per life time under every
   context scenario and every failure assignment *)
Theorem exactly_one_stop_any_context : forall g x o f c, orders_ok g x o = true -> forall n,
  (In n (comps g) -> count (CStop n) (fst (collector_run_cx g x o f c)) = 1) /\
  (In n (exts x) -> count (XStop n) (fst (collector_run_cx g x o f c)) = 1).
Proof. exact l_exactly_one_stop_any_context. Qed.
Print Assumptions exactly_one_stop_any_context.

(* ---- configuration reloads and provider faults (collector.go Run / reloadConfiguration / shutdown) ---
   For EVERY sequence of configurations (each with its own topology, orders and failing calls) and
   EVERY behaviour of the configuration provider (its Shutdown fails, the close function of any
   retrieved configuration fails): the services that get built are a prefix of the sequence and each
   of them sees exactly the call sequence of ONE life time [collector_run] — one Start, one complete
   Shutdown — also when the reload fails (retiring service's Shutdown or new service's Start returns an
   error, the configuration cannot be re-resolved) and when the provider fails while the collector
   stops.  Hence exactly_once and the ordering theorems hold for every generation. *)
Theorem reload_generations_events : forall t pf gens,
  exists k, k <= length gens /\ map fst (collector_run_reload t pf gens) = map gen_log (firstn k gens).
Proof. exact l_reload_generations_events. Qed.
Print Assumptions reload_generations_events.

(* with a well-behaved provider the reported errors, too, are exactly those of the life times *)
Theorem reload_generations : forall t gens, Forall (fun n => gn_close_fails n = false) gens ->
  exists k, k <= length gens /\ collector_run_reload t false gens = map gen_run (firstn k gens).
Proof. exact l_reload_generations. Qed.
Print Assumptions reload_generations.

Theorem reload_first_generation : forall t pf g0 rest,
  exists tl, map fst (collector_run_reload t pf (g0 :: rest)) = gen_log g0 :: tl.
Proof. exact l_reload_first. Qed.
Print Assumptions reload_first_generation.

(* every way Run leaves its control loop — a config-watch ERROR, an asynchronous error, a
   termination signal, Collector.Shutdown(), a cancelled context — shuts the running service down:
   the trigger changes nothing (so all of the above holds for each of them) *)
Theorem every_trigger_shuts_down : forall t t' pf gens, collector_run_reload t pf gens = collector_run_reload t' pf gens.
Proof. exact l_every_trigger_shuts_down. Qed.
Print Assumptions every_trigger_shuts_down.

Theorem last_generation_shut_down : forall t pf cur ls, gen_start cur = (ls, []) ->
  map fst (reload_loop t pf cur ls []) = [ls ++ fst (gen_shutdown cur)].
Proof. exact l_last_generation_shut_down. Qed.
Print Assumptions last_generation_shut_down.

(* ---- the topological sort as an algorithm (computeOrder, topo.Sort in StartAll / ShutdownAll / Build) ---
   [topo_sort ns es pref]: pref = the iteration order the implementation happens to use; ANY pref. *)

(* every output of the algorithm is a valid topological order *)
Theorem topo_sort_sound : forall ns es pref o, edges_in ns es -> NoDup ns ->
  topo_sort ns es pref = Sorted o -> is_topo ns es o = true.
Proof. exact l_topo_sort_sound. Qed.
Print Assumptions topo_sort_sound.

(* ... and every valid order is an output (take the order itself as the iteration order): the
   algorithm has exactly the freedom "any valid order" *)
Theorem topo_sort_complete : forall ns es o, is_topo ns es o = true -> NoDup ns -> topo_sort ns es o = Sorted o.
Proof. exact l_topo_sort_complete. Qed.
Print Assumptions topo_sort_complete.

Theorem topo_sort_outputs_are_the_valid_orders : forall ns es o, edges_in ns es -> NoDup ns ->
  ((exists pref, topo_sort ns es pref = Sorted o) <-> is_topo ns es o = true).
Proof. exact l_topo_sort_exact. Qed.
Print Assumptions topo_sort_outputs_are_the_valid_orders.

(* a rejected graph is rejected with an error naming a real cycle (consecutive nodes joined by
   edges, the last joined to the first) ... *)
Theorem topo_sort_names_cycle : forall ns es pref c, topo_sort ns es pref = Cyclic c -> is_cycle es c = true.
Proof. exact l_topo_sort_cycle. Qed.
Print Assumptions topo_sort_names_cycle.

(* ... and a graph with a cycle has no valid order at all (so rejecting it is the only correct answer) *)
Theorem cycle_excludes_order : forall ns es c o, is_cycle es c = true -> is_topo ns es o = true -> False.
Proof. exact cycle_no_order. Qed.
Print Assumptions cycle_excludes_order.

(* hence the ordering theorems need no hypothesis on the orders: whatever orders the algorithm
   computes for a well-formed topology satisfy [orders_ok] *)
Theorem computed_orders_ok : forall g x pe ps pp o, wf_topology g x ->
  orders_by g x pe ps pp = Some o -> orders_ok g x o = true.
Proof. exact l_orders_by_ok. Qed.
Print Assumptions computed_orders_ok.

Theorem start_downstream_first_computed : forall g x pe ps pp o f, wf_topology g x ->
  orders_by g x pe ps pp = Some o ->
  forall u v, path (edges g) u v -> In u (comps g) -> In v (comps g) ->
  before (CStart v) (CStart u) (log g x o f) /\ before (CStop u) (CStop v) (log g x o f).
Proof.
  exact (fun g x pe ps pp o f W E u v P U V =>
           conj (p_start_downstream_first g x o f (l_orders_by_ok g x pe ps pp o W E) u v P U V)
                (p_stop_upstream_first g x o f (l_orders_by_ok g x pe ps pp o W E) u v P U V)).
Qed.
Print Assumptions start_downstream_first_computed.

(* translator obligation: which node types of the component graph are components (not skipped by
   StartAll / ShutdownAll) — the model's table equals the method sets read from the current source *)
Theorem kind_is_comp_generated : forall k, kind_is_comp k = implements_component (generated_method_set k).
Proof. exact l_kind_is_comp_generated. Qed.
Print Assumptions kind_is_comp_generated.

(* ---- the decidable clause checker run by the check on the OBSERVED behaviour of every case decides
   exactly the clauses (Checker.v: counts, start / stop order along every sends-to pair, extensions
   first / last / in dependency order, an injected start failure is the last Start call and reported
   first, injected shutdown failures are reported) *)
Theorem prop_ok_iff : forall o, prop_ok o = true <-> Clauses o.
Proof. exact l_prop_ok_iff. Qed.
Print Assumptions prop_ok_iff.

Theorem violated_nil_iff : forall o, violated o = [] <-> prop_ok o = true.
Proof. exact l_violated_nil. Qed.
Print Assumptions violated_nil_iff.

(* the model satisfies the checker for every topology, valid orders and failure assignment: the
   checker is consistent with the theorems above (and not vacuous: Witness.prop_ok_examples) *)
Theorem prop_ok_model : forall g x o f R fcs fxs fcp fxp, orders_ok g x o = true ->
  (forall u v, In (u, v) R -> path (edges g) u v /\ In u (comps g) /\ In v (comps g)) ->
  (forall n, In n fcs -> fc_start f n = true) -> (forall n, In n fxs -> fx_start f n = true) ->
  (forall n, In n fcp -> fc_stop f n = true) -> (forall n, In n fxp -> fx_stop f n = true) ->
  prop_ok (model_obs g x o f R fcs fxs fcp fxp) = true.
Proof. exact l_prop_ok_model. Qed.
Print Assumptions prop_ok_model.

(* "on shutdown the order is reversed", extensions: the Shutdown calls of the extensions are the exact
   reverse of the computed order, the Start calls a prefix of it; without an extension start failure
   the shutdown sequence is the exact reverse of the start sequence *)
Theorem extensions_stop_in_reverse : forall g x o f,
  let L := fst (collector_run g x o f) in
  xstops L = rev (ext_order o) /\ prefix (xstarts L) (ext_order o) /\
  ((forall e, In e (ext_order o) -> fx_start f e = false) -> xstops L = rev (xstarts L)).
Proof. exact l_ext_reverse. Qed.
Print Assumptions extensions_stop_in_reverse.

(* "on shutdown the order is reversed", pipeline components — WHICH order ShutdownAll uses, exactly:
   the Shutdown calls are the component subsequence of the order returned by ShutdownAll's OWN
   topo.Sort; the Start calls a prefix of the reversed component subsequence of StartAll's sort.
   The two sorts are independent, so the shutdown sequence is in general NOT the reverse of the start
   sequence (component_stop_need_not_reverse_start below); it is when both sorts return the same order
   and every component started.  The consequence the property draws — a component is shut down only after
   every component that sends data to it — holds for every topology and every pair of sort results:
   stop_upstream_first. *)
Theorem component_orders : forall g x o f,
  let L := fst (collector_run g x o f) in
  cstops L = filter (is_comp g) (stop_order o) /\
  prefix (cstarts L) (filter (is_comp g) (rev (start_order o))) /\
  (stop_order o = start_order o -> cstarts L = filter (is_comp g) (rev (start_order o)) -> cstops L = rev (cstarts L)).
Proof. exact l_component_orders. Qed.
Print Assumptions component_orders.

(* the literal reading "the shutdown order is the reverse of the start order" is FALSE of the code for
   pipeline components: a valid pair of sort results where it fails (Witness.o1) *)
Theorem component_stop_need_not_reverse_start : exists g x o f,
  orders_ok g x o = true /\ cstops (fst (collector_run g x o f)) <> rev (cstarts (fst (collector_run g x o f))).
Proof. exact l_component_stop_not_reverse. Qed.
Print Assumptions component_stop_need_not_reverse_start.

(* lists the service accepts with repetitions: service::extensions naming an extension several times
   still yields a duplicate-free extension set, and every configured extension is started at most once
   and shut down exactly once *)
Theorem extension_set_has_no_duplicates : forall configured,
  NoDup (extensions_new configured) /\ forall e, In e (extensions_new configured) <-> In e configured.
Proof. exact (fun c => conj (dedup_NoDup c) (fun e => dedup_In e c)). Qed.
Print Assumptions extension_set_has_no_duplicates.

Theorem configured_twice_started_once : forall g x configured pe ps pp o f,
  exts x = extensions_new configured -> edges_in (exts x) (deps x) -> NoDup (nodes g) -> edges_in (nodes g) (edges g) ->
  orders_by g x pe ps pp = Some o ->
  forall e, In e configured -> count (XStart e) (log g x o f) <= 1 /\ count (XStop e) (log g x o f) = 1.
Proof. exact l_configured_twice_started_once. Qed.
Print Assumptions configured_twice_started_once.

(* a shared component is STARTED exactly once as soon as one of the graph nodes that share it starts *)
Theorem shared_started_once : forall g x o f shared k fs fp n,
  In (CStart n) (log g x o f) -> key_of shared n = Some k ->
  count (IStart k) (inner_events shared k fs fp (log g x o f)) = 1.
Proof. exact l_shared_started_once. Qed.
Print Assumptions shared_started_once.

(* the well-formedness check evaluated on every correspondence case implies the hypothesis of the
   theorems about computed orders *)
Theorem wf_b_sound : forall g x, wf_b g x = true -> wf_topology g x.
Proof. exact l_wf_b_sound. Qed.
Print Assumptions wf_b_sound.

(* sharedcomponent: for EVERY script of Start / Shutdown calls on one shared Component the inner
   component is started at most once and shut down at most once; once as soon as the script
   contains a Start resp. a Shutdown *)
Theorem shared_once_any_script : forall k fs fp ops,
  let evs := fst (sc_run k fs fp sc0 ops) in
  count (IStart k) evs <= 1 /\ count (IStop k) evs <= 1 /\
  (In true ops -> count (IStart k) evs = 1) /\ (In false ops -> count (IStop k) evs = 1).
Proof. exact l_sc_once. Qed.
Print Assumptions shared_once_any_script.

(* a component shared by several graph nodes (pipelines / signals) through sharedcomponent sees at
   most one inner Start and exactly one inner Shutdown in a service life time *)
Theorem shared_once : forall g x o f shared k fs fp, orders_ok g x o = true ->
  let inner := inner_events shared k fs fp (log g x o f) in
  count (IStart k) inner <= 1 /\ count (IStop k) inner <= 1 /\
  (forall n, In n (comps g) -> key_of shared n = Some k -> count (IStop k) inner = 1).
Proof. exact p_shared_once. Qed.
Print Assumptions shared_once.

(* the pipeline half / the extension half run alone are instances of the life time *)
Theorem graph_lifetime_is_run : forall g o f, ext_order o = [] ->
  graph_lifetime g o f = collector_run g no_exts o f.
Proof. exact l_graph_lifetime_is_run. Qed.
Print Assumptions graph_lifetime_is_run.

Theorem ext_lifetime_is_run : forall x o f,
  start_order o = [] -> stop_order o = [] -> has_conf x = false -> pipew x = [] ->
  ext_lifetime o f = collector_run no_graph x o f.
Proof. exact l_ext_lifetime_is_run. Qed.
Print Assumptions ext_lifetime_is_run.
