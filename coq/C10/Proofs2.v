(* C10/Proofs2.v — the shape of the event log of a service life time and the ordering /
   exactly-once / failure-handling lemmas derived from it. *)
From Verif Require Import Common.Base C10.Model C10.Proofs1.

Definition ev_eq_dec : forall a b : ev, {a = b} + {a <> b}.
Proof. decide equality; apply Nat.eq_dec. Defined.

Definition count (e : ev) (l : list ev) : nat := count_occ ev_eq_dec l e.

Definition pw (x : extset) (e : nat) : bool := mem e (pipew x).
Definition cw (x : extset) (e : nat) : bool := mem e (cfgw x).
(* the components in the order StartAll visits them *)
Definition start_seq (g : graph) (o : orders) : list nat := filter (is_comp g) (rev (start_order o)).
(* ... and ShutdownAll *)
Definition stop_seq (g : graph) (o : orders) : list nat := filter (is_comp g) (stop_order o).

(* ---- Service.Shutdown: always the complete sequence -------------------------------------------- *)
Lemma shutdown_eq g x o f :
  service_shutdown g x o f =
  (map NNotReady (filter (pw x) (ext_order o)) ++ map CStop (stop_seq g o) ++ map XStop (rev (ext_order o)),
   map ErrNotReady (filter (f_notready f) (filter (pw x) (ext_order o))) ++
   map ErrCStop (filter (fc_stop f) (stop_seq g o)) ++
   map ErrXStop (filter (fx_stop f) (rev (ext_order o)))).
Proof.
  unfold service_shutdown, notify_notready, graph_shutdown_all, ext_shutdown, stop_seq, pw.
  rewrite !stop_loop_eq. rewrite filter_all. reflexivity.
Qed.

(* ---- Service.Start: the four ways it can end ------------------------------------------------------ *)
Definition start_result (g : graph) (x : extset) (o : orders) (f : faults) (ls : list ev) (es : list err) : Prop :=
  let eo := ext_order o in
  (* an extension's Start failed *)
  (exists e p, take_until (fx_start f) eo = p ++ [e] /\ fx_start f e = true /\
               (forall m, In m p -> fx_start f m = false) /\
               ls = map XStart (p ++ [e]) /\ es = [ErrXStart e])
  \/ (* a config watcher failed *)
  (find (fx_start f) eo = None /\ exists cf, cf <> [] /\
               ls = map XStart eo ++ map NCfg (filter (cw x) eo) /\ es = map ErrCfg cf /\
               cf = filter (f_cfg f) (filter (cw x) eo))
  \/ (* a pipeline component's Start failed *)
  (find (fx_start f) eo = None /\ exists cfl n p,
               take_until (fc_start f) (start_seq g o) = p ++ [n] /\ fc_start f n = true /\
               (forall m, In m p -> fc_start f m = false) /\
               ls = map XStart eo ++ map NCfg cfl ++ map CStart (p ++ [n]) /\ es = [ErrCStart n])
  \/ (* every Start succeeded *)
  (find (fx_start f) eo = None /\ find (fc_start f) (start_seq g o) = None /\ exists cfl rs,
               ls = map XStart eo ++ map NCfg cfl ++ map CStart (start_seq g o) ++ map NReady rs /\
               (es = [] \/ exists e, es = [ErrReady e] /\ f_ready f e = true)).

Lemma start_cases g x o f ls es : service_start g x o f = (ls, es) -> start_result g x o f ls es.
Proof.
  unfold service_start, start_result, ext_start, graph_start_all, notify_ready, notify_config.
  rewrite !start_loop_eq. rewrite filter_all. fold (start_seq g o).
  destruct (find (fx_start f) (ext_order o)) as [e|] eqn:Ex.
  - intros E. inversion E; subst. left.
    destruct (take_until_some _ _ _ Ex) as (p & E1 & E2 & E3). exists e, p. rewrite E1. auto.
  - rewrite (take_until_none _ _ Ex).
    destruct (has_conf x).
    + rewrite stop_loop_eq. change (fun e : nat => mem e (cfgw x)) with (cw x).
      destruct (filter (f_cfg f) (filter (cw x) (ext_order o))) as [|c cf] eqn:Ec.
      * destruct (find (fc_start f) (start_seq g o)) as [n|] eqn:Ecs.
        -- intros E. inversion E; subst. right. right. left. split; [reflexivity|].
           destruct (take_until_some _ _ _ Ecs) as (p & E1 & E2 & E3).
           exists (filter (cw x) (ext_order o)), n, p. rewrite E1. auto.
        -- rewrite (take_until_none _ _ Ecs). intros E. inversion E; subst. right. right. right.
           split; [reflexivity|]. split; [reflexivity|].
           exists (filter (cw x) (ext_order o)), (take_until (f_ready f) (filter (fun e => mem e (pipew x)) (ext_order o))).
           split; [reflexivity|].
           destruct (find (f_ready f) (filter (fun e => mem e (pipew x)) (ext_order o))) as [e|] eqn:Er; [|left; reflexivity].
           right. exists e. split; [reflexivity|]. apply find_some in Er. apply Er.
      * intros E. inversion E; subst. right. left. split; [reflexivity|].
        exists (c :: cf). split; [discriminate|]. auto.
    + destruct (find (fc_start f) (start_seq g o)) as [n|] eqn:Ecs.
      * intros E. inversion E; subst. right. right. left. split; [reflexivity|].
        destruct (take_until_some _ _ _ Ecs) as (p & E1 & E2 & E3).
        exists [], n, p. rewrite E1. auto.
      * rewrite (take_until_none _ _ Ecs). intros E. inversion E; subst. right. right. right.
        split; [reflexivity|]. split; [reflexivity|].
        exists [], (take_until (f_ready f) (filter (fun e => mem e (pipew x)) (ext_order o))).
        split; [reflexivity|].
        destruct (find (f_ready f) (filter (fun e => mem e (pipew x)) (ext_order o))) as [e|] eqn:Er; [|left; reflexivity].
        right. exists e. split; [reflexivity|]. apply find_some in Er. apply Er.
Qed.

(* the uniform shape: a prefix of the extension order, notifications, a prefix of the reverse
   topological component order (non-empty only if every extension started), notifications *)
Lemma start_shape g x o f ls es : service_start g x o f = (ls, es) ->
  exists xs cf cs rs,
    ls = map XStart xs ++ map NCfg cf ++ map CStart cs ++ map NReady rs /\
    prefix xs (ext_order o) /\ prefix cs (start_seq g o) /\ (cs <> [] -> xs = ext_order o).
Proof.
  intros H. apply start_cases in H.
  destruct H as [(e & p & E1 & _ & _ & -> & _)|[(Ex & cf & _ & -> & _)|[(Ex & cfl & n & p & E1 & _ & _ & -> & _)|(Ex & Ec & cfl & rs & -> & _)]]].
  - exists (p ++ [e]), [], [], []. simpl. rewrite !app_nil_r. split; [reflexivity|].
    split; [rewrite <- E1; apply take_until_prefix|]. split; [exists (start_seq g o); reflexivity|congruence].
  - exists (ext_order o), (filter (cw x) (ext_order o)), [], []. simpl. rewrite !app_nil_r.
    split; [reflexivity|]. split; [exists []; rewrite app_nil_r; reflexivity|].
    split; [exists (start_seq g o); reflexivity|congruence].
  - exists (ext_order o), cfl, (p ++ [n]), []. simpl. rewrite !app_nil_r.
    split; [reflexivity|]. split; [exists []; rewrite app_nil_r; reflexivity|].
    split; [rewrite <- E1; apply take_until_prefix|reflexivity].
  - exists (ext_order o), cfl, (start_seq g o), rs.
    split; [reflexivity|]. split; [exists []; rewrite app_nil_r; reflexivity|].
    split; [exists []; rewrite app_nil_r; reflexivity|reflexivity].
Qed.

(* ---- otelcol: one life time = Start, then (whatever Start returned) one complete Shutdown --------- *)
Lemma run_eq g x o f :
  collector_run g x o f =
  (fst (service_start g x o f) ++ fst (service_shutdown g x o f),
   snd (service_start g x o f) ++ snd (service_shutdown g x o f)).
Proof.
  unfold collector_run. destruct (service_start g x o f) as [ls es].
  destruct (service_shutdown g x o f) as [ld ed]. destruct es; reflexivity.
Qed.

(* ---- membership of an event in segments built from other constructors ---------------------------- *)
Ltac notin_map H :=
  apply in_map_iff in H; let y := fresh in let E := fresh in destruct H as (y & E & _); discriminate E.

Ltac notin H :=
  repeat (apply in_app_or in H; destruct H as [H|H]); try notin_map H.

Section Life.
  Variables (g : graph) (x : extset) (o : orders) (f : faults).
  Hypothesis Hext : topo_facts (exts x) (deps x) (ext_order o).
  Hypothesis Hso : topo_facts (nodes g) (edges g) (start_order o).
  Hypothesis Hpo : topo_facts (nodes g) (edges g) (stop_order o).

  Let eo := ext_order o.
  Let L := fst (collector_run g x o f).

  Lemma nodup_eo : NoDup eo. Proof. apply Hext. Qed.
  Lemma nodup_start_seq : NoDup (start_seq g o).
  Proof. unfold start_seq. apply NoDup_filter. apply NoDup_rev. apply Hso. Qed.
  Lemma nodup_stop_seq : NoDup (stop_seq g o).
  Proof. unfold stop_seq. apply NoDup_filter. apply Hpo. Qed.

  Lemma in_comps_node n : In n (comps g) -> In n (nodes g).
  Proof. intros H. unfold nodes. apply in_or_app. left. exact H. Qed.

  Lemma in_start_seq n : In n (start_seq g o) <-> In n (comps g).
  Proof.
    unfold start_seq. rewrite filter_In. unfold is_comp. rewrite mem_In. rewrite <- in_rev.
    destruct Hso as (_ & Hs & _). rewrite Hs. split; [tauto|]. intros H. split; [apply in_comps_node|]; exact H.
  Qed.

  Lemma in_stop_seq n : In n (stop_seq g o) <-> In n (comps g).
  Proof.
    unfold stop_seq. rewrite filter_In. unfold is_comp. rewrite mem_In.
    destruct Hpo as (_ & Hs & _). rewrite Hs. split; [tauto|]. intros H. split; [apply in_comps_node|]; exact H.
  Qed.

  Lemma in_eo e : In e eo <-> In e (exts x).
  Proof. apply Hext. Qed.

  (* the whole log *)
  Lemma log_shape : exists xs cf cs rs,
    L = (map XStart xs ++ map NCfg cf ++ map CStart cs ++ map NReady rs) ++
        (map NNotReady (filter (pw x) eo) ++ map CStop (stop_seq g o) ++ map XStop (rev eo)) /\
    prefix xs eo /\ prefix cs (start_seq g o) /\ (cs <> [] -> xs = eo).
  Proof.
    unfold L. rewrite run_eq. simpl. rewrite shutdown_eq. simpl.
    destruct (service_start g x o f) as [ls es] eqn:E. apply start_shape in E.
    destruct E as (xs & cf & cs & rs & -> & H1 & H2 & H3). exists xs, cf, cs, rs. auto.
  Qed.

  (* --- start order of pipeline components --- *)
  Lemma l_start_downstream_first u v :
    path (edges g) u v -> In u (comps g) -> In v (comps g) -> before (CStart v) (CStart u) L.
  Proof.
    intros Hp Hu Hv. destruct log_shape as (xs & cf & cs & rs & -> & _ & Hcs & _).
    apply before_app_l; [|intro H; notin H].
    apply before_app_r; [intro H; notin H|]. apply before_app_r; [intro H; notin H|].
    apply before_app_l; [|intro H; notin H].
    apply before_map; [intros a b E; inversion E; reflexivity|].
    apply (prefix_before _ _ (start_seq g o)); [apply nodup_start_seq| |exact Hcs].
    unfold start_seq. apply precedes_filter; [|unfold is_comp; apply mem_In; exact Hv|unfold is_comp; apply mem_In; exact Hu].
    apply precedes_rev. eapply topo_path_precedes; eauto.
  Qed.

  (* --- extensions first, in dependency order --- *)
  Lemma l_extensions_first e n : In e (exts x) -> before (XStart e) (CStart n) L.
  Proof.
    intros He. destruct log_shape as (xs & cf & cs & rs & -> & _ & _ & Hall).
    apply before_app_l; [|intro H; notin H].
    destruct (in_dec Nat.eq_dec n cs) as [Hin|Hnin].
    - apply before_app_cross; [|intro H; notin H].
      rewrite Hall; [|intro E; rewrite E in Hin; destruct Hin]. apply in_map. apply in_eo. exact He.
    - apply before_absent. intro H. notin H. apply in_map_iff in H. destruct H as (y & E & Hy).
      inversion E; subst. contradiction.
  Qed.

  Lemma l_extension_after_dependencies d e : In (d, e) (deps x) -> before (XStart d) (XStart e) L.
  Proof.
    intros Hd. destruct log_shape as (xs & cf & cs & rs & -> & Hxs & _ & _).
    apply before_app_l; [|intro H; notin H]. apply before_app_l; [|intro H; notin H].
    apply before_map; [intros a b E; inversion E; reflexivity|].
    apply (prefix_before _ _ eo); [apply nodup_eo| |exact Hxs].
    eapply topo_path_precedes; [exact Hext|]. apply path_edge. exact Hd.
  Qed.

  (* --- stop order --- *)
  Lemma l_stop_upstream_first u v :
    path (edges g) u v -> In u (comps g) -> In v (comps g) -> before (CStop u) (CStop v) L.
  Proof.
    intros Hp Hu Hv. destruct log_shape as (xs & cf & cs & rs & -> & _ & _ & _).
    apply before_app_r; [intro H; notin H|]. apply before_app_r; [intro H; notin H|].
    apply before_app_l; [|intro H; notin H].
    apply before_map; [intros a b E; inversion E; reflexivity|].
    apply precedes_before; [apply nodup_stop_seq|].
    unfold stop_seq. apply precedes_filter; [|unfold is_comp; apply mem_In; exact Hu|unfold is_comp; apply mem_In; exact Hv].
    eapply topo_path_precedes; eauto.
  Qed.

  Lemma l_extensions_last e n : In n (comps g) -> before (CStop n) (XStop e) L.
  Proof.
    intros Hn. destruct log_shape as (xs & cf & cs & rs & -> & _ & _ & _).
    apply before_app_r; [intro H; notin H|]. apply before_app_r; [intro H; notin H|].
    apply before_app_cross; [|intro H; notin H]. apply in_map. apply in_stop_seq. exact Hn.
  Qed.

  Lemma l_extension_stops_before_dependencies d e : In (d, e) (deps x) -> before (XStop e) (XStop d) L.
  Proof.
    intros Hd. destruct log_shape as (xs & cf & cs & rs & -> & _ & _ & _).
    apply before_app_r; [intro H; notin H|]. apply before_app_r; [intro H; notin H|].
    apply before_app_r; [intro H; notin H|].
    apply before_map; [intros a b E; inversion E; reflexivity|].
    apply precedes_before; [apply NoDup_rev; apply nodup_eo|]. apply precedes_rev.
    eapply topo_path_precedes; [exact Hext|]. apply path_edge. exact Hd.
  Qed.

  (* --- counting --- *)
  Lemma count_app e l1 l2 : count e (l1 ++ l2) = count e l1 + count e l2.
  Proof. unfold count. apply count_occ_app. Qed.

  Lemma count_other e l : ~ In e l -> count e l = 0.
  Proof. unfold count. apply count_occ_not_In. Qed.

  Lemma count_map (mk : nat -> ev) n l : (forall a b, mk a = mk b -> a = b) ->
    count (mk n) (map mk l) = count_occ Nat.eq_dec l n.
  Proof. intros Hinj. unfold count. symmetry. apply count_occ_map. exact Hinj. Qed.

  Lemma count_nodup_le n l : NoDup l -> count_occ Nat.eq_dec l n <= 1.
  Proof. intros H. apply NoDup_count_occ. exact H. Qed.

  Lemma count_nodup_in n l : NoDup l -> In n l -> count_occ Nat.eq_dec l n = 1.
  Proof. intros H Hin. apply (proj1 (NoDup_count_occ' Nat.eq_dec l) H). exact Hin. Qed.

  Ltac zero := rewrite count_other; [|let H := fresh in intro H; notin H].

  Lemma l_comp_start_at_most_once n : count (CStart n) L <= 1.
  Proof.
    destruct log_shape as (xs & cf & cs & rs & -> & _ & Hcs & _).
    rewrite !count_app. rewrite (count_other _ (map XStart xs)); [|intro H; notin H].
    rewrite (count_other _ (map NCfg cf)); [|intro H; notin H].
    rewrite (count_other _ (map NReady rs)); [|intro H; notin H].
    rewrite (count_other _ (map NNotReady _)); [|intro H; notin H].
    rewrite (count_other _ (map CStop _)); [|intro H; notin H].
    rewrite (count_other _ (map XStop _)); [|intro H; notin H].
    rewrite count_map; [|intros a b E; inversion E; reflexivity].
    pose proof (count_nodup_le n cs (prefix_NoDup _ _ Hcs nodup_start_seq)). lia.
  Qed.

  Lemma l_ext_start_at_most_once e : count (XStart e) L <= 1.
  Proof.
    destruct log_shape as (xs & cf & cs & rs & -> & Hxs & _ & _).
    rewrite !count_app. rewrite (count_other _ (map CStart cs)); [|intro H; notin H].
    rewrite (count_other _ (map NCfg cf)); [|intro H; notin H].
    rewrite (count_other _ (map NReady rs)); [|intro H; notin H].
    rewrite (count_other _ (map NNotReady _)); [|intro H; notin H].
    rewrite (count_other _ (map CStop _)); [|intro H; notin H].
    rewrite (count_other _ (map XStop _)); [|intro H; notin H].
    rewrite count_map; [|intros a b E; inversion E; reflexivity].
    pose proof (count_nodup_le e xs (prefix_NoDup _ _ Hxs nodup_eo)). lia.
  Qed.

  Lemma l_comp_stop_exactly_once n : In n (comps g) -> count (CStop n) L = 1.
  Proof.
    intros Hn. destruct log_shape as (xs & cf & cs & rs & -> & _ & _ & _).
    rewrite !count_app. rewrite (count_other _ (map XStart xs)); [|intro H; notin H].
    rewrite (count_other _ (map NCfg cf)); [|intro H; notin H].
    rewrite (count_other _ (map CStart cs)); [|intro H; notin H].
    rewrite (count_other _ (map NReady rs)); [|intro H; notin H].
    rewrite (count_other _ (map NNotReady _)); [|intro H; notin H].
    rewrite (count_other _ (map XStop _)); [|intro H; notin H].
    rewrite count_map; [|intros a b E; inversion E; reflexivity].
    rewrite (count_nodup_in n _ nodup_stop_seq (proj2 (in_stop_seq n) Hn)). lia.
  Qed.

  Lemma l_ext_stop_exactly_once e : In e (exts x) -> count (XStop e) L = 1.
  Proof.
    intros He. destruct log_shape as (xs & cf & cs & rs & -> & _ & _ & _).
    rewrite !count_app. rewrite (count_other _ (map XStart xs)); [|intro H; notin H].
    rewrite (count_other _ (map NCfg cf)); [|intro H; notin H].
    rewrite (count_other _ (map CStart cs)); [|intro H; notin H].
    rewrite (count_other _ (map NReady rs)); [|intro H; notin H].
    rewrite (count_other _ (map NNotReady _)); [|intro H; notin H].
    rewrite (count_other _ (map CStop _)); [|intro H; notin H].
    rewrite count_map; [|intros a b E; inversion E; reflexivity].
    rewrite (count_nodup_in e (rev eo)); [lia|apply NoDup_rev; apply nodup_eo|].
    rewrite <- in_rev. apply in_eo. exact He.
  Qed.

  (* only configured components / extensions ever appear *)
  Lemma l_only_known n : (In (CStart n) L \/ In (CStop n) L -> In n (comps g)) /\
                         (In (XStart n) L \/ In (XStop n) L -> In n (exts x)).
  Proof.
    destruct log_shape as (xs & cf & cs & rs & -> & Hxs & Hcs & _). split; intros [H|H]; notin H.
    - apply in_map_iff in H. destruct H as (y & E & Hy). inversion E; subst.
      apply in_start_seq. eapply prefix_In; eauto.
    - apply in_map_iff in H. destruct H as (y & E & Hy). inversion E; subst. apply in_stop_seq. exact Hy.
    - apply in_map_iff in H. destruct H as (y & E & Hy). inversion E; subst.
      apply in_eo. eapply prefix_In; eauto.
    - apply in_map_iff in H. destruct H as (y & E & Hy). inversion E; subst.
      apply in_eo. apply in_rev. exact Hy.
  Qed.

  (* --- no start failure: everything is started (exactly once, with the bounds above) --- *)
  Lemma l_all_started :
    (forall e, In e (exts x) -> fx_start f e = false) ->
    (forall n, In n (comps g) -> fc_start f n = false) ->
    (forall e, In e (exts x) -> f_cfg f e = false) ->
    (forall e, In e (exts x) -> In (XStart e) L) /\ (forall n, In n (comps g) -> In (CStart n) L).
  Proof.
    intros Hfx Hfc Hcfg. unfold L. rewrite run_eq. simpl.
    destruct (service_start g x o f) as [ls es] eqn:E. apply start_cases in E. simpl.
    destruct E as [(e & p & E1 & E2 & _)|[(Ex & cf & Hne & _ & _ & Ecf)|[(Ex & cfl & n & p & E1 & E2 & _)|(Ex & Ec & cfl & rs & -> & _)]]].
    - exfalso. rewrite Hfx in E2; [discriminate|]. apply in_eo. unfold eo.
      eapply prefix_In; [apply (take_until_prefix (fx_start f))|]. rewrite E1. apply in_or_app. right. left. reflexivity.
    - exfalso. apply Hne. rewrite Ecf. clear Ecf.
      assert (Hall : forall e, In e (filter (cw x) (ext_order o)) -> f_cfg f e = false).
      { intros e He. apply Hcfg. apply in_eo. apply filter_In in He. apply He. }
      induction (filter (cw x) (ext_order o)) as [|a l IH]; [reflexivity|]. simpl.
      rewrite (Hall a (or_introl eq_refl)). apply IH. intros e He. apply Hall. right. exact He.
    - exfalso. rewrite Hfc in E2; [discriminate|]. apply in_start_seq.
      eapply prefix_In; [apply (take_until_prefix (fc_start f))|]. rewrite E1. apply in_or_app. right. left. reflexivity.
    - split.
      + intros e He. apply in_or_app. left. apply in_or_app. left. apply in_map. apply in_eo. exact He.
      + intros n Hn. apply in_or_app. left. apply in_or_app. right. apply in_or_app. right.
        apply in_or_app. left. apply in_map. apply in_start_seq. exact Hn.
  Qed.
End Life.

(* ---- failure handling (no hypothesis on the orders needed) ------------------------------------------ *)
(* the first failing Start is the last Start event; its error is the only one Start returns *)
Lemma l_start_failure_aborts g x o f ls es : service_start g x o f = (ls, es) ->
  forall n,
  (In (ErrXStart n) es -> fx_start f n = true /\ es = [ErrXStart n] /\ exists p, ls = p ++ [XStart n] /\
      forall m, In (XStart m) p -> fx_start f m = false) /\
  (In (ErrCStart n) es -> fc_start f n = true /\ es = [ErrCStart n] /\ exists p, ls = p ++ [CStart n] /\
      forall m, In (CStart m) p -> fc_start f m = false).
Proof.
  intros H n. apply start_cases in H.
  destruct H as [(e & p & E1 & E2 & E3 & -> & ->)|[(Ex & cf & _ & -> & -> & _)|[(Ex & cfl & k & p & E1 & E2 & E3 & -> & ->)|(Ex & Ec & cfl & rs & -> & Hes)]]];
    split; intros Hin.
  - destruct Hin as [Hin|[]]. inversion Hin; subst. split; [exact E2|]. split; [reflexivity|].
    exists (map XStart p). split; [rewrite map_app; reflexivity|].
    intros m Hm. apply in_map_iff in Hm. destruct Hm as (y & E & Hy). inversion E; subst. auto.
  - destruct Hin as [Hin|[]]. discriminate.
  - apply in_map_iff in Hin. destruct Hin as (y & E & _). discriminate.
  - apply in_map_iff in Hin. destruct Hin as (y & E & _). discriminate.
  - destruct Hin as [Hin|[]]. discriminate.
  - destruct Hin as [Hin|[]]. inversion Hin; subst. split; [exact E2|]. split; [reflexivity|].
    exists (map XStart (ext_order o) ++ map NCfg cfl ++ map CStart p). split.
    + rewrite map_app. rewrite <- !app_assoc. reflexivity.
    + intros m Hm. notin Hm. apply in_map_iff in Hm. destruct Hm as (y & E & Hy). inversion E; subst. auto.
  - destruct Hes as [->|(e & -> & _)]; [destruct Hin|destruct Hin as [Hin|[]]; discriminate].
  - destruct Hes as [->|(e & -> & _)]; [destruct Hin|destruct Hin as [Hin|[]]; discriminate].
Qed.

(* Start returns an error exactly when some call it made failed *)
Lemma l_start_ok_iff g x o f ls es : service_start g x o f = (ls, es) ->
  (es = [] -> forall e, (In (XStart e) ls -> fx_start f e = false) /\ (In (CStart e) ls -> fc_start f e = false)).
Proof.
  intros H Hes e. apply start_cases in H.
  destruct H as [(e' & p & _ & _ & _ & _ & ->)|[(Ex & cf & Hne & _ & -> & _)|[(Ex & cfl & k & p & _ & _ & _ & _ & ->)|(Ex & Ec & cfl & rs & -> & _)]]];
    try discriminate.
  - destruct cf; [congruence|discriminate].
  - split; intros Hin; notin Hin.
    + apply in_map_iff in Hin. destruct Hin as (y & E & Hy). inversion E; subst.
      eapply find_none in Ex; eauto.
    + apply in_map_iff in Hin. destruct Hin as (y & E & Hy). inversion E; subst.
      eapply find_none in Ec; eauto.
Qed.

(* shutdown errors: exactly the failing calls, in call order; the event sequence does not depend on them *)
Lemma l_shutdown_events_independent g x o f f' :
  fst (service_shutdown g x o f) = fst (service_shutdown g x o f').
Proof. rewrite !shutdown_eq. reflexivity. Qed.

Lemma l_stop_failure_reported g x o f : forall n,
  (In (ErrCStop n) (snd (service_shutdown g x o f)) <-> In n (stop_seq g o) /\ fc_stop f n = true) /\
  (In (ErrXStop n) (snd (service_shutdown g x o f)) <-> In n (ext_order o) /\ fx_stop f n = true).
Proof.
  intros n. rewrite shutdown_eq. simpl. split; split.
  - intros H. notin H. apply in_map_iff in H. destruct H as (y & E & Hy). inversion E; subst.
    apply filter_In in Hy. exact Hy.
  - intros H. apply in_or_app. right. apply in_or_app. left. apply in_map. apply filter_In. exact H.
  - intros H. notin H. apply in_map_iff in H. destruct H as (y & E & Hy). inversion E; subst.
    apply filter_In in Hy. rewrite <- in_rev in Hy. exact Hy.
  - intros [H1 H2]. apply in_or_app. right. apply in_or_app. right. apply in_map. apply filter_In.
    rewrite <- in_rev. auto.
Qed.

(* every Start call of the life time precedes every Shutdown call: nothing is started once the
   shutdown sequence has begun *)
Definition is_start_ev (e : ev) : bool := match e with XStart _ | CStart _ => true | _ => false end.
Definition is_stop_ev (e : ev) : bool := match e with XStop _ | CStop _ => true | _ => false end.

Lemma l_starts_precede_stops g x o f a b l1 l2 :
  fst (collector_run g x o f) = l1 ++ a :: l2 -> is_start_ev a = true -> is_stop_ev b = true -> ~ In b l1.
Proof.
  rewrite run_eq. simpl. rewrite shutdown_eq. simpl.
  destruct (service_start g x o f) as [ls es] eqn:E. apply start_shape in E.
  destruct E as (xs & cf & cs & rs & -> & _). simpl.
  intros E Ha Hb Hin. apply app_eq_app in E. destruct E as [m [[E1 E2]|[E1 E2]]].
  - (* the split point lies in the start part: l1 is a prefix of it, which holds no stop event *)
    assert (Hin' : In b (map XStart xs ++ map NCfg cf ++ map CStart cs ++ map NReady rs)).
    { rewrite E1. apply in_or_app. left. exact Hin. }
    destruct b; try discriminate Hb; notin Hin'.
  - (* the split point lies in the shutdown part, which holds no start event *)
    assert (Hin' : In a (map NNotReady (filter (pw x) (ext_order o)) ++ map CStop (stop_seq g o) ++ map XStop (rev (ext_order o)))).
    { rewrite E2. apply in_or_app. right. left. reflexivity. }
    destruct a; try discriminate Ha; notin Hin'.
Qed.
