(* C10/Witness.v — non-vacuity of the hypotheses of Properties.v and concrete runs (vm_compute). *)
From Verif Require Import Common.Base C10.Model C10.Proofs1 C10.Proofs2 C10.Proofs3 C10.Proofs4 C10.Proofs5 C10.Proofs7 C10.Checker C10.Proofs9 C10.Proofs10.

(* two pipelines joined by a connector:
     receiver 0 -> cap 10 -> processor 1 -> fanout 11 -> exporter 2, connector 3
     connector 3 -> cap 12 -> fanout 13 -> exporter 4
   extensions 0,1,2 with 1 depending on 0 and 2 depending on 1; 1 watches the config, 2 the pipelines *)
Definition g1 : graph :=
  {| comps := [0; 1; 2; 3; 4]; auxs := [10; 11; 12; 13];
     edges := [(0, 10); (10, 1); (1, 11); (11, 2); (11, 3); (3, 12); (12, 13); (13, 4)] |}.
Definition x1 : extset :=
  {| exts := [0; 1; 2]; deps := [(0, 1); (1, 2)]; cfgw := [1]; pipew := [2]; has_conf := true |}.
Definition o1 : orders :=
  {| ext_order := [0; 1; 2];
     start_order := [0; 10; 1; 11; 2; 3; 12; 13; 4];
     stop_order := [0; 10; 1; 11; 3; 12; 13; 4; 2] |}.
Definition nofail : faults :=
  {| fx_start := fun _ => false; fx_stop := fun _ => false; fc_start := fun _ => false; fc_stop := fun _ => false;
     f_cfg := fun _ => false; f_ready := fun _ => false; f_notready := fun _ => false |}.

(* the hypothesis of the ordering theorems is satisfiable by a non-trivial topology *)
Example orders_ok_g1 : orders_ok g1 x1 o1 = true.
Proof. vm_compute. reflexivity. Qed.

(* ... and it rejects an order that violates an edge, a duplicate and a missing node *)
Example is_topo_rejects_bad_edge : is_topo (nodes g1) (edges g1) [0; 1; 10; 11; 2; 3; 12; 13; 4] = false.
Proof. vm_compute. reflexivity. Qed.
Example is_topo_rejects_duplicate : is_topo [0; 1] [] [0; 1; 1] = false.
Proof. vm_compute. reflexivity. Qed.
Example is_topo_rejects_missing : is_topo [0; 1; 2] [] [0; 1] = false.
Proof. vm_compute. reflexivity. Qed.

(* receiver 0 sends data to exporter 4 through processor, connector and four aux nodes *)
Example path_0_4 : path (edges g1) 0 4.
Proof.
  apply path_step with 10; [vm_compute; tauto|]. apply path_step with 1; [vm_compute; tauto|].
  apply path_step with 11; [vm_compute; tauto|]. apply path_step with 3; [vm_compute; tauto|].
  apply path_step with 12; [vm_compute; tauto|]. apply path_step with 13; [vm_compute; tauto|].
  apply path_edge. vm_compute. tauto.
Qed.

(* the failure-free life time *)
Example run_nofail :
  collector_run g1 x1 o1 nofail =
  ([XStart 0; XStart 1; XStart 2; NCfg 1; CStart 4; CStart 3; CStart 2; CStart 1; CStart 0; NReady 2;
    NNotReady 2; CStop 0; CStop 1; CStop 3; CStop 4; CStop 2; XStop 2; XStop 1; XStop 0], []).
Proof. vm_compute. reflexivity. Qed.

(* the connector 3 fails to start: 2, 1, 0 are never started, everything is still shut down once,
   shutdown failures of 1 and of extension 0 are reported after the start error *)
Definition f_start3 : faults :=
  {| fx_start := fun _ => false; fx_stop := fun e => Nat.eqb e 0;
     fc_start := fun n => Nat.eqb n 3; fc_stop := fun n => Nat.eqb n 1;
     f_cfg := fun _ => false; f_ready := fun _ => false; f_notready := fun _ => false |}.
Example run_start3 :
  collector_run g1 x1 o1 f_start3 =
  ([XStart 0; XStart 1; XStart 2; NCfg 1; CStart 4; CStart 3;
    NNotReady 2; CStop 0; CStop 1; CStop 3; CStop 4; CStop 2; XStop 2; XStop 1; XStop 0],
   [ErrCStart 3; ErrCStop 1; ErrXStop 0]).
Proof. vm_compute. reflexivity. Qed.

(* hypothesis of start_failure_aborts (an error ErrCStart in Start's result) is reachable *)
Example start_failure_reachable : In (ErrCStart 3) (snd (service_start g1 x1 o1 f_start3)).
Proof. vm_compute. tauto. Qed.

(* an extension fails to start: no pipeline component is started at all *)
Definition f_x1 : faults :=
  {| fx_start := fun e => Nat.eqb e 1; fx_stop := fun _ => false; fc_start := fun _ => false; fc_stop := fun _ => false;
     f_cfg := fun _ => false; f_ready := fun _ => false; f_notready := fun _ => false |}.
Example run_x1 :
  collector_run g1 x1 o1 f_x1 =
  ([XStart 0; XStart 1;
    NNotReady 2; CStop 0; CStop 1; CStop 3; CStop 4; CStop 2; XStop 2; XStop 1; XStop 0], [ErrXStart 1]).
Proof. vm_compute. reflexivity. Qed.

(* the hypotheses of all_started_without_failure hold for nofail *)
Example nofail_hyp : forall e, In e (exts x1) -> fx_start nofail e = false.
Proof. reflexivity. Qed.

(* shared component: exporter 2 and connector 3 are two graph nodes of ONE shared component (key 7);
   the connector's wrapper Start runs the inner Start, node 2's Start does not run it again;
   the first Shutdown (node 3's) runs the inner Shutdown *)
Example shared_run :
  inner_events [(2, 7); (3, 7)] 7 false false (log g1 x1 o1 nofail) = [IStart 7; IStop 7].
Proof. vm_compute. reflexivity. Qed.

(* ... and when start-up is aborted before any of its nodes started, the inner component is
   still shut down exactly once (without ever having been started) *)
Definition f_start4 : faults :=
  {| fx_start := fun _ => false; fx_stop := fun _ => false; fc_start := fun n => Nat.eqb n 4; fc_stop := fun _ => false;
     f_cfg := fun _ => false; f_ready := fun _ => false; f_notready := fun _ => false |}.
Example shared_run_aborted :
  inner_events [(2, 7); (3, 7)] 7 false false (log g1 x1 o1 f_start4) = [IStop 7].
Proof. vm_compute. reflexivity. Qed.

(* the once-guards on an adversarial script: Shutdown, Start, Start, Shutdown, Start *)
Example sc_script :
  sc_run 0 true true sc0 [false; true; true; false; true] =
  ([IStop 0; IStart 0], [true; true; false; false; false]).
Proof. vm_compute. reflexivity. Qed.

(* context scenario: the receiver 0 (first to be shut down) ends the context during its Shutdown
   (a slow drain eating the deadline); processor 1 and exporter 2 are context-sensitive and answer
   ctx.Err() — they are reported, and everything downstream is still shut down *)
Definition cx_drain : cx :=
  {| d0_start := false; d0_stop := false; xc_start := none; cc_start := none; xc_stop := none;
     cc_stop := fun n => Nat.eqb n 0; x_sens := none; c_sens := fun n => Nat.eqb n 1 || Nat.eqb n 2 |}.
Example run_cx_drain :
  collector_run_cx g1 x1 o1 nofail cx_drain =
  ([XStart 0; XStart 1; XStart 2; NCfg 1; CStart 4; CStart 3; CStart 2; CStart 1; CStart 0; NReady 2;
    NNotReady 2; CStop 0; CStop 1; CStop 3; CStop 4; CStop 2; XStop 2; XStop 1; XStop 0],
   [ErrCStop 1; ErrCStop 2]).
Proof. vm_compute. reflexivity. Qed.

(* the hypothesis of run_cx_live is satisfiable *)
Example live_cx_example : live_cx {| d0_start := false; d0_stop := false; xc_start := none; cc_start := none;
                                    xc_stop := none; cc_stop := none; x_sens := all; c_sens := all |}.
Proof. repeat split. Qed.

(* the sort algorithm: different preferences give different valid orders of g1; the recorded
   order o1 is reproduced when it is the preference; a cyclic dependency set is rejected with a cycle *)
Example sort_pref_empty : topo_sort (nodes g1) (edges g1) [] = Sorted [0; 10; 1; 11; 2; 3; 12; 13; 4].
Proof. vm_compute. reflexivity. Qed.
Example sort_pref_other : topo_sort (nodes g1) (edges g1) [4; 3; 2] = Sorted [0; 10; 1; 11; 3; 2; 12; 13; 4].
Proof. vm_compute. reflexivity. Qed.
Example sort_reproduces_o1 : topo_sort (nodes g1) (edges g1) (stop_order o1) = Sorted (stop_order o1).
Proof. vm_compute. reflexivity. Qed.
Example sort_cycle : topo_sort [0; 1; 2; 3] [(0, 1); (1, 2); (2, 1); (2, 3)] [] = Cyclic [1; 2].
Proof. vm_compute. reflexivity. Qed.
Example wf_g1 : wf_topology g1 x1.
Proof.
  split; [apply nodupb_NoDup; reflexivity|]. split.
  - intros u v H. simpl in H. repeat (destruct H as [H|H]; [inversion H; subst; simpl; tauto|]). destruct H.
  - split; [apply nodupb_NoDup; reflexivity|].
    intros u v H. simpl in H. repeat (destruct H as [H|H]; [inversion H; subst; simpl; tauto|]). destruct H.
Qed.
Example orders_by_g1 : orders_by g1 x1 [] [] (stop_order o1) <> None.
Proof. vm_compute. discriminate. Qed.

(* the clause checker: accepts the model's behaviour on g1 (with the component-level sends-to pairs),
   and rejects doctored observations — each clause can fail *)
Definition sends1 : list (nat * nat) := [(0, 1); (1, 2); (1, 3); (3, 4)].
Definition obs1 (l : list ev) (e : list err) : obs :=
  {| o_comps := comps g1; o_exts := exts x1; o_sends := sends1; o_deps := deps x1;
     o_fcs := [3]; o_fxs := []; o_fcp := [1]; o_fxp := [0]; o_log := l; o_errs := e |}.
Example prop_ok_examples :
  prop_ok (obs1 (fst (collector_run g1 x1 o1 f_start3)) (snd (collector_run g1 x1 o1 f_start3))) = true /\
  (* component 2 never shut down (so also not before the extensions) *)
  violated (obs1 [XStart 0; XStart 1; XStart 2; CStart 4; CStart 3; CStop 0; CStop 1; CStop 3; CStop 4; XStop 2; XStop 1; XStop 0]
                 [ErrCStart 3; ErrCStop 1; ErrXStop 0]) = [1; 5] /\
  (* exporter 4 shut down before the connector 3 that feeds it *)
  violated (obs1 [XStart 0; XStart 1; XStart 2; CStart 4; CStart 3; CStop 0; CStop 1; CStop 4; CStop 3; CStop 2; XStop 2; XStop 1; XStop 0]
                 [ErrCStart 3; ErrCStop 1; ErrXStop 0]) = [3] /\
  (* start-up continues after the failed start of 3; the shutdown failure of 1 is not reported *)
  violated (obs1 [XStart 0; XStart 1; XStart 2; CStart 4; CStart 3; CStart 2; CStop 0; CStop 1; CStop 3; CStop 4; CStop 2; XStop 2; XStop 1; XStop 0]
                 [ErrCStart 3; ErrXStop 0]) = [7; 8].
Proof. vm_compute. repeat split. Qed.

(* hypotheses of prop_ok_model are satisfiable: the sends-to pairs of g1 are paths between components *)
Example wf_b_g1 : wf_b g1 x1 = true.
Proof. vm_compute. reflexivity. Qed.
Example ext_reverse_g1 : xstops (fst (collector_run g1 x1 o1 nofail)) = rev (xstarts (fst (collector_run g1 x1 o1 nofail))).
Proof. vm_compute. reflexivity. Qed.
Example shared_started_hyp : In (CStart 3) (log g1 x1 o1 nofail) /\ key_of [(2, 7); (3, 7)] 3 = Some 7.
Proof. vm_compute. tauto. Qed.

(* service::extensions = [2; 0; 2; 1; 0]: the extension set is [2; 1; 0] (each once) *)
Example extensions_new_example : extensions_new [2; 0; 2; 1; 0] = [2; 1; 0].
Proof. vm_compute. reflexivity. Qed.
