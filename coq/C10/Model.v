(* C10/Model.v — executable model of the start/stop life cycle of a collector service.
   Written after the Go code (pinned tree), function by function:

     service/internal/graph/graph.go      Graph.StartAll, Graph.ShutdownAll
     service/extensions/extensions.go     Extensions.Start, Shutdown, NotifyConfig,
                                          NotifyPipelineReady, NotifyPipelineNotReady
     service/extensions/graph.go          computeOrder  (the order returned by gonum topo.Sort
                                          is an INPUT of the model, validated by [is_topo])
     service/service.go                   Service.Start, Service.Shutdown
     otelcol/collector.go                 setupConfigurationComponents (start failure => Shutdown),
                                          Run / shutdown (one Shutdown per service)
     internal/sharedcomponent             Component.Start / Shutdown (sync.Once guards)

   Executable definitions only; no proofs here (BUILDING.md section 2). *)
From Verif Require Import Common.Base.

(* ---- events of the global log ------------------------------------------------------------
   X = extension, C = pipeline component (receiver / processor / exporter / connector node of
   the component graph), N = notification to an extension, I = the inner component behind a
   sharedcomponent wrapper. *)
Inductive ev : Type :=
| XStart (e : nat) | XStop (e : nat)
| CStart (n : nat) | CStop (n : nat)
| NCfg (e : nat) | NReady (e : nat) | NNotReady (e : nat)
| IStart (k : nat) | IStop (k : nat).

(* errors carried by the values returned from Start / Shutdown: which call failed *)
Inductive err : Type :=
| ErrXStart (e : nat) | ErrXStop (e : nat)
| ErrCStart (n : nat) | ErrCStop (n : nat)
| ErrCfg (e : nat) | ErrReady (e : nat) | ErrNotReady (e : nat)
| ErrProvider (k : nat).   (* the configuration provider: 0 = its Shutdown, 1 = the close function of a retrieved configuration *)

Definition mem (x : nat) (l : list nat) : bool := existsb (Nat.eqb x) l.

(* ---- topology ----------------------------------------------------------------------------- *)
(* the component graph: [comps] are the nodes that implement component.Component, [auxs] the
   capabilities / fan-out nodes (skipped by StartAll / ShutdownAll), [edges] the data-flow edges
   (u, v): u hands data to v. *)
Record graph : Type := { comps : list nat; auxs : list nat; edges : list (nat * nat) }.
Definition nodes (g : graph) : list nat := comps g ++ auxs g.
Definition is_comp (g : graph) (n : nat) : bool := mem n (comps g).

(* the configured extensions: [deps] holds (d, e) when extension e declares a dependency on d
   (computeOrder: graph.SetEdge(NewEdge(d, n))); [cfgw] / [pipew] the extensions implementing
   ConfigWatcher / PipelineWatcher; [has_conf] = (srv.collectorConf != nil). *)
Record extset : Type := { exts : list nat; deps : list (nat * nat);
                          cfgw : list nat; pipew : list nat; has_conf : bool }.

(* ---- the orders returned by gonum topo.Sort: inputs, validated ----------------------------- *)
Fixpoint index (x : nat) (l : list nat) : nat :=
  match l with
  | [] => 0
  | y :: r => if Nat.eqb x y then 0 else S (index x r)
  end.

Fixpoint nodupb (l : list nat) : bool :=
  match l with
  | [] => true
  | x :: r => negb (mem x r) && nodupb r
  end.

Definition same_set (a b : list nat) : bool :=
  forallb (fun x => mem x b) a && forallb (fun x => mem x a) b.

(* [o] is a topological order of the graph (ns, es): every node exactly once, every edge forward *)
Definition is_topo (ns : list nat) (es : list (nat * nat)) (o : list nat) : bool :=
  nodupb o && same_set o ns &&
  forallb (fun e => mem (fst e) o && mem (snd e) o && Nat.ltb (index (fst e) o) (index (snd e) o)) es.

Record orders : Type := {
  ext_order : list nat;     (* Extensions.extensionIDs = computeOrder's result *)
  start_order : list nat;   (* topo.Sort(componentGraph) inside StartAll *)
  stop_order : list nat     (* topo.Sort(componentGraph) inside ShutdownAll (a separate call) *)
}.

Definition orders_ok (g : graph) (x : extset) (o : orders) : bool :=
  is_topo (exts x) (deps x) (ext_order o) &&
  is_topo (nodes g) (edges g) (start_order o) &&
  is_topo (nodes g) (edges g) (stop_order o).

(* ---- which calls fail ------------------------------------------------------------------------ *)
Record faults : Type := {
  fx_start : nat -> bool; fx_stop : nat -> bool;     (* extension e's Start / Shutdown returns an error *)
  fc_start : nat -> bool; fc_stop : nat -> bool;     (* pipeline component n's Start / Shutdown *)
  f_cfg : nat -> bool; f_ready : nat -> bool; f_notready : nat -> bool
}.

(* ---- the two loop shapes ------------------------------------------------------------------------
   start_loop: visit the list in order, skip the elements that are not [sel]ected, call the
   element; the FIRST failure aborts the loop and is returned
     (Extensions.Start, Graph.StartAll, Extensions.NotifyPipelineReady). *)
Fixpoint start_loop (mk : nat -> ev) (sel fails : nat -> bool) (l : list nat) : list ev * option nat :=
  match l with
  | [] => ([], None)
  | n :: r =>
      if sel n then
        if fails n then ([mk n], Some n)
        else let '(evs, res) := start_loop mk sel fails r in (mk n :: evs, res)
      else start_loop mk sel fails r
  end.

(* stop_loop: visit every selected element, accumulate the failures (multierr.Append), never abort
     (Extensions.Shutdown, Graph.ShutdownAll, NotifyConfig, NotifyPipelineNotReady). *)
Fixpoint stop_loop (mk : nat -> ev) (sel fails : nat -> bool) (l : list nat) : list ev * list nat :=
  match l with
  | [] => ([], [])
  | n :: r =>
      let '(evs, errs) := stop_loop mk sel fails r in
      if sel n then (mk n :: evs, if fails n then n :: errs else errs) else (evs, errs)
  end.

Definition all (_ : nat) : bool := true.

(* extensions.go: for _, extID := range bes.extensionIDs { ... if err := ext.Start(); err != nil { return err } } *)
Definition ext_start (f : faults) (eo : list nat) : list ev * option nat :=
  start_loop XStart all (fx_start f) eo.

(* extensions.go: for i := len(bes.extensionIDs) - 1; i >= 0; i-- { ... errs = multierr.Append(errs, err); continue } *)
Definition ext_shutdown (f : faults) (eo : list nat) : list ev * list nat :=
  stop_loop XStop all (fx_stop f) (rev eo).

(* graph.go StartAll: for i := len(nodes) - 1; i >= 0; i-- { comp, ok := node.(component.Component); if !ok { continue } ... return err } *)
Definition graph_start_all (g : graph) (f : faults) (so : list nat) : list ev * option nat :=
  start_loop CStart (is_comp g) (fc_start f) (rev so).

(* graph.go ShutdownAll: for i := 0; i < len(nodes); i++ { ... errs = multierr.Append(errs, compErr); continue } *)
Definition graph_shutdown_all (g : graph) (f : faults) (po : list nat) : list ev * list nat :=
  stop_loop CStop (is_comp g) (fc_stop f) po.

(* extensions.go NotifyConfig: every ConfigWatcher, errors accumulated *)
Definition notify_config (x : extset) (f : faults) (eo : list nat) : list ev * list nat :=
  stop_loop NCfg (fun e => mem e (cfgw x)) (f_cfg f) eo.

(* extensions.go NotifyPipelineReady: every PipelineWatcher in order, first error returned *)
Definition notify_ready (x : extset) (f : faults) (eo : list nat) : list ev * option nat :=
  start_loop NReady (fun e => mem e (pipew x)) (f_ready f) eo.

(* extensions.go NotifyPipelineNotReady: every PipelineWatcher, errors accumulated *)
Definition notify_notready (x : extset) (f : faults) (eo : list nat) : list ev * list nat :=
  stop_loop NNotReady (fun e => mem e (pipew x)) (f_notready f) eo.

(* ---- service.go Service.Start --------------------------------------------------------------- *)
Definition service_start (g : graph) (x : extset) (o : orders) (f : faults) : list ev * list err :=
  let '(l1, r1) := ext_start f (ext_order o) in
  match r1 with
  | Some e => (l1, [ErrXStart e])                       (* "failed to start extensions: %w" *)
  | None =>
      let '(l2, e2) := if has_conf x then notify_config x f (ext_order o) else ([], []) in
      match e2 with
      | _ :: _ => (l1 ++ l2, map ErrCfg e2)             (* return err *)
      | [] =>
          let '(l3, r3) := graph_start_all g f (start_order o) in
          match r3 with
          | Some n => (l1 ++ l2 ++ l3, [ErrCStart n])   (* "cannot start pipelines: %w" *)
          | None =>
              let '(l4, r4) := notify_ready x f (ext_order o) in
              (l1 ++ l2 ++ l3 ++ l4, match r4 with Some e => [ErrReady e] | None => [] end)
          end
      end
  end.

(* ---- service.go Service.Shutdown: notify, pipelines, extensions; errors accumulated ---------
   (the shutdown of the telemetry providers that follows is not modelled) *)
Definition service_shutdown (g : graph) (x : extset) (o : orders) (f : faults) : list ev * list err :=
  let '(l1, e1) := notify_notready x f (ext_order o) in
  let '(l2, e2) := graph_shutdown_all g f (stop_order o) in
  let '(l3, e3) := ext_shutdown f (ext_order o) in
  (l1 ++ l2 ++ l3, map ErrNotReady e1 ++ map ErrCStop e2 ++ map ErrXStop e3).

(* ---- otelcol/collector.go: one service life time -------------------------------------------
   setupConfigurationComponents:  if err = col.service.Start(ctx); err != nil {
                                      return multierr.Combine(err, col.service.Shutdown(ctx)) }
   Run: a failed set-up returns (no second Shutdown); otherwise the control loop runs until a
   shutdown / reload request, then col.shutdown (resp. reloadConfiguration) calls
   service.Shutdown once.  Result: the whole event log and the errors reported to the caller. *)
Definition collector_run (g : graph) (x : extset) (o : orders) (f : faults) : list ev * list err :=
  let '(ls, es) := service_start g x o f in
  match es with
  | _ :: _ => let '(ld, ed) := service_shutdown g x o f in (ls ++ ld, es ++ ed)
  | [] => let '(ld, ed) := service_shutdown g x o f in (ls ++ ld, ed)
  end.

(* the two halves run alone (harnesses drive them separately in the graph / extensions packages) *)
Definition graph_lifetime (g : graph) (o : orders) (f : faults) : list ev * list err :=
  let '(l1, r1) := graph_start_all g f (start_order o) in
  let '(l2, e2) := graph_shutdown_all g f (stop_order o) in
  (l1 ++ l2, match r1 with Some n => [ErrCStart n] | None => [] end ++ map ErrCStop e2).

Definition ext_lifetime (o : orders) (f : faults) : list ev * list err :=
  let '(l1, r1) := ext_start f (ext_order o) in
  let '(l2, e2) := ext_shutdown f (ext_order o) in
  (l1 ++ l2, match r1 with Some e => [ErrXStart e] | None => [] end ++ map ErrXStop e2).

(* ---- internal/sharedcomponent Component[V] ------------------------------------------------------
   start_done = startOnce has fired, host_set = (c.hostWrapper != nil), stop_done = stopOnce fired *)
Record sc : Type := { start_done : bool; host_set : bool; stop_done : bool }.
Definition sc0 : sc := {| start_done := false; host_set := false; stop_done := false |}.

(* Start: if c.hostWrapper == nil { c.startOnce.Do(func(){ c.hostWrapper = ...; err = c.component.Start() }); return err }
          ...addSource...; return nil
   returns the new state, whether the inner Start ran, and whether an error is returned *)
Definition sc_start (inner_fails : bool) (s : sc) : sc * bool * bool :=
  if host_set s then (s, false, false)
  else if start_done s then (s, false, false)
  else ({| start_done := true; host_set := true; stop_done := stop_done s |}, true, inner_fails).

(* Shutdown: c.stopOnce.Do(func(){ err = c.component.Shutdown(ctx); c.removeFunc() }); return err
   (the inner Shutdown runs whether or not Start ever ran) *)
Definition sc_shutdown (inner_fails : bool) (s : sc) : sc * bool * bool :=
  if stop_done s then (s, false, false)
  else ({| start_done := start_done s; host_set := host_set s; stop_done := true |}, true, inner_fails).

(* a script of calls on ONE shared Component: true = Start, false = Shutdown.
   result: the inner events, and per call whether an error was returned *)
Fixpoint sc_run (k : nat) (fstart fstop : bool) (s : sc) (ops : list bool) : list ev * list bool :=
  match ops with
  | [] => ([], [])
  | true :: r =>
      let '(s', ran, e) := sc_start fstart s in
      let '(evs, errs) := sc_run k fstart fstop s' r in
      ((if ran then [IStart k] else []) ++ evs, e :: errs)
  | false :: r =>
      let '(s', ran, e) := sc_shutdown fstop s in
      let '(evs, errs) := sc_run k fstart fstop s' r in
      ((if ran then [IStop k] else []) ++ evs, e :: errs)
  end.

(* the calls that reach the shared component of key k during a service life time: the node-level
   Start / Shutdown calls of the graph nodes mapped to k by [shared] (node, key), in log order *)
Definition key_of (shared : list (nat * nat)) (n : nat) : option nat :=
  option_map snd (find (fun p => Nat.eqb (fst p) n) shared).

Fixpoint calls_of (shared : list (nat * nat)) (k : nat) (l : list ev) : list bool :=
  match l with
  | [] => []
  | CStart n :: r => match key_of shared n with
                     | Some k' => if Nat.eqb k' k then true :: calls_of shared k r else calls_of shared k r
                     | None => calls_of shared k r end
  | CStop n :: r => match key_of shared n with
                    | Some k' => if Nat.eqb k' k then false :: calls_of shared k r else calls_of shared k r
                    | None => calls_of shared k r end
  | _ :: r => calls_of shared k r
  end.

Definition inner_events (shared : list (nat * nat)) (k : nat) (fstart fstop : bool) (l : list ev) : list ev :=
  fst (sc_run k fstart fstop sc0 (calls_of shared k l)).

(* ---- the context handed to Start / Shutdown --------------------------------------------------------
   Every loop above receives a context.Context and hands it to each component, but NONE of them
   consults it: a cancelled / expired context changes what a component may answer, never which
   components are called.  The context-aware versions below thread the state of the context
   ([done]) through the calls to make exactly that explicit:
     - a component may end the context during its call ([cancels]: a slow drain that eats the
       shutdown deadline, a caller cancelling meanwhile),
     - a context-sensitive component ([sens]) returns ctx.Err() when the context it was given is done,
     - the loops never look at [done].
   collector.go passes ONE context to Service.Start and to the Service.Shutdown that follows a
   failed Start; the Shutdown at the end of a successful run gets its own context. *)
Record cx : Type := {
  d0_start : bool; d0_stop : bool;                 (* the context is already done when the phase begins *)
  xc_start : nat -> bool; cc_start : nat -> bool;  (* extension / component ends the context in its Start *)
  xc_stop : nat -> bool; cc_stop : nat -> bool;    (* ... in its Shutdown *)
  x_sens : nat -> bool; c_sens : nat -> bool       (* returns ctx.Err() when the context is done *)
}.

Fixpoint start_loop_cx (mk : nat -> ev) (sel fails cancels sens : nat -> bool) (done : bool) (l : list nat)
  : (list ev * option nat) * bool :=
  match l with
  | [] => (([], None), done)
  | n :: r =>
      if sel n then
        let done' := done || cancels n in
        if fails n || (sens n && done') then (([mk n], Some n), done')
        else let '((evs, res), d) := start_loop_cx mk sel fails cancels sens done' r in ((mk n :: evs, res), d)
      else start_loop_cx mk sel fails cancels sens done r
  end.

Fixpoint stop_loop_cx (mk : nat -> ev) (sel fails cancels sens : nat -> bool) (done : bool) (l : list nat)
  : (list ev * list nat) * bool :=
  match l with
  | [] => (([], []), done)
  | n :: r =>
      if sel n then
        let done' := done || cancels n in
        let '((evs, errs), d) := stop_loop_cx mk sel fails cancels sens done' r in
        ((mk n :: evs, if fails n || (sens n && done') then n :: errs else errs), d)
      else stop_loop_cx mk sel fails cancels sens done r
  end.

Definition none (_ : nat) : bool := false.

(* Service.Start(ctx): the notifications neither end nor consult the context *)
Definition service_start_cx (g : graph) (x : extset) (o : orders) (f : faults) (c : cx)
  : (list ev * list err) * bool :=
  let '((l1, r1), d1) := start_loop_cx XStart all (fx_start f) (xc_start c) (x_sens c) (d0_start c) (ext_order o) in
  match r1 with
  | Some e => ((l1, [ErrXStart e]), d1)
  | None =>
      let '(l2, e2) := if has_conf x then notify_config x f (ext_order o) else ([], []) in
      match e2 with
      | _ :: _ => ((l1 ++ l2, map ErrCfg e2), d1)
      | [] =>
          let '((l3, r3), d3) :=
            start_loop_cx CStart (is_comp g) (fc_start f) (cc_start c) (c_sens c) d1 (rev (start_order o)) in
          match r3 with
          | Some n => ((l1 ++ l2 ++ l3, [ErrCStart n]), d3)
          | None =>
              let '(l4, r4) := notify_ready x f (ext_order o) in
              ((l1 ++ l2 ++ l3 ++ l4, match r4 with Some e => [ErrReady e] | None => [] end), d3)
          end
      end
  end.

(* Service.Shutdown(ctx) *)
Definition service_shutdown_cx (g : graph) (x : extset) (o : orders) (f : faults) (c : cx) (done : bool)
  : list ev * list err :=
  let '(l1, e1) := notify_notready x f (ext_order o) in
  let '((l2, e2), d2) := stop_loop_cx CStop (is_comp g) (fc_stop f) (cc_stop c) (c_sens c) done (stop_order o) in
  let '((l3, e3), _) := stop_loop_cx XStop all (fx_stop f) (xc_stop c) (x_sens c) d2 (rev (ext_order o)) in
  (l1 ++ l2 ++ l3, map ErrNotReady e1 ++ map ErrCStop e2 ++ map ErrXStop e3).

Definition collector_run_cx (g : graph) (x : extset) (o : orders) (f : faults) (c : cx) : list ev * list err :=
  let '((ls, es), d) := service_start_cx g x o f c in
  match es with
  | _ :: _ => let '(ld, ed) := service_shutdown_cx g x o f c d in (ls ++ ld, es ++ ed)          (* same ctx *)
  | [] => let '(ld, ed) := service_shutdown_cx g x o f c (d0_stop c) in (ls ++ ld, ed)          (* its own ctx *)
  end.

(* ---- otelcol/collector.go Run with configuration reloads ------------------------------------------
   Every configuration builds a NEW service (new component instances): a generation.
     Run:  setupConfigurationComponents (generation 0; a failed Start => Shutdown, Run returns);
           control loop: a reload event => reloadConfiguration:
               col.service.Shutdown(ctx)  -- error => "failed to shutdown the retiring config", Run RETURNS
               setupConfigurationComponents (next generation; failed Start => its Shutdown) -- error => Run RETURNS
           a shutdown request => col.shutdown => col.service.Shutdown, Run returns.
   A failed reload returns WITHOUT any further shutdown: the service concerned has been shut down already.
   Result: for every service that was built, in order, its event log and the errors it contributed
   to what Run returns. *)
Record gen : Type := { gn_graph : graph; gn_ext : extset; gn_ord : orders; gn_faults : faults;
                       gn_close_fails : bool  (* the close function of the configuration retrieved for this generation fails *) }.

Definition gen_start (n : gen) := service_start (gn_graph n) (gn_ext n) (gn_ord n) (gn_faults n).
Definition gen_shutdown (n : gen) := service_shutdown (gn_graph n) (gn_ext n) (gn_ord n) (gn_faults n).
Definition gen_run (n : gen) := collector_run (gn_graph n) (gn_ext n) (gn_ord n) (gn_faults n).

(* collector.go shutdown:  if err := col.configProvider.Shutdown(ctx); err != nil { errs = append(errs, ...) }
                           if err := col.service.Shutdown(ctx); err != nil { errs = append(errs, ...) }
   Resolver.Shutdown closes the retrieved configuration (close function) and shuts the providers
   down; whatever they answer, the service is shut down. [pf]: the provider's Shutdown fails. *)
Definition provider_errs (pf : bool) (cur : gen) : list err :=
  (if gn_close_fails cur then [ErrProvider 1] else []) ++ (if pf then [ErrProvider 0] else []).

Definition collector_shutdown (pf : bool) (cur : gen) : list ev * list err :=
  let '(ld, ed) := gen_shutdown cur in (ld, provider_errs pf cur ++ ed).

(* the ways Run's control loop is left (collector.go Run, the select):
     configProvider.Watch() delivers an ERROR            -> logged, break LOOP
     an error on asyncErrorChannel                        -> logged, break LOOP
     a signal other than SIGHUP on signalsChannel         -> break LOOP
     shutdownChan (Collector.Shutdown())                  -> break LOOP
     ctx.Done()                                           -> return col.shutdown(context.Background())
   after LOOP: return col.shutdown(ctx).  Every one of them ends in col.shutdown. *)
Inductive trigger : Type := TWatchError | TAsyncError | TSignalTerm | TShutdownReq | TCtxDone.

Definition leave_loop (t : trigger) (pf : bool) (cur : gen) : list ev * list err :=
  match t with
  | TWatchError => collector_shutdown pf cur
  | TAsyncError => collector_shutdown pf cur
  | TSignalTerm => collector_shutdown pf cur
  | TShutdownReq => collector_shutdown pf cur
  | TCtxDone => collector_shutdown pf cur
  end.

(* [cur] is running (its Start produced [ls_cur] without error); [rest] = the configurations of
   the reload events still to come (config-watch event without error, or SIGHUP), then the trigger
   [t] that makes Run leave its loop.
   reloadConfiguration: the retiring service is shut down; then configProvider.Get re-resolves, which
   first closes the previous retrieval: if that fails no new service is built and Run returns. *)
Fixpoint reload_loop (t : trigger) (pf : bool) (cur : gen) (ls_cur : list ev) (rest : list gen) : list (list ev * list err) :=
  match rest with
  | [] => let '(ld, ed) := leave_loop t pf cur in [(ls_cur ++ ld, ed)]
  | nxt :: rest' =>
      let '(ld, ed) := gen_shutdown cur in
      match ed with
      | _ :: _ => [(ls_cur ++ ld, ed)]
      | [] =>
          if gn_close_fails cur then [(ls_cur ++ ld, [ErrProvider 1])]
          else
          let '(ls, es) := gen_start nxt in
          match es with
          | _ :: _ => let '(ld2, ed2) := gen_shutdown nxt in [(ls_cur ++ ld, []); (ls ++ ld2, es ++ ed2)]
          | [] => (ls_cur ++ ld, []) :: reload_loop t pf nxt ls rest'
          end
      end
  end.

Definition collector_run_reload (t : trigger) (pf : bool) (gens : list gen) : list (list ev * list err) :=
  match gens with
  | [] => []
  | g0 :: rest =>
      let '(ls, es) := gen_start g0 in
      match es with
      | _ :: _ => let '(ld, ed) := gen_shutdown g0 in [(ls ++ ld, es ++ ed)]
      | [] => reload_loop t pf g0 ls rest
      end
  end.

(* ---- the topological sort as an ALGORITHM ---------------------------------------------------------
   gonum topo.Sort returns one of the valid orders; which one depends on Go's map iteration order
   (service/extensions/graph.go computeOrder ranges over exts.extMap; simple.DirectedGraph keeps its
   nodes in maps).  The model algorithm has the same freedom: [pref] plays the role of the
   iteration order — at every step the first node of [pref ++ ns] that is still unplaced and has no
   unplaced predecessor is placed next.  With [pref] ranging over all lists its outputs are exactly
   the valid topological orders (soundness: Properties.topo_sort_sound; every valid order o is the
   output for pref = o: evaluated on every correspondence case, where pref = the order the
   implementation produced).  When no node is ready the remaining nodes contain a cycle; like
   cycleErr (topo.DirectedCyclesIn) the error names one. *)
Inductive sort_result : Type := Sorted (o : list nat) | Cyclic (c : list nat).

(* every predecessor of n is placed already (not among the remaining nodes) *)
Definition is_ready (es : list (nat * nat)) (remaining : list nat) (n : nat) : bool :=
  forallb (fun e => if Nat.eqb (snd e) n then negb (mem (fst e) remaining) else true) es.

Fixpoint first_ready (es : list (nat * nat)) (remaining pref : list nat) : option nat :=
  match pref with
  | [] => None
  | p :: r => if mem p remaining
              then (if is_ready es remaining p then Some p else first_ready es remaining r)
              else first_ready es remaining r
  end.

Definition remove_node (n : nat) (l : list nat) : list nat := filter (fun x => negb (Nat.eqb x n)) l.

(* a predecessor of cur that is still unplaced *)
Definition pred_in (es : list (nat * nat)) (remaining : list nat) (cur : nat) : option nat :=
  option_map fst (find (fun e => Nat.eqb (snd e) cur && mem (fst e) remaining) es).

Fixpoint take_to (p : nat) (l : list nat) : list nat :=
  match l with
  | [] => []
  | x :: r => if Nat.eqb x p then [] else x :: take_to p r
  end.

(* walk backwards along unplaced predecessors until a node repeats; [ch] = the walk so far,
   ch[0] -> ch[1] -> ... are edges *)
Fixpoint walk (fuel : nat) (es : list (nat * nat)) (remaining ch : list nat) : list nat :=
  match fuel with
  | 0 => []
  | S f =>
      match ch with
      | [] => []
      | cur :: _ =>
          match pred_in es remaining cur with
          | None => []
          | Some p => if mem p ch then p :: take_to p ch else walk f es remaining (p :: ch)
          end
      end
  end.

Definition find_cycle (es : list (nat * nat)) (remaining : list nat) : list nat :=
  match remaining with
  | [] => []
  | n :: _ => walk (S (length remaining)) es remaining [n]
  end.

Fixpoint topo_sort_aux (fuel : nat) (es : list (nat * nat)) (pref remaining placed_rev : list nat) : sort_result :=
  match remaining with
  | [] => Sorted (rev placed_rev)
  | _ :: _ =>
      match fuel with
      | 0 => Cyclic []
      | S f =>
          match first_ready es remaining pref with
          | Some n => topo_sort_aux f es pref (remove_node n remaining) (n :: placed_rev)
          | None => Cyclic (find_cycle es remaining)
          end
      end
  end.

Definition topo_sort (ns : list nat) (es : list (nat * nat)) (pref : list nat) : sort_result :=
  topo_sort_aux (length ns) es (pref ++ ns) ns [].

(* the cycle named by an error is a real one: consecutive nodes are joined by edges, and the last is
   joined to the first *)
Fixpoint chainb (es : list (nat * nat)) (l : list nat) : bool :=
  match l with
  | a :: ((b :: _) as r) => existsb (fun e => Nat.eqb (fst e) a && Nat.eqb (snd e) b) es && chainb es r
  | _ => true
  end.

Definition is_cycle (es : list (nat * nat)) (c : list nat) : bool :=
  match c with
  | [] => false
  | a :: _ => chainb es (c ++ [a])
  end.

(* extensions.New: computeOrder over the configured extensions; graph.Build / StartAll / ShutdownAll:
   topo.Sort over the component graph.  [None] = the service is not built (cycle error). *)
Definition orders_by (g : graph) (x : extset) (pe ps pp : list nat) : option orders :=
  match topo_sort (exts x) (deps x) pe, topo_sort (nodes g) (edges g) ps, topo_sort (nodes g) (edges g) pp with
  | Sorted eo, Sorted so, Sorted po => Some {| ext_order := eo; start_order := so; stop_order := po |}
  | _, _, _ => None
  end.

(* ---- which nodes of the component graph are components ---------------------------------------------
   StartAll / ShutdownAll:  comp, ok := node.(component.Component); if !ok { continue }
   The graph has six node types; the four that embed component.Component have Start and Shutdown in
   their method set, capabilitiesNode and fanOutNode do not.  (Obligation Proofs8.kind_is_comp_generated:
   this table equals the method sets read from the current source by translator T1.) *)
Inductive node_kind : Type := KReceiver | KProcessor | KExporter | KConnector | KCapabilities | KFanOut.

Definition kind_is_comp (k : node_kind) : bool :=
  match k with
  | KReceiver | KProcessor | KExporter | KConnector => true
  | KCapabilities | KFanOut => false
  end.

(* computeOrder as it is: gonum's simple.DirectedGraph.SetEdge PANICS ("simple: adding self edge")
   when an extension lists itself among its Dependencies(); every other dependency cycle is
   reported as an error naming a cycle.  None = the panic. *)
Definition compute_order (es_nodes : list nat) (ds : list (nat * nat)) (pref : list nat) : option sort_result :=
  if existsb (fun d => Nat.eqb (fst d) (snd d)) ds then None else Some (topo_sort es_nodes ds pref).

(* computeOrder: a dependency on an extension that is not configured is rejected before any sort
   ("unable to find extension %s on which extension %s depends") *)
Definition missing_dependency (es_nodes : list nat) (ds : list (nat * nat)) : bool :=
  existsb (fun d => negb (mem (fst d) es_nodes)) ds.

(* ---- lists the service accepts WITH repetitions ----------------------------------------------------
   service::extensions may name the same extension more than once (configuration validation only checks
   that every reference is configured).  extensions.New creates an instance per ENTRY but stores it in
   extMap keyed by ID (the later instance replaces the earlier one), and computeOrder builds its nodes
   from extMap: the extension SET is the de-duplicated list, each ID once.  The same holds for the
   receivers / exporters lists of a pipeline (graph nodes are keyed by (signal, id): createReceiver /
   createExporter return the existing node); duplicate processors are rejected by the validation
   ("references processor %q multiple times"). *)
Fixpoint dedup (l : list nat) : list nat :=
  match l with
  | [] => []
  | x :: r => if mem x r then dedup r else x :: dedup r
  end.

Definition extensions_new (configured : list nat) : list nat := dedup configured.
