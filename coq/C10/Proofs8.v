(* C10/Proofs8.v — obligation tying the hand-written table [kind_is_comp] (Model.v) to the method sets
   that translator T1 reads from the CURRENT source of service/internal/graph (Generated/C10NodeKinds.v). *)
From Coq Require Import String.
From Verif Require Import Common.Base C10.Model Generated.C10NodeKinds.

(* component.Component = interface { Start(context.Context, Host) error; Shutdown(context.Context) error } *)
Definition has_method (m : string) (ms : list string) : bool := existsb (String.eqb m) ms.
Definition implements_component (ms : list string) : bool :=
  has_method "Start"%string ms && has_method "Shutdown"%string ms.

Definition generated_method_set (k : node_kind) : list string :=
  match k with
  | KReceiver => ms_receiverNode | KProcessor => ms_processorNode | KExporter => ms_exporterNode
  | KConnector => ms_connectorNode | KCapabilities => ms_capabilitiesNode | KFanOut => ms_fanOutNode
  end.

Lemma l_kind_is_comp_generated : forall k, kind_is_comp k = implements_component (generated_method_set k).
Proof. intros k. destruct k; vm_compute; reflexivity. Qed.
