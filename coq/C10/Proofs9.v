(* C10/Proofs9.v — the decidable checker of Checker.v decides exactly the clauses. *)
From Verif Require Import Common.Base C10.Model C10.Checker C10.Proofs1.

Lemma ev_eqb_spec a b : ev_eqb a b = true <-> a = b.
Proof.
  destruct a, b; simpl; try (split; [discriminate|congruence]);
    rewrite Nat.eqb_eq; split; congruence.
Qed.

Lemma err_eqb_spec a b : err_eqb a b = true <-> a = b.
Proof.
  destruct a, b; simpl; try (split; [discriminate|congruence]);
    rewrite Nat.eqb_eq; split; congruence.
Qed.

Lemma ev_eqb_refl a : ev_eqb a a = true.
Proof. apply ev_eqb_spec. reflexivity. Qed.

Lemma before_go_iff a b : forall l seen,
  before_go a b seen l = true <-> (forall l1 l2, l = l1 ++ b :: l2 -> seen = true \/ In a l1).
Proof.
  induction l as [|x r IH]; intros seen; simpl.
  - split; [intros _ l1 l2 E; destruct l1; discriminate|reflexivity].
  - rewrite andb_true_iff, IH. split.
    + intros [H1 H2] l1 l2 E. destruct l1 as [|y l1]; simpl in E; inversion E; subst.
      * rewrite ev_eqb_refl in H1. left. exact H1.
      * destruct (H2 l1 l2 eq_refl) as [H|H]; [|right; right; exact H].
        apply orb_true_iff in H. destruct H as [H|H]; [left; exact H|right; left; apply ev_eqb_spec; exact H].
    + intros H. split.
      * destruct (ev_eqb x b) eqn:E; [|reflexivity]. apply ev_eqb_spec in E. subst.
        destruct (H [] r eq_refl) as [H1|[]]. exact H1.
      * intros l1 l2 E. subst r. destruct (H (x :: l1) l2 eq_refl) as [H1|[H1|H1]].
        -- left. rewrite H1. reflexivity.
        -- left. subst. rewrite ev_eqb_refl. apply orb_true_r.
        -- right. exact H1.
Qed.

Lemma before_b_iff a b l : before_b a b l = true <-> beforeP a b l.
Proof.
  unfold before_b, beforeP. rewrite before_go_iff. split; intros H l1 l2 E.
  - destruct (H l1 l2 E) as [H1|H1]; [discriminate|exact H1].
  - right. eapply H; eauto.
Qed.

Lemma in_log_iff e l : in_log e l = true <-> In e l.
Proof.
  unfold in_log. rewrite existsb_exists. split.
  - intros (x & Hx & E). apply ev_eqb_spec in E. subst. exact Hx.
  - intros H. exists e. split; [exact H|apply ev_eqb_refl].
Qed.

Lemma in_errs_iff e l : in_errs e l = true <-> In e l.
Proof.
  unfold in_errs. rewrite existsb_exists. split.
  - intros (x & Hx & E). apply err_eqb_spec in E. subst. exact Hx.
  - intros H. exists e. split; [exact H|apply err_eqb_spec; reflexivity].
Qed.

Lemma hd_is_iff e l : hd_is e l = true <-> exists tl, l = e :: tl.
Proof.
  destruct l as [|x l]; simpl.
  - split; [discriminate|intros [tl E]; discriminate].
  - rewrite err_eqb_spec. split; [intros ->; eexists; reflexivity|intros [tl E]; inversion E; reflexivity].
Qed.

Lemma no_start_iff r : forallb (fun e => negb (is_start e)) r = true <-> forall e, In e r -> is_start e = false.
Proof.
  rewrite forallb_forall. split; intros H e He; specialize (H e He).
  - apply negb_true_iff. exact H.
  - apply negb_true_iff. exact H.
Qed.

Definition abortP (fcs fxs : list nat) (errs : list err) (l : list ev) : Prop :=
  forall l1 x l2, l = l1 ++ x :: l2 ->
    (forall n, x = CStart n -> In n fcs -> (forall e, In e l2 -> is_start e = false) /\ exists tl, errs = ErrCStart n :: tl) /\
    (forall n, x = XStart n -> In n fxs -> (forall e, In e l2 -> is_start e = false) /\ exists tl, errs = ErrXStart n :: tl).

Lemma abort_head_iff fcs fxs errs x r :
  (match x with
   | CStart n => if mem n fcs then forallb (fun e => negb (is_start e)) r && hd_is (ErrCStart n) errs else true
   | XStart n => if mem n fxs then forallb (fun e => negb (is_start e)) r && hd_is (ErrXStart n) errs else true
   | _ => true
   end) = true <->
  ((forall n, x = CStart n -> In n fcs -> (forall e, In e r -> is_start e = false) /\ exists tl, errs = ErrCStart n :: tl) /\
   (forall n, x = XStart n -> In n fxs -> (forall e, In e r -> is_start e = false) /\ exists tl, errs = ErrXStart n :: tl)).
Proof.
  destruct x as [e|e|n|e|e|e|e|e|e]; try (split; [intros _; split; intros m E; discriminate|reflexivity]).
  - destruct (mem e fxs) eqn:M.
    + rewrite andb_true_iff, no_start_iff, hd_is_iff. split.
      * intros H. split; intros n E Hin; [discriminate|]. inversion E; subst. exact H.
      * intros [_ H]. apply (H e eq_refl). apply mem_In. exact M.
    + split; [|reflexivity]. intros _. split; intros n E Hin; [discriminate|].
      inversion E; subst. apply mem_In in Hin. congruence.
  - destruct (mem n fcs) eqn:M.
    + rewrite andb_true_iff, no_start_iff, hd_is_iff. split.
      * intros H. split; intros m E Hin; [|discriminate]. inversion E; subst. exact H.
      * intros [H _]. apply (H n eq_refl). apply mem_In. exact M.
    + split; [|reflexivity]. intros _. split; intros m E Hin; [|discriminate].
      inversion E; subst. apply mem_In in Hin. congruence.
Qed.

Lemma abort_go_iff fcs fxs errs : forall l, abort_go fcs fxs errs l = true <-> abortP fcs fxs errs l.
Proof.
  induction l as [|x r IH].
  - simpl. split; [intros _ l1 y l2 E; destruct l1; discriminate|reflexivity].
  - change (abort_go fcs fxs errs (x :: r)) with
      ((match x with
        | CStart n => if mem n fcs then forallb (fun e => negb (is_start e)) r && hd_is (ErrCStart n) errs else true
        | XStart n => if mem n fxs then forallb (fun e => negb (is_start e)) r && hd_is (ErrXStart n) errs else true
        | _ => true end) && abort_go fcs fxs errs r).
    rewrite andb_true_iff, abort_head_iff, IH. unfold abortP. split.
    + intros [H1 H2] l1 y l2 E. destruct l1 as [|z l1]; simpl in E; inversion E; subst.
      * exact H1.
      * apply (H2 l1 y l2 eq_refl).
    + intros H. split.
      * apply (H [] x r eq_refl).
      * intros l1 y l2 E. subst r. apply (H (x :: l1) y l2 eq_refl).
Qed.

Lemma forallb2_iff {A B} (f : A -> B -> bool) (P : A -> B -> Prop) la lb :
  (forall a b, f a b = true <-> P a b) ->
  (forallb (fun a => forallb (f a) lb) la = true <-> forall a b, In a la -> In b lb -> P a b).
Proof.
  intros H. rewrite forallb_forall. split.
  - intros G a b Ha Hb. specialize (G a Ha). rewrite forallb_forall in G. apply H. apply G. exact Hb.
  - intros G a Ha. apply forallb_forall. intros b Hb. apply H. apply G; assumption.
Qed.

Theorem l_prop_ok_iff o : prop_ok o = true <-> Clauses o.
Proof.
  unfold prop_ok, Clauses. rewrite !andb_true_iff.
  assert (E1 : b_count o = true <-> C_count o).
  { unfold b_count, C_count. rewrite andb_true_iff, !forallb_forall. split.
    - intros [A B]. split; intros n Hn; [specialize (A n Hn)|specialize (B n Hn)];
        [apply andb_true_iff in A; destruct A as [A1 A2]|apply andb_true_iff in B; destruct B as [A1 A2]];
        apply Nat.leb_le in A1; apply Nat.eqb_eq in A2; auto.
    - intros [A B]. split; intros n Hn; [destruct (A n Hn) as [A1 A2]|destruct (B n Hn) as [A1 A2]];
        apply andb_true_iff; split; [apply Nat.leb_le|apply Nat.eqb_eq|apply Nat.leb_le|apply Nat.eqb_eq]; assumption. }
  assert (E2 : b_start_order o = true <-> C_start_order o).
  { unfold b_start_order, C_start_order. rewrite forallb_forall. split.
    - intros H u v Hin. apply before_b_iff. apply (H (u, v) Hin).
    - intros H [u v] Hin. apply before_b_iff. apply H. exact Hin. }
  assert (E3 : b_stop_order o = true <-> C_stop_order o).
  { unfold b_stop_order, C_stop_order. rewrite forallb_forall. split.
    - intros H u v Hin. apply before_b_iff. apply (H (u, v) Hin).
    - intros H [u v] Hin. apply before_b_iff. apply H. exact Hin. }
  assert (E4 : b_ext_first o = true <-> C_ext_first o).
  { unfold b_ext_first, C_ext_first. apply forallb2_iff. intros a b. apply before_b_iff. }
  assert (E5 : b_ext_last o = true <-> C_ext_last o).
  { unfold b_ext_last, C_ext_last. apply forallb2_iff. intros a b. apply before_b_iff. }
  assert (E6 : b_ext_deps o = true <-> C_ext_deps o).
  { unfold b_ext_deps, C_ext_deps. rewrite forallb_forall. split.
    - intros H d e Hin. specialize (H (d, e) Hin). apply andb_true_iff in H. destruct H as [H1 H2].
      split; apply before_b_iff; assumption.
    - intros H [d e] Hin. destruct (H d e Hin) as [H1 H2]. apply andb_true_iff. split; apply before_b_iff; assumption. }
  assert (E7 : b_abort o = true <-> C_abort o).
  { unfold b_abort, C_abort. rewrite abort_go_iff. reflexivity. }
  assert (E8 : b_stop_reported o = true <-> C_stop_reported o).
  { unfold b_stop_reported, C_stop_reported. rewrite andb_true_iff, !forallb_forall. split.
    - intros [A B]. split; intros n Hn Hl; [specialize (A n Hn)|specialize (B n Hn)].
      + apply in_log_iff in Hl. rewrite Hl in A. apply in_errs_iff. exact A.
      + apply in_log_iff in Hl. rewrite Hl in B. apply in_errs_iff. exact B.
    - intros [A B]. split; intros n Hn.
      + destruct (in_log (CStop n) (o_log o)) eqn:L; [|reflexivity]. apply in_errs_iff. apply A; [exact Hn|apply in_log_iff; exact L].
      + destruct (in_log (XStop n) (o_log o)) eqn:L; [|reflexivity]. apply in_errs_iff. apply B; [exact Hn|apply in_log_iff; exact L]. }
  rewrite E1, E2, E3, E4, E5, E6, E7, E8. tauto.
Qed.

(* the checker reports a clause exactly when it fails *)
Lemma l_violated_nil o : violated o = [] <-> prop_ok o = true.
Proof.
  unfold violated, prop_ok.
  destruct (b_count o), (b_start_order o), (b_stop_order o), (b_ext_first o), (b_ext_last o), (b_ext_deps o),
    (b_abort o), (b_stop_reported o); simpl; split; intros H; try reflexivity; try discriminate.
Qed.
