(* C10/Proofs5.v — the context handed to Start / Shutdown is never consulted by the life-cycle loops. *)
From Verif Require Import Common.Base C10.Model C10.Proofs1 C10.Proofs2 C10.Proofs3 C10.Proofs4.

(* a live context that nobody ends: the context-aware loops are the plain loops *)
Lemma start_loop_cx_live mk sel fails sens l :
  start_loop_cx mk sel fails none sens false l = (start_loop mk sel fails l, false).
Proof.
  induction l as [|a l IH]; simpl; [reflexivity|]. destruct (sel a); [|exact IH].
  change (none a) with false. simpl. rewrite andb_false_r, orb_false_r. destruct (fails a); [reflexivity|].
  rewrite IH. destruct (start_loop mk sel fails l). reflexivity.
Qed.

Lemma stop_loop_cx_live mk sel fails sens l :
  stop_loop_cx mk sel fails none sens false l = (stop_loop mk sel fails l, false).
Proof.
  induction l as [|a l IH]; simpl; [reflexivity|]. destruct (sel a).
  - change (none a) with false. simpl. rewrite IH.
    destruct (stop_loop mk sel fails l). rewrite andb_false_r, orb_false_r. reflexivity.
  - rewrite IH. destruct (stop_loop mk sel fails l). reflexivity.
Qed.

Definition live_cx (c : cx) : Prop :=
  d0_start c = false /\ d0_stop c = false /\
  xc_start c = none /\ cc_start c = none /\ xc_stop c = none /\ cc_stop c = none.

Lemma l_run_cx_live g x o f c : live_cx c -> collector_run_cx g x o f c = collector_run g x o f.
Proof.
  intros (H1 & H2 & H3 & H4 & H5 & H6).
  unfold collector_run_cx, collector_run, service_start_cx, service_start, service_shutdown_cx, service_shutdown,
    ext_start, ext_shutdown, graph_start_all, graph_shutdown_all.
  rewrite H1, H2, H3, H4, H5, H6. rewrite start_loop_cx_live.
  assert (FIN : forall (A : Type) (k : list ev * list err -> A),
     k (let '(l0, e1) := notify_notready x f (ext_order o) in
        let '(l3, e2, d2) := stop_loop_cx CStop (is_comp g) (fc_stop f) none (c_sens c) false (stop_order o) in
        let '(l4, e3, _) := stop_loop_cx XStop all (fx_stop f) none (x_sens c) d2 (rev (ext_order o)) in
        (l0 ++ l3 ++ l4, map ErrNotReady e1 ++ map ErrCStop e2 ++ map ErrXStop e3)) =
     k (let '(l0, e1) := notify_notready x f (ext_order o) in
        let '(l3, e2) := stop_loop CStop (is_comp g) (fc_stop f) (stop_order o) in
        let '(l4, e3) := stop_loop XStop all (fx_stop f) (rev (ext_order o)) in
        (l0 ++ l3 ++ l4, map ErrNotReady e1 ++ map ErrCStop e2 ++ map ErrXStop e3))).
  { intros A k. f_equal. destruct (notify_notready x f (ext_order o)) as [n1 n2].
    rewrite stop_loop_cx_live. destruct (stop_loop CStop (is_comp g) (fc_stop f) (stop_order o)).
    rewrite stop_loop_cx_live. destruct (stop_loop XStop all (fx_stop f) (rev (ext_order o))). reflexivity. }
  destruct (start_loop XStart all (fx_start f) (ext_order o)) as [l1 [e|]]; cbv beta iota.
  - apply (FIN _ (fun r => let '(ld, ed) := r in (l1 ++ ld, [ErrXStart e] ++ ed))).
  - destruct (if has_conf x then notify_config x f (ext_order o) else ([], [])) as [l2 [|c2 e2]].
    + rewrite start_loop_cx_live.
      destruct (start_loop CStart (is_comp g) (fc_start f) (rev (start_order o))) as [l3 [n|]]; cbv beta iota.
      * apply (FIN _ (fun r => let '(ld, ed) := r in ((l1 ++ l2 ++ l3) ++ ld, [ErrCStart n] ++ ed))).
      * destruct (notify_ready x f (ext_order o)) as [l4 [e|]]; cbv beta iota.
        -- apply (FIN _ (fun r => let '(ld, ed) := r in ((l1 ++ l2 ++ l3 ++ l4) ++ ld, [ErrReady e] ++ ed))).
        -- apply (FIN _ (fun r => let '(ld, ed) := r in ((l1 ++ l2 ++ l3 ++ l4) ++ ld, ed))).
    + apply (FIN _ (fun r => let '(ld, ed) := r in ((l1 ++ l2) ++ ld, map ErrCfg (c2 :: e2) ++ ed))).
Qed.

(* whatever the context does, a stop loop calls every selected element, and reports at least
   the calls that fail on their own *)
Lemma stop_loop_cx_events mk sel fails cancels sens : forall l done,
  fst (fst (stop_loop_cx mk sel fails cancels sens done l)) = map mk (filter sel l).
Proof.
  induction l as [|a l IH]; intros done; simpl; [reflexivity|]. destruct (sel a).
  - specialize (IH (done || cancels a)).
    destruct (stop_loop_cx mk sel fails cancels sens (done || cancels a) l) as [[evs errs] d]. simpl in *.
    rewrite IH. reflexivity.
  - apply IH.
Qed.

Lemma stop_loop_cx_errs mk sel fails cancels sens : forall l done n,
  In n (filter sel l) -> fails n = true -> In n (snd (fst (stop_loop_cx mk sel fails cancels sens done l))).
Proof.
  induction l as [|a l IH]; intros done n Hin Hf; simpl in *; [destruct Hin|]. destruct (sel a).
  - specialize (IH (done || cancels a) n).
    destruct (stop_loop_cx mk sel fails cancels sens (done || cancels a) l) as [[evs errs] d]. simpl in *.
    destruct Hin as [->|Hin].
    + rewrite Hf. simpl. left. reflexivity.
    + destruct (fails a || sens a && (done || cancels a)); [right|]; auto.
  - apply IH; assumption.
Qed.

(* errors reported by a context-aware stop loop are calls it made *)
Lemma stop_loop_cx_errs_sub mk sel fails cancels sens : forall l done n,
  In n (snd (fst (stop_loop_cx mk sel fails cancels sens done l))) -> In n (filter sel l).
Proof.
  induction l as [|a l IH]; intros done n Hin; simpl in *; [destruct Hin|]. destruct (sel a).
  - specialize (IH (done || cancels a) n).
    destruct (stop_loop_cx mk sel fails cancels sens (done || cancels a) l) as [[evs errs] d]. simpl in *.
    destruct (fails a || sens a && (done || cancels a)); [destruct Hin as [->|Hin]; [left; reflexivity|right; auto]|right; auto].
  - eapply IH; eauto.
Qed.

Lemma l_shutdown_ignores_context g x o f c done :
  fst (service_shutdown_cx g x o f c done) = fst (service_shutdown g x o f).
Proof.
  rewrite shutdown_eq. unfold service_shutdown_cx, notify_notready. rewrite stop_loop_eq. simpl.
  pose proof (stop_loop_cx_events CStop (is_comp g) (fc_stop f) (cc_stop c) (c_sens c) (stop_order o) done) as E2.
  destruct (stop_loop_cx CStop (is_comp g) (fc_stop f) (cc_stop c) (c_sens c) done (stop_order o)) as [[l2 e2] d2].
  pose proof (stop_loop_cx_events XStop all (fx_stop f) (xc_stop c) (x_sens c) (rev (ext_order o)) d2) as E3.
  destruct (stop_loop_cx XStop all (fx_stop f) (xc_stop c) (x_sens c) d2 (rev (ext_order o))) as [[l3 e3] d3].
  simpl in *. rewrite E2, E3. rewrite filter_all. reflexivity.
Qed.

(* failing Shutdown calls are still reported under any context *)
Lemma l_shutdown_cx_reports g x o f c done n :
  (In n (stop_seq g o) -> fc_stop f n = true -> In (ErrCStop n) (snd (service_shutdown_cx g x o f c done))) /\
  (In n (ext_order o) -> fx_stop f n = true -> In (ErrXStop n) (snd (service_shutdown_cx g x o f c done))).
Proof.
  unfold service_shutdown_cx. destruct (notify_notready x f (ext_order o)) as [l1 e1].
  pose proof (stop_loop_cx_errs CStop (is_comp g) (fc_stop f) (cc_stop c) (c_sens c) (stop_order o) done n) as E2.
  destruct (stop_loop_cx CStop (is_comp g) (fc_stop f) (cc_stop c) (c_sens c) done (stop_order o)) as [[l2 e2] d2].
  pose proof (stop_loop_cx_errs XStop all (fx_stop f) (xc_stop c) (x_sens c) (rev (ext_order o)) d2 n) as E3.
  destruct (stop_loop_cx XStop all (fx_stop f) (xc_stop c) (x_sens c) d2 (rev (ext_order o))) as [[l3 e3] d3].
  simpl in *. split; intros Hin Hf.
  - apply in_or_app. right. apply in_or_app. left. apply in_map. apply E2; assumption.
  - apply in_or_app. right. apply in_or_app. right. apply in_map. apply E3; [|assumption].
    rewrite filter_all. rewrite <- in_rev. exact Hin.
Qed.

(* the events of a context-aware start loop are calls *)
Lemma start_loop_cx_events mk sel fails cancels sens : forall l done e,
  In e (fst (fst (start_loop_cx mk sel fails cancels sens done l))) -> exists n, e = mk n.
Proof.
  induction l as [|a l IH]; intros done e Hin; simpl in *; [destruct Hin|]. destruct (sel a).
  - destruct (fails a || sens a && (done || cancels a)).
    + simpl in Hin. destruct Hin as [<-|[]]. exists a. reflexivity.
    + specialize (IH (done || cancels a) e).
      destruct (start_loop_cx mk sel fails cancels sens (done || cancels a) l) as [[evs res] d]. simpl in *.
      destruct Hin as [<-|Hin]; [exists a; reflexivity|auto].
  - eapply IH; eauto.
Qed.

(* Service.Start never issues a Shutdown call, whatever the context does *)
Lemma start_cx_no_stop g x o f c e :
  In e (fst (fst (service_start_cx g x o f c))) -> is_stop_ev e = false.
Proof.
  unfold service_start_cx, notify_config, notify_ready.
  pose proof (start_loop_cx_events XStart all (fx_start f) (xc_start c) (x_sens c) (ext_order o) (d0_start c)) as E1.
  destruct (start_loop_cx XStart all (fx_start f) (xc_start c) (x_sens c) (d0_start c) (ext_order o)) as [[l1 r1] d1].
  simpl in E1.
  assert (H1 : In e l1 -> is_stop_ev e = false) by (intros H; destruct (E1 e H) as [n ->]; reflexivity).
  assert (H2 : In e (fst (if has_conf x then stop_loop NCfg (fun e0 => mem e0 (cfgw x)) (f_cfg f) (ext_order o) else ([], []))) -> is_stop_ev e = false).
  { destruct (has_conf x); [|intros []]. rewrite stop_loop_eq. simpl. intros H. apply in_map_iff in H. destruct H as (n & <- & _). reflexivity. }
  destruct r1 as [e1|]; [exact H1|].
  destruct (if has_conf x then stop_loop NCfg (fun e0 => mem e0 (cfgw x)) (f_cfg f) (ext_order o) else ([], [])) as [l2 e2].
  simpl in H2. destruct e2 as [|c2 e2].
  - pose proof (start_loop_cx_events CStart (is_comp g) (fc_start f) (cc_start c) (c_sens c) (rev (start_order o)) d1) as E3.
    destruct (start_loop_cx CStart (is_comp g) (fc_start f) (cc_start c) (c_sens c) d1 (rev (start_order o))) as [[l3 r3] d3].
    simpl in E3.
    assert (H3 : In e l3 -> is_stop_ev e = false) by (intros H; destruct (E3 e H) as [n ->]; reflexivity).
    destruct r3 as [n|].
    + simpl. intros H. repeat (apply in_app_or in H; destruct H as [H|H]); auto.
    + rewrite start_loop_eq. simpl. intros H. repeat (apply in_app_or in H; destruct H as [H|H]); auto.
      apply in_map_iff in H. destruct H as (n & <- & _). reflexivity.
  - simpl. intros H. apply in_app_or in H. destruct H as [H|H]; auto.
Qed.

(* the life time under any context: Start's events, then the complete shutdown sequence *)
Lemma l_run_cx_shape g x o f c :
  exists ls, fst (collector_run_cx g x o f c) = ls ++ fst (service_shutdown g x o f) /\
             (forall e, In e ls -> is_stop_ev e = false).
Proof.
  unfold collector_run_cx. pose proof (start_cx_no_stop g x o f c) as Hs.
  destruct (service_start_cx g x o f c) as [[ls es] d]. simpl in Hs. exists ls. split; [|intros e; apply Hs].
  destruct es.
  - pose proof (l_shutdown_ignores_context g x o f c (d0_stop c)) as E.
    destruct (service_shutdown_cx g x o f c (d0_stop c)). simpl in *. rewrite E. reflexivity.
  - pose proof (l_shutdown_ignores_context g x o f c d) as E.
    destruct (service_shutdown_cx g x o f c d). simpl in *. rewrite E. reflexivity.
Qed.

Lemma l_exactly_one_stop_any_context g x o f c : orders_ok g x o = true -> forall n,
  (In n (comps g) -> count (CStop n) (fst (collector_run_cx g x o f c)) = 1) /\
  (In n (exts x) -> count (XStop n) (fst (collector_run_cx g x o f c)) = 1).
Proof.
  intros H n. destruct (orders_ok_facts _ _ _ H) as (H1 & H2 & H3).
  destruct (l_run_cx_shape g x o f c) as (ls & -> & Hns).
  assert (Z : forall e, is_stop_ev e = true -> count e ls = 0).
  { intros e He. apply count_occ_not_In. intro Hin. rewrite (Hns e Hin) in He. discriminate. }
  rewrite shutdown_eq. simpl. split; intros Hn.
  - unfold count in *. rewrite !count_occ_app. rewrite (Z (CStop n) eq_refl).
    rewrite (proj1 (count_occ_not_In ev_eq_dec _ (CStop n))); [|intro Hx; apply in_map_iff in Hx; destruct Hx as (y & E & _); discriminate].
    rewrite (proj1 (count_occ_not_In ev_eq_dec (map XStop _) (CStop n))); [|intro Hx; apply in_map_iff in Hx; destruct Hx as (y & E & _); discriminate].
    rewrite <- (count_occ_map CStop Nat.eq_dec ev_eq_dec); [|intros a b E; inversion E; reflexivity].
    rewrite (proj1 (NoDup_count_occ' Nat.eq_dec (stop_seq g o)) (nodup_stop_seq g o H3) n); [lia|].
    apply (in_stop_seq g o H3). exact Hn.
  - unfold count in *. rewrite !count_occ_app. rewrite (Z (XStop n) eq_refl).
    rewrite (proj1 (count_occ_not_In ev_eq_dec _ (XStop n))); [|intro Hx; apply in_map_iff in Hx; destruct Hx as (y & E & _); discriminate].
    rewrite (proj1 (count_occ_not_In ev_eq_dec (map CStop _) (XStop n))); [|intro Hx; apply in_map_iff in Hx; destruct Hx as (y & E & _); discriminate].
    rewrite <- (count_occ_map XStop Nat.eq_dec ev_eq_dec); [|intros a b E; inversion E; reflexivity].
    rewrite (proj1 (NoDup_count_occ' Nat.eq_dec (rev (ext_order o))) (@NoDup_rev _ _ (nodup_eo x o H1)) n); [lia|].
    rewrite <- in_rev. apply (in_eo x o H1). exact Hn.
Qed.
