(* C10/Checker.v — a decidable checker of the property's clauses over the OBSERVED behaviour of the
   implementation (event log + reported errors + the topology and the injected failures), independent
   of the model's step functions.  Executable definitions and the Prop-level statement of every
   clause; [Proofs9.prop_ok_iff] proves  prop_ok o = true <-> Clauses o. *)
From Verif Require Import Common.Base C10.Model.

Record obs : Type := {
  o_comps : list nat; o_exts : list nat;
  o_sends : list (nat * nat);   (* (u, v): component u sends data (directly) to component v *)
  o_deps : list (nat * nat);    (* (d, e): extension e depends on d *)
  o_fcs : list nat; o_fxs : list nat;   (* components / extensions whose Start was made to fail *)
  o_fcp : list nat; o_fxp : list nat;   (* ... whose Shutdown was made to fail *)
  o_log : list ev; o_errs : list err
}.

Definition ev_eqb (a b : ev) : bool :=
  match a, b with
  | XStart n, XStart m | XStop n, XStop m | CStart n, CStart m | CStop n, CStop m
  | NCfg n, NCfg m | NReady n, NReady m | NNotReady n, NNotReady m | IStart n, IStart m | IStop n, IStop m => Nat.eqb n m
  | _, _ => false
  end.

Definition err_eqb (a b : err) : bool :=
  match a, b with
  | ErrXStart n, ErrXStart m | ErrXStop n, ErrXStop m | ErrCStart n, ErrCStart m | ErrCStop n, ErrCStop m
  | ErrCfg n, ErrCfg m | ErrReady n, ErrReady m | ErrNotReady n, ErrNotReady m | ErrProvider n, ErrProvider m => Nat.eqb n m
  | _, _ => false
  end.

Definition countb (e : ev) (l : list ev) : nat := length (filter (ev_eqb e) l).

(* at every occurrence of b, a has occurred earlier *)
Fixpoint before_go (a b : ev) (seen : bool) (l : list ev) : bool :=
  match l with
  | [] => true
  | x :: r => (if ev_eqb x b then seen else true) && before_go a b (seen || ev_eqb x a) r
  end.
Definition before_b (a b : ev) (l : list ev) : bool := before_go a b false l.

Definition is_start (e : ev) : bool := match e with XStart _ | CStart _ => true | _ => false end.

Definition hd_is (e : err) (l : list err) : bool := match l with x :: _ => err_eqb x e | [] => false end.

(* an injected start failure, when it happens, is the last Start call and its error is reported first *)
Fixpoint abort_go (fcs fxs : list nat) (errs : list err) (l : list ev) : bool :=
  match l with
  | [] => true
  | x :: r =>
      (match x with
       | CStart n => if mem n fcs then forallb (fun e => negb (is_start e)) r && hd_is (ErrCStart n) errs else true
       | XStart n => if mem n fxs then forallb (fun e => negb (is_start e)) r && hd_is (ErrXStart n) errs else true
       | _ => true
       end) && abort_go fcs fxs errs r
  end.

Definition in_log (e : ev) (l : list ev) : bool := existsb (ev_eqb e) l.
Definition in_errs (e : err) (l : list err) : bool := existsb (err_eqb e) l.

(* ---- the clauses, boolean ------------------------------------------------------------------------- *)
Definition b_count (o : obs) : bool :=
  forallb (fun n => Nat.leb (countb (CStart n) (o_log o)) 1 && Nat.eqb (countb (CStop n) (o_log o)) 1) (o_comps o) &&
  forallb (fun n => Nat.leb (countb (XStart n) (o_log o)) 1 && Nat.eqb (countb (XStop n) (o_log o)) 1) (o_exts o).
Definition b_start_order (o : obs) : bool :=
  forallb (fun p => before_b (CStart (snd p)) (CStart (fst p)) (o_log o)) (o_sends o).
Definition b_stop_order (o : obs) : bool :=
  forallb (fun p => before_b (CStop (fst p)) (CStop (snd p)) (o_log o)) (o_sends o).
Definition b_ext_first (o : obs) : bool :=
  forallb (fun e => forallb (fun n => before_b (XStart e) (CStart n) (o_log o)) (o_comps o)) (o_exts o).
Definition b_ext_last (o : obs) : bool :=
  forallb (fun e => forallb (fun n => before_b (CStop n) (XStop e) (o_log o)) (o_comps o)) (o_exts o).
Definition b_ext_deps (o : obs) : bool :=
  forallb (fun p => before_b (XStart (fst p)) (XStart (snd p)) (o_log o) &&
                    before_b (XStop (snd p)) (XStop (fst p)) (o_log o)) (o_deps o).
Definition b_abort (o : obs) : bool := abort_go (o_fcs o) (o_fxs o) (o_errs o) (o_log o).
Definition b_stop_reported (o : obs) : bool :=
  forallb (fun n => if in_log (CStop n) (o_log o) then in_errs (ErrCStop n) (o_errs o) else true) (o_fcp o) &&
  forallb (fun n => if in_log (XStop n) (o_log o) then in_errs (ErrXStop n) (o_errs o) else true) (o_fxp o).

Definition prop_ok (o : obs) : bool :=
  b_count o && b_start_order o && b_stop_order o && b_ext_first o && b_ext_last o && b_ext_deps o &&
  b_abort o && b_stop_reported o.

(* which clauses are violated: 1 count 2 start-order 3 stop-order 4 extensions-first 5 extensions-last
   6 extension-dependencies 7 start-failure-aborts 8 shutdown-failure-reported *)
Definition violated (o : obs) : list nat :=
  (if b_count o then [] else [1]) ++ (if b_start_order o then [] else [2]) ++ (if b_stop_order o then [] else [3]) ++
  (if b_ext_first o then [] else [4]) ++ (if b_ext_last o then [] else [5]) ++ (if b_ext_deps o then [] else [6]) ++
  (if b_abort o then [] else [7]) ++ (if b_stop_reported o then [] else [8]).

(* ---- the clauses, as propositions (the statements of the theorems of Properties.v, over an
   arbitrary observed log) ---------------------------------------------------------------------------- *)
Definition beforeP (a b : ev) (l : list ev) : Prop := forall l1 l2, l = l1 ++ b :: l2 -> In a l1.

Definition C_count (o : obs) : Prop :=
  (forall n, In n (o_comps o) -> countb (CStart n) (o_log o) <= 1 /\ countb (CStop n) (o_log o) = 1) /\
  (forall n, In n (o_exts o) -> countb (XStart n) (o_log o) <= 1 /\ countb (XStop n) (o_log o) = 1).
Definition C_start_order (o : obs) : Prop :=
  forall u v, In (u, v) (o_sends o) -> beforeP (CStart v) (CStart u) (o_log o).
Definition C_stop_order (o : obs) : Prop :=
  forall u v, In (u, v) (o_sends o) -> beforeP (CStop u) (CStop v) (o_log o).
Definition C_ext_first (o : obs) : Prop :=
  forall e n, In e (o_exts o) -> In n (o_comps o) -> beforeP (XStart e) (CStart n) (o_log o).
Definition C_ext_last (o : obs) : Prop :=
  forall e n, In e (o_exts o) -> In n (o_comps o) -> beforeP (CStop n) (XStop e) (o_log o).
Definition C_ext_deps (o : obs) : Prop :=
  forall d e, In (d, e) (o_deps o) ->
    beforeP (XStart d) (XStart e) (o_log o) /\ beforeP (XStop e) (XStop d) (o_log o).
Definition C_abort (o : obs) : Prop :=
  forall l1 x l2, o_log o = l1 ++ x :: l2 ->
    (forall n, x = CStart n -> In n (o_fcs o) ->
       (forall e, In e l2 -> is_start e = false) /\ exists tl, o_errs o = ErrCStart n :: tl) /\
    (forall n, x = XStart n -> In n (o_fxs o) ->
       (forall e, In e l2 -> is_start e = false) /\ exists tl, o_errs o = ErrXStart n :: tl).
Definition C_stop_reported (o : obs) : Prop :=
  (forall n, In n (o_fcp o) -> In (CStop n) (o_log o) -> In (ErrCStop n) (o_errs o)) /\
  (forall n, In n (o_fxp o) -> In (XStop n) (o_log o) -> In (ErrXStop n) (o_errs o)).

Definition Clauses (o : obs) : Prop :=
  C_count o /\ C_start_order o /\ C_stop_order o /\ C_ext_first o /\ C_ext_last o /\ C_ext_deps o /\
  C_abort o /\ C_stop_reported o.

(* ---- well-formedness of a recorded topology (the hypothesis [wf_topology] of the theorems about the
   sort algorithm): no duplicate ids, every edge / dependency between recorded nodes / extensions *)
Definition edges_in_b (ns : list nat) (es : list (nat * nat)) : bool :=
  forallb (fun e => mem (fst e) ns && mem (snd e) ns) es.
Definition wf_b (g : graph) (x : extset) : bool :=
  nodupb (exts x) && edges_in_b (exts x) (deps x) && nodupb (nodes g) && edges_in_b (nodes g) (edges g).
