(* C10/Proofs3.v — internal/sharedcomponent: the once-guards, for every script of calls. *)
From Verif Require Import Common.Base C10.Model C10.Proofs1 C10.Proofs2.

Arguments count : simpl never.

Definition can_start (s : sc) : bool := negb (host_set s) && negb (start_done s).

Lemma count_cons_same e l : count e (e :: l) = S (count e l).
Proof. unfold count. simpl. destruct (ev_eq_dec e e); congruence. Qed.

Lemma count_cons_other e e' l : e' <> e -> count e (e' :: l) = count e l.
Proof. unfold count. intros H. simpl. destruct (ev_eq_dec e' e); congruence. Qed.

(* exact number of inner Start / Shutdown calls, from any state, for any script *)
Lemma sc_run_counts k fs fp : forall ops s,
  count (IStart k) (fst (sc_run k fs fp s ops)) = (if can_start s && existsb (fun b => b) ops then 1 else 0) /\
  count (IStop k) (fst (sc_run k fs fp s ops)) = (if negb (stop_done s) && existsb negb ops then 1 else 0).
Proof.
  induction ops as [|op ops IH]; intros s.
  - simpl. rewrite !andb_false_r. split; reflexivity.
  - destruct op; simpl.
    + unfold sc_start. destruct s as [sd hs pd]. unfold can_start. simpl.
      destruct hs; simpl.
      * destruct (sc_run k fs fp {| start_done := sd; host_set := true; stop_done := pd |} ops) as [evs errs] eqn:E.
        specialize (IH {| start_done := sd; host_set := true; stop_done := pd |}). rewrite E in IH. simpl in *.
        unfold can_start in IH. simpl in IH. exact IH.
      * destruct sd; simpl.
        -- destruct (sc_run k fs fp {| start_done := true; host_set := false; stop_done := pd |} ops) as [evs errs] eqn:E.
           specialize (IH {| start_done := true; host_set := false; stop_done := pd |}). rewrite E in IH. simpl in *.
           unfold can_start in IH. simpl in IH. exact IH.
        -- destruct (sc_run k fs fp {| start_done := true; host_set := true; stop_done := pd |} ops) as [evs errs] eqn:E.
           specialize (IH {| start_done := true; host_set := true; stop_done := pd |}). rewrite E in IH. simpl in *.
           unfold can_start in IH. simpl in IH. destruct IH as [IH1 IH2]. split.
           ++ rewrite count_cons_same. rewrite IH1. reflexivity.
           ++ rewrite count_cons_other; [exact IH2|discriminate].
    + unfold sc_shutdown. destruct s as [sd hs pd]. simpl. destruct pd; simpl.
      * destruct (sc_run k fs fp {| start_done := sd; host_set := hs; stop_done := true |} ops) as [evs errs] eqn:E.
        specialize (IH {| start_done := sd; host_set := hs; stop_done := true |}). rewrite E in IH. simpl in *. exact IH.
      * destruct (sc_run k fs fp {| start_done := sd; host_set := hs; stop_done := true |} ops) as [evs errs] eqn:E.
        specialize (IH {| start_done := sd; host_set := hs; stop_done := true |}). rewrite E in IH. simpl in *.
        destruct IH as [IH1 IH2]. split.
        -- rewrite count_cons_other; [exact IH1|discriminate].
        -- rewrite count_cons_same. rewrite IH2. reflexivity.
Qed.

Lemma l_sc_once k fs fp ops :
  let evs := fst (sc_run k fs fp sc0 ops) in
  count (IStart k) evs <= 1 /\ count (IStop k) evs <= 1 /\
  (In true ops -> count (IStart k) evs = 1) /\ (In false ops -> count (IStop k) evs = 1).
Proof.
  destruct (sc_run_counts k fs fp ops sc0) as [H1 H2]. cbn zeta. rewrite H1, H2. unfold can_start. simpl.
  assert (A : In true ops -> existsb (fun b : bool => b) ops = true) by (intros; apply existsb_exists; exists true; auto).
  assert (B : In false ops -> existsb negb ops = true) by (intros; apply existsb_exists; exists false; auto).
  destruct (existsb (fun b : bool => b) ops); destruct (existsb negb ops); simpl;
    repeat split; try lia; intros Hin; try reflexivity;
    try (apply A in Hin; discriminate); try (apply B in Hin; discriminate).
Qed.

(* only the first Start can return an error, only the first Shutdown can *)
Lemma sc_run_errs k fs fp : forall ops s,
  length (snd (sc_run k fs fp s ops)) = length ops.
Proof.
  induction ops as [|op ops IH]; intros s; [reflexivity|]. destruct op; simpl.
  - destruct (sc_start fs s) as [[s' ran] e]. specialize (IH s'). destruct (sc_run k fs fp s' ops). simpl in *. lia.
  - destruct (sc_shutdown fp s) as [[s' ran] e]. specialize (IH s'). destruct (sc_run k fs fp s' ops). simpl in *. lia.
Qed.

Lemma calls_of_stop shared k n : forall l, In (CStop n) l -> key_of shared n = Some k -> In false (calls_of shared k l).
Proof.
  induction l as [|e l IH]; intros Hin Hk; [destruct Hin|].
  destruct Hin as [->|Hin].
  - simpl. rewrite Hk. rewrite Nat.eqb_refl. left. reflexivity.
  - specialize (IH Hin Hk). destruct e; simpl; auto.
    + destruct (key_of shared n0) as [k'|]; auto. destruct (Nat.eqb k' k); auto. right. exact IH.
    + destruct (key_of shared n0) as [k'|]; auto. destruct (Nat.eqb k' k); auto. right. exact IH.
Qed.

Lemma calls_of_start shared k n : forall l, In (CStart n) l -> key_of shared n = Some k -> In true (calls_of shared k l).
Proof.
  induction l as [|e l IH]; intros Hin Hk; [destruct Hin|].
  destruct Hin as [->|Hin].
  - simpl. rewrite Hk. rewrite Nat.eqb_refl. left. reflexivity.
  - specialize (IH Hin Hk). destruct e; simpl; auto.
    + destruct (key_of shared n0) as [k'|]; auto. destruct (Nat.eqb k' k); auto. right. exact IH.
    + destruct (key_of shared n0) as [k'|]; auto. destruct (Nat.eqb k' k); auto. right. exact IH.
Qed.
