(* C15/Witness.v — non-vacuity of the theorems' hypotheses and concrete witnesses (vm_compute). *)
From Verif Require Import Common.Base.
From Verif Require Import Generated.C15Recv Generated.C15GrpcExp Generated.C15HttpExp Generated.C15StatusUtil.
From Verif Require Import Generated.C15Shutdown Generated.C15RecvHttpGraph.
From Verif Require Import C15.Model C15.Proofs C15.PropCheck C15.Link C15.Properties.
Local Open Scope Z_scope.

(* the codec contract of hop_delivers is satisfiable: the identity codec on payloads = item counts *)
Example roundtrip_contract_inhabited :
  forall (t : transport) (k : unit) (p : N), (fun _ _ (b : N) => Some b) t k ((fun _ _ (p : N) => p) t k p) = Some p.
Proof. reflexivity. Qed.

Example hop_delivers_instance :
  hop_payload N N unit (fun p => p) (fun _ _ p => p) (fun _ _ b => Some b) HttpJson tt AuthOK 5%N Accept = ([5%N], Success).
Proof.
  apply (hop_delivers N N unit (fun p => p) (fun _ _ p => p) (fun _ _ b => Some b)); [reflexivity|discriminate|reflexivity].
Qed.

(* outcomes of every shape satisfy the only hypothesis of meaning_commutes (o <> Accept) *)
Example hyp_outcomes :
  StatusErr 8 None WNone <> Accept /\ CustomStatus None None WPermanent <> Accept /\ PlainErr <> Accept /\
  CustomStatus (Some 0) None WNone <> Accept.
Proof. repeat split; discriminate. Qed.

(* the one place where the two specification tables differ, through the whole hop *)
Example resource_exhausted_without_retry_info :
  h_verdict (hop Grpc NoAuth 3 (StatusErr 8 None WNone)) = Permanent /\
  h_verdict (hop HttpPb NoAuth 3 (StatusErr 8 None WNone)) = Retryable /\
  h_verdict (hop HttpJson NoAuth 3 (StatusErr 8 None WNone)) = Retryable /\
  tables_differ 8 None = true.
Proof. vm_compute. repeat split. Qed.

(* a throttling delay of 1.5 s: exact over gRPC, one whole second over HTTP; half a second becomes Throttle 0 *)
Example throttle_delays :
  h_verdict (hop Grpc NoAuth 1 (StatusErr 14 (Some 1500000000) WNone)) = Throttle 1500000000 /\
  h_verdict (hop HttpPb NoAuth 1 (StatusErr 14 (Some 1500000000) WNone)) = Throttle 1000000000 /\
  h_verdict (hop HttpJson NoAuth 1 (StatusErr 8 (Some 500000000) WFmt)) = Throttle 0 /\
  h_verdict (hop Grpc NoAuth 1 (StatusErr 8 (Some 0) WNone)) = Retryable.
Proof. vm_compute. repeat split. Qed.

(* hypotheses of the throttle theorems are satisfiable *)
Example throttle_hyps :
  get_status_from_error (StatusErr 14 (Some 7000000000) WPermanent) = Some (14, Some 7000000000) /\
  spec_grpc_retryable 14 true = true /\ is_throttle_status 429 = true /\ is_2xx 503 = false /\ is_2xx 204 = true.
Proof. vm_compute. repeat split. Qed.

(* wrappers do not hide an explicit status, and decide Internal vs Unavailable otherwise *)
Example wrappers :
  get_status_from_error (StatusErr 3 None WPermanent) = Some (3, None) /\
  get_status_from_error (CustomStatus None None WPermanent) = Some (13, None) /\
  get_status_from_error (CustomStatus None None WFmt) = Some (14, None) /\
  get_status_from_error PermanentErr = Some (13, None) /\
  get_status_from_error PlainErr = Some (14, None).
Proof. vm_compute. repeat split. Qed.

(* a foreign error whose GRPCStatus() says OK is an error all the same (was finding C15-OKSTATUS before /repo
   b16584117): reported like an error without a status, on all three transports, RetryInfo dropped *)
Example ok_status_is_an_error :
  let o := CustomStatus (Some 0) (Some 5000000000) WNone in
  get_status_from_error o = Some (14, None) /\
  get_status_from_error (CustomStatus (Some 0) None WPermanent) = Some (13, None) /\
  hop Grpc NoAuth 1 o = mkHop true Retryable (Some 14) /\
  hop HttpPb NoAuth 1 o = mkHop true Retryable (Some 14) /\
  hop HttpJson AuthOK 1 (CustomStatus (Some 0) None WPermanent) = mkHop true Permanent (Some 2).
Proof. vm_compute. repeat split. Qed.

(* client errors: one request per class, hypothesis of client_error_status satisfiable *)
Example client_error_examples :
  let o := Accept in
  recv_http (mkReq AuthFail EncGood true CtPb (Some 1%N)) o = (false, mkResp 401 None (Some 16)) /\
  recv_http (mkReq NoAuth EncUnsupported true CtJson (Some 1%N)) o = (false, mkResp 400 None (Some 3)) /\
  recv_http (mkReq NoAuth EncBadEager false CtPb (Some 1%N)) o = (false, mkResp 400 None (Some 3)) /\
  recv_http (mkReq NoAuth EncBadLazy false CtPb (Some 1%N)) o = (false, mkResp 405 None None) /\
  recv_http (mkReq NoAuth EncGood true CtOther (Some 1%N)) o = (false, mkResp 415 None None) /\
  recv_http (mkReq NoAuth EncGood true CtPb None) o = (false, mkResp 400 None (Some 3)) /\
  recv_http (mkReq NoAuth EncBadLazy true CtJson (Some 1%N)) o = (false, mkResp 400 None (Some 3)) /\
  client_error (mkReq NoAuth EncGood true CtPb None) = true.
Proof. vm_compute. repeat split. Qed.

(* refused before the OTLP handler with a non-OTLP Content-Type: the asked-for 4xx (was 500 before /repo 158674155) *)
Example fallback_encoding_keeps_status :
  recv_http (mkReq AuthFail EncGood true CtOther (Some 1%N)) Accept = (false, mkResp 401 None (Some 16)) /\
  recv_http (mkReq NoAuth EncUnsupported true CtOther None) Accept = (false, mkResp 400 None (Some 3)) /\
  recv_http (mkReq AuthOK EncBadEager false CtOther (Some 0%N)) Accept = (false, mkResp 400 None (Some 3)).
Proof. vm_compute. repeat split. Qed.

(* finding C15-GRPC-MALFORMED-INTERNAL: the decode precedes the authenticator *)
Example grpc_malformed_witness :
  recv_grpc AuthFail None Accept = (false, Some (13, None)) /\
  recv_grpc AuthFail (Some 2%N) Accept = (false, Some (16, None)).
Proof. vm_compute. repeat split. Qed.

(* the whole finite table, for the record: gRPC code -> (gRPC class without / with RetryInfo, HTTP status, HTTP class) *)
Example full_table :
  map (fun c => (c, (spec_grpc_retryable c false, spec_grpc_retryable c true,
                     GetHTTPStatusCodeFromStatus c, spec_http_retryable (GetHTTPStatusCodeFromStatus c))))
      [1; 2; 3; 4; 5; 6; 7; 8; 9; 10; 11; 12; 13; 14; 15; 16] =
  [(1, (true, true, 503, true)); (2, (false, false, 500, false)); (3, (false, false, 400, false));
   (4, (true, true, 503, true)); (5, (false, false, 500, false)); (6, (false, false, 500, false));
   (7, (false, false, 403, false)); (8, (false, true, 429, true)); (9, (false, false, 500, false));
   (10, (true, true, 503, true)); (11, (true, true, 503, true)); (12, (false, false, 404, false));
   (13, (false, false, 500, false)); (14, (true, true, 503, true)); (15, (true, true, 503, true));
   (16, (false, false, 401, false))].
Proof. vm_compute. reflexivity. Qed.

(* shutdown: the hypotheses of shutdown_drains_inflight are satisfiable (the documented library semantics), an
   instance on every transport, and what a non-draining library would give *)
Example shutdown_hyps_inhabited :
  documented_lib HttpShutdown = true /\ documented_lib GrpcGracefulStop = true /\
  documented_lib HttpClose = false /\ documented_lib GrpcStop = false.
Proof. repeat split. Qed.

Example shutdown_instances :
  hop_at InFlightAtShutdown Grpc NoAuth 3 Accept = mkHop true Success None /\
  hop_at InFlightAtShutdown HttpPb NoAuth 3 PermanentErr = hop HttpPb NoAuth 3 PermanentErr /\
  hop_at InFlightAtShutdown HttpJson NoAuth 3 (StatusErr 8 (Some 2000000000) WNone) = mkHop true (Throttle 2000000000) (Some 8) /\
  hop_at AfterShutdown Grpc NoAuth 3 Accept = mkHop false Retryable (Some 14) /\
  hop_at AfterShutdown HttpJson NoAuth 3 Accept = mkHop false Retryable None /\
  hop_at_lib (fun _ => false) InFlightAtShutdown Grpc NoAuth 3 Accept = mkHop true Retryable (Some 14).
Proof. vm_compute. repeat split. Qed.

(* the dumped graphs are not trivial: a few of their lines *)
Definition has_line (c : nat * (list Z * list Z)) (g : list (nat * (list Z * list Z))) : bool :=
  existsb (fun x => Nat.eqb (fst x) (fst c) && list_eqb Z.eqb (fst (snd x)) (fst (snd c))
                    && list_eqb Z.eqb (snd (snd x)) (snd (snd c))) g.

Example dump_lines :
  has_line (1%nat, ([429; 1; 1500000000], [429; 1; 1])) recvhttp_graph = true /\
  has_line (2%nat, ([0; 0], [405])) recvhttp_graph = true /\
  has_line (3%nat, ([2; 401], [401; 16])) recvhttp_graph = true /\
  has_line (4%nat, ([0; -1; 400; 0; 0], [400; 0; 0; 3])) recvhttp_graph = true.
Proof. vm_compute. repeat split. Qed.

(* a history mixing transports, an unauthenticated send, an empty one and refusals *)
Example history_instance :
  run_history [(Grpc, NoAuth, 3%N, Accept); (HttpPb, AuthFail, 2%N, Accept); (HttpJson, AuthOK, 0%N, PlainErr);
               (HttpPb, NoAuth, 1%N, PermanentErr); (Grpc, AuthOK, 5%N, StatusErr 8 (Some 1000000000) WNone)] 0
  = ([0; 3; 4]%nat, [Success; Permanent; Success; Permanent; Throttle 1000000000]).
Proof. vm_compute. reflexivity. Qed.

Example well_formed_request_example :
  client_error (mkReq AuthOK EncGood true CtJson (Some 4%N)) = false /\
  recv_http (mkReq AuthOK EncGood true CtJson (Some 4%N)) PlainErr = (true, mkResp 503 None (Some 14)).
Proof. vm_compute. split; reflexivity. Qed.

(* the link theorems are not vacuous: raw cases of every kind, observation := the model's own output, pass the checker;
   a wrong observation does not *)
Definition self_check (c : nat * (list Z * list Z)) : bool :=
  match model_out c with Some m => prop_ok (fst c, (fst (snd c), m)) | None => false end.

Example model_cases_pass_the_checker :
  forallb self_check
    [(8%nat, ([0; 0; 3; 3; 8; 1; 1500000000; 0; 2; 1; 0; 0; 1], []));
     (8%nat, ([2; 1; 4; 4; 0; 1; 5000000000; 1; 3; 5; 1; 3; 200], []));
     (8%nat, ([1; 2; 2; 0; 0; 0; 0; 0; 0; 0; 0; 0; 0], []));
     (10%nat, ([0; 1; 3; 2; 0; 0; 0; 0; 1], [])); (10%nat, ([2; 2; 3; 0; 0; 0; 0; 0; 1], []));
     (11%nat, ([1; 2500; 60000; 3800; 4; 0; 0; 0; 0; 0; 0], [])); (11%nat, ([2; 0; 1200; 2600; 4; 0; 0; 0; 0; 0; 0], []));
     (7%nat, ([0; 4; 1; 0; 3; 0; 0; 0; 0; 0], [])); (7%nat, ([1; 0; 1; 1; 2; 3; 8; 1; 7000000000; 2], []));
     (9%nat, ([2; 3; 0; 0; 0; 0; 0], [])); (9%nat, ([0; 2; 3; 14; 1; 2000000000; 0], []));
     (0%nat, ([4; 0; 1; 2000000000; 1], [])); (3%nat, ([8; 1; 1500000000], [])); (6%nat, ([503; 1; 7; 1], []))] = true /\
  prop_ok (8%nat, ([0; 0; 3; 0; 0; 0; 0; 0; 2; 1; 0; 0; 1], [1; 2; 0; 14; 1; 1])) = false /\
  encodable (CustomStatus (Some 0) (Some 5) WPermanent).
Proof. vm_compute. repeat split. discriminate. Qed.
