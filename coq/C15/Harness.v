(* C15/Harness.v — comparison functions used by the generated correspondence files
   (work/C15/Cases_k.v): model output vs. what the Go harnesses recorded from the implementation.
   A case is (kind, (input, observed)) : nat * (list Z * list Z); the encodings are documented at
   the top of harness/C15/*.go.  Imports only Model.v (+ Generated). *)
From Verif Require Import Common.Base.
From Verif Require Import Generated.C15Recv Generated.C15GrpcExp Generated.C15HttpExp Generated.C15StatusUtil.
From Verif Require Import C15.Model.
Local Open Scope Z_scope.

Definition zlist_eqb := list_eqb Z.eqb.
Definition b2z (b : bool) : Z := if b then 1 else 0.

Definition wrap_of (z : Z) : wrap := if z =? 1 then WPermanent else if z =? 2 then WFmt else WNone.
Definition ri_of (kind nanos : Z) : option Z := if kind =? 0 then None else Some nanos.

(* outcome wire form: okind; code; ri_kind; ri_nanos; wrap *)
Definition outcome_of (okind code rik nanos w : Z) : option outcome :=
  if okind =? 0 then Some Accept
  else if okind =? 1 then Some PlainErr
  else if okind =? 2 then Some PermanentErr
  else if okind =? 3 then Some (StatusErr code (ri_of rik nanos) (wrap_of w))
  else if okind =? 4 then
    Some (if code =? (-1) then CustomStatus None None (wrap_of w)
          else CustomStatus (Some code) (ri_of rik nanos) (wrap_of w))
  else None.

Definition gstatus_obs (s : option gstatus) : list Z :=
  match s with
  | None => [-1]
  | Some (c, None) => [c; 0; 0]
  | Some (c, Some d) => [c; 1; d]
  end.

Definition verdict_obs (v : verdict) : list Z :=
  match v with
  | Success => [0; 0] | Permanent => [1; 0] | Retryable => [2; 0] | Throttle d => [3; d]
  end.

Definition auth_of (z : Z) : auth := if z =? 1 then AuthOK else if z =? 2 then AuthFail else NoAuth.
Definition enc_of (z : Z) : cenc :=
  if z =? 1 then EncBadEager else if z =? 2 then EncBadLazy else if z =? 3 then EncUnsupported
  else if z =? 4 then EncTruncated else EncGood.
Definition ct_of_z (z : Z) : ctype := if z =? 0 then CtPb else if z =? 1 then CtJson else CtOther.
Definition body_of (z : Z) : option N := if z <? 0 then None else Some (Z.to_N z).
Definition transport_of (z : Z) : transport := if z =? 0 then Grpc else if z =? 1 then HttpPb else HttpJson.

Definition opt_code (o : option Z) : Z := match o with Some c => c | None => -1 end.

(* kind 12: a history, 8 numbers per send: t; a; items; okind; code; rik; nanos; w *)
Fixpoint sends_of (fuel : nat) (l : list Z) : option (list send) :=
  match fuel, l with
  | _, [] => Some []
  | S f, t :: a :: items :: okind :: code :: rik :: nanos :: w :: r =>
      match outcome_of okind code rik nanos w, sends_of f r with
      | Some o, Some ss => Some ((transport_of t, auth_of a, Z.to_N items, o) :: ss)
      | _, _ => None
      end
  | _, _ => None
  end.

Definition verdict_code (v : verdict) : list Z := verdict_obs v.

(* model output for a case, in the observation's wire form (None: malformed case) *)
Definition model_out (c : nat * (list Z * list Z)) : option (list Z) :=
  let '(kind, (inp, obs)) := c in
  match kind, inp with
  | 0%nat, [okind; code; rik; nanos; w] =>
      option_map (fun o => gstatus_obs (get_status_from_error o)) (outcome_of okind code rik nanos w)
  | 1%nat, [code] => Some [GetHTTPStatusCodeFromStatus code]
  | 3%nat, [code; rik; nanos] =>
      (* code -1: an error that is not a gRPC status (status.Convert gives Unknown) *)
      Some (verdict_obs (process_error (Some (if code =? (-1) then codes_Unknown else code, ri_of rik nanos))))
  | 4%nat, [code; isnil] => Some [b2z (shouldRetry code (negb (isnil =? 0)))]
  | 5%nat, sts => Some (map (fun st => b2z (isRetryableStatusCode st)) sts)   (* a batch of statuses *)
  | 6%nat, [st; rak; rav; bodyk] =>
      let h := if rak =? 0 then RANone else if rak =? 1 then RASecs rav
               else if rak =? 2 then RADateMin rav else RAOther in
      let body_ok := negb (bodyk =? 2) in
      Some (verdict_obs (http_export st h body_ok)
            ++ [if (200 <=? st) && (st <=? 299) then (if body_ok then -1 else -2)
                else opt_code (http_export_err_code st)])
  | 7%nat, [a; e; post; ct; body; okind; code; rik; nanos; w] =>
      option_map (fun o =>
        let '(called, r) := recv_http (mkReq (auth_of a) (enc_of e) (negb (post =? 0)) (ct_of_z ct) (body_of body)) o in
        [b2z called; rs_status r;
         match rs_retry_after r with Some _ => 1 | None => 0 end;
         match rs_retry_after r with Some s => s | None => 0 end;
         opt_code (rs_body_code r)])
        (outcome_of okind code rik nanos w)
  | 8%nat, [t; a; items; okind; code; rik; nanos; w; signal; comp; lossy; level; kib] =>
      option_map (fun o =>
        let h := hop (transport_of t) (auth_of a) (Z.to_N items) o in
        [b2z (h_called h)] ++ verdict_obs (h_verdict h) ++ [opt_code (h_err_code h); b2z (h_called h);
           (* sink bytes = sent bytes on every transport; the input flag [lossy] only records that the payload
              sets LogRecord.event_name / ExponentialHistogramDataPoint.zero_threshold (regression inputs for the
              JSON decoder cases repaired by /repo 3d5efdb0d) *)
           1])
        (outcome_of okind code rik nanos w)
  | 10%nat, [t; ph; items; okind; code; rik; nanos; w; signal] =>
      option_map (fun o =>
        let h := hop_at (if ph =? 2 then AfterShutdown else if ph =? 1 then InFlightAtShutdown else Running)
                        (transport_of t) NoAuth (Z.to_N items) o in
        [b2z (h_called h)] ++ verdict_obs (h_verdict h) ++ [opt_code (h_err_code h); b2z (h_called h); 1])
        (outcome_of okind code rik nanos w)
  | 11%nat, [t; read_ms; write_ms; hold_ms; items; okind; code; rik; nanos; w; signal] =>
      option_map (fun o =>
        let h := hop_slow (mkTO (read_ms * 1000000) 0 (write_ms * 1000000) 0) (hold_ms * 1000000)
                          (transport_of t) NoAuth (Z.to_N items) o in
        [b2z (h_called h)] ++ verdict_obs (h_verdict h) ++ [opt_code (h_err_code h); b2z (h_called h); 1])
        (outcome_of okind code rik nanos w)
  | 12%nat, l =>
      option_map (fun ss =>
        let '(sink, vs) := run_history ss 0 in
        flat_map verdict_code vs ++ [-7] ++ map Z.of_nat sink)
        (sends_of (length l) l)
  | 13%nat, t :: comp :: items :: okind :: code :: rik :: nanos :: w :: signal :: algs =>
      option_map (fun o =>
        let h := hop_cfg algs comp (transport_of t) NoAuth (Z.to_N items) o in
        [b2z (h_called h)] ++ verdict_obs (h_verdict h) ++ [opt_code (h_err_code h); b2z (h_called h); 1])
        (outcome_of okind code rik nanos w)
  | 20%nat, name :: algs => Some [b2z (server_accepts algs name)]
  | 9%nat, [a; body; okind; code; rik; nanos; w] =>
      option_map (fun o =>
        let '(called, s) := recv_grpc (auth_of a) (body_of body) o in
        match s with
        | None => [b2z called; 0; 0; 0]
        | Some (c, None) => [b2z called; c; 0; 0]
        | Some (c, Some d) => [b2z called; c; 1; d]
        end)
        (outcome_of okind code rik nanos w)
  | _, _ => None
  end.

(* an HTTP-date Retry-After is relative to the exporter's clock: the observed delay is the
   requested one minus what elapsed since the harness formatted the date (RFC1123 has whole
   seconds): accept [m*60s - 300s, m*60s] *)
Definition date_slack : Z := 300 * second.

Definition check_case (c : nat * (list Z * list Z)) : bool :=
  let '(kind, (inp, obs)) := c in
  match model_out c with
  | None => false
  | Some m =>
      match kind, inp, m, obs with
      | 6%nat, [st; rak; rav; bodyk], [mv; md; mc], [ov; od; oc] =>
          if (rak =? 2) && (mv =? 3) then
            (ov =? 3) && (md - date_slack <=? od) && (od <=? md) && (mc =? oc)
          else zlist_eqb m obs
      | 10%nat, [t; ph; _; _; _; _; _; _; _], [mc; mv; md; mcode; mn; me], [oc; ov; od; ocode; on; oe] =>
          (* after the shutdown the HTTP route has no gRPC status at all: the error code is compared on gRPC only *)
          (mc =? oc) && (mv =? ov) && (md =? od) && (mn =? on) && (me =? oe)
          && ((mcode =? ocode) || ((ph =? 2) && negb (t =? 0)))
      | 11%nat, _, [mc; mv; md; mcode; mn; me], [oc; ov; od; ocode; on; oe] =>
          (* a response that could not be written leaves no gRPC status at all on the HTTP route: when the model
             says the connection was lost (no code) the error code is not compared *)
          (mc =? oc) && (mv =? ov) && (md =? od) && (mn =? on) && (me =? oe)
          && ((mcode =? ocode) || ((mcode =? (-1)) && negb (mv =? 0)))
      | 7%nat, _, [mcalled; mst; mrp; mrs; mbc], [ocalled; ost; orp; ors; obc] =>
          (* obc = -3: HEAD request, the response has no body to look at *)
          (mcalled =? ocalled) && (mst =? ost) && (mrp =? orp) && (mrs =? ors) && ((obc =? (-3)) || (mbc =? obc))
      | _, _, _, _ => zlist_eqb m obs
      end
  end.
