(* C15/Model.v — executable model of one OTLP hop: OTLP exporter (gRPC / HTTP) -> OTLP receiver
   -> next consumer, and of the way a consumer error travels back to the sender.
   Written after the Go code, function by function (file:function named at each definition).
   The four table functions are NOT written here: they are translated from the current source
   on every run (Generated/C15Recv.v, C15GrpcExp.v, C15HttpExp.v by translator T1;
   Generated/C15StatusUtil.v dumped by running NewStatusFromMsgAndHTTPCode on its whole domain).
   No proofs in this file. *)
From Verif Require Import Common.Base.
From Verif Require Import Generated.C15Recv Generated.C15GrpcExp Generated.C15HttpExp Generated.C15StatusUtil Generated.C15Shutdown Generated.C15ServerTimeouts.
Local Open Scope Z_scope.

(* ------------------------------------------------------------------------------------------
   What the receiver's next consumer answers.
   Durations are int64 nanoseconds as Z (the value of RetryInfo.RetryDelay.AsDuration()).
   ------------------------------------------------------------------------------------------ *)
Inductive wrap := WNone | WPermanent | WFmt.
(* WPermanent: consumererror.NewPermanent(err); WFmt: fmt.Errorf("...%w", err) *)

Inductive outcome :=
| Accept                                              (* nil *)
| PlainErr                                            (* errors.New(..), possibly %w-wrapped *)
| PermanentErr                                        (* consumererror.NewPermanent(plain) *)
| StatusErr (c : Z) (ri : option Z) (w : wrap)
    (* status.New(c, msg)[.WithDetails(&RetryInfo{d})].Err(), c <> OK (for OK, Err() is nil = Accept) *)
| CustomStatus (c : option Z) (ri : option Z) (w : wrap).
    (* a foreign error type with a GRPCStatus() method: None = it returns a nil *Status,
       Some c = a status with code c (c = OK is possible here, and only here) *)

(* a gRPC status as far as this property looks at it: code and RetryInfo delay (if attached) *)
Definition gstatus := (Z * option Z)%type.

(* google.golang.org/grpc/status.FromError (v1.71): Some = "ok"; unwraps with errors.As and keeps
   code and details of the wrapped status; a nil GRPCStatus() is "not ok" *)
Definition from_error (o : outcome) : option gstatus :=
  match o with
  | StatusErr c ri _ => Some (c, ri)
  | CustomStatus (Some c) ri _ => Some (c, ri)
  | _ => None
  end.

(* consumererror.IsPermanent: errors.As through every wrapper *)
Definition is_permanent (o : outcome) : bool :=
  match o with
  | PermanentErr => true
  | StatusErr _ _ WPermanent => true
  | CustomStatus _ _ WPermanent => true
  | _ => false
  end.

(* ( *status.Status).Err(): nil when the code is OK *)
Definition status_err (s : gstatus) : option gstatus :=
  if fst s =? codes_OK then None else Some s.

(* receiver/otlpreceiver/internal/errors/errors.go: GetStatusFromError (err <> nil).
   `if !ok || (err != nil && s.Code() == codes.OK)`: an error whose status says OK is treated like an error
   without a status (since /repo b16584117; before, s.Err() = nil turned it into a success) *)
Definition default_status (o : outcome) : gstatus :=
  (if is_permanent o then codes_Internal else codes_Unavailable, None).

Definition get_status_from_error (o : outcome) : option gstatus :=
  match from_error o with
  | Some s => if fst s =? codes_OK then status_err (default_status o) else status_err s
  | None => status_err (default_status o)
  end.

(* receiver/otlpreceiver/internal/{logs,metrics,trace,profiles}/otlp.go: Receiver.Export.
   Result: (was the next consumer invoked?, the error returned to the transport: None = nil) *)
Definition export (items : N) (o : outcome) : bool * option gstatus :=
  if (items =? 0)%N then (false, None)
  else match o with
       | Accept => (true, None)
       | _ => (true, get_status_from_error o)
       end.

(* ------------------------------------------------------------------------------------------
   gRPC route
   ------------------------------------------------------------------------------------------ *)
Inductive auth := NoAuth | AuthOK | AuthFail.

(* grpc-go's generated unary handler (pdata/internal/data/protogen/collector/*/v1/*_service.pb.go
   _Export_Handler) FIRST decodes the request (grpc-go answers Internal "error unmarshalling
   request" when that fails) and only then runs the interceptor chain, in which
   config/configgrpc/configgrpc.go authUnaryServerInterceptor answers Unauthenticated before the
   handler = Export is reached.  body = None: bytes that do not decode; Some n: n items.
   (Observed on the implementation by the hop harness: refused credentials + malformed body => Internal.) *)
Definition recv_grpc (a : auth) (body : option N) (o : outcome) : bool * option gstatus :=
  match body with
  | None => (false, Some (codes_Internal, None))
  | Some n => match a with
              | AuthFail => (false, Some (codes_Unauthenticated, None))
              | _ => export n o
              end
  end.

Inductive verdict := Success | Permanent | Retryable | Throttle (d : Z).

(* exporter/otlpexporter/otlp.go: processError (shouldRetry is the translated function) *)
Definition process_error (w : option gstatus) : verdict :=
  match w with
  | None => Success
  | Some (c, ri) =>
      if c =? codes_OK then Success
      else if negb (shouldRetry c (match ri with None => true | Some _ => false end)) then Permanent
      else let d := match ri with Some d => d | None => 0 end in
           if d =? 0 then Retryable else Throttle d
  end.

(* ------------------------------------------------------------------------------------------
   HTTP route: receiver
   ------------------------------------------------------------------------------------------ *)
Inductive ctype := CtPb | CtJson | CtOther.          (* mime type of the request's Content-Type *)
Inductive cenc := EncGood | EncBadEager | EncBadLazy | EncUnsupported | EncTruncated.
(* Content-Encoding: absent/supported with a body that decompresses
   | supported, the body is not in that format and the decoder notices when it is CREATED
     (config/confighttp/compression.go availableDecoders: gzip.NewReader / zlib.NewReader read the header)
   | supported, the body is not in that format and the failure shows only while the body is READ
     (snappy, lz4, zstd decoders are lazy; gzip/zlib with a valid header and a damaged stream)
   | not in the server's list
   | EncTruncated: every byte that arrived is fine but the read ends with io.ErrUnexpectedEOF — a gzip / zlib
     stream whose trailer (checksum, length) is missing or cut, or fewer bytes than Content-Length announced
     (the sender was cut off); the prefix that arrived may even decode to n items (r_body = Some n).
     otlphttp.go readAndCloseBody rejects ANY read error with 400 before anything is decoded *)

Record request := mkReq {
  r_auth : auth; r_enc : cenc; r_post : bool; r_ct : ctype;
  r_body : option N      (* None: bytes that do not unmarshal in the declared encoding; Some n: n items *)
}.

(* what is observed of an HTTP response: status, Retry-After (seconds), and the code inside the
   rpc.Status body (None: the body is not a Status message, e.g. text/plain or a success body) *)
Record response := mkResp { rs_status : Z; rs_retry_after : option Z; rs_body_code : option Z }.

Definition second : Z := 1000000000.

(* otlphttp.go: writeStatusResponse (Go's / on int64 truncates toward zero: Z.quot) *)
Definition write_status_response (st : Z) (s : gstatus) : response :=
  mkResp st
    (if (st =? 429) || (st =? 503) then option_map (fun d => Z.quot d second) (snd s) else None)
    (Some (fst s)).

(* otlphttp.go: writeError; the error is either a gRPC status error or any other error *)
Definition write_error (e : option gstatus) (default_status : Z) : response :=
  match e with
  | Some s => write_status_response (GetHTTPStatusCodeFromStatus (fst s)) s
  | None => write_status_response default_status (NewStatusFromMsgAndHTTPCode default_status, None)
  end.

(* otlphttp.go: errorHandler (used by confighttp's auth interceptor and decompressor): the status that was
   asked for with an rpc.Status body, in the request's OTLP encoding, or — since /repo 158674155 — in the
   JSON encoding when the Content-Type is not an OTLP one (before that fix: a fixed 500 {code: 13}) *)
Definition error_handler (ct : ctype) (st : Z) : response :=
  write_status_response st (NewStatusFromMsgAndHTTPCode st, None).

(* confighttp.ToServer order: authInterceptor -> (max body) -> httpContentDecompressor (unknown
   Content-Encoding, or a decoder that fails when created: errorHandler 400) -> mux ->
   otlphttp.go handleX: readContentType (method, then media type) -> readAndCloseBody (a body
   that fails to decompress while being read fails here) -> unmarshal -> Export -> writeError/200 *)
(* otlphttp.go: readContentType — 405 for a method other than POST (checked first), 415 for a media type that
   is neither OTLP one, else the encoder: 0 = pbEncoder, 1 = jsEncoder *)
Definition read_content_type (post : bool) (ct : ctype) : Z :=
  if negb post then 405
  else match ct with CtPb => 0 | CtJson => 1 | CtOther => 415 end.

Definition recv_http (rq : request) (o : outcome) : bool * response :=
  match r_auth rq with
  | AuthFail => (false, error_handler (r_ct rq) 401)
  | _ =>
    match r_enc rq with
    | EncUnsupported | EncBadEager => (false, error_handler (r_ct rq) 400)
    | _ =>
      match read_content_type (r_post rq) (r_ct rq) with
      | 405 => (false, mkResp 405 None None)      (* handleUnmatchedMethod: text/plain body *)
      | 415 => (false, mkResp 415 None None)      (* handleUnmatchedContentType: text/plain body *)
      | _ =>
             match r_enc rq, r_body rq with
             | EncBadLazy, _ | EncTruncated, _ => (false, write_error None 400)
             | _, None => (false, write_error None 400)
             | _, Some n =>
                 match export n o with
                 | (called, None) => (called, mkResp 200 None None)
                 | (called, Some s) => (called, write_error (Some s) 500)
                 end
             end
           end
    end
  end.

(* ------------------------------------------------------------------------------------------
   HTTP route: exporter
   ------------------------------------------------------------------------------------------ *)
(* the Retry-After header as the exporter reads it *)
Inductive retry_after := RANone | RASecs (s : Z) | RADateMin (m : Z) | RAOther.
(* RADateMin m: an RFC1123 date m minutes from now; RAOther: present but neither (e.g. empty) *)

(* exporter/otlphttpexporter/otlp.go: export, from the response status on.  body_ok: a 2xx
   response body that the partial-success handler can parse (always so from the real receiver) *)
Definition http_export (st : Z) (h : retry_after) (body_ok : bool) : verdict :=
  if (200 <=? st) && (st <=? 299) then (if body_ok then Success else Retryable)
  else if negb (isRetryableStatusCode st) then Permanent
  else if (st =? 429) || (st =? 503) then
    match h with
    | RANone => Retryable
    | RASecs s => Throttle (s * second)
    | RADateMin m => Throttle (m * 60 * second)
    | RAOther => Retryable
    end
  else Retryable.

(* the gRPC code of the error the HTTP exporter returns (statusutil.NewStatusFromMsgAndHTTPCode) *)
Definition http_export_err_code (st : Z) : option Z :=
  if (200 <=? st) && (st <=? 299) then None else Some (NewStatusFromMsgAndHTTPCode st).

(* ------------------------------------------------------------------------------------------
   The hop
   ------------------------------------------------------------------------------------------ *)
Inductive transport := Grpc | HttpPb | HttpJson.

Definition ct_of (t : transport) : ctype := match t with HttpJson => CtJson | _ => CtPb end.

(* the request the OTLP/HTTP exporter sends: POST, its own content type, a body it marshalled *)
Definition exporter_request (t : transport) (a : auth) (items : N) : request :=
  mkReq a EncGood true (ct_of t) (Some items).

Definition ra_of (r : response) : retry_after :=
  match rs_retry_after r with None => RANone | Some s => RASecs s end.

Record hop_result := mkHop {
  h_called : bool;            (* was the receiver's next consumer invoked *)
  h_verdict : verdict;        (* what the exporter's consume call returns, classified *)
  h_err_code : option Z       (* gRPC code carried by the returned error (None: nil) *)
}.

(* a 2xx answer of the real receiver always carries a well-formed export response *)
Definition hop (t : transport) (a : auth) (items : N) (o : outcome) : hop_result :=
  match t with
  | Grpc =>
      let '(called, w) := recv_grpc a (Some items) o in
      mkHop called (process_error w)
            (match w with Some (c, _) => if c =? codes_OK then None else Some c | None => None end)
  | _ =>
      let '(called, r) := recv_http (exporter_request t a items) o in
      mkHop called (http_export (rs_status r) (ra_of r) true) (http_export_err_code (rs_status r))
  end.

(* ------------------------------------------------------------------------------------------
   A hop relative to the receiver's Shutdown (receiver/otlpreceiver/otlp.go Shutdown).
   WHICH stop call the receiver makes on each of its two servers is read from the current source on
   every run (Generated/C15Shutdown.v, a scan of the body of Shutdown by props/C15/check.py):
   0 = http.Server.Shutdown, 1 = http.Server.Close, 2 = grpc.Server.GracefulStop,
   3 = grpc.Server.Stop.  WHAT such a call does with the requests being handled is library
   behaviour: a function [lib_drains : stop_call -> bool] (does the call wait for the handlers that
   are running and still deliver their responses?).  The documented semantics — net/http: Shutdown
   "gracefully shuts down the server without interrupting any active connections", Close "immediately
   closes all ... connections"; grpc-go: GracefulStop "blocks until all the pending RPCs are finished",
   Stop "closes all open connections" — is [documented_lib]; the theorems take it as a hypothesis on
   the calls actually made, and the hop harness validates it on the implementation (kind 10).
   - Running: no shutdown involved;
   - InFlightAtShutdown: the export is inside the next consumer when Shutdown starts and the consumer
     answers afterwards: drained = same result as Running; cut = the consumer still runs to its end,
     but the sender only sees the connection die;
   - AfterShutdown: the export is sent after Shutdown returned: the connection is refused.
   A dead / refused connection on the sending side: the gRPC client reports Unavailable (processError:
   retryable), the HTTP exporter's client.Do fails ("failed to make an HTTP request", an error that is
   neither permanent nor a throttle: retryable, no gRPC status attached).
   ------------------------------------------------------------------------------------------ *)
Inductive phase := Running | InFlightAtShutdown | AfterShutdown.
Inductive stop_call := HttpShutdown | HttpClose | GrpcGracefulStop | GrpcStop | NoStopCall.

Definition stop_call_of_Z (z : Z) : stop_call :=
  if z =? 0 then HttpShutdown else if z =? 1 then HttpClose
  else if z =? 2 then GrpcGracefulStop else if z =? 3 then GrpcStop else NoStopCall.

(* otlp.go Shutdown: the call made on the server that carries transport t *)
Definition receiver_stop_call (t : transport) : stop_call :=
  match t with
  | Grpc => stop_call_of_Z otlp_Shutdown_grpc_call
  | _ => stop_call_of_Z otlp_Shutdown_http_call
  end.

Definition documented_lib (c : stop_call) : bool :=
  match c with HttpShutdown | GrpcGracefulStop => true | _ => false end.

Definition conn_lost (t : transport) (called : bool) : hop_result :=
  match t with
  | Grpc => mkHop called (process_error (Some (codes_Unavailable, None))) (Some codes_Unavailable)
  | _ => mkHop called Retryable None
  end.

Definition hop_at_lib (lib_drains : stop_call -> bool)
    (ph : phase) (t : transport) (a : auth) (items : N) (o : outcome) : hop_result :=
  match ph with
  | Running => hop t a items o
  | InFlightAtShutdown =>
      if lib_drains (receiver_stop_call t) then hop t a items o
      else conn_lost t (h_called (hop t a items o))
  | AfterShutdown => conn_lost t false
  end.

Definition hop_at := hop_at_lib documented_lib.

(* ------------------------------------------------------------------------------------------
   A slow consumer and the HTTP server's timeouts (config/confighttp/confighttp.go ToServer).
   The receiver's four configured timeouts (nanoseconds, 0 = none) are copied into the http.Server;
   WHICH configured value lands in which server field is dumped by running ToServer on the current
   tree (Generated/C15ServerTimeouts.v: 1 read, 2 read_header, 3 write, 4 idle).
   net/http: ReadTimeout / ReadHeaderTimeout bound the reading of the request only; WriteTimeout is
   "the maximum duration before timing out writes of the response", counted from the end of the request
   header read: a handler (= the next consumer) that takes longer than that finishes normally, but its
   response can no longer be written and the connection is closed — the sender sees the connection die.
   Validated on the implementation by the kind-11 scenarios (both branches).  gRPC has no such timeouts.
   ------------------------------------------------------------------------------------------ *)
Record http_timeouts := mkTO { to_read : Z; to_read_header : Z; to_write : Z; to_idle : Z }.

Definition pick_timeout (cfg : http_timeouts) (src : Z) : Z :=
  if src =? 1 then to_read cfg else if src =? 2 then to_read_header cfg
  else if src =? 3 then to_write cfg else if src =? 4 then to_idle cfg else 0.

(* ToServer: the http.Server's fields *)
Definition to_server (cfg : http_timeouts) : http_timeouts :=
  mkTO (pick_timeout cfg ToServer_ReadTimeout_src) (pick_timeout cfg ToServer_ReadHeaderTimeout_src)
       (pick_timeout cfg ToServer_WriteTimeout_src) (pick_timeout cfg ToServer_IdleTimeout_src).

Definition response_deliverable (srv : http_timeouts) (handler_ns : Z) : bool :=
  (to_write srv <=? 0) || (handler_ns <? to_write srv).

(* a hop whose consumer takes handler_ns to answer *)
Definition hop_slow (cfg : http_timeouts) (handler_ns : Z) (t : transport) (a : auth) (items : N) (o : outcome)
    : hop_result :=
  match t with
  | Grpc => hop t a items o
  | _ => if response_deliverable (to_server cfg) handler_ns || negb (h_called (hop t a items o))
         then hop t a items o
         else conn_lost t true
  end.

(* ------------------------------------------------------------------------------------------
   The receiver's compression_algorithms list (config/confighttp: ServerConfig.CompressionAlgorithms,
   compression.go httpContentDecompressor).  Names as numbers: 0 "" (no Content-Encoding), 1 gzip, 2 zstd,
   3 zlib, 4 snappy, 5 deflate, 6 lz4.  The decompressor enables exactly the listed names; "deflate" is served
   by the zlib decoder whether or not "zlib" itself is listed, and wherever it stands in the list.  A request
   whose Content-Encoding is not enabled is refused with 400 before the handler (EncUnsupported above).
   The table is dumped from the current code on every run (Generated/C15DecodersGraph.v; obligation
   decoders_model_matches_code) and exercised by the kind-13 hops.
   ------------------------------------------------------------------------------------------ *)
Definition server_accepts (algs : list Z) (name : Z) : bool :=
  (0 <=? name) && (name <=? 6) && existsb (Z.eqb name) algs.

(* a hop through an OTLP/HTTP exporter that compresses with [comp] to a receiver configured with [algs] *)
Definition hop_cfg (algs : list Z) (comp : Z) (t : transport) (a : auth) (items : N) (o : outcome) : hop_result :=
  match t with
  | Grpc => hop t a items o
  | _ =>
      if server_accepts algs comp then hop t a items o
      else
        let '(called, r) := recv_http (mkReq a EncUnsupported true (ct_of t) (Some items)) o in
        mkHop called (http_export (rs_status r) (ra_of r) true) (http_export_err_code (rs_status r))
  end.

(* ------------------------------------------------------------------------------------------
   A history: any finite sequence of sends (any mix of transports, authenticator states, item counts and
   consumer outcomes) through the same receiver.  The receiver keeps no state between requests: the i-th
   send is the hop of its own parameters; the sink receives, in order, the indices of the sends that reach
   the consumer.  (Validated by the kind-12 scenarios: several sends in a row against one receiver whose sink
   is not reset in between.)
   ------------------------------------------------------------------------------------------ *)
Definition send := (transport * auth * N * outcome)%type.

Fixpoint run_history (h : list send) (i : nat) : list nat * list verdict :=
  match h with
  | [] => ([], [])
  | (t, a, n, o) :: r =>
      let x := hop t a n o in
      let '(s, v) := run_history r (S i) in
      ((if h_called x then [i] else []) ++ s, h_verdict x :: v)
  end.

(* ------------------------------------------------------------------------------------------
   Payload transport: the codec (C08) and the compression (C16) are other properties; here they
   are the section's functions, and the delivery theorem states what it needs of them.
   ------------------------------------------------------------------------------------------ *)
Section Payload.
  Variable P : Type.                     (* a payload of some signal *)
  Variable B : Type.                     (* bytes on the wire *)
  Variable comp : Type.                  (* a compression offered by the pair *)
  Variable item_count : P -> N.
  Variable encode : transport -> comp -> P -> B.          (* marshal + compress *)
  Variable decode : transport -> comp -> B -> option P.   (* decompress + unmarshal *)

  (* sink contents after one send, and the sender's verdict *)
  Definition hop_payload (t : transport) (k : comp) (a : auth) (p : P) (o : outcome)
    : list P * verdict :=
    match decode t k (encode t k p) with
    | None =>
        (* would be a malformed request: never reaches the consumer *)
        ([], match t with
             | Grpc => process_error (snd (recv_grpc a None o))
             | _ => let r := snd (recv_http (mkReq a EncGood true (ct_of t) None) o) in
                    http_export (rs_status r) (ra_of r) true
             end)
    | Some p' =>
        let h := hop t a (item_count p') o in
        (if h_called h then [p'] else [], h_verdict h)
    end.
End Payload.

(* ------------------------------------------------------------------------------------------
   The OTLP specification's tables, written by hand from
   opentelemetry-proto/docs/specification.md ("Failures", gRPC and HTTP) — the specification side.
   ------------------------------------------------------------------------------------------ *)
(* gRPC: CANCELLED, DEADLINE_EXCEEDED, ABORTED, OUT_OF_RANGE, UNAVAILABLE, DATA_LOSS are retryable;
   RESOURCE_EXHAUSTED only if the server signals recovery with RetryInfo; everything else is not *)
Definition spec_grpc_retryable (c : Z) (has_retry_info : bool) : bool :=
  (c =? 1) || (c =? 4) || (c =? 10) || (c =? 11) || (c =? 14) || (c =? 15)
  || ((c =? 8) && has_retry_info).

(* HTTP: 429, 502, 503, 504 are retryable; all other 4xx/5xx are not *)
Definition spec_http_retryable (st : Z) : bool :=
  (st =? 429) || (st =? 502) || (st =? 503) || (st =? 504).

(* coarse meaning of a verdict *)
Inductive vclass := CSuccess | CPermanent | CRetryable.
Definition class_of (v : verdict) : vclass :=
  match v with Success => CSuccess | Permanent => CPermanent | _ => CRetryable end.
Definition delay_of (v : verdict) : Z := match v with Throttle d => d | _ => 0 end.

Definition vclass_eqb (a b : vclass) : bool :=
  match a, b with
  | CSuccess, CSuccess | CPermanent, CPermanent | CRetryable, CRetryable => true
  | _, _ => false
  end.

Definition verdict_eqb (a b : verdict) : bool :=
  match a, b with
  | Success, Success | Permanent, Permanent | Retryable, Retryable => true
  | Throttle x, Throttle y => x =? y
  | _, _ => false
  end.
