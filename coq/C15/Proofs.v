(* C15/Proofs.v — lemmas behind C15/Properties.v.  All domains that matter are finite: the proofs
   split an arbitrary code / status on the finitely many values the translated tables mention and
   compute. *)
From Verif Require Import Common.Base.
From Verif Require Import Generated.C15Recv Generated.C15GrpcExp Generated.C15HttpExp Generated.C15StatusUtil.
From Verif Require Import C15.Model.
Local Open Scope Z_scope.

(* split z on the listed constants; the last goal keeps the disequalities *)
Ltac by_cases z ks :=
  lazymatch ks with
  | @nil _ => idtac
  | @cons _ ?k ?ks' => destruct (Z.eq_dec z k) as [->|?]; [ | by_cases z ks']
  end.

Ltac kill_eqb :=
  repeat match goal with
         | H : ?z <> ?k |- _ => rewrite (proj2 (Z.eqb_neq z k) H) in *; clear H
         end.

Definition grpc_points : list Z := [0; 1; 2; 3; 4; 5; 6; 7; 8; 9; 10; 11; 12; 13; 14; 15; 16].
Definition http_points : list Z := [400; 401; 403; 404; 429; 500; 502; 503; 504].

Ltac unfold_tables :=
  cbv beta delta [shouldRetry isRetryableStatusCode GetHTTPStatusCodeFromStatus NewStatusFromMsgAndHTTPCode
                  spec_grpc_retryable spec_http_retryable
                  codes_OK codes_Canceled codes_Unknown codes_InvalidArgument codes_DeadlineExceeded
                  codes_NotFound codes_AlreadyExists codes_PermissionDenied codes_ResourceExhausted
                  codes_FailedPrecondition codes_Aborted codes_OutOfRange codes_Unimplemented
                  codes_Internal codes_Unavailable codes_DataLoss codes_Unauthenticated] in *.

(* ---------------------------------------------------------------------------------------------
   the translated tables against the hand-written specification tables
   --------------------------------------------------------------------------------------------- *)
Lemma shouldRetry_is_spec : forall c has_ri, shouldRetry c (negb has_ri) = spec_grpc_retryable c has_ri.
Proof.
  intros c has_ri. unfold_tables.
  by_cases c [1; 4; 8; 10; 11; 14; 15]; kill_eqb; destruct has_ri; reflexivity.
Qed.

Lemma isRetryable_is_spec : forall st, isRetryableStatusCode st = spec_http_retryable st.
Proof.
  intros st. unfold_tables. by_cases st [429; 502; 503; 504]; kill_eqb; reflexivity.
Qed.

(* ---------------------------------------------------------------------------------------------
   exporters against the specification
   --------------------------------------------------------------------------------------------- *)
Definition has_ri (ri : option Z) : bool := match ri with Some _ => true | None => false end.

Lemma process_error_spec : forall c ri, c <> 0 ->
  process_error (Some (c, ri)) =
    if spec_grpc_retryable c (has_ri ri)
    then match ri with
         | Some d => if d =? 0 then Retryable else Throttle d
         | None => Retryable
         end
    else Permanent.
Proof.
  intros c ri Hc. unfold process_error.
  replace (c =? codes_OK) with false by (symmetry; apply Z.eqb_neq; exact Hc).
  replace (match ri with None => true | Some _ => false end) with (negb (has_ri ri)) by (destruct ri; reflexivity).
  rewrite shouldRetry_is_spec.
  destruct (spec_grpc_retryable c (has_ri ri)); destruct ri; reflexivity.
Qed.

Lemma grpc_exporter_class : forall c ri, c <> 0 ->
  class_of (process_error (Some (c, ri))) =
    if spec_grpc_retryable c (has_ri ri) then CRetryable else CPermanent.
Proof.
  intros c ri Hc. rewrite process_error_spec by exact Hc.
  destruct (spec_grpc_retryable c (has_ri ri)); [|reflexivity].
  destruct ri as [d|]; [|reflexivity]. destruct (d =? 0); reflexivity.
Qed.

Lemma grpc_exporter_throttle : forall c d, d <> 0 -> spec_grpc_retryable c true = true ->
  process_error (Some (c, Some d)) = Throttle d.
Proof.
  intros c d Hd Hs.
  assert (Hc : c <> 0).
  { intros ->. vm_compute in Hs. discriminate. }
  rewrite process_error_spec by exact Hc. cbn [has_ri]. rewrite Hs.
  replace (d =? 0) with false by (symmetry; apply Z.eqb_neq; exact Hd). reflexivity.
Qed.

Lemma grpc_exporter_ok : forall ri, process_error (Some (0, ri)) = Success /\ process_error None = Success.
Proof. intros ri. split; reflexivity. Qed.

Definition is_2xx (st : Z) : bool := (200 <=? st) && (st <=? 299).
Definition is_throttle_status (st : Z) : bool := (st =? 429) || (st =? 503).

Lemma http_export_spec : forall st h b,
  http_export st h b =
    if is_2xx st then (if b then Success else Retryable)
    else if spec_http_retryable st
         then (if is_throttle_status st
               then match h with
                    | RASecs s => Throttle (s * second)
                    | RADateMin m => Throttle (m * 60 * second)
                    | _ => Retryable
                    end
               else Retryable)
         else Permanent.
Proof.
  intros st h b. unfold http_export, is_2xx, is_throttle_status. rewrite isRetryable_is_spec.
  destruct ((200 <=? st) && (st <=? 299)); [reflexivity|].
  destruct (spec_http_retryable st); [|reflexivity]. cbn [negb].
  destruct ((st =? 429) || (st =? 503)); destruct h; reflexivity.
Qed.

Lemma http_exporter_class : forall st h b, is_2xx st = false ->
  class_of (http_export st h b) = if spec_http_retryable st then CRetryable else CPermanent.
Proof.
  intros st h b H. rewrite http_export_spec, H.
  destruct (spec_http_retryable st); [|reflexivity].
  destruct (is_throttle_status st); destruct h; reflexivity.
Qed.

Lemma http_exporter_throttle : forall st s b, is_throttle_status st = true ->
  http_export st (RASecs s) b = Throttle (s * second).
Proof.
  intros st s b H. rewrite http_export_spec.
  unfold is_throttle_status in H. apply orb_true_iff in H.
  destruct H as [H|H]; apply Z.eqb_eq in H; subst; reflexivity.
Qed.

(* the code carried by the error the HTTP exporter returns is retryable by the gRPC table exactly
   when the HTTP status is retryable by the HTTP table (with 429 read as "RetryInfo present") *)
Lemma http_err_code_consistent : forall st, is_2xx st = false ->
  spec_grpc_retryable (NewStatusFromMsgAndHTTPCode st) true = spec_http_retryable st.
Proof.
  intros st _. unfold_tables.
  by_cases st [400; 401; 403; 404; 429; 502; 503; 504]; kill_eqb; reflexivity.
Qed.

(* ---------------------------------------------------------------------------------------------
   receiver: status mapping
   --------------------------------------------------------------------------------------------- *)
Definition ok_coded (o : outcome) : bool :=
  match o with
  | StatusErr c _ _ => c =? 0
  | CustomStatus (Some c) _ _ => c =? 0
  | _ => false
  end.

Lemma status_mapping_explicit : forall o c ri, from_error o = Some (c, ri) -> c <> 0 ->
  get_status_from_error o = Some (c, ri).
Proof.
  intros o c ri H Hc. unfold get_status_from_error. rewrite H. unfold status_err. cbn [fst].
  replace (c =? codes_OK) with false by (symmetry; apply Z.eqb_neq; exact Hc). reflexivity.
Qed.

Lemma default_status_some : forall o, status_err (default_status o) = Some (default_status o).
Proof. intros o. unfold default_status. destruct (is_permanent o); reflexivity. Qed.

(* an error whose explicit status says OK is reported like an error without a status *)
Lemma status_mapping_ok_coded : forall o ri, from_error o = Some (0, ri) ->
  get_status_from_error o = Some (default_status o).
Proof.
  intros o ri H. unfold get_status_from_error. rewrite H. cbn [fst]. change (0 =? codes_OK) with true. cbn iota.
  apply default_status_some.
Qed.

Lemma status_mapping_other : forall o, from_error o = None ->
  get_status_from_error o = Some (if is_permanent o then codes_Internal else codes_Unavailable, None).
Proof.
  intros o H. unfold get_status_from_error. rewrite H. apply default_status_some.
Qed.

Lemma internal_not_retryable : forall b, spec_grpc_retryable codes_Internal b = false.
Proof. destruct b; reflexivity. Qed.
Lemma unavailable_retryable : forall b, spec_grpc_retryable codes_Unavailable b = true.
Proof. destruct b; reflexivity. Qed.

Lemma export_nonempty : forall n o, (0 < n)%N -> o <> Accept -> export n o = (true, get_status_from_error o).
Proof.
  intros n o Hn Ho. unfold export.
  replace (n =? 0)%N with false by (symmetry; apply N.eqb_neq; lia).
  destruct o; try reflexivity. congruence.
Qed.

Lemma export_accept : forall n, (0 < n)%N -> export n Accept = (true, None).
Proof.
  intros n Hn. unfold export. replace (n =? 0)%N with false by (symmetry; apply N.eqb_neq; lia). reflexivity.
Qed.

Lemma export_empty : forall o, export 0 o = (false, None).
Proof. reflexivity. Qed.

(* the HTTP status chosen for a gRPC code is retryable by the HTTP table exactly when the code is
   retryable by the gRPC table, with one exception: ResourceExhausted without RetryInfo *)
Lemma http_status_of_code_consistent : forall c b,
  spec_http_retryable (GetHTTPStatusCodeFromStatus c) =
    spec_grpc_retryable c b || ((c =? 8) && negb b).
Proof.
  intros c b. unfold_tables.
  by_cases c [1; 3; 4; 7; 8; 10; 11; 12; 14; 15; 16]; kill_eqb; destruct b; reflexivity.
Qed.

Lemma http_status_of_code_not_2xx : forall c, is_2xx (GetHTTPStatusCodeFromStatus c) = false.
Proof.
  intros c. unfold_tables.
  by_cases c [1; 3; 4; 7; 8; 10; 11; 12; 14; 15; 16]; kill_eqb; reflexivity.
Qed.

Lemma http_status_throttle_iff : forall c,
  is_throttle_status (GetHTTPStatusCodeFromStatus c) = spec_grpc_retryable c true.
Proof.
  intros c. unfold_tables. unfold is_throttle_status.
  by_cases c [1; 3; 4; 7; 8; 10; 11; 12; 14; 15; 16]; kill_eqb; reflexivity.
Qed.

(* ---------------------------------------------------------------------------------------------
   the hop
   --------------------------------------------------------------------------------------------- *)
Lemma wire_some : forall o, o <> Accept ->
  exists c ri, c <> 0 /\ get_status_from_error o = Some (c, ri).
Proof.
  intros o Ho.
  assert (D : exists c ri, c <> 0 /\ Some (default_status o) = Some (c, ri)).
  { unfold default_status. destruct (is_permanent o);
      [exists codes_Internal, None | exists codes_Unavailable, None]; (split; [discriminate|reflexivity]). }
  destruct (from_error o) as [[c ri]|] eqn:E.
  - destruct (Z.eq_dec c 0) as [->|Hc].
    + rewrite (status_mapping_ok_coded o ri E). exact D.
    + exists c, ri. split; [exact Hc|]. apply status_mapping_explicit; assumption.
  - rewrite (status_mapping_other o E). exact D.
Qed.

Definition http_retry_after (st : Z) (ri : option Z) : option Z :=
  if is_throttle_status st then option_map (fun d => Z.quot d second) ri else None.

Lemma hop_grpc_eq : forall a n o, a <> AuthFail -> (0 < n)%N -> o <> Accept ->
  hop Grpc a n o =
    mkHop true (process_error (get_status_from_error o))
          (match get_status_from_error o with
           | Some (c, _) => if c =? codes_OK then None else Some c
           | None => None
           end).
Proof.
  intros a n o Ha Hn Ho. unfold hop, recv_grpc.
  destruct a; try congruence; rewrite (export_nonempty n o Hn Ho); reflexivity.
Qed.

Lemma hop_http_eq : forall t a n o c ri, t <> Grpc -> a <> AuthFail -> (0 < n)%N -> o <> Accept ->
  get_status_from_error o = Some (c, ri) ->
  let st := GetHTTPStatusCodeFromStatus c in
  hop t a n o =
    mkHop true
          (http_export st (match http_retry_after st ri with None => RANone | Some s => RASecs s end) true)
          (http_export_err_code st).
Proof.
  intros t a n o c ri Ht Ha Hn Ho Hw st.
  assert (E : recv_http (exporter_request t a n) o = (true, write_status_response st (c, ri))).
  { unfold recv_http, exporter_request. cbn [r_auth r_enc r_post r_ct r_body negb].
    destruct a; try congruence;
      (destruct t; try congruence; cbn [ct_of]; rewrite (export_nonempty n o Hn Ho), Hw; reflexivity). }
  destruct t; try congruence; unfold hop; rewrite E; reflexivity.
Qed.

Lemma hop_accept : forall t a n, a <> AuthFail -> (0 < n)%N -> hop t a n Accept = mkHop true Success None.
Proof.
  intros t a n Ha Hn.
  destruct t; destruct a; try congruence; unfold hop, recv_grpc, recv_http, exporter_request;
    cbn [r_auth r_enc r_post r_ct r_body negb ct_of]; rewrite (export_accept n Hn); reflexivity.
Qed.

Lemma hop_empty : forall t a o, a <> AuthFail -> hop t a 0 o = mkHop false Success None.
Proof. intros t a o Ha. destruct t; destruct a; try congruence; reflexivity. Qed.

Lemma hop_auth_fail : forall t n o,
  hop t AuthFail n o = mkHop false Permanent (Some codes_Unauthenticated).
Proof. intros t n o. destruct t; reflexivity. Qed.

Definition spec_class_grpc (c : Z) (ri : option Z) : vclass :=
  if spec_grpc_retryable c (has_ri ri) then CRetryable else CPermanent.

Lemma hop_grpc_class : forall a n o c ri, a <> AuthFail -> (0 < n)%N -> o <> Accept ->
  get_status_from_error o = Some (c, ri) -> c <> 0 ->
  class_of (h_verdict (hop Grpc a n o)) = spec_class_grpc c ri.
Proof.
  intros a n o c ri Ha Hn Ho Hw Hc. rewrite (hop_grpc_eq a n o Ha Hn Ho), Hw. cbn [h_verdict].
  apply grpc_exporter_class. exact Hc.
Qed.

Lemma hop_http_class : forall t a n o c ri, t <> Grpc -> a <> AuthFail -> (0 < n)%N -> o <> Accept ->
  get_status_from_error o = Some (c, ri) ->
  class_of (h_verdict (hop t a n o)) =
    if spec_grpc_retryable c (has_ri ri) || ((c =? 8) && negb (has_ri ri)) then CRetryable else CPermanent.
Proof.
  intros t a n o c ri Ht Ha Hn Ho Hw. rewrite (hop_http_eq t a n o c ri Ht Ha Hn Ho Hw). cbn [h_verdict].
  rewrite http_exporter_class by apply http_status_of_code_not_2xx.
  rewrite (http_status_of_code_consistent c (has_ri ri)). reflexivity.
Qed.

Definition tables_differ (c : Z) (ri : option Z) : bool := (c =? 8) && negb (has_ri ri).

Lemma meaning_commutes_l : forall a n o, a <> AuthFail -> (0 < n)%N -> o <> Accept ->
  exists c ri, get_status_from_error o = Some (c, ri) /\ c <> 0 /\
    class_of (h_verdict (hop Grpc a n o)) = spec_class_grpc c ri /\
    class_of (h_verdict (hop HttpPb a n o)) = class_of (h_verdict (hop HttpJson a n o)) /\
    (tables_differ c ri = false ->
       class_of (h_verdict (hop HttpPb a n o)) = class_of (h_verdict (hop Grpc a n o))) /\
    (tables_differ c ri = true ->
       class_of (h_verdict (hop Grpc a n o)) = CPermanent /\ class_of (h_verdict (hop HttpPb a n o)) = CRetryable).
Proof.
  intros a n o Ha Hn Ho. destruct (wire_some o Ho) as (c & ri & Hc & Hw).
  exists c, ri. split; [exact Hw|]. split; [exact Hc|].
  rewrite (hop_grpc_class a n o c ri Ha Hn Ho Hw Hc).
  rewrite (hop_http_class HttpPb a n o c ri) by (try discriminate; assumption).
  rewrite (hop_http_class HttpJson a n o c ri) by (try discriminate; assumption).
  unfold spec_class_grpc, tables_differ.
  split; [reflexivity|]. split; [reflexivity|]. split.
  - intros H. rewrite H, orb_false_r. reflexivity.
  - intros H. apply andb_true_iff in H. destruct H as [H8 Hri]. apply Z.eqb_eq in H8. subst c.
    destruct ri; [discriminate|]. split; reflexivity.
Qed.

Lemma permanent_stays_permanent : forall t a n, a <> AuthFail -> (0 < n)%N ->
  class_of (h_verdict (hop t a n PermanentErr)) = CPermanent.
Proof.
  intros t a n Ha Hn. destruct t.
  - rewrite (hop_grpc_class a n PermanentErr codes_Internal None); try assumption; try discriminate; reflexivity.
  - rewrite (hop_http_class HttpPb a n PermanentErr codes_Internal None); try assumption; try discriminate; reflexivity.
  - rewrite (hop_http_class HttpJson a n PermanentErr codes_Internal None); try assumption; try discriminate; reflexivity.
Qed.

Lemma plain_stays_retryable : forall t a n, a <> AuthFail -> (0 < n)%N ->
  class_of (h_verdict (hop t a n PlainErr)) = CRetryable.
Proof.
  intros t a n Ha Hn. destruct t.
  - rewrite (hop_grpc_class a n PlainErr codes_Unavailable None); try assumption; try discriminate; reflexivity.
  - rewrite (hop_http_class HttpPb a n PlainErr codes_Unavailable None); try assumption; try discriminate; reflexivity.
  - rewrite (hop_http_class HttpJson a n PlainErr codes_Unavailable None); try assumption; try discriminate; reflexivity.
Qed.

Lemma outcome_eq_Accept_dec : forall o, {o = Accept} + {o <> Accept}.
Proof. intros o. destruct o; [left; reflexivity | right; discriminate ..]. Qed.

(* success iff accepted *)
Lemma success_iff_accepted_l : forall t a n o, a <> AuthFail -> (0 < n)%N ->
  (h_verdict (hop t a n o) = Success <-> o = Accept).
Proof.
  intros t a n o Ha Hn. split.
  - intros Hs. destruct (outcome_eq_Accept_dec o) as [E|E]; [exact E|exfalso].
    destruct (wire_some o E) as (c & ri & Hc & Hw).
    assert (Hcl : class_of (h_verdict (hop t a n o)) = CSuccess) by (rewrite Hs; reflexivity).
    destruct t.
    + rewrite (hop_grpc_class a n o c ri Ha Hn E Hw Hc) in Hcl. unfold spec_class_grpc in Hcl.
      destruct (spec_grpc_retryable c (has_ri ri)); discriminate.
    + rewrite (hop_http_class HttpPb a n o c ri) in Hcl by (try discriminate; assumption).
      destruct (spec_grpc_retryable c (has_ri ri) || (c =? 8) && negb (has_ri ri)); discriminate.
    + rewrite (hop_http_class HttpJson a n o c ri) in Hcl by (try discriminate; assumption).
      destruct (spec_grpc_retryable c (has_ri ri) || (c =? 8) && negb (has_ri ri)); discriminate.
  - intros ->. rewrite (hop_accept t a n Ha Hn). reflexivity.
Qed.

(* throttling delay through the hop: exact on gRPC, whole seconds (truncated toward zero) on HTTP *)
Lemma hop_throttle_grpc : forall a n o c d, a <> AuthFail -> (0 < n)%N -> o <> Accept ->
  get_status_from_error o = Some (c, Some d) -> spec_grpc_retryable c true = true -> d <> 0 ->
  h_verdict (hop Grpc a n o) = Throttle d.
Proof.
  intros a n o c d Ha Hn Ho Hw Hs Hd. rewrite (hop_grpc_eq a n o Ha Hn Ho), Hw. cbn [h_verdict].
  apply grpc_exporter_throttle; assumption.
Qed.

Lemma hop_throttle_http : forall t a n o c d, t <> Grpc -> a <> AuthFail -> (0 < n)%N -> o <> Accept ->
  get_status_from_error o = Some (c, Some d) -> spec_grpc_retryable c true = true ->
  h_verdict (hop t a n o) = Throttle (Z.quot d second * second).
Proof.
  intros t a n o c d Ht Ha Hn Ho Hw Hs. rewrite (hop_http_eq t a n o c (Some d) Ht Ha Hn Ho Hw). cbn [h_verdict].
  unfold http_retry_after. rewrite http_status_throttle_iff, Hs. cbn [option_map].
  apply http_exporter_throttle. rewrite http_status_throttle_iff. exact Hs.
Qed.

Lemma http_export_ranone : forall st b,
  delay_of (http_export st RANone b) = 0 /\ (forall d, http_export st RANone b <> Throttle d).
Proof.
  intros st b. rewrite http_export_spec.
  destruct (is_2xx st), b, (spec_http_retryable st), (is_throttle_status st);
    split; try reflexivity; intros d; discriminate.
Qed.

Lemma http_retry_after_none : forall st, http_retry_after st None = None.
Proof. intros st. unfold http_retry_after. destruct (is_throttle_status st); reflexivity. Qed.

Lemma hop_no_throttle_without_retry_info : forall t a n o c, a <> AuthFail -> (0 < n)%N -> o <> Accept ->
  get_status_from_error o = Some (c, None) -> c <> 0 ->
  delay_of (h_verdict (hop t a n o)) = 0 /\ (forall d, h_verdict (hop t a n o) <> Throttle d).
Proof.
  intros t a n o c Ha Hn Ho Hw Hc. destruct t.
  - rewrite (hop_grpc_eq a n o Ha Hn Ho), Hw. cbn [h_verdict]. rewrite process_error_spec by exact Hc.
    cbn [has_ri]. destruct (spec_grpc_retryable c false); split; try reflexivity; intros d; discriminate.
  - rewrite (hop_http_eq HttpPb a n o c None) by (try discriminate; assumption). cbn [h_verdict].
    rewrite http_retry_after_none. apply http_export_ranone.
  - rewrite (hop_http_eq HttpJson a n o c None) by (try discriminate; assumption). cbn [h_verdict].
    rewrite http_retry_after_none. apply http_export_ranone.
Qed.

(* ---------------------------------------------------------------------------------------------
   client errors
   --------------------------------------------------------------------------------------------- *)
Definition auth_fails (a : auth) : bool := match a with AuthFail => true | _ => false end.
Definition enc_good (e : cenc) : bool := match e with EncGood => true | _ => false end.
Definition enc_rejected_early (e : cenc) : bool := match e with EncUnsupported | EncBadEager => true | _ => false end.
Definition ct_other (c : ctype) : bool := match c with CtOther => true | _ => false end.
Definition body_malformed (b : option N) : bool := match b with None => true | Some _ => false end.

Definition client_error (rq : request) : bool :=
  auth_fails (r_auth rq) || negb (enc_good (r_enc rq)) || negb (r_post rq) || ct_other (r_ct rq)
  || body_malformed (r_body rq).

(* what the protocol prescribes for the first check that fails, in the order the server applies them *)
Definition expected_client_status (rq : request) : Z :=
  if auth_fails (r_auth rq) then 401
  else if enc_rejected_early (r_enc rq) then 400
  else if negb (r_post rq) then 405
  else if ct_other (r_ct rq) then 415
  else 400.

Lemma client_error_not_called : forall rq o, client_error rq = true -> fst (recv_http rq o) = false.
Proof.
  intros [a e p c b] o H. unfold client_error in H. cbn [r_auth r_enc r_post r_ct r_body] in H.
  destruct a, e, p, c, b; cbn in H; try discriminate; reflexivity.
Qed.

Lemma client_error_status : forall rq o, client_error rq = true ->
  rs_status (snd (recv_http rq o)) = expected_client_status rq /\
  400 <= rs_status (snd (recv_http rq o)) <= 499 /\
  rs_retry_after (snd (recv_http rq o)) = None.
Proof.
  intros [a e p c b] o H. unfold client_error in H.
  cbn [r_auth r_enc r_post r_ct r_body] in H.
  destruct a, e, p, c, b; cbn in H; try discriminate; vm_compute; repeat split; discriminate.
Qed.

Lemma well_formed_not_client_error : forall t a n, a <> AuthFail -> client_error (exporter_request t a n) = false.
Proof. intros t a n Ha. destruct t, a; try congruence; reflexivity. Qed.

Lemma grpc_unauthenticated : forall n o, recv_grpc AuthFail (Some n) o = (false, Some (codes_Unauthenticated, None)).
Proof. reflexivity. Qed.

Lemma grpc_malformed : forall a o, recv_grpc a None o = (false, Some (codes_Internal, None)).
Proof. reflexivity. Qed.

Lemma grpc_client_errors_permanent :
  process_error (Some (codes_Unauthenticated, None)) = Permanent /\
  process_error (Some (codes_Internal, None)) = Permanent.
Proof. split; reflexivity. Qed.

(* every client-error answer of the HTTP receiver is permanent for the sending exporter *)
Lemma client_error_permanent_for_sender : forall rq o h b, client_error rq = true ->
  http_export (rs_status (snd (recv_http rq o))) h b = Permanent.
Proof.
  intros [a e p c bd] o h b H. unfold client_error in H. cbn [r_auth r_enc r_post r_ct r_body] in H.
  destruct a, e, p, c, bd; cbn in H; try discriminate; reflexivity.
Qed.

(* ---------------------------------------------------------------------------------------------
   delivery
   --------------------------------------------------------------------------------------------- *)
Section Delivery.
  Variable P B comp : Type.
  Variable item_count : P -> N.
  Variable encode : transport -> comp -> P -> B.
  Variable decode : transport -> comp -> B -> option P.
  (* the contract of the codec (property C08) composed with the compression (property C16) *)
  Hypothesis roundtrip : forall t k p, decode t k (encode t k p) = Some p.

  Lemma hop_delivers_l : forall t k a p, a <> AuthFail -> (0 < item_count p)%N ->
    hop_payload P B comp item_count encode decode t k a p Accept = ([p], Success).
  Proof.
    intros t k a p Ha Hn. unfold hop_payload. rewrite roundtrip, (hop_accept t a _ Ha Hn). reflexivity.
  Qed.

  Lemma hop_empty_l : forall t k a p o, a <> AuthFail -> item_count p = 0%N ->
    hop_payload P B comp item_count encode decode t k a p o = ([], Success).
  Proof.
    intros t k a p o Ha Hn. unfold hop_payload. rewrite roundtrip, Hn, (hop_empty t a o Ha). reflexivity.
  Qed.

  (* whatever the consumer answers, what it was handed is the sent payload, at most once *)
  Lemma hop_sink_l : forall t k a p o,
    fst (hop_payload P B comp item_count encode decode t k a p o) = [p] \/
    fst (hop_payload P B comp item_count encode decode t k a p o) = [].
  Proof.
    intros t k a p o. unfold hop_payload. rewrite roundtrip.
    destruct (h_called (hop t a (item_count p) o)); [left|right]; reflexivity.
  Qed.

  Lemma hop_sink_called_l : forall t k a p o, a <> AuthFail -> (0 < item_count p)%N ->
    fst (hop_payload P B comp item_count encode decode t k a p o) = [p].
  Proof.
    intros t k a p o Ha Hn. unfold hop_payload. rewrite roundtrip.
    destruct (outcome_eq_Accept_dec o) as [->|E].
    - rewrite (hop_accept t a _ Ha Hn). reflexivity.
    - destruct t.
      + rewrite (hop_grpc_eq a _ o Ha Hn E). reflexivity.
      + unfold hop, recv_http, exporter_request. cbn [r_auth r_enc r_post r_ct r_body negb ct_of].
        destruct a; try congruence; rewrite (export_nonempty _ o Hn E); destruct (get_status_from_error o); reflexivity.
      + unfold hop, recv_http, exporter_request. cbn [r_auth r_enc r_post r_ct r_body negb ct_of].
        destruct a; try congruence; rewrite (export_nonempty _ o Hn E); destruct (get_status_from_error o); reflexivity.
  Qed.
End Delivery.

(* ---------------------------------------------------------------------------------------------
   refutations (each witness is a finding; see props/C15/findings.json)
   --------------------------------------------------------------------------------------------- *)

Lemma grpc_malformed_invalid_argument_refuted_l : exists a o,
  snd (recv_grpc a None o) <> Some (codes_InvalidArgument, None) /\
  snd (recv_grpc a None o) = Some (codes_Internal, None).
Proof. exists NoAuth, Accept. split; [discriminate|reflexivity]. Qed.

Lemma status_on_the_wire_l : forall t a n o c ri, a <> AuthFail -> (0 < n)%N -> o <> Accept ->
  get_status_from_error o = Some (c, ri) ->
  recv_grpc a (Some n) o = (true, Some (c, ri)) /\
  (t <> Grpc ->
   recv_http (exporter_request t a n) o =
     (true, mkResp (GetHTTPStatusCodeFromStatus c) (http_retry_after (GetHTTPStatusCodeFromStatus c) ri) (Some c))).
Proof.
  intros t a n o c ri Ha Hn Ho Hw. split.
  - unfold recv_grpc. destruct a; try congruence; rewrite (export_nonempty n o Hn Ho), Hw; reflexivity.
  - intros Ht. unfold recv_http, exporter_request. cbn [r_auth r_enc r_post r_ct r_body negb].
    destruct a; try congruence;
      (destruct t; try congruence; cbn [ct_of]; rewrite (export_nonempty n o Hn Ho), Hw; reflexivity).
Qed.

Lemma exporter_success_l : (forall ri, process_error (Some (0, ri)) = Success) /\ process_error None = Success /\
  (forall st h, is_2xx st = true -> http_export st h true = Success).
Proof.
  split; [reflexivity|]. split; [reflexivity|].
  intros st h H. rewrite http_export_spec, H. reflexivity.
Qed.

Lemma authenticator_transparent_l : forall t n o, hop t AuthOK n o = hop t NoAuth n o.
Proof. intros t n o. destruct t; reflexivity. Qed.

Lemma status_mapping_l : forall o, o <> Accept ->
  match from_error o with
  | Some (c, ri) => get_status_from_error o = if c =? 0 then Some (default_status o) else Some (c, ri)
  | None => get_status_from_error o = Some (default_status o)
  end.
Proof.
  intros o Ho. destruct (from_error o) as [[c ri]|] eqn:E.
  - destruct (Z.eqb_spec c 0) as [->|Hc].
    + apply (status_mapping_ok_coded o ri E).
    + apply status_mapping_explicit; assumption.
  - apply status_mapping_other. exact E.
Qed.

(* the gRPC code carried by the error the exporter hands back *)
Lemma error_code_through_hop_l : forall t a n o c ri, a <> AuthFail -> (0 < n)%N -> o <> Accept ->
  get_status_from_error o = Some (c, ri) -> c <> 0 ->
  (t = Grpc -> h_err_code (hop t a n o) = Some c) /\
  (t <> Grpc ->
     h_err_code (hop t a n o) = Some (NewStatusFromMsgAndHTTPCode (GetHTTPStatusCodeFromStatus c)) /\
     spec_grpc_retryable (NewStatusFromMsgAndHTTPCode (GetHTTPStatusCodeFromStatus c)) true =
       spec_http_retryable (GetHTTPStatusCodeFromStatus c)).
Proof.
  intros t a n o c ri Ha Hn Ho Hw Hc. split.
  - intros ->. rewrite (hop_grpc_eq a n o Ha Hn Ho), Hw. cbn [h_err_code].
    replace (c =? codes_OK) with false by (symmetry; apply Z.eqb_neq; exact Hc). reflexivity.
  - intros Ht. rewrite (hop_http_eq t a n o c ri Ht Ha Hn Ho Hw). cbn [h_err_code]. split.
    + unfold http_export_err_code. fold (is_2xx (GetHTTPStatusCodeFromStatus c)).
      rewrite http_status_of_code_not_2xx. reflexivity.
    + apply http_err_code_consistent. apply http_status_of_code_not_2xx.
Qed.

(* ---------------------------------------------------------------------------------------------
   the hop relative to the receiver's Shutdown
   --------------------------------------------------------------------------------------------- *)
(* the calls the CURRENT source makes (obligation re-checked against Generated/C15Shutdown.v on every run) *)
Lemma receiver_stop_calls_l :
  receiver_stop_call Grpc = GrpcGracefulStop /\ receiver_stop_call HttpPb = HttpShutdown /\
  receiver_stop_call HttpJson = HttpShutdown.
Proof. repeat split; reflexivity. Qed.

Section ShutdownLib.
  (* what the libraries do with running handlers when told to stop *)
  Variable lib_drains : stop_call -> bool.
  (* net/http: Server.Shutdown does not interrupt active connections and waits for them *)
  Hypothesis http_shutdown_drains : lib_drains HttpShutdown = true.
  (* grpc-go: Server.GracefulStop blocks until all pending RPCs are finished *)
  Hypothesis grpc_graceful_stop_drains : lib_drains GrpcGracefulStop = true.

  Lemma shutdown_drains_l : forall t a n o, hop_at_lib lib_drains InFlightAtShutdown t a n o = hop t a n o.
  Proof.
    intros t a n o. unfold hop_at_lib. destruct receiver_stop_calls_l as (Hg & Hp & Hj).
    destruct t; [rewrite Hg, grpc_graceful_stop_drains | rewrite Hp, http_shutdown_drains
                | rewrite Hj, http_shutdown_drains]; reflexivity.
  Qed.

  Lemma after_shutdown_l : forall t a n o,
    h_called (hop_at_lib lib_drains AfterShutdown t a n o) = false /\
    h_verdict (hop_at_lib lib_drains AfterShutdown t a n o) = Retryable.
  Proof. intros t a n o. destruct t; split; reflexivity. Qed.

  (* the sender sees success iff the consumer was handed the data and accepted it, whatever the phase *)
  Lemma success_iff_consumer_accepted_l : forall ph t a n o, a <> AuthFail -> (0 < n)%N ->
    (h_verdict (hop_at_lib lib_drains ph t a n o) = Success <->
     (h_called (hop_at_lib lib_drains ph t a n o) = true /\ o = Accept)).
  Proof.
    intros ph t a n o Ha Hn.
    assert (R : h_verdict (hop t a n o) = Success <-> (h_called (hop t a n o) = true /\ o = Accept)).
    { rewrite (success_iff_accepted_l t a n o Ha Hn). split.
      - intros ->. rewrite (hop_accept t a n Ha Hn). split; reflexivity.
      - intros [_ E]. exact E. }
    destruct ph.
    - exact R.
    - rewrite shutdown_drains_l. exact R.
    - destruct (after_shutdown_l t a n o) as [Hc Hv]. rewrite Hc, Hv. split; [discriminate|intros [E _]; discriminate].
  Qed.
End ShutdownLib.

(* the documented library semantics satisfies the two hypotheses *)
Lemma documented_lib_drains : documented_lib HttpShutdown = true /\ documented_lib GrpcGracefulStop = true.
Proof. split; reflexivity. Qed.

(* why the hypotheses are needed: with a stop call that does not drain, a request that the consumer accepted
   while the server was stopping is reported to the sender as a (retryable) failure *)
Lemma cut_breaks_success_iff_accepted_l : forall lib_drains t a n, a <> AuthFail -> (0 < n)%N ->
  lib_drains (receiver_stop_call t) = false ->
  h_called (hop_at_lib lib_drains InFlightAtShutdown t a n Accept) = true /\
  h_verdict (hop_at_lib lib_drains InFlightAtShutdown t a n Accept) = Retryable.
Proof.
  intros lib t a n Ha Hn H. unfold hop_at_lib. rewrite H, (hop_accept t a n Ha Hn).
  destruct t; split; reflexivity.
Qed.

(* ---------------------------------------------------------------------------------------------
   truncated bodies; a slow consumer and the HTTP server's timeouts
   --------------------------------------------------------------------------------------------- *)
Lemma truncated_body_rejected_l : forall a p c b o,
  fst (recv_http (mkReq a EncTruncated p c b) o) = false /\
  rs_status (snd (recv_http (mkReq a EncTruncated p c b) o)) = expected_client_status (mkReq a EncTruncated p c b) /\
  400 <= rs_status (snd (recv_http (mkReq a EncTruncated p c b) o)) <= 499.
Proof.
  intros a p c b o.
  assert (H : client_error (mkReq a EncTruncated p c b) = true).
  { unfold client_error. cbn [r_auth r_enc r_post r_ct r_body enc_good negb]. rewrite orb_true_r. reflexivity. }
  split; [apply client_error_not_called; exact H|].
  destruct (client_error_status (mkReq a EncTruncated p c b) o H) as (E & R & _). split; assumption.
Qed.

(* ToServer copies every configured timeout into the server field of the same name (obligation against the dump) *)
Lemma to_server_identity_l : forall cfg, to_server cfg = cfg.
Proof. intros [r rh w i]. reflexivity. Qed.

Lemma slow_consumer_within_write_timeout_l : forall cfg d t a n o,
  to_write cfg <= 0 \/ d < to_write cfg -> hop_slow cfg d t a n o = hop t a n o.
Proof.
  intros cfg d t a n o H. unfold hop_slow. rewrite to_server_identity_l.
  assert (E : response_deliverable cfg d = true).
  { unfold response_deliverable. apply orb_true_iff. destruct H as [H|H]; [left; apply Z.leb_le|right; apply Z.ltb_lt]; exact H. }
  rewrite E. destruct t; reflexivity.
Qed.

(* the inherent limit: a consumer that accepts after the write timeout is reported as a (retryable) failure *)
Lemma slow_consumer_beyond_write_timeout_l : forall cfg d t a n, t <> Grpc -> a <> AuthFail -> (0 < n)%N ->
  0 < to_write cfg <= d ->
  hop_slow cfg d t a n Accept = mkHop true Retryable None.
Proof.
  intros cfg d t a n Ht Ha Hn [Hw Hd]. unfold hop_slow. rewrite to_server_identity_l.
  assert (E : response_deliverable cfg d = false).
  { unfold response_deliverable. apply orb_false_iff. split; [apply Z.leb_gt|apply Z.ltb_ge]; lia. }
  rewrite E, (hop_accept t a n Ha Hn). destruct t; try congruence; reflexivity.
Qed.

(* ---------------------------------------------------------------------------------------------
   histories; totality of the request classification
   --------------------------------------------------------------------------------------------- *)
Lemma hop_called_iff : forall t a n o,
  h_called (hop t a n o) = negb (auth_fails a) && negb (n =? 0)%N.
Proof.
  intros t a n o. destruct a.
  - destruct n as [|p]; [rewrite (hop_empty t NoAuth o) by discriminate; reflexivity|].
    destruct (outcome_eq_Accept_dec o) as [->|E].
    + rewrite (hop_accept t NoAuth (Npos p)) by (try discriminate; reflexivity). reflexivity.
    + destruct (wire_some o E) as (c & ri & Hc & Hw). destruct t.
      * rewrite (hop_grpc_eq NoAuth (Npos p) o) by (try discriminate; try reflexivity; assumption). reflexivity.
      * rewrite (hop_http_eq HttpPb NoAuth (Npos p) o c ri) by (try discriminate; try reflexivity; assumption). reflexivity.
      * rewrite (hop_http_eq HttpJson NoAuth (Npos p) o c ri) by (try discriminate; try reflexivity; assumption). reflexivity.
  - rewrite authenticator_transparent_l.
    destruct n as [|p]; [rewrite (hop_empty t NoAuth o) by discriminate; reflexivity|].
    destruct (outcome_eq_Accept_dec o) as [->|E].
    + rewrite (hop_accept t NoAuth (Npos p)) by (try discriminate; reflexivity). reflexivity.
    + destruct (wire_some o E) as (c & ri & Hc & Hw). destruct t.
      * rewrite (hop_grpc_eq NoAuth (Npos p) o) by (try discriminate; try reflexivity; assumption). reflexivity.
      * rewrite (hop_http_eq HttpPb NoAuth (Npos p) o c ri) by (try discriminate; try reflexivity; assumption). reflexivity.
      * rewrite (hop_http_eq HttpJson NoAuth (Npos p) o c ri) by (try discriminate; try reflexivity; assumption). reflexivity.
  - rewrite hop_auth_fail. reflexivity.
Qed.

Definition reaches_consumer (s : send) : bool :=
  let '(t, a, n, o) := s in negb (auth_fails a) && negb (n =? 0)%N.

Fixpoint delivered_indices (h : list send) (i : nat) : list nat :=
  match h with
  | [] => []
  | s :: r => (if reaches_consumer s then [i] else []) ++ delivered_indices r (S i)
  end.

Lemma history_l : forall h i,
  fst (run_history h i) = delivered_indices h i /\
  snd (run_history h i) = map (fun s => let '(t, a, n, o) := s in h_verdict (hop t a n o)) h.
Proof.
  induction h as [|[[[t a] n] o] r IH]; intros i; [split; reflexivity|].
  cbn [run_history delivered_indices map]. destruct (IH (S i)) as [H1 H2].
  destruct (run_history r (S i)) as [s v]. cbn [fst snd] in *. subst s v.
  rewrite hop_called_iff. split; reflexivity.
Qed.

(* in a history, every send is judged on its own: success iff its own consumer call accepted *)
Lemma history_success_l : forall h i k t a n o, nth_error h k = Some (t, a, n, o) -> a <> AuthFail -> (0 < n)%N ->
  (nth_error (snd (run_history h i)) k = Some Success <-> o = Accept).
Proof.
  intros h i k t a n o Hk Ha Hn. destruct (history_l h i) as [_ ->].
  rewrite nth_error_map, Hk. cbn [option_map]. rewrite <- (success_iff_accepted_l t a n o Ha Hn).
  split; [intros E; inversion E; reflexivity|intros ->; reflexivity].
Qed.

(* a request is either a client error or it is handled: consumer called iff it has items, 200 iff accepted *)
Lemma well_formed_request_handled_l : forall rq o, client_error rq = false ->
  exists n, r_body rq = Some n /\
    fst (recv_http rq o) = negb (n =? 0)%N /\
    (rs_status (snd (recv_http rq o)) = 200 <-> ((n = 0)%N \/ o = Accept)).
Proof.
  intros [a e p c b] o H. unfold client_error in H. cbn [r_auth r_enc r_post r_ct r_body] in H.
  destruct a, e, p, c, b as [n|]; cbn in H; try discriminate; exists n; (split; [reflexivity|]);
    (destruct n as [|q]; [split; [reflexivity|split; [intros _; left; reflexivity|reflexivity]]|]);
    (destruct (outcome_eq_Accept_dec o) as [->|E];
     [split; [reflexivity|split; [intros _; right; reflexivity|reflexivity]]|]);
    destruct (wire_some o E) as (c0 & ri & Hc & Hw);
    unfold recv_http; cbn [r_auth r_enc r_post r_ct r_body read_content_type negb];
    rewrite (export_nonempty (Npos q) o) by (try reflexivity; assumption); rewrite Hw;
    (split; [reflexivity|]); cbn [snd write_error write_status_response rs_status fst];
    (split; [intros E2; exfalso; pose proof (http_status_of_code_not_2xx c0) as N2; rewrite E2 in N2; discriminate
            |intros [E2|E2]; [discriminate|congruence]]).
Qed.

(* ---------------------------------------------------------------------------------------------
   the receiver's compression_algorithms list
   --------------------------------------------------------------------------------------------- *)
Lemma offered_compression_delivers_l : forall algs comp t a n o,
  t = Grpc \/ server_accepts algs comp = true -> hop_cfg algs comp t a n o = hop t a n o.
Proof.
  intros algs comp t a n o [->|H]; [reflexivity|]. unfold hop_cfg. rewrite H. destruct t; reflexivity.
Qed.

Lemma unlisted_compression_refused_l : forall algs comp t a n o, t <> Grpc -> server_accepts algs comp = false ->
  h_called (hop_cfg algs comp t a n o) = false /\
  h_verdict (hop_cfg algs comp t a n o) = Permanent /\
  (a <> AuthFail -> h_err_code (hop_cfg algs comp t a n o) = Some codes_InvalidArgument).
Proof.
  intros algs comp t a n o Ht H. unfold hop_cfg. rewrite H.
  destruct t; try congruence; destruct a; repeat split; try reflexivity; intros X; congruence.
Qed.

(* listing is all that matters: position in the list, and whether "zlib" accompanies "deflate", do not *)
Lemma server_accepts_listed : forall algs name, 0 <= name <= 6 -> (server_accepts algs name = true <-> In name algs).
Proof.
  intros algs name [H0 H6]. unfold server_accepts.
  replace (0 <=? name) with true by (symmetry; apply Z.leb_le; exact H0).
  replace (name <=? 6) with true by (symmetry; apply Z.leb_le; exact H6). cbn [andb].
  rewrite existsb_exists. split.
  - intros (x & Hx & E). apply Z.eqb_eq in E. subst x. exact Hx.
  - intros Hin. exists name. split; [exact Hin|apply Z.eqb_refl].
Qed.
