(* C15/PropCheck.v — a decidable checker of the property's clauses over the OBSERVED behaviour of the
   implementation (one correspondence case = input + observation), independent of the model's step functions:
   it uses only the case's input, the observation, the hand-written specification tables and the translated
   GetHTTPStatusCodeFromStatus (the code -> HTTP status map is part of what "reported with that status" means on
   HTTP).  Clauses are written in a small formula language with a Prop-level meaning [denote] and a boolean
   decision [decide]; [decide_sound] proves decide f = true <-> denote f once and for all, so
   prop_ok c = true <-> Clause c.  The check driver runs prop_ok over ALL observed cases; a case on which it is false
   is reported as the failing input, with the violated clause as its kind.  No proofs about the model here. *)
From Verif Require Import Common.Base.
From Verif Require Import Generated.C15Recv Generated.C15GrpcExp Generated.C15HttpExp Generated.C15StatusUtil.
From Verif Require Import C15.Model.
From Verif Require Export C15.Harness.
From Verif Require Export Generated.C15RecvHttpGraph Generated.C15ErrorsGraph Generated.C15DecodersGraph.
Local Open Scope Z_scope.

Inductive form :=
| FTrue | FFalse
| FEq (a b : Z) | FLe (a b : Z) | FLt (a b : Z)
| FIs (b : bool)
| FAnd (f g : form) | FOr (f g : form) | FImp (f g : form) | FIff (f g : form) | FNot (f : form).

Fixpoint denote (f : form) : Prop :=
  match f with
  | FTrue => True | FFalse => False
  | FEq a b => a = b | FLe a b => a <= b | FLt a b => a < b
  | FIs b => b = true
  | FAnd f g => denote f /\ denote g | FOr f g => denote f \/ denote g
  | FImp f g => denote f -> denote g | FIff f g => denote f <-> denote g
  | FNot f => ~ denote f
  end.

Fixpoint decide (f : form) : bool :=
  match f with
  | FTrue => true | FFalse => false
  | FEq a b => a =? b | FLe a b => a <=? b | FLt a b => a <? b
  | FIs b => b
  | FAnd f g => decide f && decide g | FOr f g => decide f || decide g
  | FImp f g => negb (decide f) || decide g
  | FIff f g => Bool.eqb (decide f) (decide g)
  | FNot f => negb (decide f)
  end.

Lemma decide_sound : forall f, decide f = true <-> denote f.
Proof.
  induction f as [| |a b|a b|a b|b|f IHf g IHg|f IHf g IHg|f IHf g IHg|f IHf g IHg|f IHf]; cbn.
  - tauto.
  - split; [discriminate|tauto].
  - apply Z.eqb_eq.
  - apply Z.leb_le.
  - apply Z.ltb_lt.
  - tauto.
  - rewrite andb_true_iff. tauto.
  - rewrite orb_true_iff. tauto.
  - rewrite orb_true_iff, negb_true_iff. destruct (decide f); destruct (decide g); intuition discriminate.
  - destruct (decide f); destruct (decide g); cbn; intuition discriminate.
  - rewrite negb_true_iff. destruct (decide f); intuition discriminate.
Qed.

(* ---- what the property text expects, from the outcome's shape and the specification tables only ---- *)
Definition is_accept (o : outcome) : bool := match o with Accept => true | _ => false end.

(* the explicit, usable gRPC status of a consumer error (code <> OK), if any *)
Definition explicit_status (o : outcome) : option (Z * option Z) :=
  match o with
  | StatusErr c ri _ => if c =? 0 then None else Some (c, ri)
  | CustomStatus (Some c) ri _ => if c =? 0 then None else Some (c, ri)
  | _ => None
  end.

Definition wrapped_permanent (o : outcome) : bool :=
  match o with
  | PermanentErr | StatusErr _ _ WPermanent | CustomStatus _ _ WPermanent => true
  | _ => false
  end.

(* is the failure retryable for the sender?  explicit status: the specification's gRPC table (see below for HTTP);
   any other permanent error: no; any other error: yes *)
Definition text_retryable (http : bool) (o : outcome) : bool :=
  match explicit_status o with
  | Some (c, ri) =>
      (* the gRPC table; over HTTP additionally ResourceExhausted without RetryInfo (HTTP 429 is retryable in the HTTP
         table: the one point where the two specification tables differ) — NOT derived from the code's own map *)
      spec_grpc_retryable c (match ri with Some _ => true | None => false end) || (http && (c =? 8))
  | None => negb (wrapped_permanent o)
  end.

(* verdict wire form: 0 success, 1 permanent, 2 retryable, 3 throttle *)
Definition retryable_verdict (v : Z) : bool := (v =? 2) || (v =? 3).

(* the clauses for a hop observed as [called; verdict; delay; errcode; sink_n; sink_eq] *)
Definition hop_form (t a items : Z) (o : outcome) (obs : list Z) : form :=
  match obs with
  | [called; verdict; delay; errcode; sink_n; sink_eq] =>
      let http := negb (t =? 0) in
      FAnd (* data: what the consumer was handed is the sent payload, exactly once *)
           (FAnd (FImp (FEq called 1) (FAnd (FEq sink_n 1) (FEq sink_eq 1))) (FImp (FEq called 0) (FEq sink_n 0)))
      (if a =? 2 then (* unauthenticated: never consumed, permanent, Unauthenticated *)
         FAnd (FEq called 0) (FAnd (FEq verdict 1) (FEq errcode codes_Unauthenticated))
       else if items =? 0 then (* no items: acknowledged without the consumer *)
         FAnd (FEq called 0) (FEq verdict 0)
       else
         FAnd (FEq called 1)
        (FAnd (* success iff accepted *)
              (FIff (FEq verdict 0) (FIs (is_accept o)))
        (FAnd (* a failure means the same on both sides *)
              (FImp (FIs (negb (is_accept o)))
                    (FIff (FIs (retryable_verdict verdict)) (FIs (text_retryable http o))))
        (FAnd (* explicit status: that code on gRPC *)
              (match explicit_status o with
               | Some (c, _) => FImp (FEq t 0) (FEq errcode c)
               | None => FTrue
               end)
              (* throttling delay honoured: exact on gRPC (0 = plain retry), whole seconds on HTTP; never invented *)
              (match explicit_status o with
               | Some (c, Some d) =>
                   FImp (FIs (text_retryable http o))
                        (if http then FAnd (FEq verdict 3) (FEq delay (Z.quot d second * second))
                         else if d =? 0 then FEq verdict 2 else FAnd (FEq verdict 3) (FEq delay d))
               | _ => FNot (FEq verdict 3)
               end)))))
  | _ => FFalse
  end.

Definition in_4xx (st : Z) : form := FAnd (FLe 400 st) (FLe st 499).

(* a raw HTTP request observed as [called; status; ra_present; ra_secs; body_code] *)
Definition raw_http_form (a e post ct body : Z) (o : outcome) (obs : list Z) : form :=
  match obs with
  | [called; st; rap; ras; bcode] =>
      if (a =? 2) || negb (e =? 0) || (post =? 0) || (ct =? 2) || (body <? 0) then
        FAnd (FEq called 0) (FAnd (in_4xx st) (FEq rap 0))
      else if body =? 0 then FAnd (FEq called 0) (FEq st 200)
      else
        FAnd (FEq called 1)
       (FAnd (FIff (FEq st 200) (FIs (is_accept o)))
       (FAnd (FImp (FIs (negb (is_accept o)))
                   (FAnd (FLe 400 st) (FIff (FIs (spec_http_retryable st)) (FIs (text_retryable true o)))))
             (match explicit_status o with
              | Some (c, Some d) =>
                  FAnd (FEq st (GetHTTPStatusCodeFromStatus c))
                       (FIff (FEq rap 1) (FOr (FEq st 429) (FEq st 503)))
              | Some (c, None) => FAnd (FEq st (GetHTTPStatusCodeFromStatus c)) (FEq rap 0)
              | None => FEq rap 0
              end)))
  | _ => FFalse
  end.

(* a raw gRPC frame observed as [called; code; ri_present; ri_nanos] *)
Definition raw_grpc_form (a body : Z) (o : outcome) (obs : list Z) : form :=
  match obs with
  | [called; code; rip; rin] =>
      if body <? 0 then FAnd (FEq called 0) (FNot (FEq code 0))   (* which code: Go oracle / finding C15-GRPC-MALFORMED-INTERNAL *)
      else if a =? 2 then FAnd (FEq called 0) (FEq code codes_Unauthenticated)
      else if body =? 0 then FAnd (FEq called 0) (FEq code 0)
      else
        FAnd (FEq called 1)
       (FAnd (FIff (FEq code 0) (FIs (is_accept o)))
             (match explicit_status o with
              | Some (c, Some d) => FAnd (FEq code c) (FAnd (FEq rip 1) (FEq rin d))
              | Some (c, None) => FAnd (FEq code c) (FEq rip 0)
              | None => FImp (FIs (negb (is_accept o)))
                             (FIff (FIs (spec_grpc_retryable code false)) (FIs (negb (wrapped_permanent o))))
              end))
  | _ => FFalse
  end.

(* GetStatusFromError observed as [code; ri_present; ri_nanos] (or [-1] for nil) *)
Definition status_form (o : outcome) (obs : list Z) : form :=
  match obs with
  | [oc; orp; od] =>
      match explicit_status o with
      | Some (c, Some d) => FAnd (FEq oc c) (FAnd (FEq orp 1) (FEq od d))
      | Some (c, None) => FAnd (FEq oc c) (FEq orp 0)
      | None => FAnd (FNot (FEq oc 0)) (FIff (FIs (spec_grpc_retryable oc false)) (FIs (negb (wrapped_permanent o))))
      end
  | _ => FIs (is_accept o)
  end.

Definition has_ri' (ri : option Z) : bool := match ri with Some _ => true | None => false end.

(* processError observed as [verdict; delay], against the gRPC table *)
Definition process_form (c : Z) (ri : option Z) (obs : list Z) : form :=
  match obs with
  | [verdict; delay] =>
      if c =? 0 then FEq verdict 0
      else FAnd (FIff (FIs (retryable_verdict verdict)) (FIs (spec_grpc_retryable c (has_ri' ri))))
                (FAnd (FImp (FIs (negb (retryable_verdict verdict))) (FEq verdict 1))
                      (FImp (FEq verdict 3) (match ri with Some d => FEq delay d | None => FFalse end)))
  | _ => FFalse
  end.

(* the otlphttp exporter observed as [verdict; delay], against the HTTP table *)
Definition export_form (st : Z) (h : retry_after) (body_ok : bool) (obs : list Z) : form :=
  match obs with
  | [verdict; delay] =>
      if (200 <=? st) && (st <=? 299) then FImp (FIs body_ok) (FEq verdict 0)
      else FAnd (FIff (FIs (retryable_verdict verdict)) (FIs (spec_http_retryable st)))
                (FAnd (FImp (FIs (negb (retryable_verdict verdict))) (FEq verdict 1))
                      (match h with
                       | RASecs s => FImp (FOr (FEq st 429) (FEq st 503)) (FAnd (FEq verdict 3) (FEq delay (s * second)))
                       | _ => FTrue
                       end))
  | _ => FFalse
  end.

(* a hop relative to the receiver's Shutdown (phase 2 = sent after Shutdown returned) *)
Definition shutdown_form (t ph items : Z) (o : outcome) (obs : list Z) : form :=
  match obs with
  | [called; verdict; _; _; sink_n; _] =>
      if ph =? 2 then FAnd (FEq called 0) (FAnd (FEq sink_n 0) (FIs (retryable_verdict verdict)))
      else hop_form t 0 items o obs
  | _ => FFalse
  end.

(* a slow consumer: within write_timeout (or none) the hop clauses; beyond it only that the consumer got the data *)
Definition slow_form (t write_ms hold_ms items : Z) (o : outcome) (obs : list Z) : form :=
  match obs with
  | [called; _; _; _; sink_n; sink_eq] =>
      if (write_ms =? 0) || (hold_ms <? write_ms) then hop_form t 0 items o obs
      else FAnd (FEq called 1) (FAnd (FEq sink_n 1) (FEq sink_eq 1))
  | _ => FFalse
  end.

(* a hop to a receiver with an explicit compression_algorithms list: a compression offered by both sides delivers like
   any hop; one the receiver does not list is refused as a client error (never consumed, permanent for the sender) *)
Definition offered (algs : list Z) (comp : Z) : bool := (0 <=? comp) && (comp <=? 6) && existsb (Z.eqb comp) algs.

Definition cfg_form (algs : list Z) (comp t items : Z) (o : outcome) (obs : list Z) : form :=
  match obs with
  | [called; verdict; _; _; sink_n; _] =>
      if (t =? 0) || offered algs comp then hop_form t 0 items o obs
      else FAnd (FEq called 0) (FAnd (FEq sink_n 0) (FEq verdict 1))
  | _ => FFalse
  end.

(* the clauses a correspondence case must satisfy (FTrue for the kinds that only tie tables) *)
Definition clause_of_case (c : nat * (list Z * list Z)) : form :=
  let '(kind, (inp, obs)) := c in
  match kind, inp with
  | 8%nat, [t; a; items; okind; code; rik; nanos; w; _; _; _; _; _] =>
      match outcome_of okind code rik nanos w with Some o => hop_form t a items o obs | None => FFalse end
  | 10%nat, [t; ph; items; okind; code; rik; nanos; w; _] =>
      match outcome_of okind code rik nanos w with Some o => shutdown_form t ph items o obs | None => FFalse end
  | 11%nat, [t; _; write_ms; hold_ms; items; okind; code; rik; nanos; w; _] =>
      match outcome_of okind code rik nanos w with Some o => slow_form t write_ms hold_ms items o obs | None => FFalse end
  | 13%nat, t :: comp :: items :: okind :: code :: rik :: nanos :: w :: _ :: algs =>
      match outcome_of okind code rik nanos w with Some o => cfg_form algs comp t items o obs | None => FFalse end
  | 7%nat, [a; e; post; ct; body; okind; code; rik; nanos; w] =>
      match outcome_of okind code rik nanos w with Some o => raw_http_form a e post ct body o obs | None => FFalse end
  | 9%nat, [a; body; okind; code; rik; nanos; w] =>
      match outcome_of okind code rik nanos w with Some o => raw_grpc_form a body o obs | None => FFalse end
  | 0%nat, [okind; code; rik; nanos; w] =>   (* GetStatusFromError: never nil for an error; explicit status kept *)
      match outcome_of okind code rik nanos w with Some o => status_form o obs | None => FFalse end
  | 3%nat, [code; rik; nanos] =>               (* processError against the gRPC table *)
      process_form (if code =? (-1) then 2 else code) (ri_of rik nanos) obs
  | 6%nat, [st; rak; rav; bodyk] =>             (* otlphttp exporter against the HTTP table *)
      match obs with
      | [verdict; delay; _] =>
          export_form st (if rak =? 0 then RANone else if rak =? 1 then RASecs rav else if rak =? 2 then RADateMin rav else RAOther)
                      (negb (bodyk =? 2)) [verdict; delay]
      | _ => FFalse
      end
  | _, _ => FTrue
  end.

Definition Clause (c : nat * (list Z * list Z)) : Prop := denote (clause_of_case c).
Definition prop_ok (c : nat * (list Z * list Z)) : bool := decide (clause_of_case c).

Lemma prop_ok_sound : forall c, prop_ok c = true <-> Clause c.
Proof. intros c. apply decide_sound. Qed.

(* for the replay: which top-level conjunct fails first (0-based position in the flattened conjunction) *)
Fixpoint conjuncts (f : form) : list form :=
  match f with FAnd f g => conjuncts f ++ conjuncts g | _ => [f] end.

Fixpoint first_false (n : nat) (l : list form) : option nat :=
  match l with
  | [] => None
  | f :: l' => if decide f then first_false (S n) l' else Some n
  end.

Definition violated (c : nat * (list Z * list Z)) : option nat := first_false 0 (conjuncts (clause_of_case c)).

(* what the driver evaluates on every case in ONE pass: agreement with the model AND the clauses on the observation;
   the cases on which it is false are then attributed (model disagreement / violated clause) separately *)
Definition check_both (c : nat * (list Z * list Z)) : bool := check_case c && prop_ok c.

(* ---- the dumped graphs of the receiver's HTTP decision functions against the model (obligations: C15/Obligations.v;
   defined here so that the driver can still list the differing lines when an obligation breaks) ---- *)
Definition resp_obs (r : response) : list Z :=
  [rs_status r;
   match rs_retry_after r with Some _ => 1 | None => 0 end;
   match rs_retry_after r with Some s => s | None => 0 end;
   opt_code (rs_body_code r)].

Definition ri_flag (has_ri d : Z) : option Z := if has_ri =? 0 then None else Some d.

(* model output for one line of the dumped graph *)
Definition dump_model (c : nat * (list Z * list Z)) : option (list Z) :=
  match fst c, fst (snd c) with
  | 1%nat, [st; has_ri; d] => Some (firstn 3 (resp_obs (write_status_response st (14, ri_flag has_ri d))))
  | 2%nat, [post; cls] => Some [read_content_type (negb (post =? 0)) (ct_of_z cls)]
  | 3%nat, [cls; st] =>
      let r := error_handler (ct_of_z cls) st in Some [rs_status r; opt_code (rs_body_code r)]
  | 4%nat, [ct; code; def; has_ri; d] =>
      Some (resp_obs (write_error (if code =? (-1) then None else Some (code, ri_flag has_ri d)) def))
  | _, _ => None
  end.

Definition check_dump (c : nat * (list Z * list Z)) : bool :=
  match dump_model c with
  | Some m => zlist_eqb m (snd (snd c))
  | None => false
  end.

(* how many lines of each kind the dump must at least contain (a dump that silently shrank is not a proof) *)
Definition count_kind (k : nat) (l : list (nat * (list Z * list Z))) : nat :=
  length (filter (fun c => Nat.eqb (fst c) k) l).


(* the first lines of the dumps on which the model differs from the current code (diagnostics for a broken obligation) *)
Definition recvhttp_diff := firstn 6 (filter (fun c => negb (check_dump c)) recvhttp_graph).
Definition errors_diff := firstn 6 (filter (fun c => negb (check_case c)) errors_graph).
Definition decoders_diff := firstn 6 (filter (fun c => negb (check_case c)) decoders_graph).
